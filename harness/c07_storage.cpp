// C07 harness: histories of array life-cycle operations over a pool of Vector objects and two external
// buffers (see coq/theories/Storage.v for the operation set).  After every operation prints
//   n_storage_objects ; per slot: '-' (no object) or len:n_links:values ; the external buffers
#include <adept_arrays.h>
#include <iostream>
#include <sstream>
#include <string>
#include <vector>
using namespace adept;
static const int NS = 6, NB = 2, BL = 4;
struct World {
  Vector* a[NS]; double buf[NB][BL];
  World() { for (int i = 0; i < NS; ++i) a[i] = 0; for (int k = 0; k < NB; ++k) for (int j = 0; j < BL; ++j) buf[k][j] = 900 + 10 * k + j; }
  ~World() { for (int i = 0; i < NS; ++i) delete a[i]; }
};
static void show(World& w, std::ostream& os) {
  os << n_storage_objects() << " ;";
  for (int i = 0; i < NS; ++i) {
    if (!w.a[i]) { os << " -"; continue; }
    Vector& v = *w.a[i];
    os << " " << v.size() << ":" << (v.storage() ? v.storage()->n_links() : 0) << ":";
    for (int j = 0; j < v.size(); ++j) os << (j ? "," : "") << (long)v(j);
  }
  os << " ;";
  for (int k = 0; k < NB; ++k) { os << " "; for (int j = 0; j < BL; ++j) os << (j ? "," : "") << (long)w.buf[k][j]; }
  os << " | ";
}
int main() {
  std::string line;
  while (std::getline(std::cin, line)) {
    std::ostringstream os;
    {
      World w;
      long base = n_storage_objects();
      std::istringstream is(line);
      std::string op;
      while (is >> op) {
        int i = -1, j = -1, b = 0, n = 0, k = 0; long v = 0;
        try {
          if (op == "N") { is >> i >> n >> v; if (!w.a[i] && n > 0) { w.a[i] = new Vector(n); *w.a[i] = (double)v; } }
          else if (op == "E") { is >> i; if (!w.a[i]) w.a[i] = new Vector(); }
          else if (op == "C") { is >> i >> j; if (!w.a[i] && w.a[j]) w.a[i] = new Vector(*w.a[j]); }
          else if (op == "S") { is >> i >> j >> b >> n; if (!w.a[i] && w.a[j] && b + n <= w.a[j]->size() && n > 0) w.a[i] = new Vector((*w.a[j])(range(b, b + n - 1))); }
          else if (op == "F") { is >> i >> j; if (!w.a[i] && w.a[j]) w.a[i] = new Vector(w.a[j]->soft_link()); }
          else if (op == "X") { is >> i >> k; if (!w.a[i] && k < NB) w.a[i] = new Vector(w.buf[k], dimensions(BL)); }
          else if (op == "L") { is >> i >> j; if (w.a[i] && w.a[j] && i != j) w.a[i]->link(*w.a[j]); }
          else if (op == "A") { is >> i >> j; if (w.a[i] && w.a[j]) *w.a[i] = *w.a[j]; }
          else if (op == "MO") { is >> i >> n >> v; if (w.a[i] && n > 0) { Vector t(n); t = (double)v; *w.a[i] = std::move(t); } }
          else if (op == "MX") { is >> i >> k; if (w.a[i] && k < NB) *w.a[i] = Vector(w.buf[k], dimensions(BL)); }
          else if (op == "MS") { is >> i >> j >> b >> n; if (w.a[i] && w.a[j] && b + n <= w.a[j]->size() && n > 0) *w.a[i] = (*w.a[j])(range(b, b + n - 1)); }
          else if (op == "R") { is >> i >> n; if (w.a[i]) w.a[i]->resize(n); }
          else if (op == "CL") { is >> i; if (w.a[i]) w.a[i]->clear(); }
          else if (op == "D") { is >> i; if (w.a[i]) { delete w.a[i]; w.a[i] = 0; } }
          else if (op == "W") { is >> i >> k >> v; if (w.a[i] && k < w.a[i]->size()) (*w.a[i])(k) = (double)v; }
        } catch (adept::exception&) { os << "! "; }
        show(w, os);
      }
      os << "END";
    }
    os << " leak=" << n_storage_objects();
    std::cout << os.str() << "\n";
  }
  return 0;
}
