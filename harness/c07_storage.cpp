// C07 harness: histories of array life-cycle operations over a pool of Vector objects and two external
// buffers (see coq/theories/Storage.v for the operation set).  After every operation prints
//   n_storage_objects ; per slot: '-' (no object) or len:n_links:values ; the external buffers
#include <adept_arrays.h>
#include <iostream>
#include <sstream>
#include <string>
#include <vector>
using namespace adept;
// -DC07_RANK2: the same histories on n x 1 matrices (Array<2> constructors, row-range slicing, resize(n,1)): the life-cycle
// protocol and everything printed are the same as for vectors of n elements
#ifdef C07_RANK2
typedef Matrix Vector_;
#define NEWN(n) new Vector_(n, 1)
#define LOCAL(t, n) Vector_ t(n, 1)
#define AT(v, j) (v)(j, 0)
#define SL(v, b, e) (v)(range(b, e), __)
#define EXT(p) Vector_(p, dimensions(BL, 1))
#define RESIZE(v, n) (v).resize(n, 1)
#define LEN(v) (v).dimension(0)
#else
typedef Vector Vector_;
#define NEWN(n) new Vector_(n)
#define LOCAL(t, n) Vector_ t(n)
#define AT(v, j) (v)(j)
#define SL(v, b, e) (v)(range(b, e))
#define EXT(p) Vector_(p, dimensions(BL))
#define RESIZE(v, n) (v).resize(n)
#define LEN(v) (v).size()
#endif
#define Vector Vector_
static const int NS = 6, NB = 2, BL = 4;
struct World {
  Vector* a[NS]; double buf[NB][BL];
  World() { for (int i = 0; i < NS; ++i) a[i] = 0; for (int k = 0; k < NB; ++k) for (int j = 0; j < BL; ++j) buf[k][j] = 900 + 10 * k + j; }
  ~World() { for (int i = 0; i < NS; ++i) delete a[i]; }
};
static void show(World& w, std::ostream& os) {
  os << n_storage_objects() << " ;";
  for (int i = 0; i < NS; ++i) {
    if (!w.a[i]) { os << " -"; continue; }
    Vector& v = *w.a[i];
    os << " " << LEN(v) << ":" << (v.storage() ? v.storage()->n_links() : 0) << ":";
    for (int j = 0; j < LEN(v); ++j) os << (j ? "," : "") << (long)AT(v, j);
  }
  os << " ;";
  for (int k = 0; k < NB; ++k) { os << " "; for (int j = 0; j < BL; ++j) os << (j ? "," : "") << (long)w.buf[k][j]; }
  os << " | ";
}
int main() {
  std::string line;
  while (std::getline(std::cin, line)) {
    std::ostringstream os;
    {
      World w;
      long base = n_storage_objects();
      std::istringstream is(line);
      std::string op;
      while (is >> op) {
        int i = -1, j = -1, b = 0, n = 0, k = 0; long v = 0;
        try {
          if (op == "N") { is >> i >> n >> v; if (!w.a[i] && n > 0) { w.a[i] = NEWN(n); *w.a[i] = (double)v; } }
          else if (op == "E") { is >> i; if (!w.a[i]) w.a[i] = new Vector(); }
          else if (op == "C") { is >> i >> j; if (!w.a[i] && w.a[j]) w.a[i] = new Vector(*w.a[j]); }
          else if (op == "S") { is >> i >> j >> b >> n; if (!w.a[i] && w.a[j] && b + n <= LEN(*w.a[j]) && n > 0) w.a[i] = new Vector(SL(*w.a[j], b, b + n - 1)); }
          else if (op == "F") { is >> i >> j; if (!w.a[i] && w.a[j]) w.a[i] = new Vector(w.a[j]->soft_link()); }
          else if (op == "X") { is >> i >> k; if (!w.a[i] && k < NB) w.a[i] = new EXT(w.buf[k]); }
          else if (op == "L") { is >> i >> j; if (w.a[i] && w.a[j] && i != j) w.a[i]->link(*w.a[j]); }
          else if (op == "A") { is >> i >> j; if (w.a[i] && w.a[j]) *w.a[i] = *w.a[j]; }
          else if (op == "MO") { is >> i >> n >> v; if (w.a[i] && n > 0) { LOCAL(t, n); t = (double)v; *w.a[i] = std::move(t); } }
          else if (op == "MX") { is >> i >> k; if (w.a[i] && k < NB) *w.a[i] = EXT(w.buf[k]); }
          else if (op == "MS") { is >> i >> j >> b >> n; if (w.a[i] && w.a[j] && b + n <= LEN(*w.a[j]) && n > 0) *w.a[i] = SL(*w.a[j], b, b + n - 1); }
          else if (op == "R") { is >> i >> n; if (w.a[i]) RESIZE(*w.a[i], n); }
          else if (op == "CL") { is >> i; if (w.a[i]) w.a[i]->clear(); }
          else if (op == "D") { is >> i; if (w.a[i]) { delete w.a[i]; w.a[i] = 0; } }
          else if (op == "W") { is >> i >> k >> v; if (w.a[i] && k < LEN(*w.a[i])) AT(*w.a[i], k) = (double)v; }
        } catch (adept::exception&) { os << "! "; }
        show(w, os);
      }
      os << "END";
    }
    os << " leak=" << n_storage_objects();
    std::cout << os.str() << "\n";
  }
  return 0;
}
