// C12 harness: T threads, each with its own Stack, record and differentiate their own workload (active scalars, active
// arrays, adjoint, tangent, forward and reverse Jacobians, passive array allocation) concurrently, R rounds; every
// thread's results are compared bit for bit with the results of the same workload run alone.  Also checks that
// active_stack() is the thread's own stack, and null in a thread that has none.  Built with ThreadSanitizer.
// Output: R <threads> <rounds> <result mismatches> <active_stack failures>
#include <adept_arrays.h>
#include <thread>
#include <vector>
#include <cstdio>
#include <cstring>
#include <cstdlib>
using namespace adept;

static std::vector<double> workload(int seed, int* stack_fail) {
  std::vector<double> out;
  Stack stack;
  if (active_stack() != &stack) ++*stack_fail;
  int n = 3 + seed % 4;
  aVector x(n); for (int i = 0; i < n; ++i) x(i) = 0.5 + 0.1 * ((seed * 7 + i * 3) % 11);
  adouble p = 1.0 + 0.01 * seed;
  stack.new_recording();
  aVector y = sin(x) * p + x * x / (1.0 + x);
  aMatrix M = outer_product(x, y);
  adouble s = sum(M) + product(1.0 + 0.1 * y) + norm2(x);
#ifdef HAVE_BLAS
  { aMatrix P = matmul(M, M.T()); aVector q = matmul(M, x); s += sum(P) * 0.01 + sum(q) * 0.1; }   // dense products record derivative statements on the active stack
#endif
  aVector z(2); z(0) = s * p; z(1) = dot_product(x, y);
  { Vector tmp(50 + seed % 7); tmp = 1.0; out.push_back(sum(tmp)); }     // private passive allocations
  out.push_back(value(z(0))); out.push_back(value(z(1)));
  // adjoint
  z(0).set_gradient(1.0); stack.compute_adjoint();
  for (int i = 0; i < n; ++i) out.push_back(x(i).get_gradient());
  out.push_back(p.get_gradient());
  // tangent
  stack.clear_gradients(); x(0).set_gradient(1.0); stack.compute_tangent_linear(); out.push_back(z(1).get_gradient());
  // Jacobians, both algorithms
  stack.independent(x); stack.independent(p); stack.dependent(z);
  std::vector<double> jf(2 * (n + 1)), jr(2 * (n + 1)), ja(2 * (n + 1));
  stack.jacobian_forward(&jf[0]); stack.jacobian_reverse(&jr[0]); stack.jacobian(&ja[0]);
  out.insert(out.end(), jf.begin(), jf.end()); out.insert(out.end(), jr.begin(), jr.end()); out.insert(out.end(), ja.begin(), ja.end());
  if (active_stack() != &stack) ++*stack_fail;
  return out;
}
static void no_stack_thread(int* fail) { if (active_stack() != 0) ++*fail; Vector v(10); v = 2.0; if (sum(v) != 20.0) ++*fail; }

#include <atomic>
int main(int argc, char** argv) {
  int T = argc > 1 ? std::atoi(argv[1]) : 4, R = argc > 2 ? std::atoi(argv[2]) : 10;
  std::vector<std::vector<double> > solo(T);
  int sf = 0;
  for (int t = 0; t < T; ++t) solo[t] = workload(t, &sf);       // each workload alone, in the main thread
  std::vector<long> mism(T, 0);
  std::vector<int> fails(T + 1, 0);
  std::atomic<int> ready(0);
  std::vector<std::thread> th;
  for (int t = 0; t < T; ++t) th.push_back(std::thread([&, t] {
    ++ready; while (ready.load() < T) { }                      // start together
    for (int r = 0; r < R; ++r) {
      std::vector<double> res = workload(t, &fails[t]);
      if (res.size() != solo[t].size() || std::memcmp(&res[0], &solo[t][0], sizeof(double) * solo[t].size()) != 0) ++mism[t];
    }
  }));
  th.push_back(std::thread([&] { for (int r = 0; r < R; ++r) no_stack_thread(&fails[T]); }));
  for (size_t i = 0; i < th.size(); ++i) th[i].join();
  long mm = 0, af = sf; for (int t = 0; t < T; ++t) mm += mism[t]; for (int t = 0; t <= T; ++t) af += fails[t];
  std::printf("R %d %d %ld %ld\n", T, R, mm, af);
  return 0;
}
