// C08 harness: drives the gradient-slot allocator of the CURRENT /repo sources.
// mode "api": Stack::register_gradient(s)/unregister_gradient(s) called directly
// mode "obj": real objects (new adouble / new aVector(n) / delete) in the given order
// input: one history per line, tokens R1 | R<n> | U<k> | N ; output as ocaml/driver_c08.ml
#include <adept_arrays.h>
#include <iostream>
#include <sstream>
#include <vector>
#include <string>
#include <cstdlib>
using namespace adept;
struct LiveBlk { int idx; int n; adouble* sc; aVector* ar; };
static void show(Stack& s, int ret, std::ostream& os) {
  os << ret << "," << s.i_gradient() << "," << s.max_gradients() << "," << s.n_gradients_registered() << ",";
  bool first = true;
  for (std::list<Gap>::const_iterator it = s.gap_list().begin(); it != s.gap_list().end(); ++it) {
    if (!first) os << ";";
    first = false;
    os << it->start << "-" << it->end;
  }
  os << "|";
}
int main(int argc, char** argv) {
  std::string mode = argc > 1 ? argv[1] : "api";
  std::string line;
  while (std::getline(std::cin, line)) {
    Stack stack;
    std::vector<LiveBlk> live;  // newest first, like the model's list
    std::istringstream is(line);
    std::string tok;
    std::ostringstream os;
    while (is >> tok) {
      int ret = -1;
      if (tok[0] == 'R') {
        int n = std::atoi(tok.c_str() + 1);
        LiveBlk b; b.n = n; b.sc = 0; b.ar = 0;
        if (mode == "api") {
          b.idx = (tok == "R1") ? stack.register_gradient() : stack.register_gradients(n);
        } else {
          if (tok == "R1") { b.sc = new adouble; b.idx = b.sc->gradient_index(); }
          else { b.ar = new aVector(n); b.idx = b.ar->gradient_index(); }
        }
        ret = b.idx;
        live.insert(live.begin(), b);
      } else if (tok[0] == 'U') {
        size_t k = std::atoi(tok.c_str() + 1);
        if (k < live.size()) {
          LiveBlk b = live[k];
          live.erase(live.begin() + k);
          if (mode == "api") {
            if (b.n == 1) stack.unregister_gradient(b.idx); else stack.unregister_gradients(b.idx, b.n);
          } else { delete b.sc; delete b.ar; }
        }
      } else {
        stack.new_recording();
      }
      show(stack, ret, os);
    }
    std::cout << os.str() << "\n";
    if (mode != "api") for (size_t i = 0; i < live.size(); ++i) { delete live[i].sc; delete live[i].ar; }
  }
  return 0;
}
