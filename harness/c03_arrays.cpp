// C03 harness: each case is an active array statement and the element-by-element scalar program it denotes
// (written with std::vector<adouble>, no array classes).  Both are recorded, the full Jacobian of every output
// element with respect to every input element is taken from each recording and compared, together with the
// values.  Views: plain, stride 2, reversed.  Sizes given on the command line: n m seed.
// Output:  C <case> <n> <m> <view> <n_outputs> <n_inputs> <max |J_array - J_loop|> <max |value diff|> <nonzero J entries> <status>
//          J <case> <view> <n> <row-major Jacobian of the array statement>          (element-wise cases, for the model)
//          X <case> <view> <n> <input values>
#include <adept_arrays.h>
#include <cstdio>
#include <cmath>
#include <cstdlib>
#include <vector>
#include <string>
#include <algorithm>
using namespace adept;

static unsigned long long rs = 88172645463325252ULL;
static double rnd() { rs ^= rs << 13; rs ^= rs >> 7; rs ^= rs << 17; return ((rs >> 11) + 0.5) / 9007199254740992.0; }
static double val() { double v = 0.4 + 1.4 * rnd(); return rnd() < 0.3 ? -v : v; }

struct Env {   // array operands
  int n, m, vm;
  aVector XP, YP, ZP, TP, X, Y, Z, T;
  aMatrix M, N, M2;
  adouble s, s2; double p; Vector P; intVector idxP, idx;   // idx: a view of idxP with the same stride pattern as X, Y, Z, T
};
struct Ref {   // the same data as plain scalars
  int n, m;
  std::vector<adouble> x, y, z, t, M, N, M2;
  adouble s, s2; double p; std::vector<double> P; std::vector<int> idx;
};
static int phys(int vm, int n, int i) { return vm == 0 ? i : (vm == 1 ? 2 * i : n - 1 - i); }

static void fill(Env& e, Ref& r, int n, int m, int vm) {
  e.n = r.n = n; e.m = r.m = m; e.vm = vm;
  int np = vm == 1 ? 2 * n : n;
  e.XP.resize(np); e.YP.resize(np); e.ZP.resize(np); e.TP.resize(np);
  e.XP = 0.0; e.YP = 0.0; e.ZP = 0.0; e.TP = 0.0;
  if (vm == 0) { e.X >>= e.XP; e.Y >>= e.YP; e.Z >>= e.ZP; e.T >>= e.TP; }
  else if (vm == 1) { e.X >>= e.XP(stride(0, 2 * n - 2, 2)); e.Y >>= e.YP(stride(0, 2 * n - 2, 2)); e.Z >>= e.ZP(stride(0, 2 * n - 2, 2)); e.T >>= e.TP(stride(0, 2 * n - 2, 2)); }
  else { e.X >>= e.XP(stride(n - 1, 0, -1)); e.Y >>= e.YP(stride(n - 1, 0, -1)); e.Z >>= e.ZP(stride(n - 1, 0, -1)); e.T >>= e.TP(stride(n - 1, 0, -1)); }
  e.M.resize(m, n); e.N.resize(m, n); e.M2.resize(m, n); e.P.resize(n);
  e.idxP.resize(np); e.idxP = 0;
  if (vm == 0) e.idx >>= e.idxP; else if (vm == 1) e.idx >>= e.idxP(stride(0, 2 * n - 2, 2)); else e.idx >>= e.idxP(stride(n - 1, 0, -1));
  r.x.resize(n); r.y.resize(n); r.z.resize(n); r.t.resize(n); r.M.resize(m * n); r.N.resize(m * n); r.M2.resize(m * n); r.P.resize(n); r.idx.resize(n);
  for (int i = 0; i < n; ++i) {
    double a = val(), b = val(), c = val(), d = val(), pp = val();
    e.X(i) = a; e.Y(i) = b; e.Z(i) = c; e.T(i) = d; e.P(i) = pp;
    r.x[i] = a; r.y[i] = b; r.z[i] = c; r.t[i] = d; r.P[i] = pp;
    e.idx(i) = r.idx[i] = (i * 3 + 1) % n;       // may repeat when gcd(3,n) != 1: used only as a source index then
  }
  for (int j = 0; j < m; ++j) for (int i = 0; i < n; ++i) {
    double a = val(), b = val(), c = val();
    e.M(j, i) = a; e.N(j, i) = b; e.M2(j, i) = c; r.M[j * n + i] = a; r.N[j * n + i] = b; r.M2[j * n + i] = c;
  }
  double sv = val(); e.s = sv; r.s = sv; e.p = r.p = val(); e.s2 = 0.0; r.s2 = 0.0;
}
static bool perm_idx(int n) { return n % 3 != 0; }

// ---- the cases: array statement / scalar program
#define FORI for (int i = 0; i < n; ++i)
#define FORJI for (int j = 0; j < m; ++j) for (int i = 0; i < n; ++i)
static const int NCASE = 58;
static bool run_array(int c, Env& e) {
  aVector &X = e.X, &Y = e.Y, &Z = e.Z, &T = e.T; aMatrix &M = e.M, &N = e.N, &M2 = e.M2; adouble &s = e.s, &s2 = e.s2; double p = e.p; Vector& P = e.P; int n = e.n, m = e.m;
  switch (c) {
  case 0: T = X * Y + Z; break;
  case 1: T = X * (Y * Z); break;
  case 2: T = (X * Y) * Z; break;
  case 3: T = s * X + p * Y; break;
  case 4: T = sin(X) * exp(Y) / (2.0 + Z * Z); break;
  case 5: T = pow(X * X + 1.0, Y); break;
  case 6: T += X * Y; break;
  case 7: T -= X / (2.0 + Y * Y); break;
  case 8: T *= X + s; break;
  case 9: T /= (2.0 + Y * Y); break;
  case 10: T = max(X, Y) * min(X, 0.5); break;
  case 11: T = noalias(X * Y) ; break;
  case 12: T = Z * noalias(X * Y); break;
  case 13: T.where(P > 0.0) = X * Y; break;
  case 14: T.where(X > Y) = either_or(X * Z, Y); break;
  case 15: s2 = sum(X * Y); break;
  case 16: s2 = mean(X * Z + Y); break;
  case 17: s2 = product(1.0 + 0.1 * X); break;
  case 18: s2 = maxval(X * Y); break;
  case 19: s2 = minval(X + Z); break;
  case 20: s2 = norm2(X * Y); break;
  case 21: s2 = dot_product(X, Y * Z); break;
  case 22: T = X(e.idx) * Y; break;
  case 23: if (!perm_idx(n)) return false; T(e.idx) = X * Y; break;
  case 24: M2 = M * N + spread<0>(X, m); break;
  case 25: M2 = outer_product(M(__, 0), X) * N; break;
  case 26: T = sum(M * N, 0); break;
  case 27: { aVector R(m); R = sum(M, 1) / (1.0 + sum(N * N, 1)); s2 = sum(R); } break;
  case 28: T = X * P + p; break;
  case 29: T = P * X * Y; break;
  case 30: T = X * s; break;
  case 31: T = s; break;
  case 32: T = p; break;
  case 33: T = eval(X * Y) * Z; break;
  case 34: M2 = M * s + N / (1.5 + M * M); break;
  case 35: M2 *= M; break;
  case 36: T = product(1.0 + 0.1 * M, 0); break;
  case 37: T = mean(M * N, 0) + maxval(M, 0) - minval(N, 0); break;
  case 38: s2 = sum(M * spread<0>(X, m)); break;
  case 39: T = X * (Y * (Z * X)); break;
  case 40: T = (X - Y) * (Y / Z) * atan2(X, Z); break;
  case 41: T = -X * abs(Y) + sqrt(Z * Z + 1.0) * tanh(X); break;
  case 42: T = X; break;
  case 43: T = X * X(e.idx); break;
  case 44: T = norm2(M, 0); break;
  case 45: M2 = M.T().T() * transpose(transpose(N)); break;
  case 46: T = X * noalias(Y); break;
  case 47: T = Z * noalias(sin(X) * Y); break;
  case 48: T = noalias(sin(X) * Y) * Z; break;
  case 49: { { adouble tmp = X(0) * Y(0); } s2 = product(1.0 + 0.1 * X); } break;
  case 50: { { adouble tmp = X(0) * Y(0); } s2 = sum(X * Z); } break;
  case 51: { { adouble tmp = X(0) * Y(0); } s2 = maxval(X * Z) + minval(Y) + norm2(Z) + mean(X); } break;
  case 52: if (m < 2) return false; s2 = sum(diag_vector(M * N, -1)); break;
  case 53: if (n < 2) return false; s2 = sum(diag_vector(M * N, 1)); break;
  case 54: s2 = sum(diag_vector(M * N)); break;
  // rank-2 conditional assignment: mask true across row boundaries, right-hand sides whose rows are not adjacent in traversal order
  case 55: M2.where(M > N) = M(__, stride(n - 1, 0, -1)) * N; break;
  case 56: M2.where(N > 0.3) = either_or(M * s, N(__, stride(n - 1, 0, -1))); break;
  case 57: M2.where(M > N - 10.0) = M * N + spread<0>(X, m); break;
  default: return false;
  }
  return true;
}
static bool run_loop(int c, Ref& r) {
  std::vector<adouble> &x = r.x, &y = r.y, &z = r.z, &t = r.t, &M = r.M, &N = r.N, &M2 = r.M2; adouble &s = r.s, &s2 = r.s2; double p = r.p; std::vector<double>& P = r.P; int n = r.n, m = r.m;
  switch (c) {
  case 0: FORI t[i] = x[i] * y[i] + z[i]; break;
  case 1: FORI t[i] = x[i] * (y[i] * z[i]); break;
  case 2: FORI t[i] = (x[i] * y[i]) * z[i]; break;
  case 3: FORI t[i] = s * x[i] + p * y[i]; break;
  case 4: FORI t[i] = sin(x[i]) * exp(y[i]) / (2.0 + z[i] * z[i]); break;
  case 5: FORI t[i] = pow(x[i] * x[i] + 1.0, y[i]); break;
  case 6: FORI t[i] = t[i] + x[i] * y[i]; break;
  case 7: FORI t[i] = t[i] - x[i] / (2.0 + y[i] * y[i]); break;
  case 8: FORI t[i] = t[i] * (x[i] + s); break;
  case 9: FORI t[i] = t[i] / (2.0 + y[i] * y[i]); break;
  case 10: FORI t[i] = max(x[i], y[i]) * min(x[i], 0.5); break;
  case 11: FORI t[i] = x[i] * y[i]; break;
  case 12: FORI t[i] = z[i] * (x[i] * y[i]); break;
  case 13: FORI if (P[i] > 0.0) t[i] = x[i] * y[i]; break;
  case 14: FORI { if (x[i].value() > y[i].value()) t[i] = x[i] * z[i]; else t[i] = y[i]; } break;
  case 15: s2 = 0.0; FORI s2 = s2 + x[i] * y[i]; break;
  case 16: s2 = 0.0; FORI s2 = s2 + (x[i] * z[i] + y[i]); s2 = s2 / double(n); break;
  case 17: s2 = 1.0; FORI s2 = s2 * (1.0 + 0.1 * x[i]); break;
  case 18: { int k = 0; FORI if (x[i].value() * y[i].value() > x[k].value() * y[k].value()) k = i; s2 = x[k] * y[k]; } break;
  case 19: { int k = 0; FORI if (x[i].value() + z[i].value() < x[k].value() + z[k].value()) k = i; s2 = x[k] + z[k]; } break;
  case 20: s2 = 0.0; FORI s2 = s2 + (x[i] * y[i]) * (x[i] * y[i]); s2 = sqrt(s2); break;
  case 21: s2 = 0.0; FORI s2 = s2 + x[i] * (y[i] * z[i]); break;
  case 22: FORI t[i] = x[r.idx[i]] * y[i]; break;
  case 23: if (!perm_idx(n)) return false; FORI t[r.idx[i]] = x[i] * y[i]; break;
  case 24: FORJI M2[j * n + i] = M[j * n + i] * N[j * n + i] + x[i]; break;
  case 25: FORJI M2[j * n + i] = (M[j * n + 0] * x[i]) * N[j * n + i]; break;
  case 26: FORI { t[i] = 0.0; for (int j = 0; j < m; ++j) t[i] = t[i] + M[j * n + i] * N[j * n + i]; } break;
  case 27: { s2 = 0.0; for (int j = 0; j < m; ++j) { adouble a = 0.0, b = 0.0; FORI { a = a + M[j * n + i]; b = b + N[j * n + i] * N[j * n + i]; } s2 = s2 + a / (1.0 + b); } } break;
  case 28: FORI t[i] = x[i] * P[i] + p; break;
  case 29: FORI t[i] = P[i] * x[i] * y[i]; break;
  case 30: FORI t[i] = x[i] * s; break;
  case 31: FORI t[i] = s; break;
  case 32: FORI t[i] = p; break;
  case 33: FORI t[i] = (x[i] * y[i]) * z[i]; break;
  case 34: FORJI M2[j * n + i] = M[j * n + i] * s + N[j * n + i] / (1.5 + M[j * n + i] * M[j * n + i]); break;
  case 35: FORJI M2[j * n + i] = M2[j * n + i] * M[j * n + i]; break;
  case 36: FORI { t[i] = 1.0; for (int j = 0; j < m; ++j) t[i] = t[i] * (1.0 + 0.1 * M[j * n + i]); } break;
  case 37: FORI { adouble a = 0.0; int kx = 0, kn = 0; for (int j = 0; j < m; ++j) { a = a + M[j * n + i] * N[j * n + i];
             if (M[j * n + i].value() > M[kx * n + i].value()) kx = j; if (N[j * n + i].value() < N[kn * n + i].value()) kn = j; }
             t[i] = a / double(m) + M[kx * n + i] - N[kn * n + i]; } break;
  case 38: s2 = 0.0; FORJI s2 = s2 + M[j * n + i] * x[i]; break;
  case 39: FORI t[i] = x[i] * (y[i] * (z[i] * x[i])); break;
  case 40: FORI t[i] = (x[i] - y[i]) * (y[i] / z[i]) * atan2(x[i], z[i]); break;
  case 41: FORI t[i] = -x[i] * abs(y[i]) + sqrt(z[i] * z[i] + 1.0) * tanh(x[i]); break;
  case 42: FORI t[i] = x[i]; break;
  case 43: { std::vector<adouble> tmp(n); FORI tmp[i] = x[i] * x[r.idx[i]]; FORI t[i] = tmp[i]; } break;
  case 44: FORI { adouble a = 0.0; for (int j = 0; j < m; ++j) a = a + M[j * n + i] * M[j * n + i]; t[i] = sqrt(a); } break;
  case 45: FORJI M2[j * n + i] = M[j * n + i] * N[j * n + i]; break;
  case 46: FORI t[i] = x[i] * y[i]; break;
  case 47: FORI t[i] = z[i] * (sin(x[i]) * y[i]); break;
  case 48: FORI t[i] = (sin(x[i]) * y[i]) * z[i]; break;
  case 49: { { adouble tmp = x[0] * y[0]; } s2 = 1.0; FORI s2 = s2 * (1.0 + 0.1 * x[i]); } break;
  case 50: { { adouble tmp = x[0] * y[0]; } s2 = 0.0; FORI s2 = s2 + x[i] * z[i]; } break;
  case 51: { { adouble tmp = x[0] * y[0]; } int kx = 0, kn = 0; adouble nn = 0.0, mm = 0.0;
             FORI { if (x[i].value() * z[i].value() > x[kx].value() * z[kx].value()) kx = i; if (y[i].value() < y[kn].value()) kn = i; nn = nn + z[i] * z[i]; mm = mm + x[i]; }
             s2 = x[kx] * z[kx] + y[kn] + sqrt(nn) + mm / double(n); } break;
  case 52: if (m < 2) return false; s2 = 0.0; for (int j = 0; j < std::min(m - 1, n); ++j) s2 = s2 + M[(j + 1) * n + j] * N[(j + 1) * n + j]; break;
  case 53: if (n < 2) return false; s2 = 0.0; for (int j = 0; j < std::min(m, n - 1); ++j) s2 = s2 + M[j * n + j + 1] * N[j * n + j + 1]; break;
  case 54: s2 = 0.0; for (int j = 0; j < std::min(m, n); ++j) s2 = s2 + M[j * n + j] * N[j * n + j]; break;
  case 55: FORJI if (M[j * n + i].value() > N[j * n + i].value()) M2[j * n + i] = M[j * n + (n - 1 - i)] * N[j * n + i]; break;
  case 56: FORJI { if (N[j * n + i].value() > 0.3) M2[j * n + i] = M[j * n + i] * s; else M2[j * n + i] = N[j * n + (n - 1 - i)]; } break;
  case 57: FORJI if (M[j * n + i].value() > N[j * n + i].value() - 10.0) M2[j * n + i] = M[j * n + i] * N[j * n + i] + x[i]; break;
  default: return false;
  }
  return true;
}
static bool elementwise_model_case(int c) { return c <= 5 || (c >= 6 && c <= 9) || c == 10 || c == 39 || c == 40 || c == 41 || c == 30 || c == 28 || c == 42 || (c >= 46 && c <= 48); }

int main(int argc, char** argv) {
  int n = argc > 1 ? std::atoi(argv[1]) : 5, m = argc > 2 ? std::atoi(argv[2]) : 3;
  if (argc > 3) rs ^= std::strtoull(argv[3], 0, 10) * 0x9E3779B97F4A7C15ULL;
  int only = argc > 4 ? std::atoi(argv[4]) : -1;
  for (int c = 0; c < NCASE; ++c) {
    if (only >= 0 && c != only) continue;
    for (int vm = 0; vm < 3; ++vm) {
      std::printf("B %d %d %d %d\n", c, n, m, vm); std::fflush(stdout);
      unsigned long long keep = rs;
      int nin = 4 * n + 3 * m * n + 1, nout = n + m * n + 1;
      std::vector<double> JA(nin * nout), JL(nin * nout), VA(nout), VL(nout), XIN;
      bool ok;
      {
        Stack stack; Env e; Ref dummy; rs = keep; fill(e, dummy, n, m, vm);
        stack.new_recording();
        ok = run_array(c, e);
        if (ok) {
          stack.independent(e.X); stack.independent(e.Y); stack.independent(e.Z); stack.independent(e.T); stack.independent(e.M); stack.independent(e.N); stack.independent(e.M2); stack.independent(e.s);
          stack.dependent(e.T); stack.dependent(e.M2); stack.dependent(e.s2);
          stack.jacobian(&JA[0]);
          for (int i = 0; i < n; ++i) VA[i] = value(e.T(i));
          for (int j = 0; j < m; ++j) for (int i = 0; i < n; ++i) VA[n + j * n + i] = value(e.M2(j, i));
          VA[n + m * n] = value(e.s2);
          for (int i = 0; i < n; ++i) XIN.push_back(value(e.X(i)));
        }
      }
      if (!ok) continue;
      std::vector<double> xv, yv, zv, tv; double sv = 0, pv = 0; std::vector<double> Pv;
      {
        Stack stack; Env dummy; Ref r; rs = keep; fill(dummy, r, n, m, vm);
        for (int i = 0; i < n; ++i) { xv.push_back(r.x[i].value()); yv.push_back(r.y[i].value()); zv.push_back(r.z[i].value()); tv.push_back(r.t[i].value()); Pv.push_back(r.P[i]); }
        sv = r.s.value(); pv = r.p;
        stack.new_recording();
        run_loop(c, r);
        stack.independent(&r.x[0], n); stack.independent(&r.y[0], n); stack.independent(&r.z[0], n); stack.independent(&r.t[0], n);
        stack.independent(&r.M[0], m * n); stack.independent(&r.N[0], m * n); stack.independent(&r.M2[0], m * n); stack.independent(r.s);
        stack.dependent(&r.t[0], n); stack.dependent(&r.M2[0], m * n); stack.dependent(r.s2);
        stack.jacobian(&JL[0]);
        for (int i = 0; i < n; ++i) VL[i] = r.t[i].value();
        for (int k = 0; k < m * n; ++k) VL[n + k] = r.M2[k].value();
        VL[n + m * n] = r.s2.value();
      }
      double dj = 0, dv = 0; long nz = 0; int wi = -1;
      for (int k = 0; k < nin * nout; ++k) { double d = std::fabs(JA[k] - JL[k]) / (1.0 + std::fabs(JL[k])); if (!(d <= dj)) { dj = d; wi = k; } if (JL[k] != 0.0) ++nz; }
      for (int k = 0; k < nout; ++k) { double d = std::fabs(VA[k] - VL[k]) / (1.0 + std::fabs(VL[k])); if (!(d <= dv)) dv = d; }
      bool good = dj <= 1e-9 && dv <= 1e-10;
      std::printf("C %d %d %d %d %d %d %.3e %.3e %ld %s", c, n, m, vm, nout, nin, dj, dv, nz, good ? "ok" : "DIFF");
      if (!good && wi >= 0) std::printf(" output %d input %d array %.17g loop %.17g", wi % nout, wi / nout, JA[wi], JL[wi]);   // column-major: element (i,j) at j*nout + i
      std::printf("\n");
      if (elementwise_model_case(c)) {
        std::printf("X %d %d %d", c, vm, n);
        for (int i = 0; i < n; ++i) std::printf(" %.17g", xv[i]); for (int i = 0; i < n; ++i) std::printf(" %.17g", yv[i]);
        for (int i = 0; i < n; ++i) std::printf(" %.17g", zv[i]); for (int i = 0; i < n; ++i) std::printf(" %.17g", tv[i]);
        for (int i = 0; i < n; ++i) std::printf(" %.17g", Pv[i]);
        std::printf(" %.17g %.17g\n", sv, pv);
        // Jacobian of T (n outputs) w.r.t. X, Y, Z, T, s: rows = outputs
        std::printf("J %d %d %d", c, vm, n);
        for (int o = 0; o < n; ++o) {
          for (int k = 0; k < 4 * n; ++k) std::printf(" %.17g", JA[k * nout + o]);
          std::printf(" %.17g", JA[(nin - 1) * nout + o]);
        }
        std::printf("\n");
      }
      std::fflush(stdout);
    }
  }
  return 0;
}
