// C16 harness (LAPACK build): solve(A,b), solve(A,B) and inv(A) for general and symmetric (both orientations) matrices
// presented through different layouts; checks the residual of the defining equation relative to cond-free scale (the
// matrices are strongly diagonally dominant: condition number < 10), that the arguments are unmodified, and the two
// documented exceptions.
// Output: S <kind> <A form> <B form> <n> <nrhs> <residual> <arguments unmodified 1/0> <ok|BAD|EXC:what>     B <case> before each
#include <adept_arrays.h>
#include <cstdio>
#include <cmath>
#include <cstdlib>
#include <string>
using namespace adept;
static int ival(int i, int j, int salt) { return ((i * 7 + j * 3 + salt * 5) % 9) - 4; }
static double aval(int i, int j, int n, int salt) { return i == j ? 10.0 * n + 3 + (i % 3) : 0.25 * ival(i, j, salt); }
static double sval(int i, int j, int n, int salt) { return i == j ? 10.0 * n + 2 + (i % 2) : 0.25 * ival(std::min(i, j), std::max(i, j), salt); }
static const char* MF[] = { "row-major", "transposed", "strided-rows", "reversed-rows", "sliced", "col-major-storage", "strided-both" };
static const int NMF = 7;
struct MH { Matrix parent, view; };
template <class F> static void mk(int form, int m, int k, F f, MH& h) {
  Matrix& P = h.parent;
  switch (form) {
  case 0: P.resize(m, k); for (int i = 0; i < m; ++i) for (int j = 0; j < k; ++j) P(i, j) = f(i, j); h.view >>= P; break;
  case 1: P.resize(k, m); for (int i = 0; i < m; ++i) for (int j = 0; j < k; ++j) P(j, i) = f(i, j); h.view >>= P.T(); break;
  case 2: P.resize(2 * m, k); P = 77.0; for (int i = 0; i < m; ++i) for (int j = 0; j < k; ++j) P(2 * i, j) = f(i, j); h.view >>= P(stride(0, 2 * m - 2, 2), __); break;
  case 3: P.resize(m, k); for (int i = 0; i < m; ++i) for (int j = 0; j < k; ++j) P(m - 1 - i, j) = f(i, j); h.view >>= P(stride(m - 1, 0, -1), __); break;
  case 4: P.resize(m + 2, k + 1); P = 77.0; for (int i = 0; i < m; ++i) for (int j = 0; j < k; ++j) P(i + 1, j + 1) = f(i, j); h.view >>= P(range(1, m), range(1, k)); break;
  case 5: { bool keep = internal::array_row_major_order; set_array_row_major_order(false); P.resize(m, k); set_array_row_major_order(keep);
            for (int i = 0; i < m; ++i) for (int j = 0; j < k; ++j) P(i, j) = f(i, j); h.view >>= P; } break;
  default: P.resize(2 * m, 2 * k); P = 77.0; for (int i = 0; i < m; ++i) for (int j = 0; j < k; ++j) P(2 * i, 2 * j) = f(i, j); h.view >>= P(stride(0, 2 * m - 2, 2), stride(0, 2 * k - 2, 2)); break;
  }
}
static std::string what_of(const std::exception& e) { std::string s = e.what(); for (size_t i = 0; i < s.size(); ++i) if (s[i] == ' ') s[i] = '_'; return s.substr(0, 50); }
static bool same(const Matrix& a, const Matrix& b) { if (a.dimension(0) != b.dimension(0) || a.dimension(1) != b.dimension(1)) return false;
  for (int i = 0; i < a.dimension(0); ++i) for (int j = 0; j < a.dimension(1); ++j) if (a(i, j) != b(i, j)) return false; return true; }

template <class AT> static void solve_cases(const char* kind, const char* af, const AT& A, int n, int salt) {
  Matrix Ad = A;
  for (int bf = 0; bf < NMF; ++bf) for (int p = 1; p <= n + 2; p += (n > 3 ? 2 : 1)) {
    std::printf("B solve %s %s %s %d %d\n", kind, af, MF[bf], n, p); std::fflush(stdout);
    MH b; mk(bf, n, p, [&](int i, int j) { return 1.0 + ival(i, j, salt + 3); }, b);
    Matrix Bd = b.view, parentB = b.parent;
    try {
      Matrix X = solve(A, b.view);
      double res = 0; if (X.dimension(0) != n || X.dimension(1) != p) res = 1e9;
      else for (int i = 0; i < n; ++i) for (int j = 0; j < p; ++j) { double s = 0; for (int k = 0; k < n; ++k) s += Ad(i, k) * X(k, j); res = std::max(res, std::fabs(s - Bd(i, j))); }
      bool unmod = same(Matrix(A), Ad) && same(b.parent, parentB);
      std::printf("S %s %s %s %d %d %.3e %d %s\n", kind, af, MF[bf], n, p, res, (int)unmod, (res <= 1e-10 * n * 50 && unmod) ? "ok" : "BAD");
    } catch (const std::exception& e) { std::printf("S %s %s %s %d %d -1 0 EXC:%s\n", kind, af, MF[bf], n, p, what_of(e).c_str()); }
  }
  // vector right-hand sides: contiguous, strided, reversed
  for (int vf = 0; vf < 3; ++vf) {
    std::printf("B solve %s %s vector%d %d\n", kind, af, vf, n); std::fflush(stdout);
    Vector P(3 * n); P = 77.0; Vector v;
    if (vf == 0) { v >>= P(range(0, n - 1)); } else if (vf == 1) { v >>= P(stride(0, 2 * n - 2, 2)); } else { v >>= P(stride(n - 1, 0, -1)); }
    for (int i = 0; i < n; ++i) v(i) = 2.0 + ival(i, 2, salt);
    Vector vd = v, Pd = P;
    try {
      Vector x = solve(A, v);
      double res = 0; if (x.size() != n) res = 1e9; else for (int i = 0; i < n; ++i) { double s = 0; for (int k = 0; k < n; ++k) s += Ad(i, k) * x(k); res = std::max(res, std::fabs(s - vd(i))); }
      bool unmod = same(Matrix(A), Ad); for (int i = 0; i < 3 * n; ++i) unmod = unmod && P(i) == Pd(i);
      std::printf("S %s %s vector-%s %d 1 %.3e %d %s\n", kind, af, vf == 0 ? "contiguous" : (vf == 1 ? "strided" : "reversed"), n, res, (int)unmod, (res <= 1e-10 * n * 50 && unmod) ? "ok" : "BAD");
    } catch (const std::exception& e) { std::printf("S %s %s vector%d %d 1 -1 0 EXC:%s\n", kind, af, vf, n, what_of(e).c_str()); }
  }
  // inverse: products on both sides
  std::printf("B inv %s %s %d\n", kind, af, n); std::fflush(stdout);
  try {
    Matrix I1 = inv(A); Matrix Ai = I1;
    double res = 0;
    for (int i = 0; i < n; ++i) for (int j = 0; j < n; ++j) { double s1 = 0, s2 = 0; for (int k = 0; k < n; ++k) { s1 += Ad(i, k) * Ai(k, j); s2 += Ai(i, k) * Ad(k, j); }
      res = std::max(res, std::max(std::fabs(s1 - (i == j)), std::fabs(s2 - (i == j)))); }
    bool unmod = same(Matrix(A), Ad);
    std::printf("S inv-%s %s - %d %d %.3e %d %s\n", kind, af, n, n, res, (int)unmod, (res <= 1e-12 * n * 50 && unmod) ? "ok" : "BAD");
  } catch (const std::exception& e) { std::printf("S inv-%s %s - %d %d -1 0 EXC:%s\n", kind, af, n, n, what_of(e).c_str()); }
}
template <class S> static void symm_cases(const char* name, int n, int salt) {
  S s; s.resize(n); for (int i = 0; i < n; ++i) for (int j = 0; j <= i; ++j) { s(i, j) = sval(i, j, n, salt); }
  solve_cases("symmetric", name, s, n, salt);
  std::printf("B symmetric inverse %s %d\n", name, n); std::fflush(stdout);
  try { S si = inv(s); Matrix Ai = si, Ad = s; double res = 0;
    for (int i = 0; i < n; ++i) for (int j = 0; j < n; ++j) { double s1 = 0; for (int k = 0; k < n; ++k) s1 += Ad(i, k) * Ai(k, j); res = std::max(res, std::fabs(s1 - (i == j))); }
    std::printf("S inv-symmetric-typed %s - %d %d %.3e 1 %s\n", name, n, n, res, res <= 1e-12 * n * 50 ? "ok" : "BAD");
  } catch (const std::exception& e) { std::printf("S inv-symmetric-typed %s - %d %d -1 0 EXC:%s\n", name, n, n, what_of(e).c_str()); }
}
int main(int argc, char** argv) {
  int nmax = argc > 1 ? std::atoi(argv[1]) : 6;
  for (int n = 1; n <= nmax; ++n) {
    for (int af = 0; af < NMF; ++af) { MH a; mk(af, n, n, [&](int i, int j) { return aval(i, j, n, 1); }, a); solve_cases("general", MF[af], a.view, n, af); }
    { MH a; mk(0, n, n, [&](int i, int j) { return 0.5 * aval(i, j, n, 2); }, a); solve_cases("general", "expression", a.view + a.view, n, 9); }
    symm_cases<SymmMatrix>("SymmMatrix", n, 3);
    symm_cases<SpecialMatrix<double, internal::SymmEngine<ROW_UPPER_COL_LOWER>, false> >("SymmMatrix(upper)", n, 4);
  }
  // exceptions
  for (int n = 2; n <= 4; ++n) {
    std::printf("B singular %d\n", n); std::fflush(stdout);
    Matrix Z(n, n); for (int i = 0; i < n; ++i) for (int j = 0; j < n; ++j) Z(i, j) = (j == 1) ? 0.0 : aval(i, j, n, 1);     // a zero column: exactly singular
    Vector b(n); b = 1.0; Matrix Bm(n, 2); Bm = 1.0;
    const char* r1 = "none"; try { Vector x = solve(Z, b); } catch (const matrix_ill_conditioned&) { r1 = "matrix_ill_conditioned"; } catch (const std::exception&) { r1 = "other"; }
    const char* r2 = "none"; try { Matrix x = solve(Z, Bm); } catch (const matrix_ill_conditioned&) { r2 = "matrix_ill_conditioned"; } catch (const std::exception&) { r2 = "other"; }
    const char* r3 = "none"; try { Matrix x = inv(Z); } catch (const matrix_ill_conditioned&) { r3 = "matrix_ill_conditioned"; } catch (const std::exception&) { r3 = "other"; }
    std::printf("X singular %d %s %s %s\n", n, r1, r2, r3);
    { // exactly singular symmetric matrices (rank one; zero), both storage orientations
      SymmMatrix S1(n), S0(n); for (int i = 0; i < n; ++i) for (int j = 0; j <= i; ++j) { S1(i, j) = 1.0; S0(i, j) = 0.0; }
      SpecialMatrix<double, internal::SymmEngine<ROW_UPPER_COL_LOWER>, false> U1(n); for (int i = 0; i < n; ++i) for (int j = i; j < n; ++j) U1(i, j) = 1.0;
      Vector c(n); c = 1.0; c(0) = 2.0;                      // not in the range of the rank-one matrix
      const char* s1 = "none"; try { Vector x = solve(S1, c); } catch (const matrix_ill_conditioned&) { s1 = "matrix_ill_conditioned"; } catch (const std::exception&) { s1 = "other"; }
      const char* s2 = "none"; try { Matrix x = solve(S1, Bm); } catch (const matrix_ill_conditioned&) { s2 = "matrix_ill_conditioned"; } catch (const std::exception&) { s2 = "other"; }
      const char* s3 = "none"; try { Vector x = solve(S0, c); } catch (const matrix_ill_conditioned&) { s3 = "matrix_ill_conditioned"; } catch (const std::exception&) { s3 = "other"; }
      const char* s4 = "none"; try { Vector x = solve(U1, c); } catch (const matrix_ill_conditioned&) { s4 = "matrix_ill_conditioned"; } catch (const std::exception&) { s4 = "other"; }
      std::printf("X singular-symmetric %d %s %s %s %s\n", n, s1, s2, s3, s4);
    }
    Matrix R(n, n + 1); R = 1.0;
    const char* r4 = "none"; try { Matrix x = inv(R); } catch (const invalid_operation&) { r4 = "invalid_operation"; } catch (const std::exception&) { r4 = "other"; }
    std::printf("X nonsquare %d %s\n", n, r4);
  }
  return 0;
}
