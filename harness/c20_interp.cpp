// C20 harness: interp / interp2d / interp3d on dyadic data (k/16), passive and active.
// Same line format as ocaml/driver_c20.ml; A1 = D1 with active data: prints the values and then
// " | J" followed by the Jacobian d out(query,trailing) / d y(knot,trailing') row by row.
#include <adept_arrays.h>
#include <iostream>
#include <sstream>
#include <string>
#include <vector>
#include <cstdio>
#include <cmath>
#include <limits>
using namespace adept;
static double rd(std::istream& is) {
  std::string t; is >> t;
  if (t == "nan") return std::numeric_limits<double>::quiet_NaN();
  if (t == "inf") return std::numeric_limits<double>::infinity();
  if (t == "-inf") return -std::numeric_limits<double>::infinity();
  return std::atoi(t.c_str()) / 16.0;
}
static Vector rdvec(std::istream& is) { int k; is >> k; Vector v(k); for (int i = 0; i < k; ++i) v(i) = rd(is); return v; }
static void pr(std::ostream& os, double v) { char b[64]; std::snprintf(b, sizeof b, " %.17g", v); os << b; }
int main() {
  std::string line;
  Stack stack;
  while (std::getline(std::cin, line)) {
    std::istringstream is(line);
    std::ostringstream os;
    std::string kind; int opts; is >> kind >> opts; double c = rd(is);
    try {
      if (kind == "D1" || kind == "A1") {
        Vector x = rdvec(is); int m, ny; is >> m >> ny;
        Matrix Y(ny, m); for (int i = 0; i < ny; ++i) for (int j = 0; j < m; ++j) Y(i, j) = rd(is);
        Vector q = rdvec(is);
        if (kind == "D1") {
          os << "OK";
          if (m == 1) { Vector y1(ny); for (int i = 0; i < ny; ++i) y1(i) = Y(i, 0); Vector r = interp(x, y1, q, opts, c); for (int i = 0; i < r.size(); ++i) pr(os, r(i)); }
          else { Matrix r = interp(x, Y, q, opts, c); for (int i = 0; i < r.dimension(0); ++i) for (int j = 0; j < r.dimension(1); ++j) pr(os, r(i, j)); }
        } else {
          stack.new_recording();
          aMatrix aY(ny, m); aY = Y;
          stack.new_recording();
          os << "OK";
          std::vector<double> jac;
          int nout = 0;
          if (m == 1) {
            aVector y1(ny); y1 = aY(__, 0);
            stack.new_recording();
            aVector r = interp(x, y1, q, opts, c);
            for (int i = 0; i < r.size(); ++i) pr(os, value(r(i)));
            nout = r.size();
            stack.independent(y1); stack.dependent(r);
            if (nout > 0 && ny > 0) { Matrix J = stack.jacobian(); for (int i = 0; i < nout; ++i) for (int k = 0; k < ny; ++k) jac.push_back(J(i, k)); }
          } else {
            aMatrix r = interp(x, aY, q, opts, c);
            for (int i = 0; i < r.dimension(0); ++i) for (int j = 0; j < r.dimension(1); ++j) pr(os, value(r(i, j)));
            nout = r.dimension(0) * r.dimension(1);
            stack.independent(aY); stack.dependent(r);
            if (nout > 0 && ny > 0) { Matrix J = stack.jacobian(); for (int i = 0; i < nout; ++i) for (int k = 0; k < ny * m; ++k) jac.push_back(J(i, k)); }
          }
          os << " | J"; for (size_t i = 0; i < jac.size(); ++i) pr(os, jac[i]);
          stack.clear_independents(); stack.clear_dependents();
        }
      } else if (kind == "D2") {
        Vector x = rdvec(is), y = rdvec(is); int m; is >> m;
        Array<3, double, false> M(x.size(), y.size(), m);
        for (int i = 0; i < x.size(); ++i) for (int j = 0; j < y.size(); ++j) for (int k = 0; k < m; ++k) M(i, j, k) = rd(is);
        Vector qx = rdvec(is), qy = rdvec(is);
        os << "OK";
        if (m == 1) { Matrix M2(x.size(), y.size()); M2 = M(__, __, 0); Vector r = interp2d(x, y, M2, qx, qy, opts, c); for (int i = 0; i < r.size(); ++i) pr(os, r(i)); }
        else { Matrix r = interp2d(x, y, M, qx, qy, opts, c); for (int i = 0; i < r.dimension(0); ++i) for (int j = 0; j < r.dimension(1); ++j) pr(os, r(i, j)); }
      } else if (kind == "D3") {
        Vector x = rdvec(is), y = rdvec(is), z = rdvec(is); int m; is >> m;
        Array<4, double, false> M(x.size(), y.size(), z.size(), m);
        for (int i = 0; i < x.size(); ++i) for (int j = 0; j < y.size(); ++j) for (int k = 0; k < z.size(); ++k) for (int l = 0; l < m; ++l) M(i, j, k, l) = rd(is);
        Vector qx = rdvec(is), qy = rdvec(is), qz = rdvec(is);
        os << "OK";
        if (m == 1) { Array<3, double, false> M3(x.size(), y.size(), z.size()); M3 = M(__, __, __, 0);
          Vector r = interp3d(x, y, z, M3, qx, qy, qz, opts, c); for (int i = 0; i < r.size(); ++i) pr(os, r(i)); }
        else { Matrix r = interp3d(x, y, z, M, qx, qy, qz, opts, c); for (int i = 0; i < r.dimension(0); ++i) for (int j = 0; j < r.dimension(1); ++j) pr(os, r(i, j)); }
      }
    } catch (size_mismatch&) { os.str(""); os << "EXC size_mismatch";
    } catch (array_exception&) { os.str(""); os << "EXC array_exception";
    } catch (adept::exception& e) { os.str(""); os << "EXC other " << e.what(); }
    std::cout << os.str() << "\n";
  }
  return 0;
}
