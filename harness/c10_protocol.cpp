// C10 harness: one protocol history per input line over a pool of NG active scalars (gradient indices 0..NG-1).
// tokens:  S lhs k (q idx)*   record the statement d[lhs] = sum q/4 d[idx] through add/append_derivative_dependence
//          N  new_recording     G i q  set_gradient(x[i], q/4)    F  compute_tangent_linear    R  compute_adjoint
//          C  clear_gradients   I i / D i  independent / dependent    CI / CD  clear_independents / clear_dependents
//          J  jacobian          P / U  pause_recording / continue_recording    O i  get_gradient(x[i])    K  counts
//          A  create one more active scalar (adouble(0.0): records an empty statement)    W lhs q idx  append_derivative_dependence on lhs
//          X  destroy the most recently created extra scalar (frees the top gradient index; max_gradient is unchanged until new_recording)
// prints one token per observation: values, "E" for an exception, Jacobians as "[a b; c d]".
#include <adept_arrays.h>
#include <iostream>
#include <sstream>
#include <vector>
#include <string>
#include <cstdio>
using namespace adept;
static std::string num(double v) { char b[64]; std::snprintf(b, sizeof b, "%.17g", v); return b; }
int main(int argc, char** argv) {
  std::string line;
  while (std::getline(std::cin, line)) {
    std::istringstream is(line);
    std::ostringstream os;
    int ng; is >> ng;
    Stack stack;
    std::vector<adouble*> xp;
    for (int i = 0; i < ng; ++i) { xp.push_back(new adouble); xp[i]->set_value(0.0); }
#define x(i) (*xp[i])
    stack.new_recording();
    std::vector<int> ind, dep;
    std::string t;
    while (is >> t) {
      try {
        if (t == "S") {
          int lhs, k; is >> lhs >> k;
          if (k == 0) stack.add_derivative_dependence(x(lhs).gradient_index(), x(0).gradient_index(), 0.0);
          for (int j = 0; j < k; ++j) {
            int q, idx; is >> q >> idx;
            if (j == 0) stack.add_derivative_dependence(x(lhs).gradient_index(), x(idx).gradient_index(), q / 4.0);
            else stack.append_derivative_dependence(x(lhs).gradient_index(), x(idx).gradient_index(), q / 4.0);
          }
        }
        else if (t == "N") { stack.new_recording(); ind.clear(); dep.clear(); }
        else if (t == "G") { int i, q; is >> i >> q; x(i).set_gradient(q / 4.0); }
        else if (t == "F") stack.compute_tangent_linear();
        else if (t == "R") stack.compute_adjoint();
        else if (t == "C") stack.clear_gradients();
        else if (t == "I") { int i; is >> i; stack.independent(x(i)); ind.push_back(i); }
        else if (t == "D") { int i; is >> i; stack.dependent(x(i)); dep.push_back(i); }
        else if (t == "CI") { stack.clear_independents(); ind.clear(); }
        else if (t == "CD") { stack.clear_dependents(); dep.clear(); }
        else if (t == "P") stack.pause_recording();
        else if (t == "U") stack.continue_recording();
        else if (t == "O") { int i; is >> i; double g = 0; x(i).get_gradient(g); os << num(g) << " "; }
        else if (t == "A") { xp.push_back(new adouble(0.0)); }
        else if (t == "X") { if ((int)xp.size() > ng) { delete xp.back(); xp.pop_back(); } }
        else if (t == "W") { int lhs, q, idx; is >> lhs >> q >> idx; stack.append_derivative_dependence(x(lhs).gradient_index(), x(idx).gradient_index(), q / 4.0); }
        else if (t == "K") os << "k" << stack.n_statements() - 1 << "/" << stack.n_operations() << " ";
        else if (t == "J") {
          size_t n = ind.size(), m = dep.size();
          std::vector<double> jac(n * m + 1, -777.0);
          stack.jacobian(&jac[0]);
          os << "[";
          for (size_t j = 0; j < n; ++j) { for (size_t d = 0; d < m; ++d) os << num(jac[j * m + d]) << (d + 1 < m ? " " : ""); os << (j + 1 < n ? "; " : ""); }
          os << "] ";
        }
      }
      catch (const gradients_not_initialized&) { os << "E:n "; } catch (const gradient_out_of_range&) { os << "E:r "; }
      catch (const wrong_gradient&) { os << "E:w "; } catch (const dependents_or_independents_not_identified&) { os << "E:d "; }
      catch (const std::exception& e) { os << "E:? "; }
    }
    std::cout << os.str() << "\n";
    for (size_t i = xp.size(); i > 0; --i) delete xp[i - 1];
  }
  return 0;
}
