// C06 harness: applies a composition of view-forming operations to a parent array filled with
// its own linear index, dumps rank, extents and the parent element found at every index of the
// view, then writes through every element and dumps the whole parent.  One program per line.
// Built with and without -DADEPT_BOUNDS_CHECKING.  Ranks 1..4.
#include <adept_arrays.h>
#include <iostream>
#include <sstream>
#include <vector>
#include <string>
#include <cstdio>
using namespace adept;
typedef Array<1,double,false> A1; typedef Array<2,double,false> A2; typedef Array<3,double,false> A3; typedef Array<4,double,false> A4;
struct AV { int rank; double* elem; A1 a1; A2 a2; A3 a3; A4 a4; AV() : rank(-1), elem(0) {} };
static void store(AV& o, double& x) { o.rank = 0; o.elem = &x; }
static void store(AV& o, const A1& a) { o.rank = 1; o.a1 >>= const_cast<A1&>(a); }
static void store(AV& o, const A2& a) { o.rank = 2; o.a2 >>= const_cast<A2&>(a); }
static void store(AV& o, const A3& a) { o.rank = 3; o.a3 >>= const_cast<A3&>(a); }
static void store(AV& o, const A4& a) { o.rank = 4; o.a4 >>= const_cast<A4&>(a); }
static void setav(AV& d, AV& s) {
  d.rank = s.rank; d.elem = s.elem; d.a1.clear(); d.a2.clear(); d.a3.clear(); d.a4.clear();
  if (s.rank == 1) d.a1 >>= s.a1; if (s.rank == 2) d.a2 >>= s.a2; if (s.rank == 3) d.a3 >>= s.a3; if (s.rank == 4) d.a4 >>= s.a4;
}
static bool g_const = false;   // "const" on the command line: every operation that has a const overload is applied through a const reference
template <class R> struct is_view { static const bool value = !std::is_arithmetic<typename std::decay<R>::type>::value; };
template <class Arr, typename... T>
static typename std::enable_if<is_view<decltype(std::declval<const Arr&>()(std::declval<T>()...))>::value>::type
slice_const(Arr& a, AV& out, T... acc) { store(out, static_cast<const Arr&>(a)(acc...)); }
template <class Arr, typename... T>
static typename std::enable_if<!is_view<decltype(std::declval<const Arr&>()(std::declval<T>()...))>::value>::type
slice_const(Arr& a, AV& out, T... acc) { store(out, a(acc...)); }   // all indices scalar: the const overload returns a value, not an element
struct Arg { char kind; int a, b, c; std::vector<int> iv; };
static bool g_has_iv = false;   // the current slice has an integer-vector argument: the result is an IndexedArray (copied out, then written through)
template <class E> static void store(AV& o, const Expression<double, E>& e) { Array<E::rank, double, false> tmp; tmp = e.cast(); store(o, tmp); }
static intVector make_iv(const Arg& x) { intVector I((int)x.iv.size()); for (size_t k = 0; k < x.iv.size(); ++k) I((int)k) = x.iv[k]; return I; }
typedef decltype(adept::end + 0) EndExpr;
typedef decltype(stride(0, 0, 1)) RangeI;
typedef decltype(stride(adept::end + 0, adept::end + 0, 1)) RangeE;
typedef decltype(__) AllT;
template <int R, int K, bool Full, typename... T> struct Slicer {
  template <class Arr> static void go(Arr& a, const std::vector<Arg>& g, AV& out, T... acc) {
    const Arg& x = g[K];
    switch (x.kind) {
    case 's': Slicer<R, K + 1, Full, T..., int>::go(a, g, out, acc..., x.a); break;
    case 'r': Slicer<R, K + 1, Full, T..., RangeI>::go(a, g, out, acc..., stride(x.a, x.b, x.c)); break;
    case 'a': Slicer<R, K + 1, Full, T..., AllT>::go(a, g, out, acc..., __); break;
    case 'v': if (Full) Slicer<R, K + 1, Full, T..., typename std::conditional<Full, intVector, int>::type>::go(a, g, out, acc..., selv<Full>(x)); break;
    case 'e': if (Full) Slicer<R, K + 1, Full, T..., typename std::conditional<Full, EndExpr, int>::type>::go(a, g, out, acc..., sel<Full>(x.a)); break;
    case 'R': if (Full) Slicer<R, K + 1, Full, T..., typename std::conditional<Full, RangeE, RangeI>::type>::go(a, g, out, acc..., selr<Full>(x)); break;
    }
  }
  template <bool F> static typename std::enable_if<F, intVector>::type selv(const Arg& x) { return make_iv(x); }
  template <bool F> static typename std::enable_if<!F, int>::type selv(const Arg& x) { return 0; }
  template <bool F> static typename std::enable_if<F, EndExpr>::type sel(int k) { return adept::end + k; }
  template <bool F> static typename std::enable_if<!F, int>::type sel(int k) { return k; }
  template <bool F> static typename std::enable_if<F, RangeE>::type selr(const Arg& x) { return stride(adept::end + x.a, adept::end + x.b, x.c); }
  template <bool F> static typename std::enable_if<!F, RangeI>::type selr(const Arg& x) { return stride(x.a, x.b, x.c); }
};
template <int R, bool Full, typename... T> struct Slicer<R, R, Full, T...> {
  template <class Arr> static void go(Arr& a, const std::vector<Arg>&, AV& out, T... acc) {
    if (g_has_iv) { store(out, a(acc...)); a(acc...) = 7777.0; }
    else if (g_const) slice_const(a, out, acc...); else store(out, a(acc...));
  }
};
static void do_slice(AV& v, const std::vector<Arg>& g, AV& out) {
  switch (v.rank) {
  case 1: Slicer<1, 0, true>::go(v.a1, g, out); break;
  case 2: Slicer<2, 0, true>::go(v.a2, g, out); break;
  case 3: Slicer<3, 0, true>::go(v.a3, g, out); break;
  case 4: Slicer<4, 0, false>::go(v.a4, g, out); break;
  }
}
static void dump_dims(std::ostream& os, AV& v) {
  os << v.rank;
  if (v.rank == 1) os << " " << v.a1.dimension(0);
  if (v.rank == 2) os << " " << v.a2.dimension(0) << " " << v.a2.dimension(1);
  if (v.rank == 3) for (int i = 0; i < 3; ++i) os << " " << v.a3.dimension(i);
  if (v.rank == 4) for (int i = 0; i < 4; ++i) os << " " << v.a4.dimension(i);
}
template <class F> static void for_each(AV& v, F f) {
  if (v.rank == 0) f(*v.elem);
  if (v.rank == 1) for (int i = 0; i < v.a1.dimension(0); ++i) f(v.a1(i));
  if (v.rank == 2) for (int i = 0; i < v.a2.dimension(0); ++i) for (int j = 0; j < v.a2.dimension(1); ++j) f(v.a2(i, j));
  if (v.rank == 3) for (int i = 0; i < v.a3.dimension(0); ++i) for (int j = 0; j < v.a3.dimension(1); ++j)
    for (int k = 0; k < v.a3.dimension(2); ++k) f(v.a3(i, j, k));
  if (v.rank == 4) for (int i = 0; i < v.a4.dimension(0); ++i) for (int j = 0; j < v.a4.dimension(1); ++j)
    for (int k = 0; k < v.a4.dimension(2); ++k) for (int l = 0; l < v.a4.dimension(3); ++l) f(v.a4(i, j, k, l));
}
struct Printer { std::ostream& os; void operator()(double& x) { os << " " << (long)x; } };
struct Writer { int k; void operator()(double& x) { x = 1000 + k++; } };
int main(int argc, char** argv) {
  g_const = argc > 1 && std::string(argv[1]) == "const";
  std::string line;
  while (std::getline(std::cin, line)) {
    std::istringstream is(line);
    std::ostringstream os;
    std::string tok;
    AV cur, parent;
    try {
      while (is >> tok) {
        AV nxt;
        if (tok == "P") {
          int r; is >> r; int d[4] = {1, 1, 1, 1};
          for (int i = 0; i < r; ++i) is >> d[i];
          if (r == 1) { A1 a(d[0]); store(parent, a); }
          if (r == 2) { A2 a(d[0], d[1]); store(parent, a); }
          if (r == 3) { A3 a(d[0], d[1], d[2]); store(parent, a); }
          if (r == 4) { A4 a(d[0], d[1], d[2], d[3]); store(parent, a); }
          Writer w; w.k = -1000; for_each(parent, w);   // element k (index order) holds k
          setav(cur, parent);
          continue;
        } else if (tok == "S") {
          int n; is >> n; std::vector<Arg> g(n);
          for (int i = 0; i < n; ++i) {
            std::string k; is >> k; g[i].kind = k[0]; g[i].a = g[i].b = 0; g[i].c = 1;
            if (k[0] == 's' || k[0] == 'e') is >> g[i].a;
            if (k[0] == 'r' || k[0] == 'R') is >> g[i].a >> g[i].b >> g[i].c;
            if (k[0] == 'v') { int m; is >> m; g[i].iv.resize(m); for (int q = 0; q < m; ++q) is >> g[i].iv[q]; }
          }
          g_has_iv = false; for (int i = 0; i < n; ++i) if (g[i].kind == 'v') g_has_iv = true;
          do_slice(cur, g, nxt);
        } else if (tok == "I" || tok == "J") {
          int k; is >> k;
          if (tok == "I" && g_const) { if (cur.rank == 2) store(nxt, static_cast<const A2&>(cur.a2)[k]); if (cur.rank == 3) store(nxt, static_cast<const A3&>(cur.a3)[k]); if (cur.rank == 4) store(nxt, static_cast<const A4&>(cur.a4)[k]); }
          else if (tok == "I") { if (cur.rank == 2) store(nxt, cur.a2[k]); if (cur.rank == 3) store(nxt, cur.a3[k]); if (cur.rank == 4) store(nxt, cur.a4[k]); }
          else if (g_const) { if (cur.rank == 2) store(nxt, static_cast<const A2&>(cur.a2)[adept::end + k]); if (cur.rank == 3) store(nxt, static_cast<const A3&>(cur.a3)[adept::end + k]); if (cur.rank == 4) store(nxt, static_cast<const A4&>(cur.a4)[adept::end + k]); }
          else { if (cur.rank == 2) store(nxt, cur.a2[adept::end + k]); if (cur.rank == 3) store(nxt, cur.a3[adept::end + k]); if (cur.rank == 4) store(nxt, cur.a4[adept::end + k]); }
        } else if (tok == "T") { if (g_const) store(nxt, static_cast<const A2&>(cur.a2).T()); else store(nxt, cur.a2.T());
        } else if (tok == "M") {
          int n; is >> n; int p[4]; for (int i = 0; i < n; ++i) is >> p[i];
          if (cur.rank == 2) store(nxt, cur.a2.permute(p)); if (cur.rank == 3) store(nxt, cur.a3.permute(p)); if (cur.rank == 4) store(nxt, cur.a4.permute(p));
        } else if (tok == "G") { int k; is >> k; store(nxt, cur.a2.diag_vector(k));
        } else if (tok == "U") { int a, b; is >> a >> b; store(nxt, cur.a2.submatrix_on_diagonal(a, b));
        } else if (tok == "H") {
          int n; is >> n; int d[4]; for (int i = 0; i < n; ++i) is >> d[i];
          if (n == 2) store(nxt, cur.a1.reshape(dimensions(d[0], d[1])));
          if (n == 3) store(nxt, cur.a1.reshape(dimensions(d[0], d[1], d[2])));
          if (n == 4) store(nxt, cur.a1.reshape(dimensions(d[0], d[1], d[2], d[3])));
        } else if (tok == "L") {
          if (g_const) {
            if (cur.rank == 1) store(nxt, static_cast<const A1&>(cur.a1).soft_link()); if (cur.rank == 2) store(nxt, static_cast<const A2&>(cur.a2).soft_link());
            if (cur.rank == 3) store(nxt, static_cast<const A3&>(cur.a3).soft_link()); if (cur.rank == 4) store(nxt, static_cast<const A4&>(cur.a4).soft_link());
          } else {
          if (cur.rank == 1) store(nxt, cur.a1.soft_link()); if (cur.rank == 2) store(nxt, cur.a2.soft_link());
          if (cur.rank == 3) store(nxt, cur.a3.soft_link()); if (cur.rank == 4) store(nxt, cur.a4.soft_link());
          }
        } else if (tok == "B") {
          int b[4], e[4]; for (int i = 0; i < cur.rank; ++i) is >> b[i] >> e[i];
          if (g_const) {
            if (cur.rank == 1) store(nxt, static_cast<const A1&>(cur.a1).subset(b[0], e[0]));
            if (cur.rank == 2) store(nxt, static_cast<const A2&>(cur.a2).subset(b[0], e[0], b[1], e[1]));
            if (cur.rank == 3) store(nxt, static_cast<const A3&>(cur.a3).subset(b[0], e[0], b[1], e[1], b[2], e[2]));
            if (cur.rank == 4) store(nxt, static_cast<const A4&>(cur.a4).subset(b[0], e[0], b[1], e[1], b[2], e[2], b[3], e[3]));
          } else
          if (cur.rank == 1) store(nxt, cur.a1.subset(b[0], e[0]));
          if (cur.rank == 2) store(nxt, cur.a2.subset(b[0], e[0], b[1], e[1]));
          if (cur.rank == 3) store(nxt, cur.a3.subset(b[0], e[0], b[1], e[1], b[2], e[2]));
          if (cur.rank == 4) store(nxt, cur.a4.subset(b[0], e[0], b[1], e[1], b[2], e[2], b[3], e[3]));
        }
        setav(cur, nxt);
      }
      dump_dims(os, cur);
      os << " |";
      Printer p = {os}; for_each(cur, p);
      os << " |";
      Writer w; w.k = 0; for_each(cur, w);
      for_each(parent, p);
    } catch (index_out_of_bounds&) { os.str(""); os << "EXC index_out_of_bounds";
    } catch (adept::exception& e) { os.str(""); os << "EXC other " << e.what(); }
    std::cout << os.str() << "\n";
  }
  return 0;
}
