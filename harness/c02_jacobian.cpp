// C02 / C13 harness: writes arbitrary tapes through the public add/append_derivative_dependence API
// and prints the results of tangent, adjoint and all Jacobian forms (see ocaml/driver_c02.ml).
// argv[1] = number of Jacobian threads (0 = leave default).  Built with/without -fopenmp,
// with -DADEPT_MULTIPASS_SIZE=k -DADEPT_DOUBLE_PACKET_SIZE=1 or a packet ISA.
#include <adept_arrays.h>
#include <iostream>
#include <sstream>
#include <vector>
#include <string>
#include <cstdio>
#include <cstdlib>
using namespace adept;
#if defined(RJHOGAN_ADEPT_2_VERIF)
namespace adept { extern int verif_jacobian_blocks_by_thread[64]; }
#endif
static const double SENT = -777.0;
static void sec(std::ostream& os, const char* name, const double* v, size_t n) {
  os << name;
  char b[64];
  for (size_t i = 0; i < n; ++i) { std::snprintf(b, sizeof b, " %.17g", v[i]); os << b; }
  os << " | ";
}
// logical (row-major) element order: rows of a Matrix may be padded for alignment
static void secm(std::ostream& os, const char* name, const Matrix& A) {
  std::vector<double> v;
  for (int i = 0; i < A.dimension(0); ++i) for (int j = 0; j < A.dimension(1); ++j) v.push_back(A(i, j));
  sec(os, name, v.empty() ? 0 : &v[0], v.size());
}
static void sec(std::ostream& os, const char* name, const std::vector<double>& v) { sec(os, name, v.empty() ? 0 : &v[0], v.size()); }
struct Seg { int start, count, step; };
static void declare(Stack& st, aVector& x, const std::vector<Seg>& segs, bool indep, std::vector<int>& flat) {
  for (size_t k = 0; k < segs.size(); ++k) {
    const Seg& s = segs[k];
    for (int i = 0; i < s.count; ++i) flat.push_back(s.start + i * s.step);
    if (s.count == 1) { if (indep) st.independent(x[s.start]); else st.dependent(x[s.start]); }
    else {
      int last = s.start + (s.count - 1) * s.step;
      if (indep) st.independent(x(stride(s.start, last, s.step))); else st.dependent(x(stride(s.start, last, s.step)));
    }
  }
}
int main(int argc, char** argv) {
  int nthreads = argc > 1 ? std::atoi(argv[1]) : 0;
  std::string line;
  long blocks_multi = 0;
  while (std::getline(std::cin, line)) {
    std::istringstream is(line);
    std::ostringstream os;
    Stack stack;
    if (nthreads > 0) stack.set_max_jacobian_threads(nthreads);
    int ng, ns; is >> ng >> ns;
    aVector x(ng);
    x = 0.0;
    stack.new_recording();
    for (int s = 0; s < ns; ++s) {
      int lhs, k; is >> lhs >> k;
      if (k == 0) stack.add_derivative_dependence(lhs, 0, 0.0);
      for (int j = 0; j < k; ++j) {
        int q, idx; is >> q >> idx;
        if (j == 0) stack.add_derivative_dependence(lhs, idx, q / 4.0);
        else stack.append_derivative_dependence(lhs, idx, q / 4.0);
      }
    }
    int nseg;
    std::vector<Seg> si, sd; std::vector<int> ind, dep;
    is >> nseg; for (int i = 0; i < nseg; ++i) { Seg s; is >> s.start >> s.count >> s.step; si.push_back(s); }
    is >> nseg; for (int i = 0; i < nseg; ++i) { Seg s; is >> s.start >> s.count >> s.step; sd.push_back(s); }
    declare(stack, x, si, true, ind);
    declare(stack, x, sd, false, dep);
    size_t n = ind.size(), m = dep.size();
    os << "N " << stack.n_independent() << " " << stack.n_dependent() << " | ";
    bool lists_ok = stack.n_independent() == (int)n && stack.n_dependent() == (int)m;
    std::vector<double> v;
    // tangent passes
    for (size_t j = 0; j < n; ++j) {
      stack.clear_gradients();
      x[ind[j]].set_gradient(1.0);
      stack.compute_tangent_linear();
      for (size_t d = 0; d < m; ++d) { double g = 0; x[dep[d]].get_gradient(g); v.push_back(g); }
    }
    sec(os, "F", v); v.clear();
    for (size_t d = 0; d < m; ++d) {
      stack.clear_gradients();
      x[dep[d]].set_gradient(1.0);
      stack.compute_adjoint();
      for (size_t j = 0; j < n; ++j) { double g = 0; x[ind[j]].get_gradient(g); v.push_back(g); }
    }
    sec(os, "R", v); v.clear();
    if (lists_ok && n > 0 && m > 0) {
      std::vector<double> buf(m * n);
      buf.assign(m * n, SENT); stack.jacobian_forward(&buf[0]); sec(os, "PF", buf);
      buf.assign(m * n, SENT); stack.jacobian_reverse(&buf[0]); sec(os, "PR", buf);
      buf.assign(m * n, SENT); stack.jacobian(&buf[0]); sec(os, "PA", buf);
      buf.assign(m * n, SENT); stack.jacobian_forward(&buf[0], 0, 1); sec(os, "QF", buf);
      buf.assign(m * n, SENT); stack.jacobian_reverse(&buf[0], 0, 1); sec(os, "QR", buf);
      { Matrix A(m, n);
        A = SENT; stack.jacobian_forward(A); secm(os, "MF", A);
        A = SENT; stack.jacobian_reverse(A); secm(os, "MR", A);
        A = SENT; stack.jacobian(A); secm(os, "MA", A); }
      { Matrix B(n, m);
        B = SENT; stack.jacobian_forward(B.T()); secm(os, "TF", B);
        B = SENT; stack.jacobian_reverse(B.T()); secm(os, "TR", B);
        B = SENT; stack.jacobian(B.T()); secm(os, "TA", B); }
      { Matrix big(2 * m + 1, 3 * n + 2);
        big = SENT; stack.jacobian_forward(big(stride(1, 2 * m - 1, 2), stride(2, 3 * n - 1, 3))); secm(os, "SF", big);
        big = SENT; stack.jacobian_reverse(big(stride(1, 2 * m - 1, 2), stride(2, 3 * n - 1, 3))); secm(os, "SR", big);
        big = SENT; stack.jacobian(big(stride(1, 2 * m - 1, 2), stride(2, 3 * n - 1, 3))); secm(os, "SA", big); }
      // the OpenMP sections of the model: same calls (parallel when built with -fopenmp and n or m > block width)
      buf.assign(m * n, SENT); stack.jacobian_forward(&buf[0]); sec(os, "OF", buf); sec(os, "OFr", buf);
      buf.assign(m * n, SENT); stack.jacobian_reverse(&buf[0]); sec(os, "OR", buf); sec(os, "ORr", buf);
      // harness-only sections: Matrix-returning forms (row i = dependent, column j = independent), wrong sizes
      { Matrix J = stack.jacobian(), JF = stack.jacobian_forward(), JR = stack.jacobian_reverse();
        std::vector<double> a, b, c;
        for (size_t i = 0; i < m; ++i) for (size_t j = 0; j < n; ++j) { a.push_back(J(i, j)); b.push_back(JF(i, j)); c.push_back(JR(i, j)); }
        os << "#dims " << J.dimension(0) << " " << J.dimension(1) << " | ";
        sec(os, "#J", a); sec(os, "#JF", b); sec(os, "#JR", c); }
      { int okx = 0;
        try { Matrix W(m + 1, n); stack.jacobian(W); } catch (size_mismatch&) { ++okx; } catch (...) {}
        try { Matrix W(m, n + 1); stack.jacobian_forward(W); } catch (size_mismatch&) { ++okx; } catch (...) {}
        try { Matrix W(n, m + 1); stack.jacobian_reverse(W.T()); } catch (size_mismatch&) { ++okx; } catch (...) {}
        os << "#X " << okx << " | "; }
    }
    os << "#stmts " << stack.n_statements() << " " << stack.n_operations() << " | ";
    std::cout << os.str() << "\n";
  }
#if defined(RJHOGAN_ADEPT_2_VERIF) && defined(_OPENMP)
  int nt = 0; long nb = 0;
  for (int i = 0; i < 64; ++i) if (verif_jacobian_blocks_by_thread[i]) { ++nt; nb += verif_jacobian_blocks_by_thread[i]; }
  std::cerr << "HOOK threads_used=" << nt << " blocks=" << nb << "\n";
#endif
  return 0;
}
