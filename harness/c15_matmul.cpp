// C15 harness: matmul(L,R) and L ** R for every pair of operand forms against the triple loop over the operands' element
// values (integer-valued data: exact in double whatever the order of summation), under AddressSanitizer (operands are
// tight heap blocks: an over-read is reported).  Active operands: the Jacobian of every result element with respect to
// every operand element against the derivative of the defining sum.
// Output:  P <left form> <right form> <m> <k> <n> <max |difference|> <ok|DIFF|EXC:what>
//          J <left form> <right form> <which operands are active> <m> <k> <n> <max |Jacobian difference|> <ok|DIFF|EXC:what>
//          B <description>   before each case (localises a crash)
#include <adept_arrays.h>
#include <cstdio>
#include <cmath>
#include <cstdlib>
#include <string>
#include <vector>
using namespace adept;

static int ival(int i, int j, int salt) { return ((i * 7 + j * 3 + salt * 5) % 9) - 4; }

// ---- dense operand forms: a logical m x k matrix with entries ival(i,j,salt) presented through different views
struct MForm { const char* name; };
static const char* MFORMS[] = { "row-major", "transposed(col-major)", "strided-rows", "strided-cols", "strided-both", "reversed-rows", "reversed-cols",
                                "sliced", "transposed-sliced", "col-major-storage" };
static const int N_MFORM = 10;
struct MHold { Matrix parent; Matrix view; };
static void make_matrix(int form, int m, int k, int salt, MHold& h) {
  Matrix& P = h.parent;
  switch (form) {
  case 0: P.resize(m, k); for (int i = 0; i < m; ++i) for (int j = 0; j < k; ++j) P(i, j) = ival(i, j, salt); h.view >>= P; break;
  case 1: P.resize(k, m); for (int i = 0; i < m; ++i) for (int j = 0; j < k; ++j) P(j, i) = ival(i, j, salt); h.view >>= P.T(); break;
  case 2: P.resize(2 * m, k); P = 99.0; for (int i = 0; i < m; ++i) for (int j = 0; j < k; ++j) P(2 * i, j) = ival(i, j, salt); h.view >>= P(stride(0, 2 * m - 2, 2), __); break;
  case 3: P.resize(m, 2 * k); P = 99.0; for (int i = 0; i < m; ++i) for (int j = 0; j < k; ++j) P(i, 2 * j) = ival(i, j, salt); h.view >>= P(__, stride(0, 2 * k - 2, 2)); break;
  case 4: P.resize(2 * m, 2 * k); P = 99.0; for (int i = 0; i < m; ++i) for (int j = 0; j < k; ++j) P(2 * i, 2 * j) = ival(i, j, salt);
          h.view >>= P(stride(0, 2 * m - 2, 2), stride(0, 2 * k - 2, 2)); break;
  case 5: P.resize(m, k); for (int i = 0; i < m; ++i) for (int j = 0; j < k; ++j) P(m - 1 - i, j) = ival(i, j, salt); h.view >>= P(stride(m - 1, 0, -1), __); break;
  case 6: P.resize(m, k); for (int i = 0; i < m; ++i) for (int j = 0; j < k; ++j) P(i, k - 1 - j) = ival(i, j, salt); h.view >>= P(__, stride(k - 1, 0, -1)); break;
  case 7: P.resize(m + 2, k + 3); P = 99.0; for (int i = 0; i < m; ++i) for (int j = 0; j < k; ++j) P(i + 1, j + 2) = ival(i, j, salt); h.view >>= P(range(1, m), range(2, k + 1)); break;
  case 8: P.resize(k + 1, m + 2); P = 99.0; for (int i = 0; i < m; ++i) for (int j = 0; j < k; ++j) P(j + 1, i + 1) = ival(i, j, salt); h.view >>= P(range(1, k), range(1, m)).T(); break;
  default: { bool keep = internal::array_row_major_order; set_array_row_major_order(false); P.resize(m, k); set_array_row_major_order(keep);
             for (int i = 0; i < m; ++i) for (int j = 0; j < k; ++j) P(i, j) = ival(i, j, salt); h.view >>= P; } break;
  }
}
static const char* VFORMS[] = { "contiguous", "stride-2", "reversed", "sliced", "stride-3-reversed" };
static const int N_VFORM = 5;
struct VHold { Vector parent; Vector view; };
static void make_vector(int form, int n, int salt, VHold& h) {
  Vector& P = h.parent;
  switch (form) {
  case 0: P.resize(n); for (int i = 0; i < n; ++i) P(i) = ival(i, 1, salt); h.view >>= P; break;
  case 1: P.resize(2 * n); P = 99.0; for (int i = 0; i < n; ++i) P(2 * i) = ival(i, 1, salt); h.view >>= P(stride(0, 2 * n - 2, 2)); break;
  case 2: P.resize(n); for (int i = 0; i < n; ++i) P(n - 1 - i) = ival(i, 1, salt); h.view >>= P(stride(n - 1, 0, -1)); break;
  case 3: P.resize(n + 3); P = 99.0; for (int i = 0; i < n; ++i) P(i + 2) = ival(i, 1, salt); h.view >>= P(range(2, n + 1)); break;
  default: P.resize(3 * n); P = 99.0; for (int i = 0; i < n; ++i) P(3 * (n - 1 - i)) = ival(i, 1, salt); h.view >>= P(stride(3 * (n - 1), 0, -3)); break;
  }
}

static std::string what_of(const std::exception& e) { std::string s = e.what(); for (size_t i = 0; i < s.size(); ++i) if (s[i] == ' ') s[i] = '_'; return s.substr(0, 60); }

template <class L, class R> static void product_mm(const char* lf, const char* rf, const L& l, const R& r, int m, int k, int n) {
  std::printf("B matmul %s x %s %d %d %d\n", lf, rf, m, k, n); std::fflush(stdout);
  try {
    Matrix Ld = l, Rd = r;
    Matrix C1 = matmul(l, r), C2 = l ** r;
    double d = 0;
    if (C1.dimension(0) != m || C1.dimension(1) != n || C2.dimension(0) != m || C2.dimension(1) != n) d = 1e9;
    else for (int i = 0; i < m; ++i) for (int j = 0; j < n; ++j) { double s = 0; for (int q = 0; q < k; ++q) s += Ld(i, q) * Rd(q, j);
      d = std::max(d, std::max(std::fabs(C1(i, j) - s), std::fabs(C2(i, j) - s))); }
    std::printf("P %s %s %d %d %d %g %s\n", lf, rf, m, k, n, d, d == 0 ? "ok" : "DIFF");
  } catch (const std::exception& e) { std::printf("P %s %s %d %d %d -1 EXC:%s\n", lf, rf, m, k, n, what_of(e).c_str()); }
}
template <class L, class R> static void product_mv(const char* lf, const char* rf, const L& l, const R& r, int m, int k) {
  std::printf("B matmul %s x vector:%s %d %d\n", lf, rf, m, k); std::fflush(stdout);
  try {
    Matrix Ld = l; Vector rd = r;
    Vector c1 = matmul(l, r), c2 = l ** r;
    double d = 0;
    if (c1.size() != m || c2.size() != m) d = 1e9;
    else for (int i = 0; i < m; ++i) { double s = 0; for (int q = 0; q < k; ++q) s += Ld(i, q) * rd(q); d = std::max(d, std::max(std::fabs(c1(i) - s), std::fabs(c2(i) - s))); }
    std::printf("P %s vector:%s %d %d 1 %g %s\n", lf, rf, m, k, d, d == 0 ? "ok" : "DIFF");
  } catch (const std::exception& e) { std::printf("P %s vector:%s %d %d 1 -1 EXC:%s\n", lf, rf, m, k, what_of(e).c_str()); }
}
template <class L, class R> static void product_vm(const char* lf, const char* rf, const L& l, const R& r, int k, int n) {
  std::printf("B matmul vector:%s x %s %d %d\n", lf, rf, k, n); std::fflush(stdout);
  try {
    Vector ld = l; Matrix Rd = r;
    Vector c1 = matmul(l, r), c2 = l ** r;
    double d = 0;
    if (c1.size() != n || c2.size() != n) d = 1e9;
    else for (int j = 0; j < n; ++j) { double s = 0; for (int q = 0; q < k; ++q) s += ld(q) * Rd(q, j); d = std::max(d, std::max(std::fabs(c1(j) - s), std::fabs(c2(j) - s))); }
    std::printf("P vector:%s %s 1 %d %d %g %s\n", lf, rf, k, n, d, d == 0 ? "ok" : "DIFF");
  } catch (const std::exception& e) { std::printf("P vector:%s %s 1 %d %d -1 EXC:%s\n", lf, rf, k, n, what_of(e).c_str()); }
}

// strides of both operands and the product, for the model (dense x dense and dense x vector)
static void describe_mm(const char* lf, const char* rf, const Matrix& l, const Matrix& r, int m, int k, int n) {
  try { Matrix C = matmul(l, r);
    std::printf("D mm %d %d %d | %d %d | %d %d |", m, k, n, (int)l.offset(0), (int)l.offset(1), (int)r.offset(0), (int)r.offset(1));
    for (int i = 0; i < m; ++i) for (int j = 0; j < n; ++j) std::printf(" %.17g", C(i, j)); std::printf("\n"); } catch (...) { }
}
static void describe_mv(const Matrix& l, const Vector& v, int m, int k) {
  try { Vector c = matmul(l, v);
    std::printf("D mv %d %d 1 | %d %d | %d 0 |", m, k, (int)l.offset(0), (int)l.offset(1), (int)v.offset(0));
    for (int i = 0; i < m; ++i) std::printf(" %.17g", c(i)); std::printf("\n"); } catch (...) { }
}
// ---- special matrices (n x n), filled through element access
template <class S> static void fill_special(S& s, int n, int salt) {
  s.resize(n);
  for (int i = 0; i < n; ++i) for (int j = 0; j < n; ++j) {
    // only write elements the engine stores (lvalue access to a zero element throws)
    try { s(i, j) = ival(std::min(i, j), std::max(i, j), salt); } catch (...) { }
  }
}
template <class S> static void special_cases(const char* name, int n, int salt) {
  S s; fill_special(s, n, salt);
  for (int rf = 0; rf < N_MFORM; ++rf) { MHold r; make_matrix(rf, n, 3, salt + 1, r); product_mm(name, MFORMS[rf], s, r.view, n, n, 3); }
  for (int lf = 0; lf < N_MFORM; ++lf) { MHold l; make_matrix(lf, 2, n, salt + 2, l); product_mm(MFORMS[lf], name, l.view, s, 2, n, n); }
  for (int vf = 0; vf < N_VFORM; ++vf) { VHold v; make_vector(vf, n, salt + 3, v); product_mv(name, VFORMS[vf], s, v.view, n, n); product_vm(VFORMS[vf], name, v.view, s, n, n); }
  // the transpose of a DiagMatrix is the subject of a recorded finding of C17 (diagmatrix-transpose), not of the product
  if (std::string(name) != "DiagMatrix") product_mm((std::string(name) + ".T()").c_str(), "row-major", s.T(), Matrix(s), n, n, n);
}

// the same products with a sub-matrix view of a larger special matrix (dimension n, offset that of the parent of size n+2)
template <class S> static void special_view_cases(const char* name, int n, int salt) {
  S parent; fill_special(parent, n + 2, salt + 20);
  S s = parent.submatrix_on_diagonal(1, n);
  std::string nm = std::string(name) + "(sub)";
  for (int rf = 0; rf < N_MFORM; rf += 3) { MHold r; make_matrix(rf, n, 3, salt + 1, r); product_mm(nm.c_str(), MFORMS[rf], s, r.view, n, n, 3); }
  for (int lf = 0; lf < N_MFORM; lf += 3) { MHold l; make_matrix(lf, 2, n, salt + 2, l); product_mm(MFORMS[lf], nm.c_str(), l.view, s, 2, n, n); }
  for (int vf = 0; vf < N_VFORM; ++vf) { VHold v; make_vector(vf, n, salt + 3, v); product_mv(nm.c_str(), VFORMS[vf], s, v.view, n, n); product_vm(VFORMS[vf], nm.c_str(), v.view, s, n, n); }
}

// ---- active operands: Jacobians
template <bool A> struct Decl { template <class X> static void indep(Stack& s, const X& x) { s.independent(x); } };
template <> struct Decl<false> { template <class X> static void indep(Stack&, const X&) { } };
template <bool LA, bool RA> static void jacobian_mm(int lf, int rf, int m, int k, int n) {
  const char* act = LA ? (RA ? "both" : "left") : "right";
  std::printf("B active matmul %s x %s (%s active) %d %d %d\n", MFORMS[lf], MFORMS[rf], act, m, k, n); std::fflush(stdout);
  try {
    Stack stack;
    MHold lh, rh; make_matrix(lf, m, k, 1, lh); make_matrix(rf, k, n, 2, rh);
    Array<2, double, LA> Lp(lh.parent.dimension(0), lh.parent.dimension(1)); Array<2, double, RA> Rp(rh.parent.dimension(0), rh.parent.dimension(1));
    Lp = lh.parent; Rp = rh.parent;
    // the same views on the active copies
    Array<2, double, LA> L; Array<2, double, RA> R;
    switch (lf) { case 0: L >>= Lp; break; case 1: L >>= Lp.T(); break; case 2: L >>= Lp(stride(0, 2 * m - 2, 2), __); break; case 7: L >>= Lp(range(1, m), range(2, k + 1)); break;
                  case 8: L >>= Lp(range(1, k), range(1, m)).T(); break; default: L >>= Lp; }
    switch (rf) { case 0: R >>= Rp; break; case 1: R >>= Rp.T(); break; case 2: R >>= Rp(stride(0, 2 * k - 2, 2), __); break; case 7: R >>= Rp(range(1, k), range(2, n + 1)); break;
                  case 8: R >>= Rp(range(1, n), range(1, k)).T(); break; default: R >>= Rp; }
    stack.new_recording();
    Array<2, double, true> C = matmul(L, R);
    Decl<LA>::indep(stack, L); Decl<RA>::indep(stack, R);
    stack.dependent(C);
    int nin = (LA ? m * k : 0) + (RA ? k * n : 0), nout = m * n;
    std::vector<double> jac(nin * nout, -7.0);
    stack.jacobian(&jac[0]);
    double d = 0;
    Matrix Ld = value(L), Rd = value(R);
    for (int i = 0; i < m; ++i) for (int j = 0; j < n; ++j) {
      int out = i * n + j;
      for (int a = 0; a < m; ++a) for (int q = 0; q < k; ++q) if (LA) { double e = (a == i) ? Rd(q, j) : 0.0; d = std::max(d, std::fabs(jac[(a * k + q) * nout + out] - e)); }
      for (int q = 0; q < k; ++q) for (int b = 0; b < n; ++b) if (RA) { double e = (b == j) ? Ld(i, q) : 0.0; d = std::max(d, std::fabs(jac[((LA ? m * k : 0) + q * n + b) * nout + out] - e)); }
    }
    std::printf("J %s %s %s %d %d %d %g %s\n", MFORMS[lf], MFORMS[rf], act, m, k, n, d, d == 0 ? "ok" : "DIFF");
  } catch (const std::exception& e) { std::printf("J %s %s %s %d %d %d -1 EXC:%s\n", MFORMS[lf], MFORMS[rf], act, m, k, n, what_of(e).c_str()); }
}
template <bool LA, bool RA> static void jacobian_mv(int lf, int vf, int m, int k) {
  const char* act = LA ? (RA ? "both" : "left") : "right";
  std::printf("B active matmul %s x vector:%s (%s active) %d %d\n", MFORMS[lf], VFORMS[vf], act, m, k); std::fflush(stdout);
  try {
    Stack stack;
    MHold lh; make_matrix(lf, m, k, 1, lh); VHold vh; make_vector(vf, k, 2, vh);
    Array<2, double, LA> Lp(lh.parent.dimension(0), lh.parent.dimension(1)); Lp = lh.parent;
    Array<1, double, RA> Vp(vh.parent.size()); Vp = vh.parent;
    Array<2, double, LA> L; Array<1, double, RA> V;
    switch (lf) { case 1: L >>= Lp.T(); break; case 2: L >>= Lp(stride(0, 2 * m - 2, 2), __); break; case 7: L >>= Lp(range(1, m), range(2, k + 1)); break; default: L >>= Lp; }
    switch (vf) { case 1: V >>= Vp(stride(0, 2 * k - 2, 2)); break; case 3: V >>= Vp(range(2, k + 1)); break; default: V >>= Vp; }
    stack.new_recording();
    Array<1, double, true> c = matmul(L, V);
    Decl<LA>::indep(stack, L); Decl<RA>::indep(stack, V);
    stack.dependent(c);
    int nin = (LA ? m * k : 0) + (RA ? k : 0), nout = m;
    std::vector<double> jac(nin * nout, -7.0);
    stack.jacobian(&jac[0]);
    double d = 0; Matrix Ld = value(L); Vector vd = value(V);
    for (int i = 0; i < m; ++i) {
      for (int a = 0; a < m; ++a) for (int q = 0; q < k; ++q) if (LA) { double e = (a == i) ? vd(q) : 0.0; d = std::max(d, std::fabs(jac[(a * k + q) * nout + i] - e)); }
      for (int q = 0; q < k; ++q) if (RA) d = std::max(d, std::fabs(jac[((LA ? m * k : 0) + q) * nout + i] - Ld(i, q)));
    }
    std::printf("J %s vector:%s %s %d %d 1 %g %s\n", MFORMS[lf], VFORMS[vf], act, m, k, d, d == 0 ? "ok" : "DIFF");
  } catch (const std::exception& e) { std::printf("J %s vector:%s %s %d %d 1 -1 EXC:%s\n", MFORMS[lf], VFORMS[vf], act, m, k, what_of(e).c_str()); }
}

// band matrix (passive) times an active vector of every form, and the same with the transposed (column-major) band: the
// Jacobian of each result element with respect to the vector's parent elements against the band's own element values
template <class S> static void jacobian_band_mv(const char* name, int vf, int n, int salt, bool transposed) {
  std::printf("B active matmul %s%s x vector:%s (right active) %d\n", name, transposed ? ".T()" : "", VFORMS[vf], n); std::fflush(stdout);
  try {
    Stack stack;
    S sm(n); Matrix dense(n, n); dense = 0.0;
    for (int i = 0; i < n; ++i) for (int j = 0; j < n; ++j) { double v = 1.0 + ((i * 7 + j * 3 + salt * 5) % 9); try { sm(i, j) = v; } catch (const std::exception&) { } }   // outside the band: no lvalue
    dense = sm;
    VHold vh; make_vector(vf, n, 2, vh);
    aVector Vp(vh.parent.size()); Vp = vh.parent;
    aVector V;
    switch (vf) { case 1: V >>= Vp(stride(0, 2 * n - 2, 2)); break; case 2: V >>= Vp(stride(n - 1, 0, -1)); break; case 3: V >>= Vp(range(2, n + 1)); break;
                  case 4: V >>= Vp(stride(3 * n - 3, 0, -3)); break; default: V >>= Vp; }
    stack.new_recording();
    aVector c = transposed ? aVector(sm.T() ** V) : aVector(sm ** V);
    stack.independent(V); stack.dependent(c);
    std::vector<double> jac(n * n, -7.0);
    stack.jacobian(&jac[0]);
    double d = 0;
    for (int i = 0; i < n; ++i) for (int q = 0; q < n; ++q) { double e = transposed ? dense(q, i) : dense(i, q); d = std::max(d, std::fabs(jac[q * n + i] - e)); }
    std::printf("J %s%s vector:%s right %d %d 1 %g %s\n", name, transposed ? ".T()" : "", VFORMS[vf], n, n, d, d == 0 ? "ok" : "DIFF");
  } catch (const std::exception& e) { std::printf("J %s%s vector:%s right %d %d 1 -1 EXC:%s\n", name, transposed ? ".T()" : "", VFORMS[vf], n, n, what_of(e).c_str()); }
}

int main(int argc, char** argv) {
  int sizes[][3] = { {1, 1, 1}, {2, 3, 1}, {1, 2, 3}, {3, 1, 2}, {2, 2, 2}, {3, 4, 5}, {5, 3, 2} };
  int nsz = argc > 1 ? std::atoi(argv[1]) : 7;
  for (int si = 0; si < nsz && si < 7; ++si) {
    int m = sizes[si][0], k = sizes[si][1], n = sizes[si][2];
    for (int lf = 0; lf < N_MFORM; ++lf) for (int rf = 0; rf < N_MFORM; ++rf) {
      MHold l, r; make_matrix(lf, m, k, 1, l); make_matrix(rf, k, n, 2, r);
      product_mm(MFORMS[lf], MFORMS[rf], l.view, r.view, m, k, n);
      describe_mm(MFORMS[lf], MFORMS[rf], l.view, r.view, m, k, n);
    }
    for (int lf = 0; lf < N_MFORM; ++lf) for (int vf = 0; vf < N_VFORM; ++vf) {
      MHold l; make_matrix(lf, m, k, 1, l); VHold v; make_vector(vf, k, 2, v);
      product_mv(MFORMS[lf], VFORMS[vf], l.view, v.view, m, k);
      describe_mv(l.view, v.view, m, k);
      MHold r; make_matrix(lf, k, n, 3, r); VHold w; make_vector(vf, k, 4, w);
      product_vm(VFORMS[vf], MFORMS[lf], w.view, r.view, k, n);
    }
    // expressions and fixed-size operands
    { MHold l, r; make_matrix(0, m, k, 1, l); make_matrix(1, k, n, 2, r); Matrix Z(m, k); Z = 0.0;
      product_mm("expression", "transposed(col-major)", l.view + Z, r.view, m, k, n);
      product_mm("row-major", "expression", l.view, r.view * 1.0, m, k, n);
      VHold v; make_vector(1, k, 2, v); product_mv("expression", "stride-2", l.view + Z, v.view, m, k); product_mv("row-major", "expression", l.view, v.view * 1.0, m, k); }
  }
  { FixedArray<double, false, 2, 3> f; FixedArray<double, false, 3, 2> g; FixedArray<double, false, 3> fv;
    for (int i = 0; i < 2; ++i) for (int j = 0; j < 3; ++j) { f(i, j) = ival(i, j, 1); g(j, i) = ival(j, i, 2); } for (int j = 0; j < 3; ++j) fv(j) = ival(j, 1, 3);
    product_mm("fixed", "fixed", f, g, 2, 3, 2); product_mv("fixed", "fixed", f, fv, 2, 3); product_vm("fixed", "fixed", fv, g, 3, 2);
    MHold r; make_matrix(1, 3, 4, 5, r); product_mm("fixed", "transposed(col-major)", f, r.view, 2, 3, 4); }
  for (int n = 1; n <= 5; ++n) {
    if (nsz < 7 && n > 3) break;
    special_cases<SymmMatrix>("SymmMatrix", n, 1);
    special_cases<SpecialMatrix<double, internal::SymmEngine<ROW_UPPER_COL_LOWER>, false> >("SymmMatrix(upper)", n, 2);
    special_cases<SquareMatrix>("SquareMatrix", n, 3);
    special_cases<UpperMatrix>("UpperMatrix", n, 4);
    special_cases<LowerMatrix>("LowerMatrix", n, 5);
    special_cases<TridiagMatrix>("TridiagMatrix", n, 6);
    special_cases<DiagMatrix>("DiagMatrix", n, 7);
    special_cases<SpecialMatrix<double, internal::BandEngine<ROW_MAJOR, 1, 2>, false> >("Band<row,1,2>", n, 8);
    special_cases<SpecialMatrix<double, internal::BandEngine<ROW_MAJOR, 2, 0>, false> >("Band<row,2,0>", n, 9);
    special_view_cases<SymmMatrix>("SymmMatrix", n, 1);
    special_view_cases<SpecialMatrix<double, internal::SymmEngine<ROW_UPPER_COL_LOWER>, false> >("SymmMatrix(upper)", n, 2);
    special_view_cases<SquareMatrix>("SquareMatrix", n, 3);
    special_view_cases<UpperMatrix>("UpperMatrix", n, 4);
    special_view_cases<LowerMatrix>("LowerMatrix", n, 5);
    special_view_cases<TridiagMatrix>("TridiagMatrix", n, 6);
    special_view_cases<SpecialMatrix<double, internal::BandEngine<ROW_MAJOR, 1, 2>, false> >("Band<row,1,2>", n, 8);
  }
  int af[] = {0, 1, 2, 7, 8};
  for (int a = 0; a < 5; ++a) for (int b = 0; b < 5; ++b) {
    jacobian_mm<true, true>(af[a], af[b], 2, 3, 2); jacobian_mm<true, false>(af[a], af[b], 3, 2, 2); jacobian_mm<false, true>(af[a], af[b], 2, 2, 3);
  }
  for (int vf = 0; vf < 5; ++vf) for (int n = 3; n <= 5; ++n) for (int t = 0; t < 2; ++t) {
    jacobian_band_mv<TridiagMatrix>("TridiagMatrix", vf, n, 6, t);
    jacobian_band_mv<SpecialMatrix<double, internal::BandEngine<ROW_MAJOR, 1, 2>, false> >("Band<row,1,2>", vf, n, 8, t);
    jacobian_band_mv<SpecialMatrix<double, internal::BandEngine<ROW_MAJOR, 2, 0>, false> >("Band<row,2,0>", vf, n, 9, t);
  }
  int avf[] = {0, 1, 3}; int amf[] = {0, 1, 2, 7};
  for (int a = 0; a < 4; ++a) for (int b = 0; b < 3; ++b) { jacobian_mv<true, true>(amf[a], avf[b], 2, 3); jacobian_mv<true, false>(amf[a], avf[b], 3, 2); jacobian_mv<false, true>(amf[a], avf[b], 2, 2); }
  return 0;
}
