// C05 harness.  One binary per instruction-set build.  Modes:
//   assign <full|thin>  : every length 0..4w+3 x alignment offsets of target and operands x operation classes,
//                         rank 1 and rank 2 (padded rows), contiguous and strided operands.  For every
//                         configuration prints the element address (mod packet width) of each operand, the
//                         hook counters (scalar prologue, packets, scalar epilogue) and the number of
//                         elements that differ from (1) the same Adept statement forced on the scalar path and
//                         (2) a plain C++ loop, including the guard elements around the target.
//   reduce <full|thin>  : sum, product, maxval, minval, norm2, mean over the same sweep; prints the hook
//                         counters, |vectorized - scalar| and the re-association bound.
//   fastexp             : scalar against packet form bit by bit, ulp distance from expl, recorded derivative,
//                         and a table of results on a fixed grid (compared between builds by the driver).
#include <adept_arrays.h>
#include <adept.h>
#include <cmath>
#include <cstdio>
#include <cstring>
#include <cstdlib>
#include <limits>
#include <string>
#include <vector>
using namespace adept;

template <typename T> struct Name;
template <> struct Name<float> { static const char* s() { return "f"; } };
template <> struct Name<double> { static const char* s() { return "d"; } };
template <typename T> static long amod(const T* p, int w) { return (long)((reinterpret_cast<std::size_t>(p) / sizeof(T)) % (std::size_t)w); }
template <typename T> static bool same(T a, T b) { return a == b || (a != a && b != b); }
static void reset_log() { adept::verif::simd_log().head = adept::verif::simd_log().packets = adept::verif::simd_log().tail = 0; }

static unsigned long long rng_state = 0x9E3779B97F4A7C15ULL;
static double rnd() {   // (0,1)
  rng_state ^= rng_state << 13; rng_state ^= rng_state >> 7; rng_state ^= rng_state << 17;
  return ((rng_state >> 11) + 0.5) / 9007199254740992.0;
}
template <typename T> static T val() {   // finite values of mixed magnitude and sign, never 0
  double m = 0.5 + rnd(); int e = (int)(rnd() * 9) - 4; double s = rnd() < 0.35 ? -1.0 : 1.0;
  return (T)(s * std::ldexp(m, e));
}

enum { N_CLASS = 4 };
// 0: every operation except fastexp (builds with contraction disabled: the scalar form of fastexp is written with
// x*y+z, which only equals the packet form's fused operation when the compiler contracts it); 1: fastexp only
static int fx_mode = 0;
// operation classes: which operands take part in the alignment negotiation
//  0: unary  (a)      : copy, -a, sqrt(|a| stored positive), fastexp(a)
//  1: binary (a,b)    : + - * / max min
//  2: ternary(a,b,c)  : a*b+c, (a-b)/c, max(a,b)*c
//  3: scalar (a,const): a+1.5, 2.5*a, a/3, max(a,0.25)
template <typename T, class V> struct Ops {
  // apply operation k of class c; returns false if no such k
  static bool apply(int c, int k, V& t, const V& a, const V& b, const V& cc) {
    switch (c * 10 + k) {
    case 0: if (fx_mode == 1) { t = fastexp(a); return true; } t = a; return true;
    case 1: if (fx_mode == 1) return false; t = -a; return true;
    case 2: t = sqrt(a * a); return true;
    case 3: if (fx_mode == 0) { t = a; return true; } t = fastexp(a); return true;
    case 10: t = a + b; return true;
    case 11: t = a - b; return true;
    case 12: t = a * b; return true;
    case 13: t = a / b; return true;
    case 14: t = max(a, b); return true;
    case 15: t = min(a, b); return true;
    case 20: t = a * b + cc; return true;
    case 21: t = (a - b) / cc; return true;
    case 22: t = max(a, b) * cc; return true;
    case 30: t = a + T(1.5); return true;
    case 31: t = T(2.5) * a; return true;
    case 32: t = a / T(3); return true;
    case 33: t = max(a, T(0.25)); return true;
    }
    return false;
  }
  // plain C++ for the operations whose scalar meaning is unambiguous; returns false when not covered
  static bool plain(int c, int k, T a, T b, T cc, T& r) {
    switch (c * 10 + k) {
    case 0: if (fx_mode == 1) return false; r = a; return true;
    case 1: r = -a; return true;
    case 2: r = std::sqrt(a * a); return true;
    case 10: r = a + b; return true;
    case 11: r = a - b; return true;
    case 12: r = a * b; return true;
    case 13: r = a / b; return true;
    case 14: r = a < b ? b : a; return true;
    case 15: r = a < b ? a : b; return true;
    case 20: { volatile T p = a * b; r = p + cc; return true; }
    case 21: { volatile T p = a - b; r = p / cc; return true; }
    case 30: r = a + T(1.5); return true;
    case 31: r = T(2.5) * a; return true;
    }
    return false;
  }
};

// ---------------------------------------------------------------- rank 1
template <typename T> static void assign_rank1(bool full) {
  const int W = internal::Packet<T>::size;
  typedef Array<1, T, false> V;
  const int NP = 4 * W + 3 + 3 * W;
  V TP(NP), AP(NP), BP(NP), CP(NP), RP(NP), SA(2 * NP), SB(2 * NP), SC(2 * NP);
  for (int n = 0; n <= 4 * W + 3; ++n)
    for (int ot = 0; ot < W; ++ot)
      for (int oa = 0; oa < W; ++oa)
        for (int obi = 0; obi < W; ++obi) {
          int ob = obi;
          if (!full && W > 4) { if (obi > 2) break; ob = obi == 0 ? oa : (obi == 1 ? (oa + 1) % W : 0); }
          int oc = (oa + 2 * ob) % W;
          for (int i = 0; i < NP; ++i) { AP(i) = val<T>(); BP(i) = val<T>(); CP(i) = val<T>(); }
          for (int i = 0; i < NP; ++i) { SA(2 * i) = AP(i); SB(2 * i) = BP(i); SC(2 * i) = CP(i); }
          if (n == 0) continue;
          V t = TP(range(ot, ot + n - 1)), a = AP(range(oa, oa + n - 1)), b = BP(range(ob, ob + n - 1)), c = CP(range(oc, oc + n - 1));
          V r = RP(range(ot, ot + n - 1));
          // the same data through strided (never vectorized) views: Adept's own scalar evaluation
          V sa = SA(stride(2 * oa, 2 * (oa + n - 1), 2)), sb = SB(stride(2 * ob, 2 * (ob + n - 1), 2)), sc = SC(stride(2 * oc, 2 * (oc + n - 1), 2));
          for (int cls = 0; cls < (fx_mode == 1 ? 1 : N_CLASS); ++cls) {
            long head = -1, packets = -1, tail = -1; int mism = 0, mism_plain = 0, inconsistent = 0;
            for (int k = 0; k < 10; ++k) {
              for (int i = 0; i < NP; ++i) { TP(i) = T(-1000 - i); RP(i) = T(-1000 - i); }
              reset_log();
              if (!Ops<T, V>::apply(cls, k, t, a, b, c)) break;
              long h = adept::verif::simd_log().head, p = adept::verif::simd_log().packets, tl = adept::verif::simd_log().tail;
              if (head < 0) { head = h; packets = p; tail = tl; } else if (h != head || p != packets || tl != tail) ++inconsistent;
              reset_log();
              Ops<T, V>::apply(cls, k, r, sa, sb, sc);
              if (adept::verif::simd_log().packets != 0) ++inconsistent;   // the reference must have been scalar
              for (int i = 0; i < NP; ++i) if (!same(TP(i), RP(i))) ++mism;
              for (int i = 0; i < n; ++i) { T x; if (Ops<T, V>::plain(cls, k, a(i), b(i), c(i), x) && !same(t(i), x)) ++mism_plain; }
            }
            std::printf("A %s %d 1 1 %d %d %ld %ld %ld %ld 1 %ld %ld %ld %d %d %d\n", Name<T>::s(), W, n, cls,
                        amod(t.const_data(), W), amod(a.const_data(), W), amod(b.const_data(), W), amod(c.const_data(), W),
                        head, packets, tail, mism, mism_plain, inconsistent);
          }
          // one strided operand: the whole statement must take the scalar path
          if (ob == oa) {
            for (int i = 0; i < NP; ++i) { TP(i) = T(-1000 - i); RP(i) = T(-1000 - i); }
            reset_log(); t = a + sb; long h = adept::verif::simd_log().head, p = adept::verif::simd_log().packets, tl = adept::verif::simd_log().tail;
            r = sa + sb; int mism = 0; for (int i = 0; i < NP; ++i) if (!same(TP(i), RP(i))) ++mism;
            std::printf("A %s %d 1 1 %d 1 %ld %ld %ld %ld 0 %ld %ld %ld %d 0 0\n", Name<T>::s(), W, n, amod(t.const_data(), W), amod(a.const_data(), W),
                        amod(sb.const_data(), W), amod(c.const_data(), W), h, p, tl, mism);
          }
        }
}

// ---------------------------------------------------------------- rank 2 (rows padded by pack_row_major_)
template <typename T> static void assign_rank2(bool full) {
  const int W = internal::Packet<T>::size;
  typedef Array<2, T, false> M;
  const int NC = 4 * W + 3 + 3 * W, NR = 3;
  M TP(NR, NC), AP(NR, NC), BP(NR, NC), CP(NR, NC), RP(NR, NC), SA(NR, 2 * NC), SB(NR, 2 * NC), SC(NR, 2 * NC);
  for (int n = 0; n <= 4 * W + 3; ++n)
    for (int ot = 0; ot < W; ++ot)
      for (int oai = 0; oai < W; ++oai) {
        int oa = oai;
        if (!full) { if (oai > 2) break; oa = oai == 0 ? ot : (oai == 1 ? (ot + 1) % W : 0); }
        for (int obi = 0; obi < 3; ++obi) {
          int ob = obi == 0 ? oa : (obi == 1 ? (oa + 1) % W : 0);
          int oc = (oa + 2 * ob) % W;
          for (int j = 0; j < NR; ++j) for (int i = 0; i < NC; ++i) {
            AP(j, i) = val<T>(); BP(j, i) = val<T>(); CP(j, i) = val<T>();
            SA(j, 2 * i) = AP(j, i); SB(j, 2 * i) = BP(j, i); SC(j, 2 * i) = CP(j, i);
          }
          if (n == 0) continue;
          M t = TP(__, range(ot, ot + n - 1)), a = AP(__, range(oa, oa + n - 1)), b = BP(__, range(ob, ob + n - 1)), c = CP(__, range(oc, oc + n - 1));
          M r = RP(__, range(ot, ot + n - 1));
          M sa = SA(__, stride(2 * oa, 2 * (oa + n - 1), 2)), sb = SB(__, stride(2 * ob, 2 * (ob + n - 1), 2)), sc = SC(__, stride(2 * oc, 2 * (oc + n - 1), 2));
          for (int cls = 0; cls < (fx_mode == 1 ? 1 : N_CLASS); ++cls) {
            long head = -1, packets = -1, tail = -1; int mism = 0, mism_plain = 0, inconsistent = 0;
            for (int k = 0; k < 10; ++k) {
              for (int j = 0; j < NR; ++j) for (int i = 0; i < NC; ++i) { TP(j, i) = T(-1000 - i); RP(j, i) = T(-1000 - i); }
              reset_log();
              if (!Ops<T, M>::apply(cls, k, t, a, b, c)) break;
              long h = adept::verif::simd_log().head, p = adept::verif::simd_log().packets, tl = adept::verif::simd_log().tail;
              if (head < 0) { head = h; packets = p; tail = tl; } else if (h != head || p != packets || tl != tail) ++inconsistent;
              reset_log();
              Ops<T, M>::apply(cls, k, r, sa, sb, sc);
              if (adept::verif::simd_log().packets != 0) ++inconsistent;
              for (int j = 0; j < NR; ++j) for (int i = 0; i < NC; ++i) if (!same(TP(j, i), RP(j, i))) ++mism;
              for (int j = 0; j < NR; ++j) for (int i = 0; i < n; ++i) { T x; if (Ops<T, M>::plain(cls, k, a(j, i), b(j, i), c(j, i), x) && !same(t(j, i), x)) ++mism_plain; }
            }
            std::printf("A %s %d 2 %d %d %d %ld %ld %ld %ld %d %ld %ld %ld %d %d %d\n", Name<T>::s(), W, NR, n, cls,
                        amod(t.const_data(), W), amod(a.const_data(), W), amod(b.const_data(), W), amod(c.const_data(), W),
                        (int)(t.offset(0) % W == 0 && a.offset(0) % W == 0 && (cls == 0 || cls == 3 || b.offset(0) % W == 0) && (cls != 2 || c.offset(0) % W == 0)),
                        head, packets, tail, mism, mism_plain, inconsistent);
          }
        }
      }
  // a parent whose row stride is not a multiple of the packet width (user-supplied memory): rows change
  // alignment, so the statement must not take the packet path
  {
    const int n = 3 * W + 1, rs = n + 1;   // rs odd multiple-free for every W >= 2 when n = 3W+1: rs = 3W+2; not multiple of W for W > 2; W = 2 gives 8
    int rstride = (rs % W == 0) ? rs + 1 : rs;
    std::vector<T> buf_t((NR + 1) * rstride + 4 * W), buf_a((NR + 1) * rstride + 4 * W);
    T* pt = &buf_t[0]; while (amod(pt, W) != 0) ++pt;
    T* pa = &buf_a[0]; while (amod(pa, W) != 0) ++pa;
    for (int i = 0; i < NR * rstride; ++i) { pa[i] = val<T>(); pt[i] = T(-7); }
    M t(pt, 0, dimensions(NR, n), dimensions(rstride, 1)); M a(pa, 0, dimensions(NR, n), dimensions(rstride, 1));
    reset_log(); t = a + a;
    long h = adept::verif::simd_log().head, p = adept::verif::simd_log().packets, tl = adept::verif::simd_log().tail;
    int mism = 0; for (int j = 0; j < NR; ++j) for (int i = 0; i < n; ++i) if (!same(t(j, i), a(j, i) + a(j, i))) ++mism;
    std::printf("A %s %d 2 %d %d 1 0 0 0 0 0 %ld %ld %ld %d 0 0\n", Name<T>::s(), W, NR, n, h, p, tl, mism);
  }
}


// ---------------------------------------------------------------- operands with explicit strides, FixedArray operands
// G type w rank d0..d(r-1) kind | mt st0..st(r-1) | ma sa0..sa(r-1) | head packets tail mism     (kind 0: t = a + a, 1: sum(a))
template <typename T, class A> static void g_line(int rank, const int* d, int kind, const T* tp, const int* st, const T* ap, const int* sa,
                                                  long h, long p, long tl, int mism) {
  const int W = internal::Packet<T>::size;
  std::printf("G %s %d %d", Name<T>::s(), W, rank);
  for (int i = 0; i < rank; ++i) std::printf(" %d", d[i]);
  std::printf(" %d %ld", kind, amod(tp, W)); for (int i = 0; i < rank; ++i) std::printf(" %d", st[i]);
  std::printf(" %ld", amod(ap, W)); for (int i = 0; i < rank; ++i) std::printf(" %d", sa[i]);
  std::printf(" %ld %ld %ld %d\n", h, p, tl, mism);
}
template <typename T> static T* aligned_in(std::vector<T>& buf, int W, int shift) { T* p = &buf[0]; while (amod(p, W) != 0) ++p; return p + shift; }
template <typename T> static void general_rank3() {
  const int W = internal::Packet<T>::size;
  typedef Array<3, T, false> A3;
  const int n = 3 * W + 1, rowpad = 4 * W;
  int rstrides[] = { rowpad, rowpad + 1, n };            // padded, unpadded rows
  int pextra[] = { 0, 1, W, W + 1, 2 * W };             // plane stride = 2 * row stride + extra
  for (int ri = 0; ri < 3; ++ri) for (int pi = 0; pi < 5; ++pi) for (int sh = 0; sh < W; sh += (W > 4 ? 3 : 1)) {
    int rs = rstrides[ri], ps = 2 * rs + pextra[pi];
    std::vector<T> bt(3 * ps + 8 * W), ba(3 * ps + 8 * W);
    T* pt = aligned_in(bt, W, sh); T* pa = aligned_in(ba, W, sh);
    A3 t(pt, 0, dimensions(2, 2, n), dimensions(ps, rs, 1)), a(pa, 0, dimensions(2, 2, n), dimensions(ps, rs, 1));
    for (int i = 0; i < 2; ++i) for (int j = 0; j < 2; ++j) for (int k = 0; k < n; ++k) { a(i, j, k) = val<T>(); t(i, j, k) = T(-3); }
    int d[3] = { 2, 2, n }, st[3] = { ps, rs, 1 };
    std::printf("P rank-3 %s arrays on user memory, dims 2x2x%d, strides %d %d 1, first element %d past a packet boundary\n", Name<T>::s(), n, ps, rs, sh);
    reset_log(); t = a + a;
    long h = adept::verif::simd_log().head, p = adept::verif::simd_log().packets, tl = adept::verif::simd_log().tail;
    int mism = 0; for (int i = 0; i < 2; ++i) for (int j = 0; j < 2; ++j) for (int k = 0; k < n; ++k) if (!same(t(i, j, k), a(i, j, k) + a(i, j, k))) ++mism;
    g_line<T, A3>(3, d, 0, pt, st, pa, st, h, p, tl, mism);
    reset_log(); T sv = sum(a); h = adept::verif::simd_log().head; p = adept::verif::simd_log().packets; tl = adept::verif::simd_log().tail;
    long double ex = 0, ab = 0; for (int i = 0; i < 2; ++i) for (int j = 0; j < 2; ++j) for (int k = 0; k < n; ++k) { ex += a(i, j, k); ab += std::fabs((long double)a(i, j, k)); }
    long double u = std::numeric_limits<T>::epsilon() / 2, g = (4 * n + 2) * u;
    g_line<T, A3>(3, d, 1, pt, st, pa, st, h, p, tl, (int)!(std::fabs((long double)sv - ex) <= 2 * g * ab));
  }
}
template <typename T, int N> static void general_fixed1() {
  const int W = internal::Packet<T>::size;
  typedef FixedArray<T, false, N> F; typedef Array<1, T, false> V;
  V TP(N + 4 * W);
  void* raw = 0; if (posix_memalign(&raw, 64, sizeof(F) + 64 * sizeof(T))) return;
  for (int k = 0; k < W; ++k) for (int ot = 0; ot < W; ++ot) {
    F* f = new ((char*)raw + sizeof(T) * k) F;
    for (int i = 0; i < N; ++i) (*f)(i) = val<T>();
    for (int i = 0; i < N + 4 * W; ++i) TP(i) = T(-5);
    V t = TP(range(ot, ot + N - 1));
    int d[1] = { N }, st[1] = { 1 };
    std::printf("P FixedArray<%s,%d> %d past a packet boundary, target %d past\n", Name<T>::s(), N, k, ot);
    reset_log(); t = *f + *f;
    long h = adept::verif::simd_log().head, p = adept::verif::simd_log().packets, tl = adept::verif::simd_log().tail;
    int mism = 0; for (int i = 0; i < N; ++i) if (!same(t(i), (*f)(i) + (*f)(i))) ++mism;
    for (int i = 0; i < N + 4 * W; ++i) if ((i < ot || i >= ot + N) && !same(TP(i), T(-5))) ++mism;
    g_line<T, V>(1, d, 0, t.const_data(), st, f->const_data(), st, h, p, tl, mism);
    reset_log(); T sv = sum(*f); h = adept::verif::simd_log().head; p = adept::verif::simd_log().packets; tl = adept::verif::simd_log().tail;
    long double ex = 0, ab = 0; for (int i = 0; i < N; ++i) { ex += (*f)(i); ab += std::fabs((long double)(*f)(i)); }
    long double u = std::numeric_limits<T>::epsilon() / 2, g = (N + 2) * u;
    g_line<T, V>(1, d, 1, t.const_data(), st, f->const_data(), st, h, p, tl, (int)!(std::fabs((long double)sv - ex) <= 2 * g * ab));
    f->~F();
  }
  free(raw);
}
template <typename T, int N> static void general_fixed2() {
  const int W = internal::Packet<T>::size;
  typedef FixedArray<T, false, 3, N> F; typedef Array<2, T, false> M;
  void* raw = 0; if (posix_memalign(&raw, 64, sizeof(F) + 64 * sizeof(T))) return;
  for (int k = 0; k < W; ++k) for (int ot = 0; ot < W; ot += (W > 4 ? 3 : 1)) {
    F* f = new ((char*)raw + sizeof(T) * k) F;
    M TP(3, N + 4 * W);
    for (int j = 0; j < 3; ++j) { for (int i = 0; i < N; ++i) (*f)(j, i) = val<T>(); for (int i = 0; i < N + 4 * W; ++i) TP(j, i) = T(-5); }
    M t = TP(__, range(ot, ot + N - 1));
    int d[2] = { 3, N }, st[2] = { (int)t.offset(0), 1 }, sa[2] = { N, 1 };
    std::printf("P FixedArray<%s,3,%d> %d past a packet boundary, target %d past\n", Name<T>::s(), N, k, ot);
    reset_log(); t = *f + *f;
    long h = adept::verif::simd_log().head, p = adept::verif::simd_log().packets, tl = adept::verif::simd_log().tail;
    int mism = 0; for (int j = 0; j < 3; ++j) for (int i = 0; i < N; ++i) if (!same(t(j, i), (*f)(j, i) + (*f)(j, i))) ++mism;
    g_line<T, M>(2, d, 0, t.const_data(), st, f->const_data(), sa, h, p, tl, mism);
    reset_log(); T sv = sum(*f); h = adept::verif::simd_log().head; p = adept::verif::simd_log().packets; tl = adept::verif::simd_log().tail;
    long double ex = 0, ab = 0; for (int j = 0; j < 3; ++j) for (int i = 0; i < N; ++i) { ex += (*f)(j, i); ab += std::fabs((long double)(*f)(j, i)); }
    long double u = std::numeric_limits<T>::epsilon() / 2, g = (3 * N + 2) * u;
    g_line<T, M>(2, d, 1, t.const_data(), st, f->const_data(), sa, h, p, tl, (int)!(std::fabs((long double)sv - ex) <= 2 * g * ab));
    f->~F();
  }
  free(raw);
}
template <typename T> static void general_all() {
  const int W = internal::Packet<T>::size;
  general_rank3<T>();
  general_fixed1<T, 2 * W>(); general_fixed1<T, 3 * W + 1>(); general_fixed1<T, 4 * W + 3>();
  general_fixed2<T, 2 * W>(); general_fixed2<T, 2 * W + 1>(); general_fixed2<T, 3 * W>(); general_fixed2<T, 4 * W - 1>();
}

// ---------------------------------------------------------------- reductions
template <typename T, class V> static void reduce_line(int rank, int rows, int n, const V& a, const V& b, const V& sa, const V& sb, long oa, long ob, int W) {
  const long double u = std::numeric_limits<T>::epsilon() / 2;
  long cnt = (long)rows * n;
  for (int k = 0; k < 7; ++k) {
    reset_log(); T v, s; long double bound = 0, absum = 0;
    switch (k) {
    case 0: v = sum(a); break; case 1: v = product(a); break; case 2: v = maxval(a); break; case 3: v = minval(a); break;
    case 4: v = norm2(a); break; case 5: v = mean(a); break; default: v = sum(a * b); break;
    }
    long h = adept::verif::simd_log().head, p = adept::verif::simd_log().packets, tl = adept::verif::simd_log().tail;
    reset_log();
    switch (k) {
    case 0: s = sum(sa); break; case 1: s = product(sa); break; case 2: s = maxval(sa); break; case 3: s = minval(sa); break;
    case 4: s = norm2(sa); break; case 5: s = mean(sa); break; default: s = sum(sa * sb); break;
    }
    int refvec = adept::verif::simd_log().packets != 0;
    // bounds: both results are some order of accumulation of the same terms
    long double g = (cnt + 2) * u / (1 - (cnt + 2) * u);
    if (k == 0 || k == 5 || k == 6) {
      // elements through the scalar view (same values)
      V tmp; tmp = (k == 6) ? V(sa * sb) : V(sa);
      absum = (long double)sum(abs(tmp));
      bound = 2 * g * absum * (1 + g); if (k == 5) bound = bound / cnt + 2 * u * std::fabs((long double)s);
    } else if (k == 1) { bound = 2 * g * std::fabs((long double)s) * (1 + g); }
    else if (k == 4) { bound = 2 * (g + 2 * u) * std::fabs((long double)s) * (1 + g); }
    else bound = 0;
    long double diff = std::fabs((long double)v - (long double)s);
    std::printf("R %s %d %d %d %d %d %ld %ld %ld %ld %ld %d %.6Le %.6Le %d\n", Name<T>::s(), W, rank, rows, n, k, oa, ob, h, p, tl, refvec, diff, bound,
                (int)(diff <= bound));
  }
}
template <typename T> static void reduce_all(bool full) {
  const int W = internal::Packet<T>::size;
  typedef Array<1, T, false> V; typedef Array<2, T, false> M;
  const int NP = 4 * W + 3 + 3 * W, NR = 3;
  V AP(NP), BP(NP), SA(2 * NP), SB(2 * NP);
  M AM(NR, NP), BM(NR, NP), SAM(NR, 2 * NP), SBM(NR, 2 * NP);
  // tall matrices (at least 2W rows) whose row length is a multiple of the packet size: column ranges of them have short,
  // possibly misaligned rows while the FIRST dimension is long
  const int NT = 2 * W + 1, NC = 4 * W;
  M TA(NT, NC), TB(NT, NC), STA(NT, 2 * NC), STB(NT, 2 * NC);
  for (int j = 0; j < NT; ++j) for (int i = 0; i < NC; ++i) { TA(j, i) = T(1) + T(0.25) * val<T>() / T(16); TB(j, i) = val<T>(); STA(j, 2 * i) = TA(j, i); STB(j, 2 * i) = TB(j, i); }
  for (int n = 1; n <= 4 * W + 3; ++n)
    for (int oa = 0; oa < W; ++oa)
      for (int obi = 0; obi < W; ++obi) {
        int ob = obi;
        if (!full) { if (obi > 1) break; ob = obi == 0 ? oa : (oa + 1) % W; }
        for (int i = 0; i < NP; ++i) {
          AP(i) = T(1) + T(0.25) * val<T>() / T(16); BP(i) = val<T>(); SA(2 * i) = AP(i); SB(2 * i) = BP(i);
          for (int j = 0; j < NR; ++j) { AM(j, i) = T(1) + T(0.25) * val<T>() / T(16); BM(j, i) = val<T>(); SAM(j, 2 * i) = AM(j, i); SBM(j, 2 * i) = BM(j, i); }
        }
        V a = AP(range(oa, oa + n - 1)), b = BP(range(ob, ob + n - 1));
        V sa = SA(stride(2 * oa, 2 * (oa + n - 1), 2)), sb = SB(stride(2 * ob, 2 * (ob + n - 1), 2));
        reduce_line<T, V>(1, 1, n, a, b, sa, sb, amod(a.const_data(), W), amod(b.const_data(), W), W);
        M am = AM(__, range(oa, oa + n - 1)), bm = BM(__, range(ob, ob + n - 1));
        M sam = SAM(__, stride(2 * oa, 2 * (oa + n - 1), 2)), sbm = SBM(__, stride(2 * ob, 2 * (ob + n - 1), 2));
        reduce_line<T, M>(2, NR, n, am, bm, sam, sbm, amod(am.const_data(), W), amod(bm.const_data(), W), W);
        if (n < W && obi == 0 && oa + n <= NC) {
          M tam = TA(__, range(oa, oa + n - 1)), tbm = TB(__, range(oa, oa + n - 1));
          M stam = STA(__, stride(2 * oa, 2 * (oa + n - 1), 2)), stbm = STB(__, stride(2 * oa, 2 * (oa + n - 1), 2));
          reduce_line<T, M>(2, NT, n, tam, tbm, stam, stbm, amod(tam.const_data(), W), amod(tbm.const_data(), W), W);
        }
      }
}

// ---------------------------------------------------------------- fastexp
template <typename T> static long long bits(T x);
template <> long long bits<float>(float x) { int i; std::memcpy(&i, &x, 4); return i; }
template <> long long bits<double>(double x) { long long i; std::memcpy(&i, &x, 8); return i; }
template <typename T> static void fastexp_all() {
  const int W = internal::Packet<T>::size;
  typedef Array<1, T, false> V;
  const bool isf = sizeof(T) == 4;
  const double lo = isf ? -95.0 : -720.0, hi = isf ? 95.0 : 720.0;
  const double safe_lo = isf ? -80.0 : -700.0, safe_hi = isf ? 85.0 : 705.0;    // results normal and well inside the range
  std::vector<T> xs;
  const int NG = 20000;
  for (int i = 0; i <= NG; ++i) xs.push_back((T)(lo + (hi - lo) * i / NG));
  for (int i = 0; i < 20000; ++i) xs.push_back((T)(lo + (hi - lo) * rnd()));
  for (int i = 0; i < 20000; ++i) xs.push_back((T)((rnd() - 0.5) * 4));
  for (int k = -1100; k <= 1100; ++k) for (int d = -1; d <= 1; ++d) {      // around the rounding boundaries of x*log2(e)
    double x = (k + 0.5) * 0.69314718055994530942; T y = (T)x; for (int s = 0; s < 2; ++s) { y = std::nextafter(y, (T)(d * 1e9)); }
    if (x > lo && x < hi) xs.push_back(y);
  }
  T specials[] = { T(0), T(-0.0), T(1), T(-1), (T)lo, (T)hi, isf ? T(-87.3f) : T(-708.39), isf ? T(89.0f) : T(709.70),
                   std::numeric_limits<T>::infinity(), -std::numeric_limits<T>::infinity(), std::numeric_limits<T>::min(), -std::numeric_limits<T>::max() };
  for (unsigned i = 0; i < sizeof(specials) / sizeof(T); ++i) xs.push_back(specials[i]);
  while (xs.size() % (4 * W) != 0) xs.push_back(T(0.5));
  int N = (int)xs.size();
  V x(N), y(N); for (int i = 0; i < N; ++i) x(i) = xs[i];
  reset_log(); y = fastexp(x);
  long packets = adept::verif::simd_log().packets;
  long bitdiff = 0; double maxulp = 0, argmax = 0; long over2 = 0, nsafe = 0;
  for (int i = 0; i < N; ++i) {
    T s = adept::fastexp(xs[i]);
    if (bits(s) != bits(y(i)) && !(s != s && y(i) != y(i))) { if (bitdiff < 5) std::printf("F-BITDIFF %s %d %.17g %.17g %.17g\n", Name<T>::s(), W, (double)xs[i], (double)s, (double)y(i)); ++bitdiff; }
    if (xs[i] >= safe_lo && xs[i] <= safe_hi) {
      long double e = expl((long double)xs[i]); T er = (T)e;
      long double ulp = (long double)(std::nextafter(er, std::numeric_limits<T>::infinity()) - er);
      T dn = std::nextafter(er, -std::numeric_limits<T>::infinity()); long double ulpd = (long double)(er - dn); if (ulpd < ulp) ulp = ulpd;
      double d = (double)(fabsl((long double)s - e) / ulp); ++nsafe;
      if (d > maxulp) { maxulp = d; argmax = xs[i]; }
      if (d > 2.0) { if (over2 < 5) std::printf("F-ULP %s %d %.17g %.17g ulps=%.3f\n", Name<T>::s(), W, (double)xs[i], (double)s, d); ++over2; }
    }
  }
  // recorded derivative equals the value
  long dbad = 0;
  {
    Stack stack;
    for (int i = 0; i < 400; ++i) {
      double x0 = safe_lo / 10 + (safe_hi - safe_lo) / 10 * i / 400.0;
      Active<T> ax = (T)x0; stack.new_recording(); Active<T> ay = fastexp(ax); ay.set_gradient(T(1)); stack.reverse();
      if (!same((T)ax.get_gradient(), (T)ay.value())) ++dbad;
      if (!same((T)ay.value(), adept::fastexp((T)x0))) ++dbad;
    }
    Array<1, T, true> av(9); for (int i = 0; i < 9; ++i) av(i) = (T)(0.37 * i - 1.0);
    stack.new_recording(); Array<1, T, true> aw = fastexp(av); Active<T> J = sum(aw); J.set_gradient(T(1)); stack.reverse();
    for (int i = 0; i < 9; ++i) if (!same((T)av.get_gradient()(i), (T)value(aw)(i))) ++dbad;
  }
  std::printf("F %s %d %d %ld %ld %ld %.4f %.17g %ld %ld\n", Name<T>::s(), W, N, packets, bitdiff, nsafe, maxulp, argmax, over2, dbad);
  // table for the comparison between builds
  for (int i = 0; i <= NG; i += 10) std::printf("T %s %.17g %.17g\n", Name<T>::s(), (double)xs[i], (double)y(i));
}

int main(int argc, char** argv) {
  std::string mode = argc > 1 ? argv[1] : "assign"; bool full = argc > 2 && std::string(argv[2]) == "full";
  if (argc > 4 && std::string(argv[4]) == "fxonly") fx_mode = 1;
  if (argc > 3) rng_state ^= std::strtoull(argv[3], 0, 10) * 0x2545F4914F6CDD1DULL;
  std::printf("B %d %d\n", (int)internal::Packet<float>::size, (int)internal::Packet<double>::size);
  if (mode == "general") { std::setvbuf(stdout, 0, _IOLBF, 0); general_all<float>(); general_all<double>(); }
  else if (mode == "assign") { assign_rank1<float>(full); assign_rank1<double>(full); assign_rank2<float>(full); assign_rank2<double>(full); }
  else if (mode == "reduce") { reduce_all<float>(full); reduce_all<double>(full); }
  else if (mode == "fastexp") { fastexp_all<float>(); fastexp_all<double>(); }
  return 0;
}
