// C09 harness: a catalogue of every kind of statement that records, each entered with the
// operation buffer having exactly d spare slots (d = 0,1,2,3), built with a tiny
// -DADEPT_INITIAL_STACK_LENGTH=k.  Uses the guarded hook in StackStorageOrig.h to trace buffer
// events and to catch (and skip) any store at or beyond the allocated capacity.
// Output per run:  K<kind> <size> <d> | n_ops cap_ops n_st cap_st | trace | n_ops cap_ops n_st cap_st | violations | gradient of sum(outputs)
#include <adept_arrays.h>
#include <iostream>
#include <sstream>
#include <vector>
#include <cstdio>
#include <cstdlib>
#include <string>
using namespace adept;

struct Ctx {
  int s;
  aVector a, b;
  adouble p, q;
  // objects prepared by the setup phase (not traced)
  aVector v, w; aMatrix m, r; intVector idx; Vector pv, x, xi; aSymmMatrix S; adouble xs[3]; double mult[3];
  aVector3 f3, g3;
  std::vector<adouble> outs;   // scalars produced by the statement under test
  aVector outv; aMatrix outm;  // arrays produced
  Ctx(int s_) : s(s_), a(s_), b(s_) {
    for (int i = 0; i < s; ++i) { a(i) = 0.5 + 0.25 * i; b(i) = 1.0 + 0.5 * i; }
    p = 1.5; q = -0.75;
  }
};
typedef void (*Fn)(Ctx&);
static void none(Ctx&) {}
// ---- scalars
static void r_ctor_expr(Ctx& c)     { adouble x = c.p * c.q; c.outs.push_back(x); }
static void r_assign_expr3(Ctx& c)  { adouble x; x = c.p * c.q + c.a(0); c.outs.push_back(x); }
static void r_compound(Ctx& c)      { adouble x = c.p; x += c.q; x *= c.a(0); x -= 2.0; x /= c.q; c.outs.push_back(x); }
static void r_copy(Ctx& c)          { adouble x(c.p); adouble y = x; c.outs.push_back(y); }
// ---- element references
static void s_vec(Ctx& c)           { c.v.resize(c.s); c.v = 1.0; c.outv.link(c.v); }
static void r_elem_assign(Ctx& c)   { c.v(0) = c.p * c.a(0) + c.q; c.v(c.s - 1) += c.q; }
static void r_const_elem(Ctx& c)    { const aVector& ca = c.a; const aVector& cb = c.b; adouble x = ca(0) * cb(c.s - 1) + ca(c.s - 1); c.outs.push_back(x); }
// ---- whole-array assignment
static void r_vec_expr(Ctx& c)      { c.v = c.a * c.b + c.p; }
static void r_vec_expr_deep(Ctx& c) { c.v = c.a * c.b * c.a + c.b * c.p - c.q * c.a; }
static void s_vec_passive(Ctx& c)   { s_vec(c); c.pv.resize(c.s); c.pv = 2.0; }
static void r_vec_passive(Ctx& c)   { c.v = c.pv; }
static void r_vec_fill(Ctx& c)      { c.v = 3.0; }
static void r_vec_compound(Ctx& c)  { c.v += c.a; }
static void r_vec_active_scalar(Ctx& c) { c.v = c.p; }
static void r_vec_rev_view(Ctx& c)  { if (c.s > 1) c.v(stride(c.s - 1, 0, -1)) = c.b * c.p; else c.v = c.b * c.p; }
static void r_vec_rev_fill(Ctx& c)  { if (c.s > 1) c.v(stride(c.s - 1, 0, -1)) = 4.0; else c.v = 4.0; }
static void r_where(Ctx& c)         { c.v.where(c.b > 1.25) = c.a * c.b; }
static void r_where_eo(Ctx& c)      { c.v.where(c.b > 1.25) = either_or(c.a * c.b, c.b + c.p); }
// ---- indexed targets
static void s_indexed(Ctx& c)       { c.v.resize(c.s + 2); c.v = 1.0; c.outv.link(c.v); c.idx.resize(c.s); for (int i = 0; i < c.s; ++i) c.idx(i) = c.s + 1 - i; }
static void r_indexed(Ctx& c)       { c.v(c.idx) = c.a * c.b; }
static void r_indexed_scalar(Ctx& c){ c.v(c.idx) = c.p; }
static void s_indexed2(Ctx& c)      { c.m.resize(c.s + 1, c.s + 1); c.m = 1.0; c.outm.link(c.m); c.idx.resize(c.s); for (int i = 0; i < c.s; ++i) c.idx(i) = c.s - i;
                                      c.r.resize(c.s, c.s); c.r = outer_product(c.a, c.b); }
static void r_indexed2(Ctx& c)      { c.m(c.idx, c.idx) = c.r * c.p; }
static void r_indexed2_scalar(Ctx& c){ c.m(c.idx, c.idx) = c.q; }
// ---- reductions
static void r_sum(Ctx& c)           { adouble x = sum(c.a * c.b); c.outs.push_back(x); }
static void r_sum1(Ctx& c)          { adouble x = sum(c.a); c.outs.push_back(x); }
static void r_product2(Ctx& c)      { adouble x = product(c.a * c.b); c.outs.push_back(x); }
static void r_product3(Ctx& c)      { adouble x = product(c.a * c.b + c.a); c.outs.push_back(x); }
static void r_mean2(Ctx& c)         { adouble x = mean(c.a * c.b); c.outs.push_back(x); }
static void r_norm2_2(Ctx& c)       { adouble y = norm2(c.b - c.a); c.outs.push_back(y); }
static void r_maxval2(Ctx& c)       { adouble z = maxval(c.a * c.b); adouble w = minval(c.b - c.a); c.outs.push_back(z); c.outs.push_back(w); }
static void r_product_dim0_2(Ctx& c){ aVector r1 = product(c.m * c.m, 0); c.outv.link(r1); }
static void r_norm2_dim1(Ctx& c)    { aVector r1 = norm2(c.m * c.p, 1); c.outv.link(r1); }
static void r_product(Ctx& c)       { adouble x = product(c.a); c.outs.push_back(x); }
static void r_mean(Ctx& c)          { adouble x = mean(c.a * c.p); c.outs.push_back(x); }
static void r_norm2(Ctx& c)         { adouble y = norm2(c.b); c.outs.push_back(y); }
static void r_maxval(Ctx& c)        { adouble z = maxval(c.a); adouble w = minval(c.b * c.a); c.outs.push_back(z); c.outs.push_back(w); }
static void s_mat2(Ctx& c)          { c.m.resize(c.s, 2); c.m(__, 0) = c.a; c.m(__, 1) = c.b; }
static void r_sum_dim0(Ctx& c)      { aVector r0 = sum(c.m * c.p, 0); c.outv.link(r0); }
static void r_product_dim1(Ctx& c)  { aVector r1 = product(c.m, 1); c.outv.link(r1); }
static void r_mean_dim1(Ctx& c)     { aVector r1 = mean(c.m, 1); c.outv.link(r1); }
static void r_dot(Ctx& c)           { adouble x = dot_product(c.a, c.b * c.p); c.outs.push_back(x); }
static void r_outer(Ctx& c)         { aMatrix m = outer_product(c.a, c.b); c.outm.link(m); }
static void r_spread(Ctx& c)        { aMatrix n = spread<0>(c.a * c.p, 2); c.outm.link(n); }
static void s_outer(Ctx& c)         { c.m.resize(c.s, c.s); c.m = outer_product(c.a, c.b); }
static void r_diag_vector(Ctx& c)   { aVector v = diag_vector(c.m * c.m); c.outv.link(v); }
static void r_diag_vector_m1(Ctx& c){ aVector v = diag_vector(c.m * c.p, c.s > 1 ? 1 : 0); c.outv.link(v); }
static void r_diag_vector_n1(Ctx& c){ aVector v = diag_vector(c.m * c.p + spread<0>(c.a, c.s), c.s > 1 ? -1 : 0); c.outv.link(v); }   // sub-diagonal of a NON-symmetric matrix (element (i,j) gets a(j) added)
static void r_diag_vector_n2(Ctx& c){ aVector v = diag_vector(c.m + spread<0>(c.a * c.q, c.s), c.s > 2 ? -2 : 0); c.outv.link(v); }
// ---- user-supplied dependences
static void s_dep(Ctx& c)           { c.xs[0] = c.p; c.xs[1] = c.q; c.xs[2] = c.p * c.q; c.mult[0] = 0.5; c.mult[1] = 0.0; c.mult[2] = 0.5; }
static void r_dependence(Ctx& c)    { adouble y = 2.0; y.add_derivative_dependence(c.xs, c.mult, 3); y.append_derivative_dependence(c.xs, c.mult, 2);
                                      adouble z = 3.0; z.add_derivative_dependence(c.p, 2.0); z.append_derivative_dependence(c.q, -1.0); c.outs.push_back(y); c.outs.push_back(z); }
// ---- fixed arrays
static void s_fixed(Ctx& c)         { c.g3(0) = c.a(0); c.g3(1) = c.q; c.g3(2) = c.p * c.q; c.f3 = 1.0; }
static void r_fixed_scalar(Ctx& c)  { c.f3 = c.p; c.outs.push_back(sum(c.f3)); }
static void r_fixed_expr(Ctx& c)    { aVector3 h; h = c.f3 * c.g3 + c.q; c.outs.push_back(sum(h)); }
static void r_fixed_fill(Ctx& c)    { c.g3 = 2.0; c.outs.push_back(sum(c.g3)); }
// ---- special matrices
static void s_symm(Ctx& c)          { c.S.resize(c.s); c.S = 1.0; }
static void r_symm_scalar(Ctx& c)   { c.S = c.p; c.outs.push_back(c.S(0, 0)); c.outs.push_back(c.S(c.s - 1, 0)); }
static void r_symm_expr(Ctx& c)     { aSymmMatrix R(c.s); R = c.S * c.p + c.S; c.outs.push_back(R(0, 0)); c.outs.push_back(R(c.s - 1, 0)); }
// ---- interpolation of active data
static void s_interp(Ctx& c)        { c.x.resize(c.s + 1); c.xi.resize(3); for (int i = 0; i <= c.s; ++i) c.x(i) = i; c.xi(0) = 0.25; c.xi(1) = c.s - 0.5; c.xi(2) = 0.0;
                                      c.w.resize(c.s + 1); c.w(range(0, c.s - 1)) = c.a; c.w(c.s) = c.p; }
static void r_interp(Ctx& c)        { aVector r = interp(c.x, c.w, c.xi); c.outv.link(r); }
#ifdef HAVE_BLAS
static void r_matvec(Ctx& c)        { aVector v = matmul(c.m, c.a); c.outv.link(v); }
static void r_matmat(Ctx& c)        { aMatrix mm = matmul(c.m, c.m); c.outm.link(mm); }
#endif
struct Entry { const char* name; Fn setup; Fn run; };
static Entry catalogue[] = {
  {"ctor_expr", none, r_ctor_expr}, {"assign_expr3", none, r_assign_expr3}, {"compound", none, r_compound}, {"copy", none, r_copy},
  {"elem_assign", s_vec, r_elem_assign}, {"const_elem", none, r_const_elem}, {"vec_expr", s_vec, r_vec_expr}, {"vec_expr_deep", s_vec, r_vec_expr_deep},
  {"vec_passive", s_vec_passive, r_vec_passive}, {"vec_fill", s_vec, r_vec_fill}, {"vec_compound", s_vec, r_vec_compound},
  {"vec_active_scalar", s_vec, r_vec_active_scalar}, {"vec_rev_view", s_vec, r_vec_rev_view}, {"vec_rev_fill", s_vec, r_vec_rev_fill},
  {"where", s_vec, r_where}, {"where_eo", s_vec, r_where_eo},
  {"indexed", s_indexed, r_indexed}, {"indexed_scalar", s_indexed, r_indexed_scalar},
  {"indexed2", s_indexed2, r_indexed2}, {"indexed2_scalar", s_indexed2, r_indexed2_scalar},
  {"sum", none, r_sum}, {"sum1", none, r_sum1}, {"product", none, r_product}, {"product2", none, r_product2}, {"product3", none, r_product3},
  {"mean2", none, r_mean2}, {"norm2_2", none, r_norm2_2}, {"maxval2", none, r_maxval2},
  {"product_dim0_2", s_mat2, r_product_dim0_2}, {"norm2_dim1", s_mat2, r_norm2_dim1}, {"mean", none, r_mean}, {"norm2", none, r_norm2}, {"maxval", none, r_maxval},
  {"sum_dim0", s_mat2, r_sum_dim0}, {"product_dim1", s_mat2, r_product_dim1}, {"mean_dim1", s_mat2, r_mean_dim1},
  {"dot", none, r_dot}, {"outer", none, r_outer}, {"spread", none, r_spread},
  {"diag_vector", s_outer, r_diag_vector}, {"diag_vector_p1", s_outer, r_diag_vector_m1}, {"diag_vector_n1", s_outer, r_diag_vector_n1}, {"diag_vector_n2", s_outer, r_diag_vector_n2},
  {"dependence", s_dep, r_dependence},
  {"fixed_scalar", s_fixed, r_fixed_scalar}, {"fixed_expr", s_fixed, r_fixed_expr}, {"fixed_fill", s_fixed, r_fixed_fill},
  {"symm_scalar", s_symm, r_symm_scalar}, {"symm_expr", s_symm, r_symm_expr}, {"interp", s_interp, r_interp},
#ifdef HAVE_BLAS
  {"matvec", s_outer, r_matvec}, {"matmat", s_outer, r_matmat},
#endif
};

#ifdef ADEPT_RECORDING_PAUSABLE
// C10 mode "pause": every statement of the catalogue is executed (1) while recording and (2) while recording is
// paused; prints the growth of the statement and operation stacks across the paused execution (must be 0 0),
// the value produced in both executions, and the gradient of a statement recorded AFTER continue_recording()
// with and without the paused section before it.
//   U<kind> <size> | d_statements d_operations | value_recording value_paused | gradient after paused section | gradient without it
static double total_of(Ctx& c) {
  double t = 0; for (size_t i = 0; i < c.outs.size(); ++i) t += c.outs[i].value();
  if (!c.outv.empty()) t += sum(value(c.outv)); if (!c.outm.empty()) t += sum(value(c.outm));
  return t;
}
static void tail_gradient(std::ostream& os, Stack& stack, Ctx& c, aVector& a0, aVector& b0, adouble& p0, adouble& q0, int s) {
  adouble z = sum(c.a * c.b) + c.p * c.q;
  z.set_gradient(1.0); stack.compute_adjoint();
  char buf[64];
  for (int i = 0; i < s; ++i) { std::snprintf(buf, sizeof buf, " %.17g %.17g", a0(i).get_gradient(), b0(i).get_gradient()); os << buf; }
  std::snprintf(buf, sizeof buf, " %.17g %.17g", p0.get_gradient(), q0.get_gradient()); os << buf;
}
static int pause_mode(int only) {
  const int nk = sizeof(catalogue) / sizeof(catalogue[0]);
  int sizes[] = {1, 2, 3, 5};
  for (int k = 0; k < nk; ++k) {
    if (only >= 0 && only != k) continue;
    for (int si = 0; si < 4; ++si) {
      int s = sizes[si];
      std::ostringstream os;
      os << "U" << catalogue[k].name << " " << s << " | ";
      double v1, v2;
      { Stack stack; Ctx c(s); aVector a0(s), b0(s); a0 = value(c.a); b0 = value(c.b); adouble p0 = 1.5, q0 = -0.75;
        stack.new_recording(); c.a = a0 * 1.0; c.b = b0 * 1.0; c.p = p0 * 1.0; c.q = q0 * 1.0;
        catalogue[k].setup(c); catalogue[k].run(c); v1 = total_of(c); }
      std::ostringstream g1, g2;
      { Stack stack; Ctx c(s); aVector a0(s), b0(s); a0 = value(c.a); b0 = value(c.b); adouble p0 = 1.5, q0 = -0.75;
        stack.new_recording(); c.a = a0 * 1.0; c.b = b0 * 1.0; c.p = p0 * 1.0; c.q = q0 * 1.0;
        catalogue[k].setup(c);
        long ns = stack.n_statements(), no = stack.n_operations();
        stack.pause_recording();
        catalogue[k].run(c);
        v2 = total_of(c);
        c.outs.clear(); c.outv.clear(); c.outm.clear();     // objects made while paused die while paused
        stack.continue_recording();
        os << (long)stack.n_statements() - ns << " " << (long)stack.n_operations() - no << " | ";
        tail_gradient(g1, stack, c, a0, b0, p0, q0, s); }
      { Stack stack; Ctx c(s); aVector a0(s), b0(s); a0 = value(c.a); b0 = value(c.b); adouble p0 = 1.5, q0 = -0.75;
        stack.new_recording(); c.a = a0 * 1.0; c.b = b0 * 1.0; c.p = p0 * 1.0; c.q = q0 * 1.0;
        catalogue[k].setup(c);
        tail_gradient(g2, stack, c, a0, b0, p0, q0, s); }
      char buf[80]; std::snprintf(buf, sizeof buf, "%.17g %.17g |", v1, v2); os << buf << g1.str() << " |" << g2.str();
      std::cout << os.str() << "\n";
    }
  }
  return 0;
}
#endif
static void state(std::ostream& os, Stack& st) {
  os << st.n_operations() << " " << st.n_allocated_operations() << " " << st.n_statements() << " " << st.n_allocated_statements() << " | ";
}
int main(int argc, char** argv) {
  const int nk = sizeof(catalogue) / sizeof(catalogue[0]);
  int default_sizes[] = {1, 2, 3, 4, 5, 9};
#ifdef ADEPT_RECORDING_PAUSABLE
  if (argc > 1 && std::string(argv[1]) == "pause") return pause_mode(argc > 2 ? std::atoi(argv[2]) : -1);
#endif
  int only = argc > 1 ? std::atoi(argv[1]) : -1;
  int smax = argc > 2 ? std::atoi(argv[2]) : 0;      // search mode: all sizes 1..smax
  int dmax = argc > 3 ? std::atoi(argv[3]) : 0;      //              all spare-slot counts 0..dmax
  if (argc > 1 && argv[1][0] >= 'a') {               // kind given by name
    only = -2;
    for (int k = 0; k < nk; ++k) if (std::string(argv[1]) == catalogue[k].name) only = k;
  }
  std::vector<int> sizes;
  if (smax > 0) for (int s = 1; s <= smax; ++s) sizes.push_back(s);
  else sizes.assign(default_sizes, default_sizes + 6);
  for (int k = 0; k < nk; ++k) {
    if (only != -1 && only != k) continue;
    for (size_t si = 0; si < sizes.size(); ++si) for (int d = 0; d < (dmax > 0 ? dmax + 1 : (sizes[si] <= 4 ? 16 : 4)); ++d) {
      int s = sizes[si];
      std::ostringstream os;
      Stack stack;
      verif::BufferLog& log = verif::buffer_log();
      log.trace = false; log.violations = 0; log.events.clear();
      {
        Ctx c(s);
        // independents are initialised before the recording starts
        aVector a0(s), b0(s); a0 = value(c.a); b0 = value(c.b);
        adouble p0 = 1.5, q0 = -0.75;
        stack.new_recording();
        c.a = a0 * 1.0; c.b = b0 * 1.0; c.p = p0 * 1.0; c.q = q0 * 1.0;
        catalogue[k].setup(c);
        // fill the operation buffer until exactly d spare slots remain
        adouble filler = 0.0;
        int guard = 0;
        while ((long)stack.n_allocated_operations() - (long)stack.n_operations() - 1 != d && guard++ < 100000)
          stack.add_derivative_dependence(filler.gradient_index(), p0.gradient_index(), 1.0);
        os << "K" << catalogue[k].name << " " << s << " " << d << " | ";
        state(os, stack);
        log.trace = true;
        catalogue[k].run(c);
        log.trace = false;
        for (size_t i = 0; i < log.events.size(); ++i) {
          char kd = log.events[i].first;
          os << kd; if (kd != 'P' && kd != 'L') os << log.events[i].second; os << " ";
        }
        os << "| ";
        state(os, stack);
        os << log.violations << " | ";
        // derivative of the sum of everything produced w.r.t. the inputs
        adouble total = 0.0;
        for (size_t i = 0; i < c.outs.size(); ++i) total += c.outs[i];
        if (!c.outv.empty()) total += sum(c.outv);
        if (!c.outm.empty()) total += sum(c.outm);
        char buf[64];
        std::snprintf(buf, sizeof buf, "%.17g", value(total)); os << buf;
        if (log.violations == 0) {
          total.set_gradient(1.0);
          stack.compute_adjoint();
          for (int i = 0; i < s; ++i) { std::snprintf(buf, sizeof buf, " %.17g %.17g", a0(i).get_gradient(), b0(i).get_gradient()); os << buf; }
          std::snprintf(buf, sizeof buf, " %.17g %.17g", p0.get_gradient(), q0.get_gradient()); os << buf;
        }
      }
      std::cout << os.str() << "\n";
    }
  }
  return 0;
}
