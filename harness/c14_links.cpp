// C14 harness: T threads simultaneously copy-construct, link to, slice and destroy views of one shared array, read its
// elements, and create and destroy arrays of their own.  Mode "hard" (for builds with -DADEPT_STORAGE_THREAD_SAFE) uses
// ordinary views, which touch the shared reference count; mode "soft" uses soft links only.  After the threads have
// joined the owner destroys the array; the number of Storage objects must be back to the baseline.
// Built with ThreadSanitizer and, separately, AddressSanitizer.
// Output: L <mode> <threads> <iterations> <checksum failures> <storage objects left>
#include <adept_arrays.h>
#include <thread>
#include <vector>
#include <cstdio>
#include <cstdlib>
#include <string>
#include <atomic>
using namespace adept;

int main(int argc, char** argv) {
  std::string mode = argc > 1 ? argv[1] : "hard";
  int T = argc > 2 ? std::atoi(argv[2]) : 4, IT = argc > 3 ? std::atoi(argv[3]) : 200;
  long base = n_storage_objects();
  std::vector<long> bad(T, 0);
  if (mode == "last") {
    // the last holders are the threads themselves: the owner has gone, and all of them let go at the same moment
    for (int it = 0; it < IT; ++it) {
      std::vector<Vector> held(T);
      { Vector A(32); A = 1.0; for (int t = 0; t < T; ++t) held[t].link(A); }
      std::atomic<int> ready(0);
      std::vector<std::thread> th;
      for (int t = 0; t < T; ++t) th.push_back(std::thread([&, t] { ++ready; while (ready.load() < T) { } if (held[t](3) != 1.0) ++bad[t]; held[t].clear(); }));
      for (size_t i = 0; i < th.size(); ++i) th[i].join();
    }
  } else
  {
    Vector A(64); Matrix B(8, 8);
    for (int i = 0; i < 64; ++i) A(i) = i; for (int i = 0; i < 8; ++i) for (int j = 0; j < 8; ++j) B(i, j) = i * 8 + j;
    std::vector<std::thread> th;
    for (int t = 0; t < T; ++t) th.push_back(std::thread([&, t] {
      for (int it = 0; it < IT; ++it) {
        if (mode == "hard") {
          Vector c(A);                                  // copy-construct: shares the data
          Vector l; l.link(A);                          // link
          Vector s = A(range(t, t + 9));                // slice
          Matrix sb = B(range(1, 3), __);
          Vector d = B.diag_vector();
          Vector c2(s);                                 // a view of a view
          if (c(5) != 5 || l(6) != 6 || s(0) != t || sb(0, 0) != 8 || d(2) != 18 || c2(1) != t + 1) ++bad[t];
        } else {
          Vector c = A.soft_link();
          Vector s = A.soft_link()(range(t, t + 9));
          Matrix sb = B.soft_link()(range(1, 3), __);
          if (c(5) != 5 || s(0) != t || sb(0, 0) != 8) ++bad[t];
        }
        Vector mine(16 + t); mine = 1.0;                // private arrays
        Matrix own(3, 3 + it % 3); own = 2.0;
        if (sum(mine) != 16 + t) ++bad[t];
      }
    }));
    for (size_t i = 0; i < th.size(); ++i) th[i].join();
  }
  long b = 0; for (int t = 0; t < T; ++t) b += bad[t];
  std::printf("L %s %d %d %ld %ld\n", mode.c_str(), T, IT, b, (long)n_storage_objects() - base);
  return 0;
}
