// C18 / C19 harness (LAPACK build).  Every run of a minimizer is executed in a child process with an alarm, so that a
// call that does not return is an observation.  The cost functions are data-defined and instrumented: every state the
// minimizer passes to a callback is checked against the box, exactly.
// Problems:  q  strictly convex quadratic 0.5 x'Ax - b'x (exact gradient and Hessian)
//            r  Rosenbrock-type chain (non-convex)
//            l  quadratic minus sum of log(x_i - d_i): non-finite for x_i <= d_i (the box lies inside the domain)
// Output per run:
//   M <algo> <bounded> <prob> <n> <case id> | <status> <iterations> <max_iterations> <samples> |
//     <callback states outside the box> <largest overshoot> <returned state outside 0/1> |
//     <reported cost> <cost at returned x> <start cost reported> <cost at projected start> |
//     <reported gradient norm> <norm of gradient over components not pinned by sign> <threshold> | x... | timeout/ok
//   Q <n> | A row-major | b | lower | upper      (data of the quadratic of the following M lines, for the exact KKT solver)
#include <adept_optimize.h>
#include <adept_arrays.h>
#include <cstdio>
#include <cmath>
#include <cstdlib>
#include <string>
#include <vector>
#include <limits>
#include <unistd.h>
#include <sys/wait.h>
#include <signal.h>
using namespace adept;

static unsigned long long rs = 0x1234567ULL;
static double rnd() { rs ^= rs << 13; rs ^= rs >> 7; rs ^= rs << 17; return ((rs >> 11) + 0.5) / 9007199254740992.0; }

struct Prob : public Optimizable {
  char kind, label; int n; Matrix A; Vector b, d, lo, hi; bool bounded;
  long calls, outside; double overshoot; bool hessian_ok, trace, record; std::string evlog;
  Prob() : calls(0), outside(0), overshoot(0), hessian_ok(true), trace(false), record(false) { }
  virtual void report_progress(int it, const Vector& x, Real cost, Real gn) { if (trace) { std::fprintf(stderr, "T it=%d cost=%.17g gn=%.6g x=", it, cost, gn); for (int i = 0; i < n; ++i) std::fprintf(stderr, " %.17g", x(i)); std::fprintf(stderr, "\n"); } }
  void look(const Vector& x) {
    ++calls;
    if (record) { char b[40]; for (int i = 0; i < n; ++i) { std::snprintf(b, sizeof b, " %.17g", x(i)); evlog += b; } evlog += " ;"; }
    if (trace) { std::fprintf(stderr, "T   eval"); for (int i = 0; i < n; ++i) std::fprintf(stderr, " %.17g", x(i)); std::fprintf(stderr, "\n"); }
    if (bounded) for (int i = 0; i < n; ++i) {
      double o = std::max(lo(i) - x(i), x(i) - hi(i));
      if (o > 0) { ++outside; overshoot = std::max(overshoot, o); break; }
    }
  }
  double cost_only(const Vector& x) const {
    double c = 0;
    if (kind == 'q' || kind == 'l') { for (int i = 0; i < n; ++i) { double s = 0; for (int j = 0; j < n; ++j) s += A(i, j) * x(j); c += 0.5 * x(i) * s - b(i) * x(i); } }
    if (kind == 'l') for (int i = 0; i < n; ++i) c -= std::log(x(i) - d(i));
    if (kind == 'r') { for (int i = 0; i + 1 < n; ++i) c += 100.0 * std::pow(x(i + 1) - x(i) * x(i), 2) + std::pow(1.0 - x(i), 2); if (n == 1) c = std::pow(1.0 - x(0), 2); }
    return c;
  }
  void grad_only(const Vector& x, Vector g) const {
    g = 0.0;
    if (kind == 'q' || kind == 'l') for (int i = 0; i < n; ++i) { double s = 0; for (int j = 0; j < n; ++j) s += A(i, j) * x(j); g(i) = s - b(i); }
    if (kind == 'l') for (int i = 0; i < n; ++i) g(i) -= 1.0 / (x(i) - d(i));
    if (kind == 'r') { if (n == 1) g(0) = -2.0 * (1.0 - x(0));
      for (int i = 0; i + 1 < n; ++i) { double t = x(i + 1) - x(i) * x(i); g(i) += -400.0 * x(i) * t - 2.0 * (1.0 - x(i)); g(i + 1) += 200.0 * t; } }
  }
  virtual Real calc_cost_function(const Vector& x) { look(x); return cost_only(x); }
  virtual Real calc_cost_function_gradient(const Vector& x, Vector g) { look(x); grad_only(x, g); return cost_only(x); }
  virtual Real calc_cost_function_gradient_hessian(const Vector& x, Vector g, SymmMatrix& H) {
    look(x); grad_only(x, g);
    H.resize(n); for (int i = 0; i < n; ++i) for (int j = 0; j <= i; ++j) H(i, j) = 0.0;
    if (kind == 'q' || kind == 'l') for (int i = 0; i < n; ++i) for (int j = 0; j <= i; ++j) H(i, j) = A(i, j);
    if (kind == 'l') for (int i = 0; i < n; ++i) H(i, i) += 1.0 / ((x(i) - d(i)) * (x(i) - d(i)));
    if (kind == 'r') { if (n == 1) H(0, 0) = 2.0;
      for (int i = 0; i + 1 < n; ++i) { H(i, i) += 1200.0 * x(i) * x(i) - 400.0 * x(i + 1) + 2.0; H(i + 1, i) += -400.0 * x(i); H(i + 1, i + 1) += 200.0; } }
    return cost_only(x);
  }
  virtual bool provides_derivative(int order) { return order >= 0 && order <= 2; }
};

static void make_problem(Prob& p, char kind, int n, int variant) {
  p.label = kind; if (kind == 't') kind = 'q';
  p.kind = kind; p.n = n; p.A.resize(n, n); p.b.resize(n); p.d.resize(n); p.lo.resize(n); p.hi.resize(n);
  // SPD with moderate condition: diagonally dominant symmetric, entries multiples of 1/4 (exact for the rational KKT solver)
  for (int i = 0; i < n; ++i) for (int j = 0; j <= i; ++j) { double v = (i == j) ? 2.0 + 0.25 * (int)(rnd() * 12) + n * 0.5 : 0.25 * ((int)(rnd() * 5) - 2); p.A(i, j) = v; p.A(j, i) = v; }
  for (int i = 0; i < n; ++i) { p.b(i) = 0.5 * ((int)(rnd() * 13) - 6); p.d(i) = -3.0; }
  // boxes: variant 0 wide, 1 tight around part of the solution (solution on faces), 2 one-sided, 3 tiny box
  for (int i = 0; i < n; ++i) {
    double c = 0.5 * ((int)(rnd() * 7) - 3);
    switch (variant % 4) {
    case 0: p.lo(i) = -10.0; p.hi(i) = 10.0; break;
    case 1: p.lo(i) = c - 0.5; p.hi(i) = c + 0.25 * (1 + (int)(rnd() * 4)); break;
    case 2: p.lo(i) = (i % 2) ? -std::numeric_limits<double>::max() : c - 1.0; p.hi(i) = (i % 2) ? c + 1.0 : std::numeric_limits<double>::max(); break;
    default: p.lo(i) = c; p.hi(i) = c + 0.125; break;
    }
    if (kind == 'l') { p.lo(i) = std::max(p.lo(i), -2.5); if (p.hi(i) <= p.lo(i)) p.hi(i) = p.lo(i) + 1.0; }
    if (kind == 'r') { p.lo(i) = std::max(p.lo(i), -2.0); p.hi(i) = std::min(p.hi(i), 2.0); if (p.hi(i) <= p.lo(i)) { p.lo(i) = -1.5; p.hi(i) = 0.75; } }
  }
  if (p.label == 't') {
    // several faces met in one step: separable quadratic whose unconstrained minimum m lies outside the box, with the
    // fractions of the step from the origin to the faces equal (exact tie), nearly equal, or in reverse index order
    for (int i = 0; i < n; ++i) {
      for (int j = 0; j < n; ++j) p.A(i, j) = (i == j) ? 2.0 : 0.0;
      p.lo(i) = -1.0 - 0.25 * i; p.hi(i) = 1.0 + 0.5 * i;
      double m;
      switch (variant % 4) {
      case 0: m = 3.0 * p.hi(i); break;                         // all fractions 1/3
      case 1: m = (i % 2) ? 2.5 * p.hi(i) : 4.0 * p.hi(i); break;   // later index first
      case 2: m = 3.0 * p.lo(i); break;                         // lower faces, tie
      default: m = (i % 2) ? 3.0 * p.lo(i) : 2.0 * p.hi(i) + 0.125 * i; break;
      }
      p.b(i) = 2.0 * m;
    }
  }
}
static const char* ALGO[] = { "L-BFGS", "Conjugate-Gradient", "Conjugate-Gradient-FR", "Levenberg", "Levenberg-Marquardt" };

static void run_case(int algo, bool bounded, Prob& p, int start_kind, int setting, int caseid) {
  int n = p.n;
  Vector x(n);
  for (int i = 0; i < n; ++i) {
    double lo = bounded ? std::max(p.lo(i), -5.0) : -2.0, hi = bounded ? std::min(p.hi(i), 5.0) : 2.0;
    switch (start_kind) { case 4: x(i) = 0.0; break; case 0: x(i) = lo + (hi - lo) * rnd(); break; case 1: x(i) = (i % 2) ? lo : hi; break;        // on faces
                          case 2: x(i) = hi + 1.0 + rnd(); break; default: x(i) = (i % 2) ? lo - 0.5 : lo + (hi - lo) * rnd(); }   // outside
    if (!bounded && (p.kind == 'l')) x(i) = std::max(x(i), -2.0);
  }
  p.bounded = bounded; p.calls = p.outside = 0; p.overshoot = 0;
  { char id[64]; std::snprintf(id, sizeof id, "%d.%d.%d/%d", caseid, start_kind, setting, algo); const char* tr = std::getenv("C18_TRACE"); p.trace = tr && std::string(tr) == id;
    if (p.trace) { std::fprintf(stderr, "T start"); for (int i = 0; i < n; ++i) std::fprintf(stderr, " %.17g [%.17g,%.17g]", x(i), p.lo(i), p.hi(i)); std::fprintf(stderr, "\n"); } }
  Minimizer m(static_cast<MinimizerAlgorithm>(algo));
  int maxit = setting % 3 == 0 ? 200 : (setting % 3 == 1 ? 5 : 40);
  double thr = (setting / 3) % 2 == 0 ? 1e-6 : 1e-3;
  m.set_max_iterations(maxit); m.set_converged_gradient_norm(thr);
  if ((setting / 6) % 2 == 1) m.set_max_step_size(0.5);
  int eus = (setting / 12) % 3 - 1; if (eus >= 0) m.ensure_updated_state(eus);
  int mls = (setting / 36) % 2 == 1 ? 2 : 10; m.set_max_line_search_iterations(mls);   // 2: the line search runs out of iterations
  // projected start, for "does not exceed the starting cost"
  Vector xs(n); xs = x; if (bounded) for (int i = 0; i < n; ++i) xs(i) = std::max(p.lo(i), std::min(x(i), p.hi(i)));
  double start_cost_true = p.cost_only(xs);
  p.record = true; p.evlog.clear();
  {
    std::printf("P %d %d %c %d %d %.17g %.17g %d %d |", algo, (int)bounded, p.kind, n, maxit, thr, ((setting / 6) % 2 == 1) ? 0.5 : -1.0, eus, mls);
    for (int i = 0; i < n; ++i) for (int j = 0; j < n; ++j) std::printf(" %.17g", p.A(i, j));
    std::printf(" |"); for (int i = 0; i < n; ++i) std::printf(" %.17g", p.b(i));
    std::printf(" |"); for (int i = 0; i < n; ++i) std::printf(" %.17g", p.d(i));
    std::printf(" |"); for (int i = 0; i < n; ++i) std::printf(" %.17g", p.lo(i));
    std::printf(" |"); for (int i = 0; i < n; ++i) std::printf(" %.17g", p.hi(i));
    std::printf(" |"); for (int i = 0; i < n; ++i) std::printf(" %.17g", x(i));
    std::printf("\n");
  }
  std::fflush(stdout);
  int fd[2]; if (pipe(fd)) return;
  pid_t pid = fork();
  if (pid == 0) {
    close(fd[0]); alarm(10);
    MinimizerStatus st;
    try { st = bounded ? m.minimize(p, x, p.lo, p.hi) : m.minimize(p, x); }
    catch (const std::exception& e) { char buf[256]; int len = std::snprintf(buf, sizeof buf, "EXC %s\n", e.what()); (void)!write(fd[1], buf, len); _exit(0); }
    Vector g(n); p.grad_only(x, g);
    double gfree = 0; int outside_ret = 0;
    for (int i = 0; i < n; ++i) {
      bool pinned = bounded && ((x(i) <= p.lo(i) && g(i) > 0) || (x(i) >= p.hi(i) && g(i) < 0));
      if (!pinned) gfree += g(i) * g(i);
      if (bounded && (x(i) < p.lo(i) || x(i) > p.hi(i))) outside_ret = 1;
    }
    std::string s;
    char buf[512];
    std::snprintf(buf, sizeof buf, "%d %d %d %d | %ld %.3e %d | %.17g %.17g %.17g %.17g | %.17g %.17g %.3e |", (int)st, m.n_iterations(), maxit, m.n_samples(),
                  p.outside, p.overshoot, outside_ret, m.cost_function(), p.cost_only(x), m.start_cost_function(), start_cost_true, m.gradient_norm(), std::sqrt(gfree), thr);
    s = buf; for (int i = 0; i < n; ++i) { std::snprintf(buf, sizeof buf, " %.17g", x(i)); s += buf; }
    if (p.record) s += " | E" + p.evlog;
    s += "\n"; (void)!write(fd[1], s.c_str(), s.size()); _exit(0);
  }
  close(fd[1]);
  std::string got; char buf[1024]; ssize_t k;
  while ((k = read(fd[0], buf, sizeof buf)) > 0) got.append(buf, k);
  close(fd[0]);
  int wst = 0; waitpid(pid, &wst, 0);
  if (!got.empty() && got[got.size() - 1] == '\n') got.erase(got.size() - 1);
  const char* how = "ok";
  if (WIFSIGNALED(wst)) how = WTERMSIG(wst) == SIGALRM ? "TIMEOUT" : "CRASH";
  std::printf("M %s %d %c %d %d.%d.%d | %s | %s\n", ALGO[algo], (int)bounded, p.label, n, caseid, start_kind, setting, got.empty() ? "- - - - | - - - | - - - - | - - - |" : got.c_str(), how);
}

int main(int argc, char** argv) {
  int nmax = argc > 1 ? std::atoi(argv[1]) : 4, nvar = argc > 2 ? std::atoi(argv[2]) : 4;
  if (argc > 3) rs ^= std::strtoull(argv[3], 0, 10) * 0x9E3779B97F4A7C15ULL;
  int caseid = 0;
  const char kinds[] = { 'q', 'r', 'l', 't' };
  for (int n = 1; n <= nmax; ++n) for (int v = 0; v < nvar; ++v) for (int ki = 0; ki < 4; ++ki) {
    Prob p; make_problem(p, kinds[ki], n, v);
    ++caseid;
    if (p.kind == 'q') {
      std::printf("Q %d |", n); for (int i = 0; i < n; ++i) for (int j = 0; j < n; ++j) std::printf(" %.17g", p.A(i, j));
      std::printf(" |"); for (int i = 0; i < n; ++i) std::printf(" %.17g", p.b(i));
      std::printf(" |"); for (int i = 0; i < n; ++i) std::printf(" %.17g", p.lo(i)); std::printf(" |"); for (int i = 0; i < n; ++i) std::printf(" %.17g", p.hi(i)); std::printf("\n");
    }
    for (int algo = 0; algo < 5; ++algo) for (int bounded = 0; bounded < 2; ++bounded) {
      if (!bounded && v > 0) continue;                   // the unbounded run does not depend on the box variant
      for (int sk = 0; sk < (bounded ? (p.label == 't' ? 5 : 4) : 1); ++sk) {
        int setting = (caseid * 7 + algo * 3 + sk * 5) % 48;   // 36..47: as 0..11 with a line-search limit of 2
        run_case(algo, bounded, p, sk, setting, caseid);
      }
    }
  }
  // invalid bounds and non-finite cost / gradient
  { Prob p; make_problem(p, 'q', 3, 0); Vector x(3); x = 0.0;
    for (int algo = 0; algo < 5; ++algo) {
      Minimizer m(static_cast<MinimizerAlgorithm>(algo)); Vector lo(3), hi(3); lo = 0.0; hi = 1.0; hi(1) = -1.0; p.bounded = false;
      int st1 = -99; try { st1 = m.minimize(p, x, lo, hi); } catch (...) { st1 = -98; }
      Vector hi2(2); hi2 = 1.0; int st2 = -99; try { st2 = m.minimize(p, x, lo(range(0, 1)), hi2); } catch (...) { st2 = -98; }
      std::printf("X %s invalid-bounds %d %d\n", ALGO[algo], st1, st2);
    }
    Prob q; make_problem(q, 'l', 2, 0); q.bounded = false;
    for (int algo = 0; algo < 5; ++algo) { Minimizer m(static_cast<MinimizerAlgorithm>(algo)); Vector y(2); y = -3.5;     // log of a negative number: NaN cost
      int st = -99; std::fflush(stdout); pid_t pid = fork(); if (pid == 0) { alarm(10); int s = -98; try { s = m.minimize(q, y); } catch (...) { } _exit(50 + s); }
      int w = 0; waitpid(pid, &w, 0); st = WIFEXITED(w) ? WEXITSTATUS(w) - 50 : -97;
      std::printf("X %s non-finite-cost %d\n", ALGO[algo], st); }
  }
  return 0;
}
