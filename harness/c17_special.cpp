// C17 harness: every special-matrix engine, sizes 1..7, all (i,j): element reads, conversion to a
// dense Matrix, transpose, diag_vector, submatrix_on_diagonal, element-wise expression, assignment
// from an expression, single-element writes.  Integer data (exact).  One line per (engine, L, U, n).
#include <adept_arrays.h>
#include <iostream>
#include <sstream>
#include <string>
using namespace adept;
using namespace adept::internal;
static void dumpM(std::ostream& os, const char* name, const Matrix& M) {
  os << name;
  for (int i = 0; i < M.dimension(0); ++i) for (int j = 0; j < M.dimension(1); ++j) os << " " << (long)M(i, j);
  os << " | ";
}
// is (i,j) a position this matrix kind stores? kind: 0 square, 1 band(L,U), 2 symm, 3 lower, 4 upper
static bool stored(int kind, int L, int U, int i, int j) {
  if (kind == 1) return j - i <= U && j - i >= -L;
  if (kind == 3) return i >= j;
  if (kind == 4) return i <= j;
  return true;
}
template <class SM>
static void run(const char* name, int kind, int L, int U, int n) {
  std::ostringstream os;
  os << name << " " << L << " " << U << " " << n << " | ";
  try {
    SM S(n);
    S = 0.0;
    // fill stored positions (the lower triangle suffices for symmetric: value depends on the unordered pair)
    for (int i = 0; i < n; ++i) for (int j = 0; j < n; ++j)
      if (stored(kind, L, U, i, j) && !(kind == 2 && j > i)) S(i, j) = (kind == 2) ? 100 + 10 * i + j : 100 + 10 * i + j;
    const SM& cS = S;
    { os << "D"; for (int i = 0; i < n; ++i) for (int j = 0; j < n; ++j) os << " " << (long)cS(i, j); os << " | "; }
    { Matrix M; M = S; dumpM(os, "M", M); }
    { Matrix Mt; Mt = S.T(); dumpM(os, "T", Mt); }
    { Matrix Mtt; Mtt = S.T().T(); dumpM(os, "TT", Mtt); }
    for (int k = -(n - 1); k <= n - 1; ++k) {   // diagonals of the transposed object: its k-th diagonal is the (-k)-th of S
      bool ok = (k >= 0) ? stored(kind, L, U, k, 0) : stored(kind, L, U, 0, -k);
      if (kind == 3 && k < 0) ok = false;
      if (kind == 4 && k > 0) ok = false;
      if (!ok) continue;
      Vector d = S.T().diag_vector(k);
      os << "TG" << k; for (int t = 0; t < d.size(); ++t) os << " " << (long)d(t); os << " | ";
    }
    if (n >= 2) { int a = n / 3, b = n - 1 - (n > 3 ? 1 : 0); Matrix M; M = S.T().submatrix_on_diagonal(a, b); os << "TU" << a << "_" << b; dumpM(os, "", M); }
    for (int k = -(n - 1); k <= n - 1; ++k) {
      bool ok = (k >= 0) ? stored(kind, L, U, 0, k) : stored(kind, L, U, -k, 0);
      if (kind == 3 && k > 0) ok = false;
      if (kind == 4 && k < 0) ok = false;
      if (!ok) continue;
      Vector d = S.diag_vector(k);
      os << "G" << k; for (int t = 0; t < d.size(); ++t) os << " " << (long)d(t); os << " | ";
    }
    if (n >= 2) { int a = n / 3, b = n - 1 - (n > 3 ? 1 : 0); SM Sub = S.submatrix_on_diagonal(a, b); Matrix M; M = Sub; os << "U" << a << "_" << b; dumpM(os, "", M); }
    if (n >= 2) {   // diagonals of a sub-matrix view (its offset is the parent's, its dimension is smaller), read and written
      int a = n / 3, b = n - 1 - (n > 3 ? 1 : 0), m = b - a + 1;
      SM Sub = S.submatrix_on_diagonal(a, b);
      int kw = 0; bool have = false;
      for (int k = -(m - 1); k <= m - 1; ++k) {
        bool ok = (k >= 0) ? stored(kind, L, U, 0, k) : stored(kind, L, U, -k, 0);
        if (kind == 3 && k > 0) ok = false;
        if (kind == 4 && k < 0) ok = false;
        if (!ok) continue;
        if (!have || (k != 0 && (kw == 0 || (k < 0 && k > kw)))) { kw = k; have = true; }
        Vector d = Sub.diag_vector(k);
        os << "UG" << k; for (int t = 0; t < d.size(); ++t) os << " " << (long)d(t); os << " | ";
      }
      SM S4(n); S4 = 0.0; S4 = S;
      SM Sub4 = S4.submatrix_on_diagonal(a, b);
      Vector dw = Sub4.diag_vector(kw); dw = -7.0;
      Matrix M4; M4 = S4; os << "UW" << kw; dumpM(os, "", M4);
      // whole-matrix assignment from an expression to the sub-matrix view (row ranges of a matrix that is not packed)
      SM S5(n); S5 = 0.0; S5 = S;
      SM Sub5 = S5.submatrix_on_diagonal(a, b);
      Matrix X5(m, m); for (int i = 0; i < m; ++i) for (int j = 0; j < m; ++j) X5(i, j) = 2000 + 10 * i + j;
      Sub5 = X5 * 1.0;
      Matrix M5; M5 = S5; dumpM(os, "UA", M5);
    }
    { Matrix E; E = S + 2.0 * S; dumpM(os, "E", E); }
    { Matrix F; F = S.T() * 1.0 + S; dumpM(os, "F", F); }
    { Matrix X(n, n); for (int i = 0; i < n; ++i) for (int j = 0; j < n; ++j) X(i, j) = 1000 + 10 * i + j;
      SM S2(n); S2 = 0.0; S2 = X * 1.0; Matrix M; M = S2; dumpM(os, "A", M); }
    { SM S3(n); S3 = 0.0; S3 = S; int i = n - 1, j = (kind == 4) ? n - 1 : (n > 1 && stored(kind, L, U, n - 1, n - 2) ? n - 2 : n - 1);
      S3(i, j) = -5.0; Matrix M; M = S3; os << "W" << i << "_" << j; dumpM(os, "", M); }
  } catch (adept::exception& e) { os << "EXC " << e.what(); }
  std::cout << os.str() << "\n";
}
#define BAND(ORD, L, U) SpecialMatrix<Real, BandEngine<ORD, L, U>, false>
int main() {
  for (int n = 1; n <= 7; ++n) {
    run<SquareMatrix>("SqR", 0, 0, 0, n);
    run<SpecialMatrix<Real, SquareEngine<COL_MAJOR>, false> >("SqC", 0, 0, 0, n);
    run<DiagMatrix>("BandR", 1, 0, 0, n);
    run<TridiagMatrix>("BandR", 1, 1, 1, n);
    run<PentadiagMatrix>("BandR", 1, 2, 2, n);
    run<BAND(ROW_MAJOR, 1, 2)>("BandR", 1, 1, 2, n);
    run<BAND(ROW_MAJOR, 2, 0)>("BandR", 1, 2, 0, n);
    run<BAND(ROW_MAJOR, 0, 3)>("BandR", 1, 0, 3, n);
    run<BAND(ROW_MAJOR, 3, 3)>("BandR", 1, 3, 3, n);
    run<BAND(ROW_MAJOR, 2, 1)>("BandR", 1, 2, 1, n);
    run<SymmMatrix>("SymLo", 2, 0, 0, n);
    run<SpecialMatrix<Real, SymmEngine<ROW_UPPER_COL_LOWER>, false> >("SymUp", 2, 0, 0, n);
    run<LowerMatrix>("LowR", 3, 0, 0, n);
    run<SpecialMatrix<Real, LowerEngine<COL_MAJOR>, false> >("LowC", 3, 0, 0, n);
    run<UpperMatrix>("UpR", 4, 0, 0, n);
    run<SpecialMatrix<Real, UpperEngine<COL_MAJOR>, false> >("UpC", 4, 0, 0, n);
  }
  return 0;
}
