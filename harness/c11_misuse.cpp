// C11 harness: each case commits one documented misuse at a point of an otherwise valid history, records the
// type of the exception caught at the call site, then continues with valid work on the same stack / arrays and
// checks its result.  Built with AddressSanitizer and UBSan (any out-of-bounds access aborts the run), with and
// without -DADEPT_STACK_THREAD_UNSAFE.
// Output:  B <case> <n>  (before the case runs: localises a crash)
//          M <case> <n> <exception caught or "none"> <follow-up ok: 1/0>
#include <adept_arrays.h>
#include <cstdio>
#include <cmath>
#include <cstdlib>
#include <string>
#include <vector>
using namespace adept;

// classify the exception in flight (most specific first)
#define CLASSIFY(stmt, out)                                                                   \
  try { stmt; out = "none"; }                                                                 \
  catch (const gradient_out_of_range&) { out = "gradient_out_of_range"; }                     \
  catch (const gradients_not_initialized&) { out = "gradients_not_initialized"; }             \
  catch (const stack_already_active&) { out = "stack_already_active"; }                       \
  catch (const dependents_or_independents_not_identified&) { out = "dependents_or_independents_not_identified"; } \
  catch (const wrong_gradient&) { out = "wrong_gradient"; }                                   \
  catch (const size_mismatch&) { out = "size_mismatch"; }                                     \
  catch (const inner_dimension_mismatch&) { out = "inner_dimension_mismatch"; }               \
  catch (const empty_array&) { out = "empty_array"; }                                         \
  catch (const invalid_dimension&) { out = "invalid_dimension"; }                             \
  catch (const index_out_of_bounds&) { out = "index_out_of_bounds"; }                         \
  catch (const invalid_operation&) { out = "invalid_operation"; }                             \
  catch (const adept::exception&) { out = "other_adept_exception"; }                          \
  catch (const std::exception&) { out = "std_exception"; }

static bool near(double a, double b) { return std::fabs(a - b) <= 1e-12 * (1.0 + std::fabs(b)); }
struct Result { std::string caught; bool follow; };

// a small valid algorithm: y = sum_i (i+1) * x_i^2 ; dy/dx_i = 2 (i+1) x_i
static adouble algo(const std::vector<adouble>& x) { adouble y = 0.0; for (size_t i = 0; i < x.size(); ++i) y += (i + 1.0) * x[i] * x[i]; return y; }
static bool check_adjoint(Stack& stack, std::vector<adouble>& x, adouble& y) {
  stack.clear_gradients(); y.set_gradient(1.0); stack.compute_adjoint();
  bool ok = true; for (size_t i = 0; i < x.size(); ++i) ok = ok && near(x[i].get_gradient(), 2.0 * (i + 1.0) * x[i].value());
  return ok;
}
static std::vector<adouble> inputs(int n) { std::vector<adouble> x(n); for (int i = 0; i < n; ++i) x[i] = 0.5 + 0.25 * i; return x; }

typedef Result (*Case)(int);
// ---------------------------------------------------------------- automatic differentiation
static Result c_adjoint_before_seed(int n) { Stack s; std::vector<adouble> x = inputs(n); s.new_recording(); adouble y = algo(x);
  Result r; CLASSIFY(s.compute_adjoint(), r.caught); r.follow = check_adjoint(s, x, y); return r; }
static Result c_forward_before_seed(int n) { Stack s; std::vector<adouble> x = inputs(n); s.new_recording(); adouble y = algo(x);
  Result r; CLASSIFY(s.compute_tangent_linear(), r.caught);
  x[0].set_gradient(1.0); s.compute_tangent_linear(); r.follow = near(y.get_gradient(), 2.0 * x[0].value()) && check_adjoint(s, x, y); return r; }
static Result c_get_before_seed(int n) { Stack s; std::vector<adouble> x = inputs(n); s.new_recording(); adouble y = algo(x);
  Result r; double g = 0; CLASSIFY(g = x[0].get_gradient(), r.caught); r.follow = check_adjoint(s, x, y); return r; }
static Result c_adjoint_after_clear(int n) { Stack s; std::vector<adouble> x = inputs(n); s.new_recording(); adouble y = algo(x);
  bool ok = check_adjoint(s, x, y); s.clear_gradients();
  Result r; CLASSIFY(s.compute_adjoint(), r.caught); r.follow = ok && check_adjoint(s, x, y); return r; }
static Result c_seed_late_object(int n) { Stack s; std::vector<adouble> x = inputs(n); s.new_recording(); adouble y = algo(x);
  y.set_gradient(1.0);
  std::vector<adouble> late(8 * n + 40); for (size_t i = 0; i < late.size(); ++i) late[i] = 1.0;     // created after the first seed
  Result r; CLASSIFY(late.back().set_gradient(1.0), r.caught);
  s.compute_adjoint(); bool ok = true; for (int i = 0; i < n; ++i) ok = ok && near(x[i].get_gradient(), 2.0 * (i + 1.0) * x[i].value());
  r.follow = ok && check_adjoint(s, x, y); return r; }
static Result c_get_late_object(int n) { Stack s; std::vector<adouble> x = inputs(n); s.new_recording(); adouble y = algo(x);
  y.set_gradient(1.0);
  std::vector<adouble> late(8 * n + 40); for (size_t i = 0; i < late.size(); ++i) late[i] = 1.0;
  Result r; double g = 0; CLASSIFY(g = late[late.size() / 2].get_gradient(), r.caught);
  s.compute_adjoint(); bool ok = true; for (int i = 0; i < n; ++i) ok = ok && near(x[i].get_gradient(), 2.0 * (i + 1.0) * x[i].value());
  r.follow = ok && check_adjoint(s, x, y); return r; }
static Result c_seed_late_array(int n) { Stack s; std::vector<adouble> x = inputs(n); s.new_recording(); adouble y = algo(x);
  y.set_gradient(1.0);
  aVector late(16 * n + 64); late = 1.0;
  Vector got;
  Result r; CLASSIFY(got = late.get_gradient(), r.caught);
  s.compute_adjoint(); bool ok = true; for (int i = 0; i < n; ++i) ok = ok && near(x[i].get_gradient(), 2.0 * (i + 1.0) * x[i].value());
  r.follow = ok && check_adjoint(s, x, y); return r; }
static Result c_jacobian_no_lists(int n) { Stack s; std::vector<adouble> x = inputs(n); s.new_recording(); adouble y = algo(x);
  std::vector<double> jac(n + 1, -7.0);
  Result r; CLASSIFY(s.jacobian(&jac[0]), r.caught);
  s.independent(&x[0], n); s.dependent(y); s.jacobian(&jac[0]);
  bool ok = true; for (int i = 0; i < n; ++i) ok = ok && near(jac[i], 2.0 * (i + 1.0) * x[i].value());
  r.follow = ok && jac[n] == -7.0 && check_adjoint(s, x, y); return r; }
static Result c_jacobian_no_dependents(int n) { Stack s; std::vector<adouble> x = inputs(n); s.new_recording(); adouble y = algo(x);
  std::vector<double> jac(n + 1, -7.0); s.independent(&x[0], n);
  Result r; CLASSIFY(s.jacobian(&jac[0]), r.caught);
  s.dependent(y); s.jacobian(&jac[0]);
  bool ok = true; for (int i = 0; i < n; ++i) ok = ok && near(jac[i], 2.0 * (i + 1.0) * x[i].value());
  r.follow = ok && jac[n] == -7.0; return r; }
static Result c_jacobian_no_independents(int n) { Stack s; std::vector<adouble> x = inputs(n); s.new_recording(); adouble y = algo(x);
  std::vector<double> jac(n + 1, -7.0); s.dependent(y);
  Result r; CLASSIFY(s.jacobian_reverse(&jac[0]), r.caught);
  s.independent(&x[0], n); s.jacobian_reverse(&jac[0]);
  bool ok = true; for (int i = 0; i < n; ++i) ok = ok && near(jac[i], 2.0 * (i + 1.0) * x[i].value());
  r.follow = ok && jac[n] == -7.0; return r; }
static Result c_jacobian_wrong_size(int n) { Stack s; std::vector<adouble> x = inputs(n); s.new_recording(); adouble y = algo(x);
  s.independent(&x[0], n); s.dependent(y);
  Matrix bad(n, 1); if (n == 1) bad.resize(2, 1); bad = -7.0;
  Result r; CLASSIFY(s.jacobian(bad), r.caught);
  Matrix good(1, n); s.jacobian(good);
  bool ok = true; for (int i = 0; i < n; ++i) ok = ok && near(good(0, i), 2.0 * (i + 1.0) * x[i].value());
  r.follow = ok && minval(bad) == -7.0 && maxval(bad) == -7.0; return r; }
static Result c_append_wrong_variable(int n) { Stack s; std::vector<adouble> x = inputs(n); s.new_recording();
  adouble y = 1.0, z = 1.0;
  y.add_derivative_dependence(x[0], 2.0);
  Result r; CLASSIFY(z.append_derivative_dependence(x[n - 1], 3.0), r.caught);
  adouble w = x[0] * 5.0;       // the next statement must not inherit anything from the failed call
  adouble yy = algo(x);
  s.clear_gradients(); w.set_gradient(1.0); s.compute_adjoint();
  bool ok = near(x[0].get_gradient(), 5.0); for (int i = 1; i < n; ++i) ok = ok && near(x[i].get_gradient(), 0.0);
  s.clear_gradients(); y.set_gradient(1.0); s.compute_adjoint(); ok = ok && near(x[0].get_gradient(), 2.0);
  r.follow = ok && check_adjoint(s, x, yy); return r; }
static Result c_second_stack(int n) { Stack s; std::vector<adouble> x = inputs(n); s.new_recording();
  Result r; CLASSIFY(Stack second, r.caught);
  adouble y = algo(x); r.follow = check_adjoint(s, x, y) && s.is_active(); return r; }
static Result c_activate_second(int n) { Stack s; std::vector<adouble> x = inputs(n); s.new_recording();
  Stack other(false);
  Result r; CLASSIFY(other.activate(), r.caught);
  adouble y = algo(x); r.follow = check_adjoint(s, x, y) && s.is_active(); return r; }
// ---------------------------------------------------------------- arrays
static Vector ramp(int n) { Vector v(n); for (int i = 0; i < n; ++i) v(i) = 1.0 + i; return v; }
static Result c_expr_size(int n) { Vector a = ramp(n), b = ramp(n + 1), c(n); c = 9.0;
  Result r; CLASSIFY(c = a + b, r.caught); c = a + a; r.follow = near(sum(c), n * (n + 1.0)); return r; }
static Result c_assign_size(int n) { Vector a = ramp(n), b = ramp(n + 1);
  Result r; CLASSIFY(a = b, r.caught); r.follow = a.size() == n && near(sum(a), n * (n + 1.0) / 2) && near(sum(b), (n + 1) * (n + 2.0) / 2); return r; }
static Result c_compound_size(int n) { Vector a = ramp(n), b = ramp(n + 2);
  Result r; CLASSIFY(a += b, r.caught); r.follow = near(sum(a), n * (n + 1.0) / 2); return r; }
static Result c_where_size(int n) { Vector a = ramp(n), b = ramp(n + 1), c = ramp(n);
  Result r; CLASSIFY(a.where(c > 1.5) = b, r.caught); a.where(c > 1.5) = 0.0; r.follow = near(sum(a), 1.0); return r; }
static Result c_active_expr_size(int n) { Stack s; aVector a(n), b(n + 1), c(n); a = ramp(n); b = ramp(n + 1); s.new_recording();
  Result r; CLASSIFY(c = a * b, r.caught); c = a * a; adouble y = sum(c); y.set_gradient(1.0); s.compute_adjoint();
  r.follow = near(a.get_gradient()(n - 1), 2.0 * n); return r; }
static Result c_matmul_inner(int n) { Matrix A(n, n + 1), B(n, n), C; A = 1.0; B = 2.0;
  Result r; CLASSIFY(C = matmul(A, B), r.caught); C = matmul(B, A); r.follow = C.dimension(0) == n && C.dimension(1) == n + 1 && near(C(0, 0), 2.0 * n); return r; }
static Result c_matmul_vec_inner(int n) { Matrix A(n, n + 1); Vector v = ramp(n), w; A = 1.0;
  Result r; CLASSIFY(w = matmul(A, v), r.caught); w = matmul(v, A); r.follow = w.size() == n + 1 && near(w(0), n * (n + 1.0) / 2); return r; }
static Result c_matmul_empty(int n) { Matrix A, B(n, n), C; B = 2.0;
  Result r; CLASSIFY(C = matmul(A, B), r.caught); C = matmul(B, B); r.follow = near(C(0, 0), 4.0 * n); return r; }
static Result c_resize_negative(int n) { Vector v = ramp(n);
  Result r; CLASSIFY(v.resize(-n), r.caught); bool kept = v.size() == n && near(sum(v), n * (n + 1.0) / 2);
  v.resize(n + 2); v = 1.0; r.follow = kept && near(sum(v), n + 2.0); return r; }
static Result c_resize_negative_dims(int n) { Matrix m(n, n); m = 3.0;
  Result r; CLASSIFY(m.resize(dimensions(n, -1)), r.caught); bool kept = m.dimension(0) == n && near(sum(m), 3.0 * n * n);
  m.resize(2, n); m = 1.0; r.follow = kept && near(sum(m), 2.0 * n); return r; }
static Result c_construct_negative(int n) { Result r; CLASSIFY(Vector v(-n), r.caught); Vector w = ramp(n); r.follow = near(sum(w), n * (n + 1.0) / 2); return r; }
static Result c_diag_nonsquare(int n) { Matrix m(n, n + 1); m = 2.0; Vector d;
  Result r; CLASSIFY(d = m.diag_vector(), r.caught); Matrix q(n, n); q = 3.0; d = q.diag_vector(); r.follow = d.size() == n && near(sum(d), 3.0 * n) && near(sum(m), 2.0 * n * (n + 1)); return r; }
static Result c_submatrix_nonsquare(int n) { Matrix m(n + 1, n); m = 2.0; Matrix d;
  Result r; CLASSIFY(d = m.submatrix_on_diagonal(0, 0), r.caught); r.follow = near(sum(m), 2.0 * n * (n + 1)); return r; }
static Result c_link_empty(int n) { Vector e, v = ramp(n);
  Result r; CLASSIFY(v.link(e), r.caught); r.follow = v.size() == n && near(sum(v), n * (n + 1.0) / 2); return r; }
static Result c_overfill(int n) { Vector v(n); v = 0.0; Vector guard = ramp(n);
  Result r;
  try { switch (n) { case 1: v << 1, 2; break; case 2: v << 1, 2, 3; break; case 3: v << 1, 2, 3, 4; break; case 4: v << 1, 2, 3, 4, 5; break; default: v << 1, 2, 3, 4, 5, 6, 7, 8, 9, 10, 11; }
        r.caught = "none"; }
  catch (const index_out_of_bounds&) { r.caught = "index_out_of_bounds"; } catch (const adept::exception&) { r.caught = "other_adept_exception"; }
  r.follow = v.size() == n && near(v(0), 1.0) && near(sum(guard), n * (n + 1.0) / 2); return r; }
static Result c_overfill_matrix(int n) { Matrix m(n, 2); m = 0.0; Vector row = ramp(3);
  Result r; CLASSIFY((m << row), r.caught); r.follow = m.dimension(1) == 2; return r; }
static Result c_fill_empty(int n) { Vector e;
  Result r; CLASSIFY((e << 1.0), r.caught); e.resize(n); e = 2.0; r.follow = near(sum(e), 2.0 * n); return r; }
static Result c_reshape_wrong(int n) { Vector v = ramp(2 * n + 1); Matrix m;
  Result r; CLASSIFY(m = v.reshape(2, n), r.caught); r.follow = near(sum(v), (2 * n + 1) * (2 * n + 2.0) / 2); return r; }
static Result c_matrix_assign_size(int n) { Matrix a(n, n + 1), b(n + 1, n); a = 1.0; b = 2.0;
  Result r; CLASSIFY(a = b, r.caught); r.follow = a.dimension(0) == n && near(sum(a), n * (n + 1.0)); return r; }

struct Entry { const char* name; Case fn; const char* expect; };
static Entry cases[] = {
  {"adjoint_before_seed", c_adjoint_before_seed, "gradients_not_initialized"}, {"forward_before_seed", c_forward_before_seed, "gradients_not_initialized"},
  {"get_gradient_before_seed", c_get_before_seed, "gradients_not_initialized"}, {"adjoint_after_clear_gradients", c_adjoint_after_clear, "gradients_not_initialized"},
  {"seed_object_created_after_first_seed", c_seed_late_object, "gradient_out_of_range"}, {"get_gradient_of_object_created_after_first_seed", c_get_late_object, "gradient_out_of_range"},
  {"get_gradient_of_array_created_after_first_seed", c_seed_late_array, "gradient_out_of_range"},
  {"jacobian_without_lists", c_jacobian_no_lists, "dependents_or_independents_not_identified"}, {"jacobian_without_dependents", c_jacobian_no_dependents, "dependents_or_independents_not_identified"},
  {"jacobian_without_independents", c_jacobian_no_independents, "dependents_or_independents_not_identified"}, {"jacobian_wrong_size", c_jacobian_wrong_size, "size_mismatch"},
  {"append_dependence_wrong_variable", c_append_wrong_variable, "wrong_gradient"},
  {"second_stack_constructed", c_second_stack, "stack_already_active"}, {"second_stack_activated", c_activate_second, "stack_already_active"},
  {"expression_size_mismatch", c_expr_size, "size_mismatch"}, {"assignment_size_mismatch", c_assign_size, "size_mismatch"}, {"compound_size_mismatch", c_compound_size, "size_mismatch"},
  {"where_size_mismatch", c_where_size, "size_mismatch"}, {"active_expression_size_mismatch", c_active_expr_size, "size_mismatch"}, {"matrix_assignment_size_mismatch", c_matrix_assign_size, "size_mismatch"},
  {"matmul_inner_dimension", c_matmul_inner, "inner_dimension_mismatch"}, {"matmul_vector_inner_dimension", c_matmul_vec_inner, "inner_dimension_mismatch"},
  {"matmul_empty_operand", c_matmul_empty, "empty_array"},
  {"resize_negative", c_resize_negative, "invalid_dimension"}, {"resize_negative_dimensions", c_resize_negative_dims, "invalid_dimension"}, {"construct_negative", c_construct_negative, "invalid_dimension"},
  {"diag_vector_nonsquare", c_diag_nonsquare, "invalid_operation"}, {"submatrix_on_diagonal_nonsquare", c_submatrix_nonsquare, "invalid_operation"},
  {"link_to_empty", c_link_empty, "empty_array"}, {"overfill", c_overfill, "index_out_of_bounds"}, {"overfill_matrix_row", c_overfill_matrix, "index_out_of_bounds"},
  {"fill_empty", c_fill_empty, "empty_array"}, {"reshape_wrong_total", c_reshape_wrong, "invalid_dimension"},
};
int main(int argc, char** argv) {
  const int nc = sizeof(cases) / sizeof(cases[0]);
  int only = argc > 1 ? std::atoi(argv[1]) : -1;
  for (int k = 0; k < nc; ++k) {
    if (only >= 0 && only != k) continue;
    for (int n = 1; n <= 6; ++n) {
      std::printf("B %s %d\n", cases[k].name, n); std::fflush(stdout);
      Result r; r.caught = "escaped"; r.follow = false;
      try { r = cases[k].fn(n); } catch (const std::exception& e) { r.caught = std::string("escaped:") + e.what(); for (size_t i = 0; i < r.caught.size(); ++i) if (r.caught[i] == ' ') r.caught[i] = '_'; }
      std::printf("M %s %d %s %s %d\n", cases[k].name, n, cases[k].expect, r.caught.c_str(), (int)r.follow); std::fflush(stdout);
    }
  }
  return 0;
}
