#!/usr/bin/env python3
"""writes /verif/MANIFEST.json from the table below (kept in one place so it stays valid)"""
import json, os
V = os.path.dirname(os.path.dirname(os.path.abspath(__file__)))
ALL = ["C%02d" % i for i in range(1, 21)]
CLAIMED = {
 "C05": dict(
   text="Machine-checked proofs (Coq; the split/negotiation theorems are axiom-free, the fastexp theorems use the standard real-number axioms) about the model of SIMD evaluation: for EVERY packet width w, row length n >= 2w and accepted offset the scalar prologue, packet body and scalar epilogue cover each element exactly once, the body is a whole number of packets, and the target and every array operand - whatever the shape of the expression tree, since the offset combination rule is proved associative and commutative - are accessed at packet-aligned addresses in every packet; offset clash or disagreement with the target falls back to scalar; with lane-wise packet operations the three loops yield element by element what the scalar loop yields; a vectorized reduction equals the scalar one in any commutative monoid (re-association is the only difference). fastexp: the computation translated from quick_e.h on every run (constants rounded as the compiler rounds them) has relative method error <= 2^-55 (double) and 2^-25 (float) for every argument the range test lets through. Tie: hook counters (prologue, packets, epilogue) of ~1.6 million statements per run compared with the extracted model in SSE2, AVX, AVX2+FMA and AVX-512F builds, every element compared bitwise with Adept's scalar path and a plain loop.",
   note="Partial where the truth is floating-point hardware behaviour: 'a packet operation is the lane-wise IEEE operation' is modelled and observed by the sweep, not proved; the 2 ulp claim for fastexp is the proved method error plus observed rounding error (sweep of ~60000 arguments per type and build, <= 1.3 ulp seen); the rounding bound of re-associated accumulation is the standard 2*gamma_n*sum|x_i| used as oracle. Instruction sets the host CPU lacks are skipped and listed in the evidence. FixedArray targets are not vectorized by the library and are outside the sweep.",
   technique="Coq proof of loop partition/alignment (arithmetic over Z for all widths and lengths) and of fastexp method error (Interval tactic over generated real-number definitions) + differential run of hook counters and element values in four instruction-set builds",
   design="DESIGN.md §4 C05"),
 "C07": dict(
   text="Machine-checked proof (Coq, axiom-free) over the life-cycle model of Storage/Array: for EVERY history of sized/default/copy/slice/soft-link/external construction, link, copy and move assignment (three kinds of temporaries), resize, clear, destruction and writes, each undeleted Storage's link count equals the number of live array objects owning a link (>= 1), no owner refers to deleted data, existing objects = created - deleted, no link operation ever touches deleted storage (no double free), all data is released when the last object goes (no leak), and '=' never makes the target refer to memory it did not already refer to other than a Storage created by that very operation (so later changes to the source or to external/stack memory cannot show through). Tie: extracted model compared after every operation with the real classes under ASan+LeakSanitizer, and both compared with an independent Python specification of sharing-vs-copy semantics.",
   note="Rank-1 arrays and contiguous views in model and harness (higher ranks, FixedArray and SpecialMatrix use the same Storage protocol); freeing data still addressed by a soft link is a documented user error and excluded; defect D2 (move-assign from a temporary on user memory aliased it) was repaired (fix commit 1075e40).",
   technique="Coq proof of reference-count invariant (induction over operation histories) + differential run + independent specification oracle",
   design="DESIGN.md §4 C07"),
 "C08": dict(
   text="Machine-checked proof (Coq 8.16, axiom-free) that the gap-list allocator model satisfies a pointwise partition invariant over every finite history of register/unregister/new_recording, with corollaries: live blocks pairwise disjoint, below i_gradient <= max_gradients, registered count = live elements, handed-out blocks were not live. The model is tied to adept::Stack by comparing every step of exhaustively enumerated and random histories (direct API and real adouble/aVector objects) on the current sources.",
   note="Hand-written model GapList.v (trusted until compared): correspondence run on every invocation; 32-bit overflow not modelled; derivative correctness under recycling is covered by C01/C03.",
   technique="Coq proof of allocator invariant (induction over histories) + differential correspondence of extracted model vs Stack",
   design="DESIGN.md §4 C08"),
 "C02": dict(
   text="Machine-checked proofs (Coq, axiom-free, any commutative ring): <rev t v,u> = <v,fwd t u> for every well-indexed tape; entrywise equality of adjoint-pass rows and tangent-pass columns; and for the blocked drivers of jacobian.cpp (serial forward/reverse, automatic chooser, OpenMP in any block order, every block width M>=1, every m,n, repeated index lists) that the list of writes is a permutation of {cell (i,j) at i*dep_off+j*indep_off := J(i,j)}, each exactly once, hence the final memory for every injective layout (column-major pointer default, row-major, transposed and strided Matrix targets). Tie: the extracted model run on OCaml doubles is compared exactly with the real Stack on tapes written through the public add/append_derivative_dependence API, for several block widths/packet ISAs.",
   note="Hand model Tape.v/Jacobian.v; rounding not modelled (test data dyadic, results exact); the multi-lane zero shortcut with non-finite multipliers is outside the ring model; negative Matrix strides as target outside the claim.",
   technique="Coq proof (adjoint identity by induction over the tape; permutation-of-canonical-writes for each driver) + differential correspondence of extracted model vs Stack",
   design="DESIGN.md §4 C02"),
 "C04": dict(
   text="Machine-checked proofs (Coq, axiom-free) about the model of passive array statements: every address of a view lies in the range computed by data_range (any rank, any stride signs); a negative alias test is sound (the expression - leaves, scalars, element-wise operators, spread, outer_product - reads nothing inside the target's window); hence Array::operator= (alias test, temporary copy, element-by-element loop) equals 'evaluate the whole right-hand side on the initial memory, then store' for every target view and well-shaped right-hand side without noalias; the same for where(); compound assignment is proved under non-overlap (partial) and its failure for shifted overlaps is a machine-checked refutation (Refuted_C04.v) reported as KNOWN-FINDING. Tie: ~1800 generated C++ statements per run (systematic boundary family around the alias test + random views/expressions/overlaps, ASan) compared exactly with the extracted model and with an independent nested-list specification.",
   note="Reductions, dot_product and count are checked by correspondence and specification only (no theorem beyond the fold definition); integer-vector-indexed targets, find, minloc/maxloc and the column-major default order are not yet in the generator; where-masks reading shifted target elements are outside the claim (the mask is not the right-hand side). Defects repaired: scalar fill of negative-stride views (7d24311), alias blindness of spread/outer_product (03b42f5).",
   technique="Coq proof (footprint lemma, alias-test soundness by induction on expressions, loop-vs-specification by induction on the index list) + generated-C++ differential run + specification oracle",
   design="DESIGN.md §4 C04"),
 "C06": dict(
   text="Machine-checked proofs (Coq, axiom-free) about the (base, extents, strides) model of Array views: slicing with any mix of scalar indices, ranges, positive/negative strides and `end` arithmetic satisfies addr(slice v l) j = addr v (denoted index) for all j; the extent formula with C++ truncating division is exactly the number of terms of the arithmetic progression for both stride signs; rank = number of range arguments; and for every finite composition of operator(), operator[], T, permute, diag_vector(k), submatrix_on_diagonal, reshape and soft_link with admissible arguments (any rank): address identity with the composed index map, denoted indices inside the parent's extents, distinct indices denote distinct parent cells, all cells inside the parent's memory; the bounds-checked slicing raises exactly when a scalar index or range end-point is outside 0..n-1. Tie: the extracted model and an independent nested-list denotation are compared with the real Array class (default and ADEPT_BOUNDS_CHECKING builds) on exhaustive small slices and random compositions, including write-through of every element.",
   note="Hand model View.v; harness covers ranks 1-4 (theorems cover any rank); index vectors (IndexedArray) are covered under C04/C03, not here; stride 0 and ranges pointing away from `end` are inadmissible arguments and excluded.",
   technique="Coq proof of view algebra (affine address identity, AP count with truncating division, composition by induction) + differential correspondence + independent denotational oracle",
   design="DESIGN.md §4 C06"),
 "C09": dict(
   text="Machine-checked proof (Coq, axiom-free) about the recording-buffer model: from ANY initial capacity k>=1, every trace of recording events that respects the reservation discipline (check_space(n) licenses n unchecked pushes) stores nothing at or beyond the capacities the code computes (invariant n_ops < capacity through both growth formulas), push_lhs/push_lhs_range never overflow, what is recorded is independent of the capacities and preallocate_* change capacities only; a site pushing more than reserved+1 provably overflows for k=R+1. Generated obligations: tools/gen_sites.py re-reads every check_space call of the current sources and the theorem C09_every_site_reserves_enough re-proves demand <= reservation for each. Tie: instrumented build (guarded hook) under ASan over a catalogue of 40+ recording statement kinds x sizes x spare-slot counts x tiny initial capacities: hook trace = model trace, every observed trace satisfies the discipline hypothesis, derivatives identical across capacities.",
   note="Demand column of the site table is hand-read (checked dynamically against every observed trace); translator grammar trusted; real memory safety of the stores rests on ASan + the capacity hook; complex arrays and ADEPT_STACK_STORAGE_STL out of scope.",
   technique="Coq proof of buffer-capacity invariant + generated per-site obligations (translator) + instrumented differential run",
   design="DESIGN.md §4 C09"),
 "C17": dict(
   text="The integer functions of all ten special-matrix storage engines (index, pack_offset, data_size, row_offset, get_row_range, set_extras, value guards, upper/lower diagonal offsets, transpose engine) are translated from include/adept/SpecialMatrix.h into Coq on every run; machine-checked theorems (axiom-free, for every dimension, offset and band width) show: stored positions lie inside the allocated data and are pairwise distinct modulo the symmetric mirror; traversing a row inside an expression yields the dense row (mirrored / zero outside triangle or band) under the stated offset hypothesis; a write changes exactly that entry and its mirror; T(), diag_vector(k), submatrix_on_diagonal and assignment from an expression agree with the dense equivalent. Tie: translator (G) + exhaustive correspondence run over all typedef'd kinds and several general bands, sizes 1..7, compared with the generated model and with a dense oracle. The known defect DiagMatrix::T() (offset 0 violates the traversal hypothesis) is reported as KNOWN-FINDING and kept as a machine-checked refutation (Refuted_C17.v).",
   note="Translator grammar trusted (cross-checked by the run); passive matrices only here (active ones share the same engine functions, exercised under C09); column-major band engines reachable only through T().",
   technique="Coq proofs over source-generated engine functions (translator) + exhaustive differential run + dense oracle",
   design="DESIGN.md §4 C17"),
 "C20": dict(
   text="Machine-checked proofs over the real numbers (standard-library real axioms) about the model of interp.h: the binary search ends on two consecutive knots that bracket the query, for increasing and decreasing coordinates (induction on fuel); strictly inside the range the result is the chord of that interval (the piecewise-linear interpolant), for any number of trailing values; at every knot (first, interior, last) and for every extrapolation policy the data value itself; outside the range the linear continuation / clamped end value / constant; the index-weight pairs of interp2d/3d bracket the query with weight in [0,1] and w*ya+(1-w)*yb is the same chord (tensor-product interpolant); option decoding. Tie: the extracted model on OCaml doubles is compared bit for bit with interp/interp2d/interp3d (all option words, both directions, passive and active data), and an exact rational oracle checks values, exception kinds and that the Jacobian w.r.t. the data equals the interpolation weights.",
   note="Theorems over R: floating-point rounding measured (bit-identical to the model), not proved; nearest-neighbour ties and non-finite queries have no defined value (only no-crash checked); harness uses 0-1 trailing dimensions. The defect 'constant extrapolation returned at the end knots' was repaired (fix commit be2c4d7).",
   technique="Coq proof over R (bracket invariant by induction, field identities, lra) + differential run + exact rational oracle",
   design="DESIGN.md §4 C20"),
 "C13": dict(
   text="Machine-checked proof that the OpenMP Jacobian routines, modelled as an arbitrary execution order of ceil(k/M) blocks with private buffers, perform a permutation of the serial routine's writes (each cell produced by exactly one block, no re-association), so the resulting matrix is identical for every schedule and thread count; blocks write disjoint cells. Tie: harness built with -fopenmp, set_max_jacobian_threads(1..16), compared exactly with the model and the unit-vector passes; a guarded hook confirms several threads processed blocks.",
   note="Threads are modelled at block granularity (inside a block only private memory and disjoint output cells are touched - proved); the OpenMP runtime executing each iteration exactly once is trusted; hardware interleavings are exercised, not proved.",
   technique="Coq proof of schedule independence (permutation invariance of disjoint writes) + OpenMP differential run",
   design="DESIGN.md §4 C13"),
}
NOT_YET = "check not built yet in this round (design in DESIGN.md §4); not claimed until its model, theorems and correspondence run exist"
m = {
 "version": 1,
 "setup_cmd": "./check --setup",
 "hooks": {"guard": "RJHOGAN_ADEPT_2_VERIF",
           "enable": "harnesses are compiled from /repo's current sources with -DRJHOGAN_ADEPT_2_VERIF on the compiler command line",
           "baseline_off_cmd": "make -C /repo -j8 && make -C /repo check",
           "source_commits": [], "add_only": True},
 "engines": [{"name": "coq-proof+correspondence", "path": "check", "serves_properties": sorted(CLAIMED),
              "kind_free_text": "Coq 8.16 theories under coq/theories (+ generated fragments), extraction to OCaml drivers, C++ harnesses built from the working tree"}],
 "checks": [], "not_applicable": [],
 "notes": "Technique family: machine-checked proof in Coq. See DESIGN.md; KNOWN_FINDINGS.txt lists recorded genuine defects.",
}
for c in ALL:
    if c in CLAIMED:
        d = CLAIMED[c]
        m["checks"].append({"property_id": c, "quick_cmd": "./check %s --tier quick" % c,
                            "thorough_cmd": "./check %s --tier thorough" % c,
                            "evidence_file": "evidence/%s.json" % c,
                            "replay_cmd_template": "./check %s --replay {path}" % c,
                            "engine": "coq-proof+correspondence",
                            "level_claimed": {"category": d.get("category", "proof"), "text": d["text"], "design_ref": d["design"]},
                            "level_note": d["note"], "technique": d["technique"]})
    else:
        m["not_applicable"].append({"property_id": c, "reason": NOT_YET})
# hook commits recorded by hand in hooks.json when they exist
hp = os.path.join(V, "hooks.json")
if os.path.exists(hp):
    m["hooks"]["source_commits"] = json.load(open(hp))
json.dump(m, open(os.path.join(V, "MANIFEST.json"), "w"), indent=1)
print("MANIFEST.json: %d claimed, %d not claimed" % (len(m["checks"]), len(m["not_applicable"])))
