#!/usr/bin/env python3
"""translator (C12, C14): inventory of process-wide mutable state of the library and of the reference-count protocol.
Reads adept/*.cpp and include/adept/*.h and writes Gen_Globals.v:
  globals           namespace-scope variables with their access class (thread-local / plain)
  function_statics  non-const static variables declared inside functions or classes (shared by all threads)
  n_links_access    access class of Storage::n_links_ with and without ADEPT_STORAGE_THREAD_SAFE
  add_link_steps / remove_link_steps   the micro-steps the two functions perform on n_links_
Strict: an unrecognised form in add_link / remove_link is an error."""
import sys, os, re

REPO = sys.argv[1] if len(sys.argv) > 1 else "/repo"


def die(msg):
    sys.stderr.write("gen_globals: " + msg + "\n")
    sys.exit(2)


def strip(text):
    # the guarded verification hooks are not part of the library proper
    text = re.sub(r"#ifdef RJHOGAN_ADEPT_2_VERIF.*?#endif", "", text, flags=re.S)
    # the configuration verified is C++11: keep the first branch of simple (un-nested) ADEPT_CXX11_FEATURES conditionals
    def cxx11(m):
        return m.group(1) if "#if" not in m.group(1) and "#if" not in m.group(2) else m.group(0)
    text = re.sub(r"#ifdef ADEPT_CXX11_FEATURES\n(.*?)#else\n(.*?)#endif", cxx11, text, flags=re.S)
    text = re.sub(r"/\*.*?\*/", lambda m: " " * 0 + "\n" * m.group(0).count("\n"), text, flags=re.S)
    text = re.sub(r"//[^\n]*", "", text)
    text = re.sub(r'"(?:\\.|[^"\\])*"', '""', text)
    # preprocessor lines are not statements
    text = re.sub(r"^[ \t]*#[^\n]*(?:\\\n[^\n]*)*", "", text, flags=re.M)
    return text


def scan(path):
    """returns (namespace-scope variable definitions, inner static variables) found in one file"""
    text = strip(open(path).read())
    glob, stat = [], []
    stack = []      # kinds of open blocks: 'ns' or 'other'
    stmt = ""
    i = 0
    while i < len(text):
        c = text[i]
        if c == "{":
            head = stmt.strip()
            kind = "ns" if re.search(r"(^|\s)namespace(\s+\w+)?\s*$", head) or re.search(r'extern\s+""\s*$', head) else "other"
            stack.append(kind)
            stmt = ""
        elif c == "}":
            if stack:
                stack.pop()
            stmt = ""
        elif c == ";":
            s = " ".join(stmt.split())
            if s:
                if all(k == "ns" for k in stack):
                    m = re.fullmatch(r"(ADEPT_THREAD_LOCAL\s+)?(static\s+)?(?!using\b|typedef\b|extern\b|return\b|friend\b|template\b|class\b|struct\b|enum\b)([A-Za-z_][\w:<>,\s]*?[\s\*&]+)(\w+)\s*(\[[^\]]*\])?\s*(=.*|\(\s*[\d.]+\s*\))?", s)
                    if m and "(" not in (m.group(3) + m.group(4)) and not re.search(r"\bconst\b", m.group(3)) and "operator" not in s:
                        acc = "ThreadLocal" if m.group(1) else ("Atomic" if "std::atomic" in m.group(3) else "Plain")
                        glob.append((m.group(4), acc, os.path.basename(path)))
                else:
                    m = re.fullmatch(r"(?:.*?[;{}]\s*)?static\s+(?!const\b|inline\b|constexpr\b)([A-Za-z_][\w:<>,\s]*?[\s\*&]+)(\w+)\s*(\[[^\]]*\])?\s*(=.*)?", s)
                    if m and "(" not in m.group(1) and not re.search(r"\bconst\b", m.group(1)):
                        stat.append((m.group(2), os.path.basename(path)))
                    else:
                        # a const static whose initialiser calls a function is initialised once, at run time, by whichever thread
                        # gets there first, and then shared by all threads (e.g. a cached active_stack()): state all the same
                        m2 = re.fullmatch(r"(?:.*?[;{}]\s*)?static\s+([A-Za-z_][\w:<>,\s\*&]*?[\s\*&]+)(\w+)\s*=\s*(.*)", s)
                        if m2 and "(" not in m2.group(1) and re.search(r"\bconst\b", m2.group(1)):
                            init = re.sub(r"\bsizeof\s*\([^()]*\)", "0", m2.group(3))
                            if re.search(r"[A-Za-z_]\w*\s*(?:<[^<>]*>)?\s*\(", init):
                                stat.append((m2.group(2), os.path.basename(path)))
            stmt = ""
        else:
            stmt += c
        i += 1
    return glob, stat


def function_body(text, name):
    m = re.search(r"\bvoid\s+%s\s*\(\s*\)\s*\{" % name, text)
    if not m:
        die("Storage::%s not found" % name)
    i = m.end() - 1
    depth, j = 0, i
    while True:
        if text[j] == "{":
            depth += 1
        elif text[j] == "}":
            depth -= 1
            if depth == 0:
                break
        j += 1
    return " ".join(text[i + 1:j].split())


def link_steps(storage_h):
    text = strip(open(storage_h).read())
    add = function_body(text, "add_link")
    if add in ("n_links_++ ;", "n_links_++;", "++n_links_;", "++n_links_ ;"):
        add_steps = "[MRmw 1]"
    else:
        die("add_link body '%s' is not a single increment" % add)
    rem = function_body(text, "remove_link")
    rem_n = re.sub(r"throw invalid_operation\s*\([^;]*\)\s*;", "THROW;", rem)
    rem_n = " ".join(rem_n.replace("{", " { ").replace("}", " } ").split())
    forms = {
        "if (n_links_ == 0) { THROW; } else if (--n_links_ == 0) { delete this; }": "[MCheckNonZero; MRmwDeleteIfZero (-1)]",
        "if (--n_links_ == 0) { delete this; }": "[MRmwDeleteIfZero (-1)]",
    }
    if rem_n not in forms:
        # any other shape: emit it step by step so that the theorem about the generated list decides
        steps = []
        rest = rem_n
        if rest.startswith("if (n_links_ == 0) { THROW; } else "):
            steps.append("MCheckNonZero")
            rest = rest[len("if (n_links_ == 0) { THROW; } else "):].strip()
            if rest.startswith("{") and rest.endswith("}"):
                rest = rest[1:-1].strip()
        for piece in [p.strip() for p in re.split(r";(?![^{]*\})", rest) if p.strip()]:
            if piece in ("--n_links_", "n_links_--"):
                steps.append("MRmw (-1)")
            elif re.fullmatch(r"if \(n_links_ == 0\) \{ delete this; \}", piece):
                steps.append("MLoadDeleteIfZero")
            elif re.fullmatch(r"if \(--n_links_ == 0\) \{ delete this; \}", piece):
                steps.append("MRmwDeleteIfZero (-1)")
            else:
                die("remove_link: cannot translate '%s' (whole body: %s)" % (piece, rem_n))
        rem_steps = "[" + "; ".join(steps) + "]"
    else:
        rem_steps = forms[rem_n]
    # declared type of n_links_
    m = re.search(r"#ifdef ADEPT_STORAGE_THREAD_SAFE(.*?)#else(.*?)#endif", open(storage_h).read()[open(storage_h).read().index("gradient_index_;") - 800:], re.S)
    safe = plain = None
    if m:
        safe = "Atomic" if re.search(r"std::atomic\s*<\s*int\s*>\s+n_links_", m.group(1)) else ("Plain" if re.search(r"\bint\s+n_links_", m.group(1)) else None)
        plain = "Plain" if re.search(r"\bint\s+n_links_", m.group(2)) and "atomic" not in m.group(2) else ("Atomic" if "atomic" in m.group(2) else None)
    if safe is None or plain is None:
        die("declaration of n_links_ under ADEPT_STORAGE_THREAD_SAFE not found")
    return add_steps, rem_steps, safe, plain


def main():
    globs, stats = [], []
    # the library sources and every header reachable from them or from the two public headers
    todo = sorted(os.path.join(REPO, "adept", f) for f in os.listdir(os.path.join(REPO, "adept")) if f.endswith(".cpp"))
    todo += [os.path.join(REPO, "include", "adept.h"), os.path.join(REPO, "include", "adept_arrays.h")]
    srcs, seen = [], set()
    while todo:
        f = todo.pop()
        if f in seen or not os.path.exists(f):
            continue
        seen.add(f)
        srcs.append(f)
        for inc in re.findall(r'#\s*include\s*[<"]([^>"]+)[>"]', open(f).read()):
            for cand in (os.path.join(REPO, "include", inc), os.path.join(os.path.dirname(f), inc), os.path.join(REPO, "adept", inc)):
                if os.path.exists(cand):
                    todo.append(os.path.normpath(cand))
    srcs = sorted(x for x in srcs if "/adept_source.h" not in x)
    for p in srcs:
        g, s = scan(p)
        globs += g
        stats += s
    add_steps, rem_steps, safe, plain = link_steps(os.path.join(REPO, "include/adept/Storage.h"))
    out = ["(* GENERATED by tools/gen_globals.py from adept/*.cpp and include/adept/*.h -- do not edit *)",
           "From Coq Require Import ZArith List String.", "From Adept Require Import Conc.", "Import ListNotations.", "Local Open Scope string_scope.", ""]
    out.append("Definition globals : list (string * access) := [%s]." % "; ".join('("%s", %s)' % (n, a) for n, a, _ in sorted(set(globs))))
    out.append("(* where they are defined: %s *)" % ", ".join("%s in %s" % (n, f) for n, a, f in sorted(set(globs))))
    out.append("Definition function_statics : list string := [%s]." % "; ".join('"%s"' % n for n, _ in sorted(set(stats))))
    out.append("(* %s *)" % ", ".join("%s in %s" % (n, f) for n, f in sorted(set(stats))))
    out.append("Definition n_links_access_thread_safe : access := %s." % safe)
    out.append("Definition n_links_access_default : access := %s." % plain)
    inits = sorted(set(re.findall(r"\bn_links_\s*\(\s*(-?\d+)\s*\)", strip(open(os.path.join(REPO, "include/adept/Storage.h")).read()))))
    if len(inits) != 1:
        die("Storage constructors initialise n_links_ with %s" % (inits or "nothing recognisable"))
    out.append("Definition initial_links : BinNums.Z := (%s)%%Z." % inits[0])
    out.append("Definition add_link_steps : list mstep := %s." % add_steps)
    out.append("Definition remove_link_steps : list mstep := %s." % rem_steps)
    sys.stdout.write("\n".join(out) + "\n")


if __name__ == "__main__":
    main()
