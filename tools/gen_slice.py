#!/usr/bin/env python3
"""translator (C06): reads how Array::operator()(i0,...,ik) turns scalar indices and ranges into a view
(include/adept/Array.h): the two update_index helpers (scalar: offset only; range: offset, new extent, new stride), the
rank-1 ranged operator() (const and non-const), and the skeleton of every multi-argument overload (update_index called
once per argument, in order; the result built from data_ + ibegin, new_dim, new_offset).  Writes Gen_Slice.v.
Strict: any other form is an error (exit 2).  '/' is C++ integer division (truncating): Z.quot."""
import sys, os, re
sys.path.insert(0, os.path.dirname(os.path.abspath(__file__)))
import cppscan as S

REPO = sys.argv[1] if len(sys.argv) > 1 else "/repo"


def die(msg):
    sys.stderr.write("gen_slice: " + msg + "\n")
    sys.exit(2)


TOK = re.compile(r"(\d+|[A-Za-z_][A-Za-z0-9_]*|[-+*/()])")


class E:
    def __init__(self, s, env, where):
        self.t, self.k, self.env, self.where = [], 0, env, where
        pos = 0
        while pos < len(s):
            m = TOK.match(s, pos)
            if not m:
                die("%s: cannot tokenise '%s'" % (where, s[pos:]))
            self.t.append(m.group(1)); pos = m.end()

    def peek(self):
        return self.t[self.k] if self.k < len(self.t) else None

    def eat(self):
        x = self.peek()
        if x is None:
            die("%s: expression ends early" % self.where)
        self.k += 1
        return x

    def arith(self):
        a = self.term()
        while self.peek() in ("+", "-"):
            o = self.eat(); b = self.term()
            a = "(%s %s %s)" % (a, o, b)
        return a

    def term(self):
        a = self.atom()
        while self.peek() in ("*", "/"):
            o = self.eat(); b = self.atom()
            a = "(%s * %s)" % (a, b) if o == "*" else "(Z.quot %s %s)" % (a, b)
        return a

    def atom(self):
        x = self.eat()
        if x == "(":
            a = self.arith()
            if self.eat() != ")":
                die("%s: ')' expected" % self.where)
            return a
        if x.isdigit():
            return x
        if x in self.env:
            return self.env[x]
        die("%s: unknown name '%s'" % (self.where, x))


def arith(s, arg, dim, w):
    """expression over the resolved pieces of index object `arg` on a dimension of extent dimensions_[dim]"""
    d = "dimensions_[%s]" % dim
    for a, b in ((arg + ".begin(" + d + ")", "RB"), (arg + ".end(" + d + ")", "RE"), (arg + ".stride(" + d + ")", "RS"),
                 ("internal::get_index_with_len(" + arg + "," + d + ")", "RI"), ("offset_[%s]" % dim, "OFF")):
        s = s.replace(a, b)
    p = E(s, {"RB": "b", "RE": "e", "RS": "st", "RI": "r", "OFF": "s", "ibegin": "ib"}, w)
    a = p.arith()
    if p.peek() is not None:
        die("%s: trailing '%s' in '%s'" % (w, p.peek(), s))
    return a


def squeeze(s):
    s = "\n".join(l for l in s.split("\n") if not l.lstrip().startswith("#"))
    return "".join(s.split())


MAT = (("dimensions_[0]", "D0"), ("dimensions_[1]", "D1"), ("offset_[0]", "S0"), ("offset_[1]", "S1"))
MENV = {"D0": "d0", "D1": "d1", "S0": "s0", "S1": "s1", "data_": "b0", "offdiag": "k", "ibegin": "ib", "iend": "ie", "len": "len"}


def marith(x, w):
    for a, b in MAT:
        x = x.replace(a, b)
    p = E(x, MENV, w)
    a = p.arith()
    if p.peek() is not None:
        die("%s: trailing '%s' in '%s'" % (w, p.peek(), x))
    return a


def fbody(t, header_re, w):
    m = list(re.finditer(header_re, t))
    if len(m) != 1:
        die("%s: %d definitions" % (w, len(m)))
    o = m[0].end() - 1
    d, i = 0, o
    while True:
        if t[i] == "{":
            d += 1
        elif t[i] == "}":
            d -= 1
            if d == 0:
                break
        i += 1
    return squeeze(t[o:i + 1])


def diag_and_sub(t, out):
    """diag_vector(offdiag) and submatrix_on_diagonal(ibegin, iend) of a square matrix"""
    def emit(name, args, e):
        out.append("Definition %s %s : Z := %s." % (name, " ".join("(%s : Z)" % x for x in args), e))
    w = "diag_vector"
    b = fbody(t, r"diag_vector\s*\(\s*Index\s+offdiag\s*=\s*0\s*\)\s*\{", w)
    ret = r"Indexnew_dim=std::min\(([^,;]+),([^;]+?)\);returnArray<1,Type,IsActive>\(([^,;]+),storage_,ExpressionSize<1>\(new_dim\),ExpressionSize<1>\(([^;]+?)\)\);"
    m = re.fullmatch(r"\{ADEPT_STATIC_ASSERT\(Rank==2,[A-Z_]+\);if\(empty\(\)\)\{returnArray<1,Type,IsActive>\(\);\}"
                     r"elseif\(dimensions_\[0\]!=dimensions_\[1\]\)\{throwinvalid_operation\([^;]*\);\}"
                     r"elseif\(([^(){};]+)\)\{" + ret + r"\}else\{" + ret + r"\}\}", b)
    if not m:
        die("diag_vector: form not recognised: " + b[:500])
    args = ["b0", "d0", "d1", "s0", "s1", "k"]
    out.append("")
    out.append("(* diag_vector(offdiag): the branch offdiag >= 0, then the other one *)")
    c = re.fullmatch(r"(.+?)(>=|<=|==|>|<)(.+)", m.group(1))
    if not c:
        die("diag_vector: branch condition '%s' is not a comparison" % m.group(1))
    out.append("Definition dg_first_branch (k : Z) : bool := (%s %s %s)." % (marith(c.group(1), w), {">=": ">=?", "<=": "<=?", "==": "=?", ">": ">?", "<": "<?"}[c.group(2)], marith(c.group(3), w)))
    for pre, g in (("dgp", m.groups()[1:5]), ("dgn", m.groups()[5:9])):
        emit(pre + "_dim", args, "(Z.min %s %s)" % (marith(g[0], w), marith(g[1], w)))
        emit(pre + "_base", args, marith(g[2], w))
        emit(pre + "_stride", args, marith(g[3], w))
    w = "submatrix_on_diagonal"
    b = fbody(t, r"submatrix_on_diagonal\s*\(\s*Index\s+ibegin\s*,\s*Index\s+iend\s*\)\s*\{", w)
    m = re.fullmatch(r"\{ADEPT_STATIC_ASSERT\(Rank==2,[A-Z_]+\);if\(dimensions_\[0\]!=dimensions_\[1\]\)\{throwinvalid_operation\([^;]*\);\}"
                     r"elseif\(ibegin<0\|\|ibegin>iend\|\|iend>=dimensions_\[0\]\)\{throwindex_out_of_bounds\([^;]*\);\}"
                     r"else\{Indexlen=([^;]+);ExpressionSize<2>dim\(len,len\);returnArray\(([^,;]+),storage_,dim,offset_\);\}\}", b)
    if not m:
        die("submatrix_on_diagonal: form not recognised: " + b[:500])
    out.append("(* submatrix_on_diagonal(ibegin, iend): rejected unless 0 <= ibegin <= iend < dimensions_[0]; extents (len, len), strides kept *)")
    emit("sd_len", ["ib", "ie"], marith(m.group(1), w))
    emit("sd_base", ["b0", "s0", "s1", "ib", "ie"], marith(m.group(2), w))


def transpose_and_reshape(t, out):
    """in_place_transpose() as a straight-line program over dimensions_[0..1], offset_[0..1] and a temporary, run
    symbolically; reshape(dims) of a vector: stride of the last new dimension and the recurrence for the others"""
    w = "in_place_transpose"
    b = fbody(t, r"Array\s*&\s*in_place_transpose\s*\(\s*\)\s*\{", w)
    m = re.fullmatch(r"\{ADEPT_STATIC_ASSERT\(Rank==2,[A-Z_0-9]+\);Indextmp;((?:[a-z_\[\]01]+=[a-z_\[\]01]+;)+)return\*this;\}", b)
    if not m:
        die("in_place_transpose: form not recognised: " + b[:300])
    val = {"dimensions_[0]": "d0", "dimensions_[1]": "d1", "offset_[0]": "s0", "offset_[1]": "s1"}
    for st in m.group(1).strip(";").split(";"):
        l, r = st.split("=")
        if r not in val or (l != "tmp" and l not in ("dimensions_[0]", "dimensions_[1]", "offset_[0]", "offset_[1]")):
            die("in_place_transpose: statement '%s'" % st)
        val[l] = val[r]
    out.append("")
    out.append("(* in_place_transpose(): the members after the straight-line swap, in terms of the members before *)")
    for n, k in (("tr_d0", "dimensions_[0]"), ("tr_d1", "dimensions_[1]"), ("tr_s0", "offset_[0]"), ("tr_s1", "offset_[1]")):
        out.append("Definition %s (d0 d1 s0 s1 : Z) : Z := %s." % (n, val[k]))
    for fn in ("my_T",):
        bodies = set(squeeze(t[x.end() - 1:t.index("}", x.end()) + 1]) for x in re.finditer(r"my_T\s*\(\s*\)\s*(?:const\s*)?\{", t)
                     if "MyRank==2" in squeeze(t[max(0, x.start() - 200):x.start()]))
        ok = {"{Array<2,Type,IsActive>out(*this);returnout.in_place_transpose();}", "{Array<2,Type,IsActive>out(const_cast<Array&>(*this));returnout.in_place_transpose();}"}
        if not bodies or not bodies <= ok:
            die("my_T<2>: not 'link to *this, then in_place_transpose()': %s" % sorted(bodies))
    w = "reshape"
    b = fbody(t, r"reshape\s*\(\s*const\s+ExpressionSize<NewRank>\s*&\s*dims\s*\)\s*\{", w)
    m = re.fullmatch(r"\{ADEPT_STATIC_ASSERT\(Rank==1,[A-Z_]+\);Indexnew_size=1;for\(inti=0;i<NewRank;\+\+i\)\{new_size\*=dims\[i\];\}"
                     r"if\(new_size!=dimensions_\[0\]\)\{throwinvalid_dimension\([^;]*\);\}ExpressionSize<NewRank>offset;"
                     r"offset\[NewRank-1\]=([^;]+);for\(inti=NewRank-2;i>=0;--i\)\{offset\[i\]=([^;]+);\}"
                     r"returnArray<NewRank,Type,IsActive>\(data_,storage_,dims,offset\);\}", b)
    if not m:
        die("reshape: form not recognised: " + b[:400])
    out.append("(* reshape(dims) of a vector: rejected unless the product of dims is the length; base kept; strides from the last one backwards *)")
    last = m.group(1).replace("offset_[0]", "S0")
    step = m.group(2).replace("dims[i+1]", "DN").replace("offset[i+1]", "SN")
    pl = E(last, {"S0": "s0"}, w); el = pl.arith()
    ps = E(step, {"DN": "dn", "SN": "sn"}, w); es = ps.arith()
    if pl.peek() is not None or ps.peek() is not None:
        die("reshape: trailing tokens")
    out.append("Definition rs_last (s0 : Z) : Z := %s." % el)
    out.append("Definition rs_step (dn sn : Z) : Z := %s." % es)


def leading_index(t, out):
    """operator[](i) on rank > 1 (const and non-const): offset along dimension 0, the other dimensions shifted down"""
    w = "operator[] (rank > 1)"
    ms = [m for m in re.finditer(r"operator\[\]\s*\(\s*T\s+i\s*\)\s*(?:const\s*)?\{", t)
          if "(Rank>1)" in squeeze(t[max(0, m.start() - 250):m.start()])]
    if len(ms) != 2:
        die("%s: %d definitions (2 expected)" % (w, len(ms)))
    forms = set()
    for m in ms:
        o = m.end() - 1
        d, i = 0, o
        while True:
            if t[i] == "{":
                d += 1
            elif t[i] == "}":
                d -= 1
                if d == 0:
                    break
            i += 1
        forms.add(squeeze(t[o:i + 1]).replace("const_cast<Type*>(data_)", "data_"))
    if len(forms) != 1:
        die("%s: const and non-const bodies differ" % w)
    m = re.fullmatch(r"\{intindex=([^;]+);ExpressionSize<Rank-1>new_dim;ExpressionSize<Rank-1>new_offset;for\(intj=1;j<Rank;\+\+j\)\{new_dim\[j-1\]=dimensions_\[j\];new_offset\[j-1\]=offset_\[j\];\}"
                     r"returnArray<Rank-1,Type,IsActive>\(data_\+index,storage_,new_dim,new_offset\);\}", forms.pop())
    if not m:
        die("%s: form not recognised" % w)
    out.append("(* operator[](i) on rank > 1: data_ + index, dimensions and strides 1.. moved down by one *)")
    out.append("Definition ix_offset (r s : Z) : Z := %s." % arith(m.group(1), "i", "0", w))


def main():
    t = S.strip(open(os.path.join(REPO, "include/adept/Array.h")).read())
    out = ["(* GENERATED by tools/gen_slice.py from include/adept/Array.h -- do not edit *)",
           "From Coq Require Import ZArith.", "Local Open Scope Z_scope.", ""]

    def emit(name, args, e):
        out.append("Definition %s %s : Z := %s." % (name, " ".join("(%s : Z)" % x for x in args), e))

    # ---- the two update_index helpers
    hs = list(re.finditer(r"update_index\s*\(\s*const\s+Index\s*&\s*irank\s*,\s*const\s+T\s*&\s*i\s*,\s*Index\s*&\s*inew_rank\s*,\s*Index\s*&\s*ibegin\s*,"
                          r"\s*ExpressionSize<NewRank>\s*&\s*new_dim\s*,\s*ExpressionSize<NewRank>\s*&\s*new_offset\s*\)\s*const\s*\{", t))
    if len(hs) != 2:
        die("update_index: %d definitions (2 expected)" % len(hs))
    kinds = {}
    for m in hs:
        head = t[max(0, m.start() - 400):m.start()]
        kind = "scalar" if "is_scalar_int<T>" in head.split("template")[-1] else ("range" if "is_range<T>" in head.split("template")[-1] else None)
        if kind is None or kind in kinds:
            die("update_index: overload selector not recognised")
        kinds[kind] = squeeze(t[m.end() - 1:t.index("}", m.end()) + 1])
    m = re.fullmatch(r"\{ibegin\+=([^;]+);\}", kinds["scalar"])
    if not m:
        die("update_index (scalar): form not recognised: " + kinds["scalar"])
    emit("sl_scalar_begin", ["ib", "r", "s"], "(ib + %s)" % arith(m.group(1), "i", "irank", "update_index (scalar)"))
    m = re.fullmatch(r"\{ibegin\+=([^;]+);new_dim\[inew_rank\]=([^;]+);new_offset\[inew_rank\]=([^;]+);\+\+inew_rank;\}", kinds["range"])
    if not m:
        die("update_index (range): form not recognised: " + kinds["range"])
    w = "update_index (range)"
    emit("sl_range_begin", ["ib", "b", "e", "st", "s"], "(ib + %s)" % arith(m.group(1), "i", "irank", w))
    emit("sl_range_dim", ["b", "e", "st", "s"], arith(m.group(2), "i", "irank", w))
    emit("sl_range_stride", ["b", "e", "st", "s"], arith(m.group(3), "i", "irank", w))
    out.append("")

    # ---- operator()(I0) with a range on a rank-1 array: const and non-const
    one = list(re.finditer(r"operator\(\)\s*\(\s*I0\s+i0\s*\)\s*(const\s*)?\{", t))
    one = [m for m in one if "is_ranged<Rank,I0>" in t[max(0, m.start() - 300):m.start()]]
    if len(one) != 2:
        die("rank-1 ranged operator(): %d definitions (2 expected)" % len(one))
    forms = set()
    for m in one:
        b = squeeze(t[m.end() - 1:t.index("}", m.end()) + 1])
        b = re.sub(r"std::cout<<[^;]*;", "", b)
        forms.add(b)
    if len(forms) != 1:
        die("rank-1 ranged operator(): const and non-const bodies differ")
    m = re.fullmatch(r"\{ExpressionSize<1>new_dim\((.+?)\);ExpressionSize<1>new_offset\((.+?)\);returnArray<1,Type,IsActive>\(data_\+([^,]+),storage_,new_dim,new_offset\);\}", forms.pop())
    if not m:
        die("rank-1 ranged operator(): form not recognised")
    w = "operator()(range) rank 1"
    emit("sl1_dim", ["b", "e", "st", "s"], arith(m.group(1), "i0", "0", w))
    emit("sl1_stride", ["b", "e", "st", "s"], arith(m.group(2), "i0", "0", w))
    emit("sl1_begin", ["b", "e", "st", "s"], arith(m.group(3), "i0", "0", w))
    out.append("")

    # ---- the multi-argument overloads: one update_index per argument, in order
    n_over = 0
    arities = set()
    for m in re.finditer(r"operator\(\)\s*\(\s*(I0\s+i0(?:\s*,\s*I\d\s+i\d)+)\s*\)\s*(const\s*)?\{", t):
        if "is_ranged<Rank," not in t[max(0, m.start() - 400):m.start()]:
            continue
        k = len(m.group(1).split(","))
        b = squeeze(t[m.end() - 1:t.index("}", m.end()) + 1])
        calls = "".join("update_index(%d,i%d,inew_rank,ibegin,new_dim,new_offset);" % (j, j) for j in range(k))
        want = re.compile(r"\{staticconstintnew_rank=internal::is_ranged<Rank,%s>::count;ExpressionSize<new_rank>new_dim;ExpressionSize<new_rank>new_offset;"
                          r"Indexinew_rank=0;Indexibegin=0;%s return(?:const)?Array<new_rank,Type,IsActive>\(data_\+ibegin,storage_,new_dim,new_offset\);\}".replace(" ", "")
                          % (",".join("I%d" % j for j in range(k)), re.escape(calls)))
        if not want.fullmatch(b):
            die("operator() with %d arguments%s: skeleton not recognised: %s" % (k, " const" if m.group(2) else "", b[:400]))
        n_over += 1
        arities.add(k)
    if n_over < 2 or n_over != 2 * len(arities):
        die("multi-argument ranged operator(): %d overloads over arities %s" % (n_over, sorted(arities)))
    out.append("(* %d multi-argument overloads (arities %s, const and non-const) call update_index once per argument, in order,"
               % (n_over, ",".join(str(a) for a in sorted(arities))))
    out.append("   starting from ibegin = 0, and build the view from data_ + ibegin, new_dim, new_offset *)")
    out.append("Definition sl_start : Z := 0.")
    diag_and_sub(t, out)
    transpose_and_reshape(t, out)
    leading_index(t, out)
    out.append("Definition sl_overloads : Z := %d." % n_over)
    sys.stdout.write("\n".join(out) + "\n")


main()
