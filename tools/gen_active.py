#!/usr/bin/env python3
"""translator (C01): reads every constructor, assignment and compound-assignment overload of Active<T> (Active.h) and
ActiveReference<T> (ActiveReference.h) and classifies what it records, token by token (pausable and manual-allocation
preprocessor branches: the default configuration, i.e. #ifdef ADEPT_RECORDING_PAUSABLE blocks dropped, #ifndef
ADEPT_MANUAL_MEMORY_ALLOCATION blocks kept).  Writes Gen_Active.v: one row per overload - the statement kind of the model
Program.v it must correspond to and the number of operations it reserves.  Strict: an unrecognised body is an error."""
import sys, os, re
sys.path.insert(0, os.path.dirname(os.path.abspath(__file__)))
import cppscan as S

REPO = sys.argv[1] if len(sys.argv) > 1 else "/repo"


def die(msg):
    sys.stderr.write("gen_active: " + msg + "\n")
    sys.exit(2)


def default_config(text):
    """drop #ifdef ADEPT_RECORDING_PAUSABLE ... [#else ...] #endif (keep the #else part); keep #ifndef ADEPT_MANUAL_MEMORY_ALLOCATION bodies"""
    out, stack = [], []
    for line in text.split("\n"):
        s = line.strip()
        if s.startswith("#ifdef ADEPT_RECORDING_PAUSABLE"):
            stack.append(("skip", False)); continue
        if s.startswith("#ifndef ADEPT_MANUAL_MEMORY_ALLOCATION"):
            stack.append(("keep", True)); continue
        if s.startswith("#if"):
            stack.append(("other", True)); out.append(line); continue
        if s.startswith("#else") and stack:
            kind, on = stack[-1]
            if kind == "other":
                out.append(line)
            else:
                stack[-1] = (kind, not on)
            continue
        if s.startswith("#endif") and stack:
            kind, on = stack.pop()
            if kind == "other":
                out.append(line)
            continue
        if all(on for _, on in stack):
            out.append(line)
        else:
            out.append("")
    return "\n".join(out)


def loose(s):
    return " ".join(re.findall(r"\d+\.\d+|[A-Za-z_][A-Za-z0-9_]*|\+=|-=|\*=|/=|->|::|==|\S", s))


# body (tokens) -> (kind, reservation)
FORMS = {
    "ADEPT_ACTIVE_STACK -> push_lhs ( gradient_index_ ) ;": ("KPassiveCtor", "RNone"),
    "val_ = rhs ; ADEPT_ACTIVE_STACK -> push_lhs ( gradient_index_ ) ; return * this ;": ("KPassive", "RNone"),
    "* this = rhs ;": ("KDelegate", "RNone"),
    "ADEPT_ACTIVE_STACK -> push_rhs ( 1.0 , gradient_index ) ; ADEPT_ACTIVE_STACK -> push_lhs ( gradient_index_ ) ;": ("KElementCopy", "RNone"),
    "ADEPT_ACTIVE_STACK -> check_space_static < E :: n_active > ( ) ; val_ = rhs . scalar_value_and_gradient ( * ADEPT_ACTIVE_STACK ) ; ADEPT_ACTIVE_STACK -> push_lhs ( gradient_index_ ) ;": ("KExpr", "RNActive"),
    "ADEPT_ACTIVE_STACK -> check_space_static < E :: n_active > ( ) ; val_ = rhs . scalar_value_and_gradient ( * ADEPT_ACTIVE_STACK ) ; ADEPT_ACTIVE_STACK -> push_lhs ( gradient_index_ ) ; return * this ;": ("KExpr", "RNActive"),
    "ADEPT_ACTIVE_STACK -> check_space ( 1 ) ; val_ = rhs . scalar_value_and_gradient ( * ADEPT_ACTIVE_STACK ) ; ADEPT_ACTIVE_STACK -> push_lhs ( gradient_index_ ) ; return * this ;": ("KActive", "ROne"),
    "return * this = ( * this + rhs ) ;": ("(KCompound KAdd)", "RNone"),
    "return * this = ( * this - rhs ) ;": ("(KCompound KSub)", "RNone"),
    "return * this = ( * this * rhs ) ;": ("(KCompound KMul)", "RNone"),
    "return * this = ( * this / rhs ) ;": ("(KCompound KDiv)", "RNone"),
    "val_ += rhs ; return * this ;": ("(KValueOnly KAdd)", "RNone"),
    "val_ -= rhs ; return * this ;": ("(KValueOnly KSub)", "RNone"),
}


def overloads(path, cls):
    text = S.strip(default_config(open(path).read()))
    bl = S.blocks(text)
    m = re.search(r"class\s+%s\b[^;{]*\{" % cls, text)
    if not m:
        die("%s: class not found" % cls)
    o = text.index("{", m.start())
    cbody_span = [b for b in bl if b[0] == o]
    if not cbody_span:
        die("%s: class body not found" % cls)
    c0, c1 = cbody_span[0][0], cbody_span[0][1]
    rows = []
    for (o2, c2, hdr) in sorted(bl):
        if not (c0 < o2 < c1):
            continue
        # only blocks directly inside the class
        if any(c0 < o3 < o2 < c3 < c1 for (o3, c3, _) in bl):
            continue
        h = " ".join(hdr.split())
        name = None
        mm = re.search(r"(operator\s*(?:=|\+=|-=|\*=|/=))\s*\(([^)]*)\)\s*$", h)
        if mm:
            name = mm.group(1).replace(" ", "")
            params = mm.group(2)
        else:
            mm = re.search(r"(?<![~\w])%s\s*\(" % cls, h)
            if mm and not re.search(r"~\s*%s" % cls, h):
                depth, k = 0, mm.end() - 1
                while True:
                    if h[k] == "(":
                        depth += 1
                    elif h[k] == ")":
                        depth -= 1
                        if depth == 0:
                            break
                    k += 1
                name = "ctor"
                params = h[mm.end():k]
        if name is None:
            continue
        params = " ".join(params.split())
        if name == "ctor" and params in ("", ):
            continue            # default constructor: registers only
        body = loose(text[o2 + 1:c2])
        if name == "ctor" and body == "" :
            # constructors that only initialise members (reference to an existing element): nothing recorded
            rows.append((name, params, "KNothing", "RNone"))
            continue
        if body not in FORMS:
            die("%s::%s(%s): body is not a modelled form: %s" % (cls, name, params, body))
        rows.append((name, params) + FORMS[body])
    return rows


def pkind(params):
    p = params.replace(" ", "")
    if "Expression<" in p:
        return "PExpression"
    if p.startswith("constActive<") or p.startswith("constActive&") or p.startswith("constActiveReference&") or p.startswith("ActiveReference&") or p.startswith("constActiveReference<"):
        return "PActive"
    if p.startswith("constPType&rhs,Indexgradient_index") or p.startswith("Type&val,Indexgradient_index"):
        return "PElement"
    if p.startswith("constPType&"):
        return "PPassive"
    die("unknown parameter list '%s'" % params)


def main():
    out = ["(* GENERATED by tools/gen_active.py from include/adept/Active.h and ActiveReference.h -- do not edit *)",
           "From Coq Require Import List.", "From Adept Require Import ExprDefs ActiveDefs.", "Import ListNotations.", ""]
    for cls, fn, nm in (("Active", "Active.h", "active_overloads"), ("ActiveReference", "ActiveReference.h", "active_reference_overloads")):
        rows = overloads(os.path.join(REPO, "include/adept", fn), cls)
        if len(rows) < 10:
            die("%s: only %d overloads found" % (cls, len(rows)))
        items = []
        for name, params, kind, res in rows:
            op = {"ctor": "OCtor", "operator=": "OAssign", "operator+=": "(OCompound KAdd)", "operator-=": "(OCompound KSub)", "operator*=": "(OCompound KMul)", "operator/=": "(OCompound KDiv)"}[name]
            items.append("mkOv %s %s %s %s" % (op, pkind(params), kind, res))
        out.append("Definition %s : list overload :=\n  [ %s ]." % (nm, ";\n    ".join(items)))
    sys.stdout.write("\n".join(out) + "\n")


main()
