"""Hand-read demand table for the recording sites (C09).  Key: (file, enclosing function name, ordinal of
that (file, name) pair in source order).  Value: (demand polynomial over the size variables, note).
demand = the largest number of *unchecked* pushes (push_rhs / push_rhs_indices, directly or through
calc_gradient_/next_value_and_gradient of an expression with n_active = nact) the function can perform
after its check_space; callees that reserve for themselves (Active::operator=, push_derivative_dependence,
add_derivative_dependence) are not counted.  Variables: nact (E::n_active), sz (number of elements the
statement touches), n (argument n), extra (Func::extra_element_cost), newdims."""

DEMAND = {
 ("Active.h", "Active", 0):   ("nact", "constructor from a scalar expression: scalar_value_and_gradient pushes n_active"),
 ("Active.h", "operator=", 0): ("1", "assignment from Active<AType>: one push_rhs"),
 ("Active.h", "operator=", 1): ("1", "assignment from an active reference/other active: one push_rhs"),
 ("Active.h", "operator=", 2): ("nact", "assignment from a scalar expression"),
 ("Active.h", "add_derivative_dependence", 0): ("n", "at most n non-zero multipliers"),
 ("Active.h", "append_derivative_dependence", 0): ("n", "at most n non-zero multipliers"),
 ("ActiveConstReference.h", "add_derivative_dependence", 0): ("n", ""),
 ("ActiveConstReference.h", "append_derivative_dependence", 0): ("n", ""),
 ("ActiveReference.h", "operator=", 0): ("1", ""),
 ("ActiveReference.h", "operator=", 1): ("1", ""),
 ("ActiveReference.h", "operator=", 2): ("nact", ""),
 ("ActiveReference.h", "add_derivative_dependence", 0): ("n", ""),
 ("ActiveReference.h", "append_derivative_dependence", 0): ("n", ""),
 ("Array.h", "operator=", 0): ("sz", "active scalar to every element: one push per element"),
 ("Array.h", "assign_expression_", 0): ("nact * sz", "n_active pushes per element"),
 ("Array.h", "assign_conditional_", 0): ("nact * sz", "n_active pushes per selected element"),
 ("FixedArray.h", "operator=", 0): ("sz", ""),
 ("FixedArray.h", "assign_expression_", 0): ("nact * sz", ""),
 ("FixedArray.h", "assign_conditional_", 0): ("nact * sz", ""),
 ("IndexedArray.h", "operator=", 0): ("sz", "one push per indexed element (all dimensions)"),
 ("IndexedArray.h", "assign_expression_", 0): ("nact * sz", "n_active pushes per indexed element (all dimensions)"),
 ("SpecialMatrix.h", "operator=", 0): ("sz", "one push per stored element (<= dimension^2)"),
 ("SpecialMatrix.h", "assign_expression_", 0): ("nact * sz", "n_active pushes per stored element"),
 ("Stack.h", "add_derivative_dependence", 0): ("1", ""),
 ("Stack.h", "append_derivative_dependence", 0): ("1", ""),
 ("Stack.h", "push_derivative_dependence", 0): ("n", ""),
 ("reduce.h", "reduce_active", 0): ("(nact + extra) * n", "per element: n_active pushes by next_value_and_gradient plus extra_element_cost (Product: 1)"),
 ("reduce.h", "reduce_dimension", 0): (["(nact + extra) * n", "(nact + extra) * sz"],
     "first call: whole array (kept for speed); second call, once per strip: the unchecked pushes of that strip's sz elements; "
     "statements that finalize a strip (Active::operator=, operator/=) reserve for themselves"),
 ("reduce.h", "diag_vector", 0): ("nact * sz", "two branches (offdiag >= 0 / < 0), each n_active pushes per diagonal element"),
}
# how source atoms are renamed into the variables above
ATOMS = [
 (r"(internal::)?expr_cast<\s*[A-Za-z]+\s*>::n_active", "nact"),
 (r"\b[A-Z][A-Za-z]*::n_active", "nact"),
 (r"Func::extra_element_cost", "extra"),
 (r"new_dims\.size\(\)", "newdims"),
 (r"dimensions_\[0\]", "dim0"), (r"dims\[reduce_dim\]", "sz"),
 (r"\bsize\(\)", "sz"), (r"\blength_\b", "sz"), (r"\bn_elements\b", "sz"), (r"\bnew_dim\b", "sz"),
 (r"\bn\b", "n"),
]
# functions that push without reserving because their caller reserved (expression-template plumbing)
CALLEES = {"calc_gradient", "calc_gradient_", "calc_gradient_packet_", "push_rhs", "finish_active"}
# functions whose pushes are only the self-growing push_lhs / push_lhs_range or self-reserving calls
SELF_GROWING_ONLY = {"push_lhs", "push_lhs_range", "update_lhs", "push_derivative_dependence"}
# direct push_rhs with no reservation anywhere: uses the spare slot kept by check_space (n_ops < capacity)
SPARE_SLOT = {("Active.h", "Active", "element constructor Active(value, gradient_index): one push_rhs, no check_space; only caller found is Array::get_rvalue_ (unused)")}
