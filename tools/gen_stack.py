#!/usr/bin/env python3
"""translator (C10, C11): reads the gradient-list bookkeeping of adept::Stack - initialize_gradients, extend_gradients
(adept/Stack.cpp, the default storage), set_gradients, the two get_gradients, clear_gradients, new_recording
(include/adept/Stack.h) and the guards of compute_adjoint / compute_tangent_linear - and writes Gen_Stack.v: each body as
a list of commands over the fields max_gradient_, n_allocated_gradients_, n_gradients_initialized_,
gradients_initialized_, i_gradient_ (assignments, conditionals, ranges of the gradient list set to zero, allocations,
exceptions thrown, calls).  Strict: a statement outside the small grammar is an error (exit 2)."""
import sys, os, re
sys.path.insert(0, os.path.dirname(os.path.abspath(__file__)))
import cppscan as S

REPO = sys.argv[1] if len(sys.argv) > 1 else "/repo"
FIELDS = {"max_gradient_": "FMax", "n_allocated_gradients_": "FAlloc", "n_gradients_initialized_": "FInit", "i_gradient_": "FIgrad"}
EXC = {"gradients_not_initialized": "XNotInit", "gradient_out_of_range": "XRange"}
CALLS = {"initialize_gradients": "CInitialize", "extend_gradients": "CExtend", "clear_stack": "CClearStack", "clear_independents": "CClearIndep",
         "clear_dependents": "CClearDep", "clear_gradients": "CClearGrad"}


def die(msg):
    sys.stderr.write("gen_stack: " + msg + "\n")
    sys.exit(2)


TOK = re.compile(r"\s*(\d+\.\d+|\d+|[A-Za-z_][A-Za-z0-9_]*|\+\+|\+=|==|!=|<=|>=|->|[-+*/<>=!(){}\[\];,.&])")


def toks(s, where):
    out, pos = [], 0
    s = s.strip()
    while pos < len(s):
        m = TOK.match(s, pos)
        if not m:
            die("%s: cannot tokenise '%s'" % (where, s[pos:pos + 40]))
        out.append(m.group(1)); pos = m.end()
    return out


class P:
    def __init__(self, t, where):
        self.t, self.k, self.where = t, 0, where

    def peek(self, o=0):
        return self.t[self.k + o] if self.k + o < len(self.t) else None

    def eat(self, x=None):
        y = self.peek()
        if y is None or (x is not None and y != x):
            die("%s: expected '%s', found '%s' near '%s'" % (self.where, x, y, " ".join(self.t[max(0, self.k - 6):self.k + 6])))
        self.k += 1
        return y

    # expressions over the fields
    def expr(self):
        a = self.atom()
        while self.peek() in ("+", "-"):
            o = self.eat(); b = self.atom()
            a = "(%s %s %s)" % ("SAdd" if o == "+" else "SSub", a, b)
        return a

    def atom(self):
        x = self.eat()
        if x in FIELDS:
            return "(SField %s)" % FIELDS[x]
        if re.fullmatch(r"\d+", x):
            return "(SLit %s)" % x
        if x == "end_plus_one":
            return "SParam"
        if x == "start":
            return "SParamStart"
        if x == "i":
            return "SLoopVar"
        die("%s: unknown identifier '%s' in an expression" % (self.where, x))

    def cond(self):
        if self.peek() == "!":
            self.eat("!")
            return "(CNot %s)" % self.cond()
        if self.peek() == "gradients_are_initialized":
            self.eat(); self.eat("("); self.eat(")")
            return "CFlag"
        if self.peek() == "gradient_" and self.peek(1) == ")":
            self.eat()
            return "CHaveBuffer"
        a = self.expr()
        o = self.eat()
        if o not in ("<", ">", "<=", ">="):
            die("%s: comparison expected, found '%s'" % (self.where, o))
        b = self.expr()
        return "(CCmp %s %s %s)" % ({"<": "OLt", ">": "OGt", "<=": "OLe", ">=": "OGe"}[o], a, b)

    def block(self):
        if self.peek() == "{":
            self.eat("{")
            out = []
            while self.peek() != "}":
                out.append(self.stmt())
            self.eat("}")
            return out
        return [self.stmt()]

    def stmt(self):
        x = self.peek()
        if x == "if":
            self.eat("if"); self.eat("("); c = self.cond(); self.eat(")")
            th = self.block()
            el = []
            if self.peek() == "else":
                self.eat("else"); el = self.block()
            return "(SIf %s [%s] [%s])" % (c, "; ".join(th), "; ".join(el))
        if x == "for":
            # for (uIndex i = A; i < B; i++) { BODY }   (set_gradients / get_gradients: two running indices)
            self.eat("for"); self.eat("("); self.eat("uIndex"); self.eat("i"); self.eat("="); a = self.expr()
            second = False
            if self.peek() == ",":
                self.eat(","); self.eat("j"); self.eat("="); self.eat("0"); second = True
            self.eat(";"); self.eat("i"); self.eat("<"); b = self.expr(); self.eat(";")
            incr = []
            while self.peek() != ")":
                incr.append(self.eat())
            self.eat(")")
            body = []
            if self.peek() == "{":
                self.eat("{")
                while self.peek() != "}":
                    body.append(self.eat())
                self.eat("}")
            else:
                while self.peek() != ";":
                    body.append(self.eat())
                body.append(self.eat(";"))
            bt = " ".join(body)
            if bt == "gradient_ [ i ] = 0.0 ;" and incr == ["i", "++"]:
                return "(SZero %s %s)" % (a, b)
            if bt == "new_gradient [ i ] = gradient_ [ i ] ;" and incr == ["i", "++"]:
                return "(SCopyToNew %s %s)" % (a, b)
            if bt == "gradient_ [ i ] = gradient [ j ] ;" and second:
                return "(SStoreUser %s %s)" % (a, b)
            if bt == "gradient [ j ] = gradient_ [ i ] ;" and second:
                return "(SLoadUser %s %s)" % (a, b)
            die("%s: loop body not modelled: %s (increment %s)" % (self.where, bt, " ".join(incr)))
        if x == "throw":
            self.eat("throw")
            par = self.peek() == "("
            if par:
                self.eat("(")
            name = self.eat()
            if name not in EXC:
                die("%s: throws '%s'" % (self.where, name))
            self.eat("("); self.eat(")")
            if par:
                self.eat(")")
            self.eat(";")
            return "(SThrow %s)" % EXC[name]
        if x == "delete":
            self.eat("delete"); self.eat("["); self.eat("]"); self.eat("gradient_"); self.eat(";")
            return "SDelete"
        if x == "Real" and self.peek(1) == "*":
            self.eat("Real"); self.eat("*"); self.eat("new_gradient"); self.eat("="); self.eat("new"); self.eat("Real"); self.eat("["); e = self.expr(); self.eat("]"); self.eat(";")
            return "(SNewTmp %s)" % e
        if x == "gradient_" and self.peek(1) == "=":
            self.eat("gradient_"); self.eat("=")
            if self.peek() == "new_gradient":
                self.eat(); self.eat(";")
                return "SAdoptTmp"
            self.eat("new"); self.eat("Real"); self.eat("["); e = self.expr(); self.eat("]"); self.eat(";")
            return "(SNew %s)" % e
        if x == "gradients_initialized_":
            self.eat(); self.eat("="); v = self.eat(); self.eat(";")
            if v not in ("true", "false"):
                die("%s: gradients_initialized_ = %s" % (self.where, v))
            return "(SSetFlag %s)" % v
        if x in FIELDS and self.peek(1) == "=":
            f = FIELDS[self.eat()]; self.eat("="); e = self.expr(); self.eat(";")
            return "(SAssign %s %s)" % (f, e)
        if x in CALLS and self.peek(1) == "(":
            self.eat(); self.eat("("); self.eat(")"); self.eat(";")
            return "(SCall %s)" % CALLS[x]
        if x == "push_lhs":
            self.eat(); self.eat("("); self.eat("-"); self.eat("1"); self.eat(")"); self.eat(";")
            return "SNullStatement"
        if x in ("independent_index_", "dependent_index_"):
            n = self.eat(); self.eat("."); self.eat("clear"); self.eat("("); self.eat(")"); self.eat(";")
            return "(SClearList %s)" % ("LIndep" if n.startswith("indep") else "LDep")
        die("%s: statement not modelled, starts with '%s'" % (self.where, " ".join(self.t[self.k:self.k + 8])))


def body_of(text, bl, pattern, where, which=0):
    hits = [m for m in re.finditer(pattern, text)]
    hits = [m for m in hits if text[m.end():].lstrip().startswith("{") or re.match(r"\s*const\s*\{", text[m.end():])]
    if len(hits) <= which:
        die("%s: definition not found" % where)
    o = text.index("{", hits[which].end())
    for (o2, c2, h) in bl:
        if o2 == o:
            return text[o + 1:c2]
    die("%s: body not found" % where)


SWEEP_REV = "for ( uIndex ist = n_statements_ - 1 ; ist > 0 ; ist -- ) { const Statement & statement = statement_ [ ist ] ; Real a = gradient_ [ statement . index ] ; gradient_ [ statement . index ] = 0.0 ; if ( a != 0.0 ) { for ( uIndex i = statement_ [ ist - 1 ] . end_plus_one ; i < statement . end_plus_one ; i ++ ) { gradient_ [ index_ [ i ] ] += multiplier_ [ i ] * a ; } } }"
SWEEP_FWD = "for ( uIndex ist = 1 ; ist < n_statements_ ; ist ++ ) { const Statement & statement = statement_ [ ist ] ; Real a = 0.0 ; for ( uIndex i = statement_ [ ist - 1 ] . end_plus_one ; i < statement . end_plus_one ; i ++ ) { a += multiplier_ [ i ] * gradient_ [ index_ [ i ] ] ; } gradient_ [ statement . index ] = a ; }"


def loose(s):
    return " ".join(re.findall(r"\d+\.\d+|[A-Za-z_][A-Za-z0-9_]*|\+\+|--|\+=|==|!=|<=|>=|->|\S", s))


def main():
    cpp = S.strip(open(os.path.join(REPO, "adept/Stack.cpp")).read())
    # the default storage: the #ifndef ADEPT_STACK_STORAGE_STL branch
    m = re.search(r"#ifndef ADEPT_STACK_STORAGE_STL(.*?)#else", cpp, flags=re.S)
    if not m:
        die("Stack.cpp: #ifndef ADEPT_STACK_STORAGE_STL ... #else not found")
    dflt = m.group(1)
    hdr = S.strip(open(os.path.join(REPO, "include/adept/Stack.h")).read())
    blc, bld, blh = S.blocks(cpp), S.blocks(dflt), S.blocks(hdr)
    out = ["(* GENERATED by tools/gen_stack.py from adept/Stack.cpp and include/adept/Stack.h -- do not edit *)",
           "From Coq Require Import ZArith List.", "From Adept Require Import StackDefs.", "Import ListNotations.", "Local Open Scope Z_scope.", ""]

    def emit(name, text, where):
        p = P(toks(text, where), where)
        cmds = []
        while p.peek() is not None:
            cmds.append(p.stmt())
        out.append("Definition %s : list scmd :=\n  [ %s ]." % (name, ";\n    ".join(cmds)))
    emit("stk_initialize_gradients", body_of(dflt, bld, r"Stack::initialize_gradients\s*\(\s*\)", "initialize_gradients"), "Stack::initialize_gradients")
    emit("stk_extend_gradients", body_of(dflt, bld, r"Stack::extend_gradients\s*\(\s*\)", "extend_gradients"), "Stack::extend_gradients")
    emit("stk_set_gradients", body_of(hdr, blh, r"\bset_gradients\s*\([^)]*\)", "set_gradients"), "Stack::set_gradients")
    emit("stk_get_gradients", body_of(hdr, blh, r"\bget_gradients\s*\([^)]*\)\s*const", "get_gradients", 0), "Stack::get_gradients")
    g2 = body_of(hdr, blh, r"\bget_gradients\s*\([^)]*\)\s*const", "get_gradients (strided)", 1)
    g2 = g2.replace("i+=src_stride, j+=target_stride", "i++, j++")      # the strided copy loop reads the same range
    emit("stk_get_gradients_strided", g2, "Stack::get_gradients (strided)")
    emit("stk_clear_gradients", body_of(hdr, blh, r"\bvoid\s+clear_gradients\s*\(\s*\)", "clear_gradients"), "Stack::clear_gradients")
    emit("stk_clear_independents", body_of(hdr, blh, r"\bvoid\s+clear_independents\s*\(\s*\)", "clear_independents"), "Stack::clear_independents")
    emit("stk_clear_dependents", body_of(hdr, blh, r"\bvoid\s+clear_dependents\s*\(\s*\)", "clear_dependents"), "Stack::clear_dependents")
    emit("stk_new_recording", body_of(hdr, blh, r"\bvoid\s+new_recording\s*\(\s*\)", "new_recording"), "Stack::new_recording")
    # the two sweeps: guard, extension, loop (the loop itself is the one Tape.v models: recognised as a whole), exception
    for fn, loop, name in (("compute_adjoint", SWEEP_REV, "stk_compute_adjoint"), ("compute_tangent_linear", SWEEP_FWD, "stk_compute_tangent_linear")):
        b = loose(body_of(cpp, blc, r"Stack::%s\s*\(\s*\)" % fn, fn))
        if loose(loop) not in b:
            die("Stack::%s: the sweep loop is not the modelled one" % fn)
        b = b.replace(loose(loop), "SWEEP ( ) ;")
        b = re.sub(r"\bSWEEP \( \) ;", "sweep_marker ( ) ;", b)
        CALLS["sweep_marker"] = "CSweepRev" if fn == "compute_adjoint" else "CSweepFwd"
        emit(name, b, "Stack::" + fn)
    sys.stdout.write("\n".join(out) + "\n")


main()
