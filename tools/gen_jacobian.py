#!/usr/bin/env python3
"""translator (C02, C13): reads adept/jacobian.cpp and writes Gen_Jacobian.v: every statement that stores into
jacobian_out - the routine it is in, the branch of `if (<offset> == 1)`, the bounds of the two loops around it, the
address expression and the work-array element it copies - and every seed statement `work[list[i0+i]*MULTIPASS_SIZE+i]
= 1.0`.  Strict: an unknown loop header, identifier or statement form is an error (exit 2)."""
import sys, os, re
sys.path.insert(0, os.path.dirname(os.path.abspath(__file__)))
import cppscan as S

REPO = sys.argv[1] if len(sys.argv) > 1 else "/repo"
ROUTINES = {"jacobian_forward_openmp": "FwdOmp", "jacobian_forward": "FwdSerial", "jacobian_reverse_openmp": "RevOmp", "jacobian_reverse": "RevSerial"}
VARS = {"idep": "Videp", "iindep": "Viindep", "i": "Vi", "i_independent": "Vi0", "i_dependent": "Vi0",
        "dep_offset": "Vdoff", "indep_offset": "Vioff", "MULTIPASS_SIZE": "VM"}
LISTS = {"dependent_index_": "Ldep", "independent_index_": "Lindep"}
BOUNDS = {"n_dependent()": "BNDep", "n_independent()": "BNIndep", "block_size": "BBlock", "MULTIPASS_SIZE": "BM", "n_extra": "BExtra"}


def die(msg):
    sys.stderr.write("gen_jacobian: " + msg + "\n")
    sys.exit(2)


TOK = re.compile(r"\s*([A-Za-z_][A-Za-z0-9_]*|\d+|[-+*()\[\]])")


def toks(s, where):
    out, pos = [], 0
    s = s.strip()
    while pos < len(s):
        m = TOK.match(s, pos)
        if not m:
            die("%s: cannot tokenise '%s'" % (where, s[pos:pos + 30]))
        out.append(m.group(1)); pos = m.end()
    return out


class P:
    def __init__(self, t, where, routine):
        self.t, self.k, self.where, self.routine = t, 0, where, routine

    def peek(self):
        return self.t[self.k] if self.k < len(self.t) else None

    def eat(self, x=None):
        y = self.peek()
        if y is None or (x is not None and y != x):
            die("%s: expected %s, found %s in %s" % (self.where, x, y, " ".join(self.t)))
        self.k += 1
        return y

    def expr(self):
        a = self.term()
        while self.peek() == "+":
            self.eat("+"); b = self.term(); a = "(JAdd %s %s)" % (a, b)
        return a

    def term(self):
        a = self.atom()
        while self.peek() == "*":
            self.eat("*"); b = self.atom(); a = "(JMul %s %s)" % (a, b)
        return a

    def atom(self):
        x = self.eat()
        if x == "(":
            e = self.expr(); self.eat(")"); return e
        if x in LISTS:
            self.eat("["); e = self.expr(); self.eat("]")
            return "(JLook %s %s)" % (LISTS[x], e)
        if x in VARS:
            fwd = self.routine.startswith("Fwd")
            if x == "i_independent" and not fwd or x == "i_dependent" and fwd:
                die("%s: block start '%s' used in a %s routine" % (self.where, x, self.routine))
            return "(JVar %s)" % VARS[x]
        die("%s: unknown identifier '%s'" % (self.where, x))


def full_header(t, o):
    """text of the control header that opens the block at position o: `for (...;...;...)`, `if (...)` or `else`"""
    j = o - 1
    while t[j] in " \t\n":
        j -= 1
    if t[j] == ")":
        depth, k = 0, j
        while True:
            if t[k] == ")":
                depth += 1
            elif t[k] == "(":
                depth -= 1
                if depth == 0:
                    break
            k -= 1
        q = k - 1
        while t[q] in " \t\n":
            q -= 1
        e = q + 1
        while q >= 0 and (t[q].isalnum() or t[q] == "_"):
            q -= 1
        return t[q + 1:e] + " " + t[k:j + 1]
    e = j + 1
    while j >= 0 and (t[j].isalnum() or t[j] == "_"):
        j -= 1
    return t[j + 1:e]


def work_elem(ps, where):
    """gradient_multipass_b[A] (flat, A = slot*MULTIPASS_SIZE + lane) or gradient_multipass_b[slot][lane]"""
    ps.eat("gradient_multipass_b"); ps.eat("[")
    a = ps.expr(); ps.eat("]")
    if ps.peek() == "[":
        ps.eat("["); b = ps.expr(); ps.eat("]")
        a = "(J2 %s %s)" % (a, b)
    if ps.peek() is not None:
        die("%s: trailing tokens after the work-array element" % where)
    return a


def loop_header(hdr, where):
    h = " ".join(hdr.split())
    m = re.fullmatch(r"for \( ?(?:uIndex|Index|int) (\w+) = 0 ?; ?(\w+) < ([\w()]+) ?; ?(\w+)\+\+ ?\)", h)
    if not m or m.group(1) != m.group(2) or m.group(1) != m.group(4):
        die("%s: loop header not of the form for (uIndex v = 0; v < BOUND; v++): %s" % (where, h))
    if m.group(3) not in BOUNDS or m.group(1) not in VARS:
        die("%s: unknown loop bound or variable: %s" % (where, h))
    return VARS[m.group(1)], BOUNDS[m.group(3)]


def main():
    path = os.path.join(REPO, "adept/jacobian.cpp")
    t = S.strip(open(path).read())
    bl = S.blocks(t)
    sites, seeds = [], []
    for m in re.finditer(r"\bjacobian_out\s*\[", t):
        p = m.start()
        end = t.index(";", p)
        stmt = " ".join(t[p:end].split())
        where = "jacobian.cpp:%d" % S.line_of(t, p)
        fn = S.enclosing_function(bl, p)
        if fn is None:
            die("%s: store outside a function" % where)
        name = S.func_name(fn[2]).split("::")[-1]
        if name not in ROUTINES:
            die("%s: store into jacobian_out in unknown routine %s" % (where, name))
        routine = ROUTINES[name]
        if stmt.count("=") != 1:
            die("%s: statement not of the form jacobian_out[A] = work[B]: %s" % (where, stmt))
        lhs_, rhs_ = stmt.split("=")
        pa = P(toks(lhs_, where), where, routine)
        pa.eat("jacobian_out"); pa.eat("["); addr = pa.expr(); pa.eat("]")
        if pa.peek() is not None:
            die("%s: trailing tokens in the address" % where)
        ps = P(toks(rhs_, where), where, routine); src = work_elem(ps, where)
        # enclosing blocks, innermost first, up to the function
        enc = sorted([(o, c, h) for (o, c, h) in bl if fn[0] < o < p < c], key=lambda x: -x[0])
        if len(enc) < 3:
            die("%s: expected two loops and a branch around the store" % where)
        inner = loop_header(full_header(t, enc[0][0]), where)
        outer = loop_header(full_header(t, enc[1][0]), where)
        bh = " ".join(full_header(t, enc[2][0]).split())
        cm = re.fullmatch(r"if \( ?(dep_offset|indep_offset) == 1 ?\)", bh)
        if cm:
            unit, cvar = "true", cm.group(1)
        elif bh == "else":
            # the matching if: the block that closes last before this else
            prev = max([(c2, o2) for (o2, c2, h2) in bl if c2 < enc[2][0] and fn[0] < o2], key=lambda x: x[0])
            cm = re.fullmatch(r"if \( ?(dep_offset|indep_offset) == 1 ?\)", " ".join(full_header(t, prev[1]).split()))
            if not cm or t[prev[0] + 1:enc[2][0]].strip() != "else":
                die("%s: else branch without a recognised if (<offset> == 1)" % where)
            unit, cvar = "false", cm.group(1)
        else:
            die("%s: store not directly inside if (<offset> == 1) / else: '%s'" % (where, bh))
        sites.append("mkSite %s %s %s (%s, %s) (%s, %s) %s %s" % (routine, unit, VARS[cvar], outer[0], outer[1], inner[0], inner[1], addr, src))
    for m in re.finditer(r"\b(gradient_multipass_b\s*\[[^;=]*\])\s*=\s*1\.0\s*;", t):
        p = m.start()
        where = "jacobian.cpp:%d" % S.line_of(t, p)
        fn = S.enclosing_function(bl, p)
        name = S.func_name(fn[2]).split("::")[-1] if fn else "?"
        if name not in ROUTINES:
            die("%s: seed in unknown routine %s" % (where, name))
        routine = ROUTINES[name]
        pa = P(toks(m.group(1), where), where, routine); idx = work_elem(pa, where)
        enc = sorted([(o, c, h) for (o, c, h) in bl if fn[0] < o < p < c], key=lambda x: -x[0])
        inner = loop_header(full_header(t, enc[0][0]), where)
        seeds.append("mkSeed %s (%s, %s) %s" % (routine, inner[0], inner[1], idx))
    if len(sites) < 8 or len(seeds) < 4:
        die("only %d stores and %d seeds found" % (len(sites), len(seeds)))
    out = ["(* GENERATED by tools/gen_jacobian.py from adept/jacobian.cpp -- do not edit *)",
           "From Coq Require Import ZArith List.", "From Adept Require Import JacobianDefs.", "Import ListNotations.", "",
           "Definition jacobian_sites : list jsite :=\n  [ " + ";\n    ".join(sites) + " ].",
           "Definition jacobian_seeds : list jseed :=\n  [ " + ";\n    ".join(seeds) + " ]."]
    sys.stdout.write("\n".join(out) + "\n")


main()
