#!/usr/bin/env python3
"""translator (C01, C03, C09): reads the policy classes and node classes of include/adept/BinaryOperation.h and
include/adept/UnaryOperation.h and writes Gen_Ops.v: for every binary policy its store_result and the four
calc_left / calc_right rules (child, template arguments as written, multiplier expression, guard), the template
arguments with which BinaryOperation / UnaryOperation evaluate and store their children, and the table of unary
functions with their derivative expressions.  Strict grammar: anything unexpected is an error."""
import sys, os, re
from fractions import Fraction

REPO = sys.argv[1] if len(sys.argv) > 1 else "/repo"
BIN = os.path.join(REPO, "include/adept/BinaryOperation.h")
UN = os.path.join(REPO, "include/adept/UnaryOperation.h")
FNAMES = ["log", "log10", "sin", "cos", "tan", "asin", "acos", "atan", "sinh", "cosh", "abs", "fabs", "sqrt", "tanh", "exp", "fastexp",
          "ceil", "floor", "log2", "expm1", "exp2", "log1p", "asinh", "acosh", "atanh", "erf", "erfc", "cbrt", "round", "trunc", "rint",
          "nearbyint", "pow", "atan2", "fast_sqr"]


def die(msg):
    sys.stderr.write("gen_ops: " + msg + "\n")
    sys.exit(2)


def strip_comments(t):
    t = re.sub(r"/\*.*?\*/", "", t, flags=re.S)
    return re.sub(r"//[^\n]*", "", t)


def block_after(text, start):
    """text of the brace block that starts at or after position start; returns (inner, end)"""
    i = text.index("{", start)
    depth, j = 0, i
    while True:
        c = text[j]
        if c == "{":
            depth += 1
        elif c == "}":
            depth -= 1
            if depth == 0:
                return text[i + 1:j], j + 1
        j += 1


# ------------------------------------------------------------------ tokens
TOK = re.compile(r"\s*(\d+\.\d*(?:[eE][-+]?\d+)?|\.\d+|\d+|L::n_arrays|L::n_scratch|R::n_arrays|R::n_scratch|\.template|std::[a-z0-9_]+|[A-Za-z_][A-Za-z0-9_]*|<=|>=|==|!=|[-+*/()<>,\[\]!.;])")


def tokens(s, where):
    out, pos = [], 0
    s = s.strip()
    while pos < len(s):
        m = TOK.match(s, pos)
        if not m:
            die("%s: cannot tokenise at '%s'" % (where, s[pos:pos + 40]))
        out.append(m.group(1))
        pos = m.end()
    return out


class Parser:
    def __init__(self, toks, where, unary=False):
        self.t, self.k, self.where, self.unary = toks, 0, where, unary

    def peek(self, o=0):
        return self.t[self.k + o] if self.k + o < len(self.t) else None

    def eat(self, x=None):
        y = self.peek()
        if y is None or (x is not None and y != x):
            die("%s: expected %s, found %s (tokens %s)" % (self.where, x, y, " ".join(self.t)))
        self.k += 1
        return y

    # ---- index expressions inside <...>
    def idx(self):
        """sum of MyArrayNum | MyScratchNum | L::n_arrays | L::n_scratch | store_result | n_local_scratch | int; returns dict"""
        d = {"MyArrayNum": 0, "MyScratchNum": 0, "L::n_arrays": 0, "L::n_scratch": 0, "sr": 0, "k": 0}
        while True:
            x = self.eat()
            if x in ("MyArrayNum", "MyScratchNum", "L::n_arrays", "L::n_scratch"):
                d[x] += 1
            elif x in ("store_result", "n_local_scratch"):
                d["sr"] += 1
            elif re.fullmatch(r"\d+", x):
                d["k"] += int(x)
            else:
                die("%s: unexpected '%s' in a template argument" % (self.where, x))
            if self.peek() == "+":
                self.eat("+")
                continue
            return d

    def tmpl_pair(self):
        self.eat("<")
        a = self.idx()
        self.eat(",")
        s = self.idx()
        self.eat(">")
        return a, s

    # ---- multiplier expressions
    def expr(self):
        a = self.term()
        while self.peek() in ("+", "-"):
            o = self.eat()
            b = self.term()
            a = "(%s %s %s)" % ("MAdd" if o == "+" else "MSub", a, b)
        return a

    def cmpexpr(self):
        a = self.expr()
        if self.peek() in (">", "<"):
            o = self.eat()
            b = self.expr()
            return "(%s %s %s)" % ("MGt" if o == ">" else "MLt", a, b)
        return a

    def term(self):
        a = self.unary_()
        while self.peek() in ("*", "/"):
            o = self.eat()
            b = self.unary_()
            a = "(%s %s %s)" % ("MMul" if o == "*" else "MDiv", a, b)
        return a

    def unary_(self):
        if self.peek() == "-":
            self.eat("-")
            return "(MNeg %s)" % self.unary_()
        return self.primary()

    def primary(self):
        x = self.eat()
        if x == "(":
            e = self.cmpexpr()
            self.eat(")")
            return e
        if re.fullmatch(r"\d+\.\d*(?:[eE][-+]?\d+)?|\.\d+|\d+", x):
            q = Fraction(x)
            return "(MLit %d %d)" % (q.numerator, q.denominator)
        if x == "multiplier" and not self.unary:
            return "MW"
        if x == "val" and self.unary:
            return "MArg"
        if x == "result" and self.unary:
            return "MRes"
        if x == "scratch" and not self.unary:
            self.eat("[")
            d = self.idx()
            self.eat("]")
            if d["MyScratchNum"] != 1 or d["MyArrayNum"] or d["L::n_arrays"] or d["L::n_scratch"] or d["sr"]:
                die("%s: scratch index not of the form MyScratchNum+k" % self.where)
            return "(MScr %d)" % d["k"]
        if x in ("left", "right", "arg") and not self.unary:
            self.eat(".template")
            f = self.eat()
            if f != "value_stored_":
                die("%s: %s.%s inside a multiplier" % (self.where, x, f))
            a, s = self.tmpl_pair()
            self.eat("(")
            self.eat("loc")
            self.eat(",")
            self.eat("scratch")
            self.eat(")")
            return "(MVal %s %s %s)" % ("SR" if x == "right" else "SL", coq_a(a, self.where), coq_s(s, self.where))
        if x == "derivative" and not self.unary:
            self.eat("(")
            a = self.expr()
            self.eat(",")
            b = self.expr()
            self.eat(")")
            return "(MDer %s %s)" % (a, b)
        name = x[5:] if x.startswith("std::") else x
        if name in FNAMES and self.peek() == "(":
            self.eat("(")
            args = [self.expr()]
            while self.peek() == ",":
                self.eat(",")
                args.append(self.expr())
            self.eat(")")
            if len(args) == 1:
                return "(MFn1 F_%s %s)" % (name, args[0])
            if len(args) == 2:
                return "(MFn2 F_%s %s %s)" % (name, args[0], args[1])
        die("%s: unexpected token '%s' in an expression" % (self.where, x))


def coq_a(d, where):
    if d["MyArrayNum"] != 1 or d["MyScratchNum"] or d["L::n_scratch"] or d["sr"] or d["k"]:
        die("%s: array template argument not of the form MyArrayNum [+ L::n_arrays]: %s" % (where, d))
    return "(mkA %d)" % d["L::n_arrays"]


def coq_s(d, where):
    if d["MyScratchNum"] != 1 or d["MyArrayNum"] or d["L::n_arrays"]:
        die("%s: scratch template argument not of the form MyScratchNum [+ L::n_scratch] [+ store_result] [+ k]: %s" % (where, d))
    return "(mkS %d %d %d)" % (d["L::n_scratch"], d["sr"], d["k"])


def parse_calc_stmt(stmt, where):
    """SIDE.template calc_gradient_<A,S>(stack, loc, scratch [, MULT]) ;  -> (side, a, s, mult or None)"""
    p = Parser(tokens(stmt, where), where)
    sd = p.eat()
    if sd not in ("left", "right", "arg"):
        die("%s: statement does not start with left/right/arg: %s" % (where, stmt))
    p.eat(".template")
    p.eat("calc_gradient_")
    a, s = p.tmpl_pair()
    p.eat("(")
    p.eat("stack")
    p.eat(",")
    p.eat("loc")
    p.eat(",")
    p.eat("scratch")
    mult = None
    if p.peek() == ",":
        p.eat(",")
        mult = p.expr()
    p.eat(")")
    p.eat(";")
    if p.peek() is not None:
        die("%s: more than one statement" % where)
    return ("SR" if sd == "right" else "SL"), coq_a(a, where), coq_s(s, where), mult


def functions(body, name):
    """all member functions called `name` in a struct body: list of (params, body)"""
    out = []
    for m in re.finditer(r"\b%s\s*\(" % name, body):
        # parameter list
        depth, j = 0, m.end() - 1
        while True:
            if body[j] == "(":
                depth += 1
            elif body[j] == ")":
                depth -= 1
                if depth == 0:
                    break
            j += 1
        params = body[m.end():j]
        rest = body[j + 1:j + 40]
        if not re.match(r"\s*(const)?\s*\{", rest):
            continue  # a call, not a definition
        inner, _ = block_after(body, j)
        out.append((params, inner))
    return out


def policy(text, name):
    m = re.search(r"struct\s+%s\s*\{" % name, text)
    if not m:
        die("policy struct %s not found" % name)
    body, _ = block_after(text, m.start())
    body = strip_comments(body)
    sr = re.search(r"static\s+const\s+int\s+store_result\s*=\s*(\d+)\s*;", body)
    if not sr:
        die("%s: store_result not found" % name)
    guard_def = None
    isl = functions(body, "is_left")
    if isl:
        if len(isl) != 1:
            die("%s: several is_left" % name)
        g = re.fullmatch(r"\s*return\s+(.*?)\s*;\s*", isl[0][1], re.S)
        if not g:
            die("%s: is_left body not a single return" % name)
        toks = tokens(g.group(1), name + "::is_left")
        # split at the comparison operator at depth 0 (outside <...> template argument lists: those follow value_stored_)
        p = Parser(toks, name + "::is_left")
        a = p.expr()
        c = p.eat()
        if c not in (">", "<=", "<", ">="):
            die("%s: comparison '%s' in is_left" % (name, c))
        b = p.expr()
        if p.peek() is not None:
            die("%s: trailing tokens in is_left" % name)
        guard_def = ({">": "CGt", "<=": "CLe", "<": "CLt", ">=": "CGe"}[c], a, b)
    rules = {}
    for fn in ("calc_left", "calc_right"):
        defs = functions(body, fn)
        if len(defs) != 2:
            die("%s: expected two overloads of %s, found %d" % (name, fn, len(defs)))
        for params, inner in defs:
            with_m = "multiplier" in params
            where = "%s::%s%s" % (name, fn, "(multiplier)" if with_m else "")
            inner = re.sub(r"using\s+std::\w+\s*;", "", inner).strip()
            guard = "None"
            gm = re.fullmatch(r"if\s*\(\s*(!?)\s*is_left\s*<\s*MyArrayNum\s*,\s*MyScratchNum\s*>\s*\(\s*left\s*,\s*right\s*,\s*loc\s*,\s*scratch\s*\)\s*\)\s*\{(.*)\}", inner, re.S)
            if gm:
                if guard_def is None:
                    die("%s: guard without is_left" % where)
                guard = "(Some (mkGuard %s %s %s %s))" % ("true" if gm.group(1) else "false", guard_def[0], guard_def[1], guard_def[2])
                inner = gm.group(2).strip()
            sd, a, s, mult = parse_calc_stmt(inner, where)
            if with_m and (mult is None or "MW" not in mult):
                die("%s: the multiplier is not used" % where)
            if not with_m and mult is not None and "MW" in mult:
                die("%s: multiplier used but not a parameter" % where)
            key = (fn, with_m)
            if key in rules:
                die("%s: duplicate overload" % where)
            rules[key] = "(mkRule %s %s %s %s %s)" % (guard, sd, a, s, "None" if mult is None else "(Some %s)" % mult)
    return int(sr.group(1)), rules, body


OPERATION = {
    "Add": ["return left + right ;"], "Subtract": ["return left - right ;"], "Multiply": ["return left * right ;"],
    "Divide": ["return left / right ;", "one_over_right = 1.0 / right ; return left * one_over_right ;"],
    "Pow": ["using std::pow ; return pow ( left , right ) ;"],
    "Atan2": ["using std::atan2 ; return atan2 ( left , right ) ;", "using std::atan2 ; saved_term = 1.0 / ( left * left + right * right ) ; return atan2 ( left , right ) ;"],
}


def check_operations(name, body):
    """the value computed by the policy: must be textually one of the forms the hand model Expr.v implements"""
    got = []
    for fn in ("operation", "operation_store"):
        for params, inner in functions(body, fn):
            got.append(tokens_loose(inner))
    if name in OPERATION:
        for g in got:
            if g not in OPERATION[name]:
                die("%s: operation body '%s' is not the modelled one" % (name, g))
        if len(got) != len(OPERATION[name]):
            die("%s: %d operation bodies, expected %d" % (name, len(got), len(OPERATION[name])))
    else:
        want = {"Max": ["return adept::internal::fmax ( left , right ) ;", "return left < right ? right : left ;", "return std::fmax ( left , right ) ;"],
                "Min": ["return adept::internal::fmin ( left , right ) ;", "return left < right ? left : right ;", "return std::fmin ( left , right ) ;"]}[name]
        for g in got:
            if g not in want:
                die("%s: operation body '%s' is not the modelled one" % (name, g))


def tokens_loose(s):
    return " ".join(re.findall(r"\.template|[A-Za-z_:][A-Za-z0-9_:]*|\d+\.\d*|\d+|\S", s))


def node_rules(btext, utext):
    # BinaryOperation: my_value_at_location_store_ variants
    m = re.search(r"struct\s+BinaryOperation\b", btext)
    body, _ = block_after(btext, m.start())
    body = strip_comments(body)
    pairs = set()
    for params, inner in functions(body, "my_value_at_location_store_"):
        l = re.search(r"left\s*\.template\s+value_at_location_store_\s*<([^>]*)>", inner)
        r = re.search(r"right\s*\.template\s+value_at_location_store_\s*<([^>]*)>", inner)
        if not l or not r:
            die("BinaryOperation::my_value_at_location_store_: children not found")
        pairs.add((re.sub(r"\s+", "", l.group(1)), re.sub(r"\s+", "", r.group(1))))
    if len(pairs) != 1:
        die("BinaryOperation::my_value_at_location_store_ variants disagree: %s" % pairs)
    (ls, rs), = pairs

    def pair(txt, where):
        p = Parser(tokens("<" + txt + ">", where), where)
        a, s = p.tmpl_pair()
        return "(%s, %s)" % (coq_a(a, where), coq_s(s, where))
    store_l, store_r = pair(ls, "BinaryOperation store left"), pair(rs, "BinaryOperation store right")
    vr = None
    for params, inner in functions(body, "my_value_stored_"):
        r = re.search(r"right\s*\.template\s+value_at_location_\s*<([^>]*)>", inner)
        if r:
            p = Parser(tokens(r.group(1), "BinaryOperation value right"), "BinaryOperation value right")
            vr = coq_a(p.idx(), "BinaryOperation value right")
            l = re.search(r"left\s*\.template\s+value_at_location_\s*<([^>]*)>", inner)
            if not l or re.sub(r"\s+", "", l.group(1)) != "MyArrayNum":
                die("BinaryOperation::my_value_stored_: left child not at MyArrayNum")
    if vr is None:
        die("BinaryOperation::my_value_stored_ (StoreResult==0) not found")
    # UnaryOperation
    m = re.search(r"struct\s+UnaryOperation\b", utext)
    ubody, _ = block_after(utext, m.start())
    ubody = strip_comments(ubody)
    vs = functions(ubody, "value_at_location_store_")
    if len(vs) != 1:
        die("UnaryOperation::value_at_location_store_: %d definitions" % len(vs))
    want = "return scratch [ MyScratchNum ] = operation ( arg .template value_at_location_store_ < MyArrayNum , MyScratchNum + 1 > ( loc , scratch ) ) ;"
    if tokens_loose(vs[0][1]) != want:
        die("UnaryOperation::value_at_location_store_ is not the modelled one: " + tokens_loose(vs[0][1]))
    vst = functions(ubody, "value_stored_")
    if len(vst) != 1 or tokens_loose(vst[0][1]) != "return scratch [ MyScratchNum ] ;":
        die("UnaryOperation::value_stored_ is not the modelled one")
    un_store = "((mkA 0), (mkS 0 0 1))"
    cg = functions(ubody, "calc_gradient_")
    if len(cg) != 2:
        die("UnaryOperation::calc_gradient_: %d definitions" % len(cg))
    ur = {}
    for params, inner in cg:
        with_m = "multiplier" in params
        sd, a, s, mult = parse_calc_stmt(inner.strip(), "UnaryOperation::calc_gradient_")
        ur[with_m] = "(mkRule None %s %s %s %s)" % (sd, a, s, "None" if mult is None else "(Some %s)" % mult)
    if set(ur) != {True, False}:
        die("UnaryOperation::calc_gradient_ overloads")
    return store_l, store_r, vr, un_store, ur[False], ur[True]


def scalar_nodes(btext, repo):
    """BinaryOpScalarLeft / BinaryOpScalarRight (an expression combined with a passive scalar): where the one
    expression child is evaluated and stored, the template arguments with which the policy's calc_right / calc_left
    is entered, the static counts, and the list of policies each wrapper is instantiated with.  Also struct Scalar
    (Expression.h), the stand-in for the passive operand inside the policy rules."""
    out = {}
    for cls, child, other, calc in (("BinaryOpScalarLeft", "right", "left", "calc_right"), ("BinaryOpScalarRight", "left", "right", "calc_left")):
        m = re.search(r"struct\s+%s\b" % cls, btext)
        if not m:
            die("struct %s not found" % cls)
        body, _ = block_after(btext, m.start())
        body = strip_comments(body)
        C = child[0].upper()
        # static counts, as written
        want_static = {
            "is_active": "%s::is_active&&!is_same<Type,bool>::value" % C,
            "store_result": "is_active*Op::store_result",
            "n_active": "expr_cast<%s>::n_active" % C,
            "n_local_scratch": "store_result",
            "n_scratch": "n_local_scratch+%s::n_scratch" % C,
            "n_arrays": "%s::n_arrays" % C,
        }
        for name, want in want_static.items():
            mm = re.search(r"static\s+const\s+(?:int|bool)\s+%s\s*=([^;]*);" % name, body)
            if not mm:
                die("%s: static %s not found" % (cls, name))
            got = re.sub(r"\s+", "", mm.group(1))
            if got != want:
                die("%s: static %s = %s, modelled as %s" % (cls, name, got, want))
        # children stored
        stores, has2 = set(), False
        for params, inner in functions(body, "my_value_at_location_store_"):
            c = re.search(r"%s\s*\.template\s+value_at_location_store_\s*<([^>]*)>" % child, inner)
            if not c:
                die("%s::my_value_at_location_store_: child not found" % cls)
            if re.search(r"%s\s*\.template" % other, inner):
                die("%s::my_value_at_location_store_: the scalar operand is used as an expression" % cls)
            stores.add(re.sub(r"\s+", "", c.group(1)))
            t = tokens_loose(inner)
            if "operation_store" in t:
                has2 = True
                if "scratch [ MyScratchNum + 1 ]" not in t or not t.startswith("return scratch [ MyScratchNum ] = Op::operation_store ("):
                    die("%s::my_value_at_location_store_ (operation_store variant) is not the modelled one: %s" % (cls, t))
            elif not (t.startswith("return scratch [ MyScratchNum ] = operation (") or t.startswith("return operation (")):
                die("%s::my_value_at_location_store_ is not the modelled one: %s" % (cls, t))
        if len(stores) != 1:
            die("%s::my_value_at_location_store_ variants disagree: %s" % (cls, stores))
        pr = Parser(tokens("<" + stores.pop() + ">", cls + " store"), cls + " store")
        a, sx = pr.tmpl_pair()
        store = "(%s, %s)" % (coq_a(a, cls), coq_s(sx, cls))
        # the enable_if conditions of the storing variants: which store_result values write scratch[MyScratchNum+1]
        conds = re.findall(r"enable_if\s*<\s*\(?\s*StoreResult\s*(==|>)\s*(\d)\s*\)?\s*,\s*Type\s*>\s*::\s*type\s+my_value_at_location_store_", body)
        conds = sorted(conds)
        if has2:
            if conds != [("==", "0"), ("==", "1"), ("==", "2")]:
                die("%s: my_value_at_location_store_ variants %s" % (cls, conds))
        elif conds != [("==", "0"), (">", "0")]:
            die("%s: my_value_at_location_store_ variants %s" % (cls, conds))
        val = None
        for params, inner in functions(body, "my_value_stored_"):
            t = tokens_loose(inner)
            if t == "return scratch [ MyScratchNum ] ;":
                continue
            c = re.search(r"%s\s*\.template\s+value_at_location_\s*<([^>]*)>" % child, inner)
            if not c:
                die("%s::my_value_stored_ is not the modelled one: %s" % (cls, t))
            pr = Parser(tokens(c.group(1), cls + " value"), cls + " value")
            val = coq_a(pr.idx(), cls + " value")
        if val is None:
            die("%s::my_value_stored_ (StoreResult==0) not found" % cls)
        # calc_gradient_ -> calc_X_<A,S>(stack, child, loc, scratch[, multiplier]) -> Op::template calc_X<A,S>(stack, l, r, loc, scratch[, multiplier])
        fw = {}
        for params, inner in functions(body, "calc_gradient_"):
            with_m = "multiplier" in params
            t = tokens_loose(inner)
            mm = re.fullmatch(r"%s_ < (.*) > \( stack , %s , loc , scratch( , multiplier)? \) ;" % (calc, child), t)
            if not mm or bool(mm.group(2)) != with_m:
                die("%s::calc_gradient_ is not the modelled one: %s" % (cls, t))
            if re.sub(r"\s+", "", mm.group(1)) != "MyArrayNum,MyScratchNum":
                die("%s::calc_gradient_ forwards <%s>" % (cls, mm.group(1)))
        n_act = 0
        for params, inner in functions(body, calc + "_"):
            t = tokens_loose(inner)
            if t == "":
                continue
            with_m = "multiplier" in params
            if child == "right":
                args = r"stack , Scalar < L > \( left \. value \( \) \) , right , loc , scratch"
            else:
                args = r"stack , left , Scalar < R > \( right \. value \( \) \) , loc , scratch"
            mm = re.fullmatch(r"Op:: ?template %s < (.*) > \( %s( , multiplier)? \) ;" % (calc, args), t.replace("Op::template", "Op:: template"))
            if not mm or bool(mm.group(2)) != with_m:
                die("%s::%s_ is not the modelled one: %s" % (cls, calc, t))
            pr = Parser(tokens("<" + mm.group(1) + ">", cls + " forward"), cls + " forward")
            a, sx = pr.tmpl_pair()
            fw[with_m] = "(%s, %s)" % (coq_a(a, cls), coq_s(sx, cls))
            n_act += 1
        if set(fw) != {True, False} or n_act != 2:
            die("%s::%s_ overloads: %s" % (cls, calc, fw))
        out[cls] = "(mkSNode %s %s %s %s %s)" % (store, val, fw[False], fw[True], "true" if has2 else "false")
    # which policies are wrapped (macro instantiations and the two hand-written operator/ overloads)
    K = {"Add": "KAdd", "Subtract": "KSub", "Multiply": "KMul", "Divide": "KDiv", "Pow": "KPow", "Atan2": "KAtan2", "Max": "KMax", "Min": "KMin"}
    code = strip_comments(btext)
    mac = re.search(r"#define\s+ADEPT_DEFINE_OPERATION\(NAME,\s*OPERATOR\)(.*?)\n\n", code, flags=re.S)
    if not mac or "BinaryOpScalarLeft" not in mac.group(1) or "BinaryOpScalarRight" in mac.group(1):
        die("ADEPT_DEFINE_OPERATION does not define exactly the scalar-left form")
    mac = re.search(r"#define\s+ADEPT_DEFINE_SCALAR_RHS_OPERATION\(NAME,\s*OPERATOR\)(.*?)\n\n", code, flags=re.S)
    if not mac or "BinaryOpScalarRight" not in mac.group(1):
        die("ADEPT_DEFINE_SCALAR_RHS_OPERATION does not define the scalar-right form")
    left_ops, right_ops = [], []
    for mm in re.finditer(r"^\s*ADEPT_DEFINE_OPERATION\((\w+),\s*[\w+\-*/]+\)", code, flags=re.M):
        if mm.group(1) not in K:
            die("ADEPT_DEFINE_OPERATION(%s): unknown policy" % mm.group(1))
        if K[mm.group(1)] not in left_ops:
            left_ops.append(K[mm.group(1)])
    for mm in re.finditer(r"^\s*ADEPT_DEFINE_SCALAR_RHS_OPERATION\((\w+),\s*[\w+\-*/]+\)", code, flags=re.M):
        if mm.group(1) not in K:
            die("ADEPT_DEFINE_SCALAR_RHS_OPERATION(%s): unknown policy" % mm.group(1))
        if K[mm.group(1)] not in right_ops:
            right_ops.append(K[mm.group(1)])
    # hand-written expression / scalar: every explicit BinaryOpScalarRight<..., L, internal::POLICY, ...> return type with its activity condition
    for mm in re.finditer(r"enable_if<internal::is_not_expression<RType>::value\s*&&\s*\(([^)]*)\)\s*,\s*internal::BinaryOpScalarRight<[^;{]*?L,\s*internal::(\w+),", code, flags=re.S):
        cond, pol = re.sub(r"\s+", "", mm.group(1)), mm.group(2)
        if pol not in K:
            die("operator/ (scalar right): unknown policy " + pol)
        if cond == "internal::is_floating_point<RType>::value||L::is_active":
            if K[pol] not in right_ops:
                right_ops.append(K[pol])       # may be active
        elif cond == "!internal::is_floating_point<RType>::value&&!L::is_active":
            pass                               # passive only: store_result is 0 whatever the policy
        else:
            die("operator/ (scalar right): condition '%s' is not a modelled one" % cond)
    if not left_ops or not right_ops:
        die("no scalar-left / scalar-right instantiations found")
    # struct Scalar: no arrays, no scratch, inactive, value_stored_ returns the value
    et = strip_comments(open(os.path.join(repo, "include/adept/Expression.h")).read())
    m = re.search(r"struct\s+Scalar\b", et)
    if not m:
        die("struct Scalar not found")
    sb, _ = block_after(et, m.start())
    for name, want in (("n_scratch", "0"), ("n_arrays", "0"), ("is_active", "false"), ("n_active", "0")):
        mm = re.search(r"static\s+const\s+(?:int|bool)\s+%s\s*=([^;]*);" % name, sb)
        if not mm or re.sub(r"\s+", "", mm.group(1)) != want:
            die("Scalar::%s is not %s" % (name, want))
    for fn in ("value_stored_", "value_at_location_store_", "value_at_location_"):
        ds = functions(sb, fn)
        if len(ds) != 1 or tokens_loose(ds[0][1]) != "return val_ ;":
            die("Scalar::%s does not return the value" % fn)
    return out["BinaryOpScalarLeft"], out["BinaryOpScalarRight"], left_ops, right_ops


def noalias_rules(repo):
    """struct NoAlias (noalias.h): the template arguments with which it forwards to its argument"""
    text = strip_comments(open(os.path.join(repo, "include/adept/noalias.h")).read())
    m = re.search(r"struct\s+NoAlias\b", text)
    if not m:
        die("struct NoAlias not found")
    body, _ = block_after(text, m.start())
    out = []
    for fn, callee in (("value_at_location_store_", "value_at_location_store_"), ("value_stored_", "value_stored_"), ("calc_gradient_", "calc_gradient_")):
        defs = functions(body, fn)
        want = 2 if fn == "calc_gradient_" else 1
        if len(defs) != want:
            die("NoAlias::%s: %d definitions, expected %d" % (fn, len(defs), want))
        for params, inner in defs:
            c = re.search(r"arg\s*\.template\s+%s\s*<([^>]*)>" % callee, inner)
            if not c:
                die("NoAlias::%s does not forward to arg.%s" % (fn, callee))
            pr = Parser(tokens("<" + c.group(1) + ">", "NoAlias::" + fn), "NoAlias::" + fn)
            a, sx = pr.tmpl_pair()
            out.append("(%s, %s)" % (coq_a(a, fn), coq_s(sx, fn)))
    return out


def unary_table(utext):
    """ADEPT_DEF_UNARY_FUNC / _OP lines active in the default configuration (C++11, no ADEPT_FAST_EXPONENTIAL)"""
    out, seen = [], set()
    active = [True]
    for line in utext.split("\n"):
        s = line.strip()
        if s.startswith("#ifdef ADEPT_FAST_EXPONENTIAL"):
            active.append(False)
            continue
        if s.startswith("#ifdef ADEPT_CXX11_FEATURES"):
            active.append(True)
            continue
        if s.startswith("#ifdef") or s.startswith("#ifndef") or s.startswith("#if "):
            active.append(active[-1])
            continue
        if s.startswith("#else"):
            if len(active) > 1:
                active[-1] = not active[-1]
            continue
        if s.startswith("#endif"):
            if len(active) > 1:
                active.pop()
            continue
        m = re.match(r"ADEPT_DEF_UNARY_(FUNC|OP)\((\w+),\s*([\w+\-!]+|operator[+\-!]),\s*([^,]+),\s*\"([^\"]*)\",\s*(.*),\s*(true|false)\)\s*$", s)
        if not m or not all(active):
            continue
        kind, name, func, raw, string, deriv = m.group(1), m.group(2), m.group(3), m.group(4).strip(), m.group(5), m.group(6)
        if name in seen:
            continue
        seen.add(name)
        if kind == "OP":
            f = {"operator+": "uplus", "operator-": "uminus"}.get(func)
            if f is None:
                continue      # operator! is boolean
        else:
            f = func
            if f not in FNAMES:
                die("unary function %s is not in the model's function list" % f)
            base = raw.split("::")[-1]
            if base != f:
                die("unary %s computes %s" % (f, raw))
        p = Parser(tokens(deriv, "derivative of " + f), "derivative of " + f, unary=True)
        d = p.cmpexpr()
        if p.peek() is not None:
            die("derivative of %s: trailing tokens" % f)
        out.append((f, d))
    return out


def main():
    btext, utext = open(BIN).read(), open(UN).read()
    out = ["(* GENERATED by tools/gen_ops.py from include/adept/BinaryOperation.h and UnaryOperation.h -- do not edit *)",
           "From Coq Require Import ZArith List.", "From Adept Require Import ExprDefs.", "Import ListNotations.", "Local Open Scope Z_scope.", ""]
    names = [("Add", "KAdd"), ("Subtract", "KSub"), ("Multiply", "KMul"), ("Divide", "KDiv"), ("Pow", "KPow"), ("Atan2", "KAtan2"), ("Max", "KMax"), ("Min", "KMin")]
    for n, k in names:
        sr, rules, body = policy(btext, n)
        check_operations(n, body)
        out.append("Definition pol_%s : policy := mkPolicy %d\n  %s\n  %s\n  %s\n  %s." % (
            n, sr, rules[("calc_left", False)], rules[("calc_right", False)], rules[("calc_left", True)], rules[("calc_right", True)]))
    out.append("Definition policy_of (k : bkind) : policy :=\n  match k with %s end." % " | ".join("%s => pol_%s" % (k, n) for n, k in names))
    sl, sr_, vr, us, ur, urm = node_rules(btext, utext)
    out.append("Definition nodes : node_rules := mkNode %s %s %s %s\n  %s\n  %s." % (sl, sr_, vr, us, ur, urm))
    out.append("(* noalias(e): template arguments of value_at_location_store_, value_stored_, calc_gradient_, calc_gradient_(multiplier) *)")
    out.append("Definition noalias_forwards : list (aidx * sidx) := [%s]." % "; ".join(noalias_rules(REPO)))
    snl, snr, lops, rops = scalar_nodes(btext, REPO)
    out.append("(* BinaryOpScalarLeft / BinaryOpScalarRight: child storage, child value, template arguments handed to the policy (without / with multiplier), operation_store variant present *)")
    out.append("Definition scalar_left_node : scalar_node := %s." % snl)
    out.append("Definition scalar_right_node : scalar_node := %s." % snr)
    out.append("(* policies instantiated with a passive scalar on the left / on the right of a possibly active expression *)")
    out.append("Definition scalar_left_ops : list bkind := [%s]." % "; ".join(lops))
    out.append("Definition scalar_right_ops : list bkind := [%s]." % "; ".join(rops))
    tab = unary_table(utext)
    if len(tab) < 30:
        die("only %d unary functions found" % len(tab))
    out.append("Definition unary_functions : list fname := [%s]." % "; ".join("F_" + f for f, _ in tab))
    out.append("Definition un_der (f : fname) : option mexp :=\n  match f with\n%s\n  | _ => None end." % "\n".join("  | F_%s => Some %s" % (f, d) for f, d in tab))
    sys.stdout.write("\n".join(out) + "\n")


if __name__ == "__main__":
    main()
