"""tiny C++ scanner shared by the translators: strips comments/strings, tracks brace nesting and
reports, for a position, the enclosing function (header text, name, body span)."""
import re

CONTROL = re.compile(r"^\s*(for|if|while|do|else|switch|try|catch)\b|\belse\s*$|\bdo\s*$|\btry\s*$")
NOTFUNC = re.compile(r"\b(namespace|class|struct|enum|union|extern)\b[^()]*$")


def strip(text):
    """replace comments and string/char literals by spaces (same length, newlines kept)"""
    out = list(text)
    i, n = 0, len(text)
    while i < n:
        c = text[i]
        if text.startswith("//", i):
            j = text.find("\n", i)
            j = n if j < 0 else j
            for k in range(i, j):
                out[k] = " "
            i = j
        elif text.startswith("/*", i):
            j = text.find("*/", i + 2)
            j = n if j < 0 else j + 2
            for k in range(i, j):
                if out[k] != "\n":
                    out[k] = " "
            i = j
        elif c == '"' or c == "'":
            j = i + 1
            while j < n and text[j] != c:
                j += 2 if text[j] == "\\" else 1
            for k in range(i + 1, min(j, n)):
                if out[k] != "\n":
                    out[k] = " "
            i = j + 1
        else:
            i += 1
    return "".join(out)


def blocks(text):
    """list of (open_pos, close_pos, header) for every brace pair; header = text since the previous
    ';', '{' or '}' at the same level (preprocessor lines removed)"""
    res, stack = [], []
    last = 0   # start of the current header
    for i, c in enumerate(text):
        if c == "{":
            hdr = text[last:i]
            hdr = "\n".join(l for l in hdr.split("\n") if not l.lstrip().startswith("#"))
            stack.append((i, hdr))
            last = i + 1
        elif c == "}":
            if stack:
                o, hdr = stack.pop()
                res.append((o, i, hdr))
            last = i + 1
        elif c == ";":
            last = i + 1
    return res


def is_function(hdr):
    h = hdr.strip()
    if not h or "(" not in h:
        return False
    if CONTROL.search(h.split("\n")[-1]) or CONTROL.match(h):
        return False
    if NOTFUNC.search(h) and ")" not in h.split("{")[-1]:
        return False
    # a function header ends with ')' optionally followed by const / noexcept / initialiser list / trailing stuff
    return re.search(r"\)\s*(const)?\s*(:\s*[^;{}]*)?$", h, re.S) is not None


def func_name(hdr):
    h = hdr.strip()
    # drop constructor initialiser list
    depth, cut = 0, None
    for i, c in enumerate(h):
        if c == "(":
            depth += 1
        elif c == ")":
            depth -= 1
            if depth == 0:
                cut = i
                break
    h2 = h[:cut + 1] if cut is not None else h
    m = re.search(r"([A-Za-z_~][A-Za-z0-9_:<>~]*|operator\s*[^\s(]+)\s*\($", h2[:h2.index("(") + 1] if "(" in h2 else h2)
    if m:
        return re.sub(r"\s+", "", m.group(1))
    m = re.search(r"([A-Za-z_~][A-Za-z0-9_]*)\s*\(", h2)
    return m.group(1) if m else "?"


def enclosing_function(bl, pos):
    """innermost function block containing pos"""
    best = None
    for o, c, hdr in bl:
        if o < pos < c and is_function(hdr):
            if best is None or o > best[0]:
                best = (o, c, hdr)
    return best


def line_of(text, pos):
    return text.count("\n", 0, pos) + 1
