#!/usr/bin/env python3
"""translator (C08): reads the register paths and the top-of-stack unregister paths of the gradient-slot allocator -
Stack::register_gradient, Stack::unregister_gradient (include/adept/Stack.h), Stack::do_register_gradients and the first
branch of Stack::unregister_gradients (adept/Stack.cpp) - and writes Gen_GapList.v: every arithmetic expression, every
comparison and every field update of those paths as a Coq definition over Z.  The control skeleton (which list
operation sits in which branch) is matched against a fixed template; anything else is an error (exit 2)."""
import sys, os, re
sys.path.insert(0, os.path.dirname(os.path.abspath(__file__)))
import cppscan as S

REPO = sys.argv[1] if len(sys.argv) > 1 else "/repo"


def die(msg):
    sys.stderr.write("gen_gaplist: " + msg + "\n")
    sys.exit(2)


TOK = re.compile(r"(\d+|[A-Za-z_][A-Za-z0-9_]*(?:(?:->|\.)[A-Za-z_][A-Za-z0-9_]*)?|==|!=|<=|>=|[-+<>()])")
CMP = {"==": "=?", "<=": "<=?", ">=": ">=?", "<": "<?", ">": ">?"}


class E:
    """expressions: sums and differences of variables and literals, at most one comparison on top"""
    def __init__(self, s, env, where):
        self.t, self.k, self.env, self.where = [], 0, env, where
        pos = 0
        while pos < len(s):
            m = TOK.match(s, pos)
            if not m:
                die("%s: cannot tokenise '%s'" % (where, s[pos:]))
            self.t.append(m.group(1)); pos = m.end()

    def peek(self):
        return self.t[self.k] if self.k < len(self.t) else None

    def eat(self):
        x = self.peek()
        if x is None:
            die("%s: expression ends early" % self.where)
        self.k += 1
        return x

    def arith(self):
        a = self.atom()
        while self.peek() in ("+", "-"):
            o = self.eat(); b = self.atom()
            a = "(%s %s %s)" % (a, o, b)
        return a

    def atom(self):
        x = self.eat()
        if x == "(":
            a = self.arith()
            if self.eat() != ")":
                die("%s: ')' expected" % self.where)
            return a
        if x.isdigit():
            return x
        if x in self.env:
            return self.env[x]
        die("%s: unknown name '%s'" % (self.where, x))

    def done(self):
        if self.peek() is not None:
            die("%s: trailing '%s'" % (self.where, self.peek()))


def arith(s, env, where):
    p = E(s, env, where); a = p.arith(); p.done(); return a


def cond(s, env, where):
    p = E(s, env, where); a = p.arith(); o = p.eat()
    if o == "!=":
        b = p.arith(); p.done(); return "(negb (%s =? %s))" % (a, b)
    if o not in CMP:
        die("%s: comparison expected, found '%s'" % (where, o))
    b = p.arith(); p.done()
    return "(%s %s %s)" % (a, CMP[o], b)


def update(stmt, target, env, where):
    """'target++' | 'target--' | 'target += e' | 'target -= e' | 'target = e'  ->  new value of target"""
    if not stmt.startswith(target):
        die("%s: update of %s expected, found '%s'" % (where, target, stmt))
    r = stmt[len(target):]
    old = env[target]
    if r == "++":
        return "(%s + 1)" % old
    if r == "--":
        return "(%s - 1)" % old
    if r.startswith("+="):
        return "(%s + %s)" % (old, arith(r[2:], env, where))
    if r.startswith("-="):
        return "(%s - %s)" % (old, arith(r[2:], env, where))
    if r.startswith("=") and not r.startswith("=="):
        return arith(r[1:], env, where)
    die("%s: update form '%s'" % (where, stmt))


def body(text, header_re, where):
    m = re.search(header_re, text)
    if not m:
        die("%s: function not found" % where)
    o = text.index("{", m.end() - 1)
    d, i = 0, o
    while True:
        if text[i] == "{":
            d += 1
        elif text[i] == "}":
            d -= 1
            if d == 0:
                break
        i += 1
    b = text[o:i + 1]
    b = "\n".join(l for l in b.split("\n") if not l.lstrip().startswith("#"))
    return "".join(b.split())


def match(tmpl, src, where):
    """template with holes <name>; holes match up to the next literal piece (no ; { } inside)"""
    parts = re.split(r"<([a-z0-9_]+)>", "".join(tmpl.split()))
    rx = ""
    for i, p in enumerate(parts):
        rx += re.escape(p) if i % 2 == 0 else "(?P<%s>[^;{}]+?)" % p
    m = re.fullmatch(rx, src)
    if not m:
        # find the longest literal prefix that still matches, to say where the skeleton departs
        good = 0
        for cut in range(1, len(parts) + 1, 2):
            pre = ""
            for i, p in enumerate(parts[:cut]):
                pre += re.escape(p) if i % 2 == 0 else "[^;{}]+?"
            if re.match(pre, src):
                good = cut
        die("%s: control skeleton not recognised after piece %d of %d: ...%s" % (where, good, len(parts), parts[good - 1][-60:] if good else ""))
    return m.groupdict()


T_REG1 = """{uIndexreturn_val; if(is_recording()){ <count>; if(gap_list_.empty()){ <top>; if(<maxc>){max_gradient_=<maxv>;} return_val=<topret>; }
 else{ Gap&first_gap=gap_list_.front(); return_val=<gapret>; <shrink>; if(<closed>){ if(most_recent_gap_==gap_list_.begin()){most_recent_gap_=gap_list_.end();}
 gap_list_.pop_front(); } } } else{return_val=0;} returnreturn_val; }"""

T_REGN = """{ <count>; if(!gap_list_.empty()){ uIndexreturn_val; for(GapListIteratorit=gap_list_.begin();it!=gap_list_.end();it++){ uIndexlen=<len>;
 if(<c1>){ return_val=<r1>; <shrink>; returnreturn_val; }
 elseif(<c2>){ return_val=<r2>; if(most_recent_gap_==it){gap_list_.erase(it);most_recent_gap_=gap_list_.end();} else{gap_list_.erase(it);} returnreturn_val; } } }
 <top>; if(<maxc>){max_gradient_=<maxv>;} return<topret>; }"""

T_UNREG1 = """{ <count>; if(<attop>){ <pop>; if(!gap_list_.empty()){ Gap&last_gap=gap_list_.back(); if(<reach>){ i_gradient_=<fall>;
 GapListIteratorit=gap_list_.end(); it--; if(most_recent_gap_==it){most_recent_gap_=gap_list_.end();} gap_list_.pop_back(); } } }
 else{ unregister_gradient_not_top(gradient_index); } }"""

T_UNREGN_HEAD = """{ <count>; if(<attop>){ <pop>; if(!gap_list_.empty()){ Gap&last_gap=gap_list_.back(); if(<reach>){ i_gradient_=<fall>;
 GapListIteratorit=gap_list_.end(); it--; if(most_recent_gap_==it){most_recent_gap_=gap_list_.end();} gap_list_.pop_back(); } } }
 else{"""


def tail_template(gap_ins, gap_push):
    return """enum{ADDED_AT_BASE,ADDED_AT_TOP,NEW_GAP,NOT_FOUND}status=NOT_FOUND;
 if(!gap_list_.empty()&&most_recent_gap_!=gap_list_.end()){ Gap&current_gap=*most_recent_gap_;
  if(<cb_c>){<cb_u>;status=ADDED_AT_BASE;} elseif(<ct_c>){<ct_u>;status=ADDED_AT_TOP;} }
 if(status==NOT_FOUND){ for(GapListIteratorit=gap_list_.begin();it!=gap_list_.end();it++){ if(<s_le>){
   if(<sb_c>){status=ADDED_AT_BASE;<sb_u>;most_recent_gap_=it;}
   elseif(<st_c>){status=ADDED_AT_TOP;<st_u>;most_recent_gap_=it;}
   else{most_recent_gap_=gap_list_.insert(it,%s);status=NEW_GAP;} break; } }
  if(status==NOT_FOUND){gap_list_.push_back(%s);most_recent_gap_=gap_list_.end();most_recent_gap_--;} }
 if(status==ADDED_AT_BASE&&most_recent_gap_!=gap_list_.begin()){ GapListIteratorit=most_recent_gap_;it--;
  if(<mb_c>){<mb_u>;gap_list_.erase(it);} }
 elseif(status==ADDED_AT_TOP){ GapListIteratorit=most_recent_gap_;it++;
  if(it!=gap_list_.end()&&<mt_c>){<mt_u>;gap_list_.erase(it);} }""" % (gap_ins, gap_push)


T_TAIL_N = "{" + tail_template("Gap(<ng_a>,<ng_b>)", "Gap(<pg_a>,<pg_b>)") + "}"
T_TAIL_1 = "{" + tail_template("Gap(<ng_a>)", "Gap(<pg_a>)") + "}"


def main():
    h = S.strip(open(os.path.join(REPO, "include/adept/Stack.h")).read())
    c = S.strip(open(os.path.join(REPO, "adept/Stack.cpp")).read())
    out = ["(* GENERATED by tools/gen_gaplist.py from include/adept/Stack.h and adept/Stack.cpp -- do not edit *)",
           "From Coq Require Import ZArith Bool.", "Local Open Scope Z_scope.", ""]

    def emit(name, args, ty, e):
        out.append("Definition %s %s : %s := %s." % (name, " ".join("(%s : Z)" % a for a in args), ty, e))

    # ---- register_gradient()
    w = "register_gradient"
    g = match(T_REG1, body(h, r"uIndex\s+register_gradient\s*\(\s*\)\s*\{", w), w)
    env = {"n_gradients_registered_": "nreg", "i_gradient_": "ig", "max_gradient_": "mg"}
    emit("r1_count", ["nreg"], "Z", update(g["count"], "n_gradients_registered_", env, w))
    emit("r1_top", ["ig"], "Z", update(g["top"], "i_gradient_", env, w))
    # from here i_gradient_ is the updated value
    emit("r1_max_cond", ["ig", "mg"], "bool", cond(g["maxc"], env, w))
    emit("r1_max_val", ["ig", "mg"], "Z", arith(g["maxv"], env, w))
    emit("r1_top_ret", ["ig"], "Z", arith(g["topret"], env, w))
    genv = {"first_gap.start": "a", "first_gap.end": "b"}
    emit("r1_gap_ret", ["a", "b"], "Z", arith(g["gapret"], genv, w))
    emit("r1_shrink", ["a", "b"], "Z", update(g["shrink"], "first_gap.start", genv, w))
    emit("r1_closed", ["a", "b"], "bool", cond(g["closed"], genv, w))
    out.append("")

    # ---- do_register_gradients(n)
    w = "do_register_gradients"
    g = match(T_REGN, body(c, r"Stack::do_register_gradients\s*\(\s*const\s+uIndex\s*&\s*n\s*\)\s*\{", w), w)
    env = {"n_gradients_registered_": "nreg", "i_gradient_": "ig", "max_gradient_": "mg", "n": "n"}
    emit("rn_count", ["nreg", "n"], "Z", update(g["count"], "n_gradients_registered_", env, w))
    genv = {"it->start": "a", "it->end": "b", "n": "n", "len": "len"}
    emit("rn_len", ["a", "b"], "Z", arith(g["len"], {"it->start": "a", "it->end": "b"}, w))
    emit("rn_shrink_cond", ["len", "n"], "bool", cond(g["c1"], {"len": "len", "n": "n"}, w))
    emit("rn_shrink_ret", ["a", "b", "n"], "Z", arith(g["r1"], genv, w))
    emit("rn_shrink", ["a", "b", "n"], "Z", update(g["shrink"], "it->start", genv, w))
    emit("rn_fill_cond", ["len", "n"], "bool", cond(g["c2"], {"len": "len", "n": "n"}, w))
    emit("rn_fill_ret", ["a", "b", "n"], "Z", arith(g["r2"], genv, w))
    emit("rn_top", ["ig", "n"], "Z", update(g["top"], "i_gradient_", env, w))
    emit("rn_max_cond", ["ig", "mg"], "bool", cond(g["maxc"], env, w))
    emit("rn_max_val", ["ig", "mg"], "Z", arith(g["maxv"], env, w))
    emit("rn_top_ret", ["ig", "n"], "Z", arith(g["topret"], env, w))
    out.append("")

    # ---- unregister_gradient(idx): the top-of-stack branch
    def unreg(prefix, g, nname, w):
        env = {"n_gradients_registered_": "nreg", "i_gradient_": "ig", "gradient_index": "idx", "last_gap.start": "a", "last_gap.end": "b"}
        args = []
        if nname:
            env["n"] = "n"; args = ["n"]
        emit(prefix + "_count", ["nreg"] + args, "Z", update(g["count"], "n_gradients_registered_", env, w))
        emit(prefix + "_at_top", ["idx", "ig"] + args, "bool", cond(g["attop"], env, w))
        emit(prefix + "_pop", ["ig"] + args, "Z", update(g["pop"], "i_gradient_", env, w))
        emit(prefix + "_reach", ["ig", "a", "b"], "bool", cond(g["reach"], env, w))
        emit(prefix + "_fall", ["ig", "a", "b"], "Z", arith(g["fall"], env, w))
        out.append("")

    w = "unregister_gradient"
    unreg("u1", match(T_UNREG1, body(h, r"void\s+unregister_gradient\s*\(\s*const\s+uIndex\s*&\s*gradient_index\s*\)\s*\{", w), w), None, w)
    w = "unregister_gradients"
    b = body(c, r"Stack::unregister_gradients\s*\(\s*const\s+uIndex\s*&\s*gradient_index\s*,\s*const\s+uIndex\s*&\s*n\s*\)\s*\{", w)
    k = b.find("else{enum{")
    if k < 0:
        die("unregister_gradients: the not-at-top branch does not start with the status enum")
    unreg("un", match(T_UNREGN_HEAD, b[:k + len("else{")], w), "n", w)

    # ---- the not-at-top path: unregister_gradient_not_top(idx) and the else branch of unregister_gradients(idx,n)
    def tail(prefix, g, withn, w):
        extra = ["n"] if withn else []
        base = {"gradient_index": "idx"}
        if withn:
            base["n"] = "n"
        cur = dict(base); cur.update({"current_gap.start": "a", "current_gap.end": "b"})
        it = dict(base); it.update({"it->start": "a", "it->end": "b"})
        mb = {"it->start": "pa", "it->end": "pb", "most_recent_gap_->start": "a", "most_recent_gap_->end": "b"}
        emit(prefix + "_cb_c", ["idx", "a", "b"] + extra, "bool", cond(g["cb_c"], cur, w))
        emit(prefix + "_cb_u", ["a", "b"] + extra, "Z", update(g["cb_u"], "current_gap.start", cur, w))
        emit(prefix + "_ct_c", ["idx", "a", "b"] + extra, "bool", cond(g["ct_c"], cur, w))
        emit(prefix + "_ct_u", ["a", "b"] + extra, "Z", update(g["ct_u"], "current_gap.end", cur, w))
        emit(prefix + "_s_le", ["idx", "a", "b"] + extra, "bool", cond(g["s_le"], it, w))
        emit(prefix + "_sb_c", ["idx", "a", "b"] + extra, "bool", cond(g["sb_c"], it, w))
        emit(prefix + "_sb_u", ["a", "b"] + extra, "Z", update(g["sb_u"], "it->start", it, w))
        emit(prefix + "_st_c", ["idx", "a", "b"] + extra, "bool", cond(g["st_c"], it, w))
        emit(prefix + "_st_u", ["a", "b"] + extra, "Z", update(g["st_u"], "it->end", it, w))
        emit(prefix + "_ng_a", ["idx"] + extra, "Z", arith(g["ng_a"], base, w))
        emit(prefix + "_ng_b", ["idx"] + extra, "Z", arith(g.get("ng_b", g["ng_a"]), base, w))
        emit(prefix + "_pg_a", ["idx"] + extra, "Z", arith(g["pg_a"], base, w))
        emit(prefix + "_pg_b", ["idx"] + extra, "Z", arith(g.get("pg_b", g["pg_a"]), base, w))
        emit(prefix + "_mb_c", ["pa", "pb", "a", "b"], "bool", cond(g["mb_c"], mb, w))
        emit(prefix + "_mb_u", ["pa", "pb", "a", "b"], "Z", update(g["mb_u"], "most_recent_gap_->start", mb, w))
        emit(prefix + "_mt_c", ["pa", "pb", "a", "b"], "bool", cond(g["mt_c"], mb, w))
        emit(prefix + "_mt_u", ["pa", "pb", "a", "b"], "Z", update(g["mt_u"], "most_recent_gap_->end", mb, w))
        out.append("")

    # Gap(value) is the one-element gap [value, value]
    if not re.search(r"Gap\s*\(\s*uIndex\s+value\s*\)\s*:\s*start\s*\(\s*value\s*\)\s*,\s*end\s*\(\s*value\s*\)", h) or \
       not re.search(r"Gap\s*\(\s*uIndex\s+start_\s*,\s*uIndex\s+end_\s*\)\s*:\s*start\s*\(\s*start_\s*\)\s*,\s*end\s*\(\s*end_\s*\)", h):
        die("struct Gap: constructors not of the form Gap(value) : start(value), end(value) / Gap(start_, end_) : start(start_), end(end_)")
    w = "unregister_gradient_not_top"
    tail("x1", match(T_TAIL_1, body(c, r"Stack::unregister_gradient_not_top\s*\(\s*const\s+uIndex\s*&\s*gradient_index\s*\)\s*\{", w), w), False, w)
    w = "unregister_gradients (not at top)"
    tail("xn", match(T_TAIL_N, "{" + b[k + len("else{"):-1], w), True, w)
    sys.stdout.write("\n".join(out))


main()
