#!/usr/bin/env python3
"""translator (C18): what the bounded minimizers do to the state vectors they pass to the user's call-backs.
Reads adept/line_search.cpp and adept/minimize_{conjugate_gradient,limited_memory_bfgs,levenberg_marquardt}.cpp and
writes Gen_Minim.v: for each bounded driver and for line_search / line_search_gradient_check the list of ATOMS, in
textual order, that touch the tracked vectors x, new_x, test_x:
   AUpdClamp v   an arithmetic update of v immediately followed by  v = max(min_x, min(v, max_x))
   AUpdate v     an arithmetic update of v NOT immediately followed by that clamp
   AClamp v      the clamp alone            ACopy v w   v = w
   ASnap v       v(i) = (c ? max_x(i) : min_x(i))   (same index expression on both sides)
   ACall v       a call-back of the user (calc_cost_function*, report_progress) with state v
   AInvoke b     a call of line_search / line_search_gradient_check; b = the bounds are passed on
   AInvokeFree   the call of line_search without bounds in the branch where no component of the direction points to a
                 finite bound (guard i_nearest_bound >= 0 is false)
Strict: a statement that mentions a tracked vector in a way not listed above is an error."""
import sys, os, re

REPO = sys.argv[1] if len(sys.argv) > 1 else "/repo"
TRACKED = ("x", "new_x", "test_x")
VN = {"x": "Vx", "new_x": "Vnew", "test_x": "Vtest"}


def die(msg):
    sys.stderr.write("gen_minim: " + msg + "\n")
    sys.exit(2)


def strip(text):
    text = re.sub(r"/\*.*?\*/", " ", text, flags=re.S)
    text = re.sub(r"//[^\n]*", "", text)
    text = re.sub(r'"(?:\\.|[^"\\])*"', '""', text)
    return text


def body_of(text, name):
    m = re.search(r"Minimizer::%s\s*\(" % name, text)
    if not m:
        die("function %s not found" % name)
    i = text.index("{", text.index(")", m.end()))
    # the parameter list may contain parentheses (default arguments do not, in the .cpp); find the body's opening brace
    depth, j = 0, m.end() - 1
    while True:
        if text[j] == "(":
            depth += 1
        elif text[j] == ")":
            depth -= 1
            if depth == 0:
                break
        j += 1
    i = text.index("{", j)
    depth, k = 0, i
    while True:
        if text[k] == "{":
            depth += 1
        elif text[k] == "}":
            depth -= 1
            if depth == 0:
                break
        k += 1
    return text[i + 1:k]


def skip_parens(s, i):
    depth = 0
    while i < len(s):
        if s[i] == "(":
            depth += 1
        elif s[i] == ")":
            depth -= 1
            if depth == 0:
                return i + 1
        i += 1
    die("unbalanced parentheses")


def statements(body):
    """flat list of (statement text, under 'if (min_x)') in textual order"""
    # for-headers contain ';'
    out, i = [], 0
    body = " ".join(body.split())
    # remove for (...) headers
    while True:
        m = re.search(r"\bfor\s*\(", body)
        if not m:
            break
        body = body[:m.start()] + " " + body[skip_parens(body, m.end() - 1):]
    pieces = re.split(r"[;{}]", body)
    for p in pieces:
        p = p.strip()
        minx = False
        while True:
            m = re.match(r"(else\b|do\b)\s*", p)
            if m:
                p = p[m.end():]
                continue
            m = re.match(r"(if|while)\s*\(", p)
            if m:
                e = skip_parens(p, m.end() - 1)
                cond = p[m.end():e - 1].strip()
                if m.group(1) == "if" and cond == "min_x":
                    minx = True
                p = p[e:].strip()
                continue
            break
        if p:
            out.append((p, minx))
    return out


CLAMP = r"(\w+)\s*=\s*max\(\s*\*?min_x\s*,\s*min\(\s*(\w+)\s*,\s*\*?max_x\s*\)\s*\)"


def classify(stmts, fname, bounds_are_pointers):
    atoms = []
    decls = {}
    k = 0
    n = len(stmts)
    while k < n:
        s, minx = stmts[k]
        k += 1
        m = re.match(r"Real\s+(\w+)\s*=\s*(.*)", s)
        if m:
            decls[m.group(1)] = m.group(2).strip()      # the nearest preceding declaration is the one in scope
        # call-backs
        m = re.search(r"optimizable\.(calc_cost_function\w*|report_progress)\s*\(([^)]*)\)", s)
        if m:
            args = [a.strip() for a in m.group(2).split(",")]
            v = args[1] if m.group(1) == "report_progress" else args[0]
            if v not in TRACKED:
                die("%s: call-back %s is given '%s', not a tracked vector" % (fname, m.group(1), v))
            atoms.append("ACall %s" % VN[v])
            continue
        m = re.search(r"\b(line_search_gradient_check|line_search)\s*\((.*)\)\s*$", s)
        if m and not s.startswith("Minimizer::"):
            args = [a.strip() for a in m.group(2).split(",")]
            if len(args) < 4 or args[1] != "x" or args[3] != "test_x":
                die("%s: %s is not called with (optimizable, x, direction, test_x, ...): %s" % (fname, m.group(1), s))
            if bounds_are_pointers:
                bounded = "min_x" in args and "max_x" in args
            else:
                bounded = "&min_x" in args and "&max_x" in args
            atoms.append("AInvoke %s" % ("true" if bounded else "false"))
            continue
        # writes
        if not re.match(r"(%s)\b" % "|".join(TRACKED), s):
            # a tracked vector may be read anywhere; it must not be written in a form we do not know
            if re.search(r"\b(%s)\s*\.\s*(where|resize|clear|link)\b" % "|".join(TRACKED), s) or re.search(r"&\s*(%s)\b" % "|".join(TRACKED), s) \
               or re.search(r"\b(%s)\s*(>>=|<<)" % "|".join(TRACKED), s):
                die("%s: unrecognised use of a state vector: %s" % (fname, s))
            continue
        m = re.fullmatch(CLAMP, s)
        if m and m.group(1) == m.group(2) and m.group(1) in TRACKED:
            if minx and not bounds_are_pointers:
                die("%s: clamp under 'if (min_x)' outside the line search: %s" % (fname, s))
            atoms.append("AClamp %s" % VN[m.group(1)])
            continue
        m = re.fullmatch(r"(\w+)\s*=\s*(\w+)", s)
        if m and m.group(1) in TRACKED:
            if m.group(2) not in TRACKED:
                die("%s: %s assigned from '%s'" % (fname, m.group(1), m.group(2)))
            atoms.append("ACopy %s %s" % (VN[m.group(1)], VN[m.group(2)]))
            continue
        m = re.fullmatch(r"(\w+)\((.+?)\)\s*=\s*(.+)", s)
        if m and m.group(1) in TRACKED and not re.match(r"\s*=", m.group(3)):
            idx, rhs = m.group(2).strip(), m.group(3).strip()
            rhs = decls.get(rhs, rhs)
            t = re.fullmatch(r"(.+?)\?\s*max_x\((.+)\)\s*:\s*min_x\((.+)\)", rhs)
            if t and t.group(2).strip() == idx and t.group(3).strip() == idx:
                atoms.append("ASnap %s" % VN[m.group(1)])
                continue
            die("%s: element of %s assigned something other than its own bound: %s" % (fname, m.group(1), s))
        m = re.match(r"(\w+)\s*(\([^=]*\))?\s*(\+=|-=|\*=|/=|=)\s*(.+)", s)
        if m and m.group(1) in TRACKED:
            v = m.group(1)
            # immediately followed by the clamp of the same vector?
            if k < n:
                s2, minx2 = stmts[k]
                m2 = re.fullmatch(CLAMP, s2)
                if m2 and m2.group(1) == v and m2.group(2) == v and (not minx2 or bounds_are_pointers):
                    atoms.append("AUpdClamp %s" % VN[v])
                    k += 1
                    continue
            atoms.append("AUpdate %s" % VN[v])
            continue
        die("%s: cannot classify: %s" % (fname, s))
    return atoms


def entry_ok(atoms):
    """the first atom that touches x is its clamp, before any call-back"""
    for a in atoms:
        if a == "AClamp Vx":
            return True
        if a.startswith("ACall") or a.endswith("Vx") or a.startswith("AInvoke"):
            return False
    return False


def free_branch(body, fname):
    """the call of line_search without bounds is the else-branch of 'if (i_nearest_bound >= 0)', whose then-branch passes them"""
    b = " ".join(body.split())
    m = re.search(r"if \(i_nearest_bound >= 0\) \{(.*?)\} else \{(.*?)\}", b)
    if not m or "&min_x" not in m.group(1) or "line_search(" not in m.group(2) or "&min_x" in m.group(2):
        die("%s: the unbounded call of line_search is not the else-branch of 'if (i_nearest_bound >= 0)'" % fname)


def main():
    out = ["(* GENERATED by tools/gen_minim.py from adept/line_search.cpp and adept/minimize_*.cpp -- do not edit *)",
           "From Coq Require Import List.", "From Adept Require Import MinimFlow.", "Import ListNotations.", ""]
    files = {"line_search": "line_search.cpp", "line_search_gradient_check": "line_search.cpp",
             "minimize_conjugate_gradient_bounded": "minimize_conjugate_gradient.cpp",
             "minimize_limited_memory_bfgs_bounded": "minimize_limited_memory_bfgs.cpp",
             "minimize_levenberg_marquardt_bounded": "minimize_levenberg_marquardt.cpp"}
    res = {}
    for fn, f in files.items():
        text = strip(open(os.path.join(REPO, "adept", f)).read())
        body = body_of(text, fn)
        atoms = classify(statements(body), fn, bounds_are_pointers=fn.startswith("line_search"))
        if fn.endswith("_bounded"):
            n_free = atoms.count("AInvoke false")
            if n_free:
                if n_free != 1:
                    die("%s: %d calls of line_search without bounds" % (fn, n_free))
                free_branch(body, fn)
                atoms = ["AInvokeFree" if a == "AInvoke false" else a for a in atoms]
            out.append("Definition %s_entry_ok : bool := %s." % (fn, "true" if entry_ok(atoms) else "false"))
        res[fn] = atoms
        out.append("Definition %s_atoms : list atom := [%s]." % (fn, "; ".join(atoms)))
    sys.stdout.write("\n".join(out) + "\n")


if __name__ == "__main__":
    main()
