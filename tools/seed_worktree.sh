#!/bin/sh
# tools/seed_worktree.sh NAME : scratch git worktree of /repo at /tmp/sw/NAME with the (untracked)
# autotools build files copied in, so that `make -j16 && make -j16 check` works there.
# tools/seed_worktree.sh --rm NAME removes it.
set -e
if [ "$1" = "--rm" ]; then git -C /repo worktree remove --force /tmp/sw/$2 2>/dev/null || rm -rf /tmp/sw/$2; git -C /repo worktree prune; exit 0; fi
mkdir -p /tmp/sw
git -C /repo worktree add --detach /tmp/sw/$1 HEAD >/dev/null 2>&1
rsync -a --exclude .git --exclude '*.o' --exclude '*.lo' --exclude '*.la' --exclude '.libs' --exclude '*.a' --exclude 'test/test_*[a-z]' --ignore-existing /repo/ /tmp/sw/$1/
find /tmp/sw/$1/test /tmp/sw/$1/benchmark -maxdepth 1 -type f -perm -u+x ! -name '*.sh' -delete
echo /tmp/sw/$1
