#!/usr/bin/env python3
"""translator (C20): reads InterpHelper::interp_get_indices_weights of include/adept/interp.h (the index / weight /
validity computation behind interp2d and interp3d) and writes Gen_Interp.v: the ordering test, and for either ordering the
in-range test, the search loop, the in-range weight, the test for the low-index side and, for both sides, the index, the
linear-extrapolation weight and the clamp weight, as expression trees.  Strict: any other statement is an error."""
import sys, os, re
sys.path.insert(0, os.path.dirname(os.path.abspath(__file__)))
import cppscan as S

REPO = sys.argv[1] if len(sys.argv) > 1 else "/repo"


def die(msg):
    sys.stderr.write("gen_interp: " + msg + "\n")
    sys.exit(2)


TOK = re.compile(r"\s*(\d+\.\d+|\d+|[A-Za-z_][A-Za-z0-9_]*|\+\+|--|&&|==|<=|>=|[-+*/<>=(){};.,])")


def toks(s):
    out, pos = [], 0
    s = s.strip()
    while pos < len(s):
        m = TOK.match(s, pos)
        if not m:
            die("cannot tokenise '%s'" % s[pos:pos + 40])
        out.append(m.group(1)); pos = m.end()
    return out


class P:
    def __init__(self, t):
        self.t, self.k = t, 0

    def peek(self, o=0):
        return self.t[self.k + o] if self.k + o < len(self.t) else None

    def eat(self, *xs):
        for x in xs:
            y = self.peek()
            if y != x:
                die("expected '%s', found '%s' near '%s'" % (x, y, " ".join(self.t[max(0, self.k - 8):self.k + 8])))
            self.k += 1

    def kexpr(self):
        x = self.peek()
        if re.fullmatch(r"\d+", x or ""):
            self.k += 1
            return "(KLit %s)" % x
        if x == "jj":
            self.k += 1
            if self.peek() == "+":
                self.eat("+", "1")
                return "KJ1"
            return "KJ"
        if x == "end":
            self.k += 1
            if self.peek() == "-":
                self.eat("-", "1")
                return "KEndM1"
            return "KEnd"
        die("unknown knot index starting with '%s'" % x)

    def operand(self):
        x = self.peek()
        if x == "xii":
            self.k += 1
            return "WQ"
        if x == "x":
            self.eat("x", "("); k = self.kexpr(); self.eat(")")
            return "(WX %s)" % k
        if x == "(":
            self.eat("("); e = self.expr(); self.eat(")")
            return e
        die("unknown operand '%s'" % x)

    def expr(self):
        a = self.term()
        while self.peek() == "-":
            self.eat("-"); b = self.term(); a = "(WSub %s %s)" % (a, b)
        return a

    def term(self):
        a = self.operand()
        while self.peek() == "/":
            self.eat("/"); b = self.operand(); a = "(WDiv %s %s)" % (a, b)
        return a

    def cmp(self):
        a = self.operand()
        o = self.peek()
        if o not in ("<", ">", "<=", ">="):
            die("comparison expected, found '%s'" % o)
        self.k += 1
        b = self.operand()
        return "(mkCmp %s %s %s)" % ({"<": "RLt", ">": "RGt", "<=": "RLe", ">=": "RGe"}[o], a, b)

    def index_expr(self):
        if self.peek() == "x":
            self.eat("x", ".", "size", "(", ")", "-", "2")
            return "ISizeM2"
        x = self.peek()
        if re.fullmatch(r"\d+", x or ""):
            self.k += 1
            return "(ILit %s)" % x
        die("unknown index expression '%s'" % x)

    def side(self):
        self.eat("ind0", "(", "i", ")", "="); ie = self.index_expr(); self.eat(";")
        self.eat("if", "(", "extrap_policy", "==", "ADEPT_EXTRAPOLATE_LINEAR", ")", "{", "weight0", "(", "i", ")", "="); w = self.expr(); self.eat(";", "}")
        self.eat("else", "if", "(", "extrap_policy", "==", "ADEPT_EXTRAPOLATE_CLAMP", ")", "{", "weight0", "(", "i", ")", "=")
        lit = self.peek(); self.k += 1
        if lit not in ("1.0", "0.0"):
            die("clamp weight '%s'" % lit)
        self.eat(";", "}", "else", "{", "is_valid", "(", "i", ")", "=", "false", ";", "}")
        return "(mkSide %s %s %s)" % (ie, w, "true" if lit == "1.0" else "false")

    def search(self):
        if self.peek(3) == "0":
            self.eat("Index", "jj", "=", "0", ";", "while", "(", "jj", "<", "x", ".", "size", "(", ")", "-", "2", "&&", "x", "(", "jj", "+", "1", ")", "<", "xii", ")", "{", "++", "jj", ";", "}")
            return "SearchUp"
        self.eat("Index", "jj", "=", "x", ".", "size", "(", ")", "-", "2", ";", "while", "(", "jj", ">", "0", "&&", "x", "(", "jj", ")", "<", "xii", ")", "{", "--", "jj", ";", "}")
        return "SearchDown"

    def branch(self):
        self.eat("for", "(", "Index", "i", "=", "0", ";", "i", "<", "xi", ".", "size", "(", ")", ";", "++", "i", ")", "{")
        self.eat("const", "XiType", "xii", "=", "xi", "(", "i", ")", ";")
        self.eat("if", "("); c1 = self.cmp(); self.eat("&&"); c2 = self.cmp(); self.eat(")", "{")
        sr = self.search()
        self.eat("ind0", "(", "i", ")", "=", "jj", ";", "weight0", "(", "i", ")", "="); w = self.expr(); self.eat(";", "}")
        self.eat("else", "if", "("); c3 = self.cmp(); self.eat(")", "{"); low = self.side(); self.eat("}")
        self.eat("else", "{"); high = self.side(); self.eat("}")
        self.eat("}")
        return "(mkBranch %s %s %s %s %s %s %s)" % (c1, c2, sr, w, c3, low, high)


def main():
    t = S.strip(open(os.path.join(REPO, "include/adept/interp.h")).read())
    bl = S.blocks(t)
    m = re.search(r"static\s+void\s+interp_get_indices_weights\s*\(", t)
    if not m:
        die("interp_get_indices_weights not found")
    o = t.index("{", m.end())
    body = None
    for (o2, c2, h) in bl:
        if o2 == o:
            body = t[o + 1:c2]
    if body is None:
        die("body not found")
    p = P(toks(body))
    p.eat("if", "("); order = p.cmp(); p.eat(")", "{"); inc = p.branch(); p.eat("}", "else", "{"); dec = p.branch(); p.eat("}")
    p.eat("if", "(", "interp_scheme", "==", "ADEPT_INTERPOLATE_NEAREST", ")", "{", "weight0", "=", "round", "(", "weight0", ")", ";", "}")
    if p.peek() is not None:
        die("trailing statements after the rounding step")
    out = ["(* GENERATED by tools/gen_interp.py from include/adept/interp.h -- do not edit *)",
           "From Coq Require Import ZArith.", "From Adept Require Import InterpDefs.", "",
           "Definition iw_table : iw_fun := mkIw %s\n  %s\n  %s." % (order, inc, dec)]
    sys.stdout.write("\n".join(out) + "\n")


main()
