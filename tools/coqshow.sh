#!/bin/sh
# usage: coqshow.sh file.v LINE  -- replace LINE by "Show. admit." (debug only, scratch copy under $TMPDIR)
f=$1; n=$2; d=$(mktemp -d); b=$(basename $f)
sed "${n}s/.*/  Show. admit./" $f > $d/$b
cd /verif/coq && timeout 120 coqc -Q theories Adept -Q generated AdeptGen $d/$b 2>&1 | head -${3:-60}
rm -rf $d
