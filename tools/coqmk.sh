#!/bin/sh
# build everything (or targets) and print only errors
cd /verif && python3 -c "
import sys; sys.path.insert(0,'/verif')
from vlib import common as c
import os
c.regen([f[4:-3] for f in sorted(os.listdir('/verif/tools')) if f.startswith('gen_') and f.endswith('.py')])
ok,log=c.coq_make(sys.argv[1:] or None)
import re
print('OK' if ok else 'FAIL')
if not ok:
    i=log.find('File \"')
    print(log[i:i+2500] if i>=0 else log[-2500:])
" "$@"
