#!/usr/bin/env python3
"""translator (C17): reads the engine policy structs of include/adept/SpecialMatrix.h and writes
Gen_Engines.v: for each of the ten engines the integer functions pack_offset, index, row_offset,
get_row_range, data_size, upper_offset, lower_offset, set_extras, the value_at_location guard and the
transpose engine, as Coq expressions over Z.  Strict grammar: anything unexpected is an error."""
import sys, os, re
sys.path.insert(0, os.path.dirname(os.path.abspath(__file__)))
import cppscan as S

REPO = sys.argv[1] if len(sys.argv) > 1 else "/repo"


def die(msg):
    sys.stderr.write("gen_engines: " + msg + "\n")
    sys.exit(2)


# ---------------------------------------------------------------- C expression -> Coq
TOK = re.compile(r"\s*(loc\[MyArrayNum(?:\+\d)?\]|index\[MyArrayNum\+\d\]|[A-Za-z_][A-Za-z0-9_]*|\d+|<=|>=|==|!=|&&|\|\||[-+*/()<>?:])")
IDENT = {"i": "i", "j": "j", "dim": "dim", "offset": "off", "offdiag": "k", "LDiags": "L", "UDiags": "U",
         "diagonals": "(1 + L + U)", "loc[MyArrayNum]": "loc", "loc[MyArrayNum+1]": "e1", "loc[MyArrayNum+2]": "e2",
         "index[MyArrayNum+1]": "e1", "index[MyArrayNum+2]": "e2"}


class P:
    def __init__(self, text, where, env=None):
        self.where = where
        self.env = env or {}
        self.toks = []
        pos = 0
        text = text.strip()
        while pos < len(text):
            m = TOK.match(text, pos)
            if not m:
                die("%s: cannot tokenise '%s' at '%s'" % (where, text, text[pos:pos + 20]))
            self.toks.append(m.group(1))
            pos = m.end()
        self.k = 0

    def peek(self):
        return self.toks[self.k] if self.k < len(self.toks) else None

    def eat(self, t=None):
        x = self.peek()
        if x is None or (t is not None and x != t):
            die("%s: expected %s, found %s in %s" % (self.where, t, x, self.toks))
        self.k += 1
        return x

    # each returns (coq_text, is_bool)
    def ternary(self):
        c, cb = self.lor()
        if self.peek() == "?":
            self.eat("?")
            a, ab = self.ternary()
            self.eat(":")
            b, bb = self.ternary()
            if not cb:
                die("%s: condition of ?: is not boolean" % self.where)
            return "(if %s then %s else %s)" % (c, a, b), ab
        return c, cb

    def lor(self):
        a, ab = self.land()
        while self.peek() == "||":
            self.eat()
            b, _ = self.land()
            a, ab = "(%s || %s)%%bool" % (a, b), True
        return a, ab

    def land(self):
        a, ab = self.cmp()
        while self.peek() == "&&":
            self.eat()
            b, _ = self.cmp()
            a, ab = "(%s && %s)%%bool" % (a, b), True
        return a, ab

    def cmp(self):
        a, ab = self.add()
        op = self.peek()
        if op in ("<", "<=", ">", ">=", "==", "!="):
            self.eat()
            b, _ = self.add()
            m = {"<": "(%s <? %s)", "<=": "(%s <=? %s)", ">": "(%s >? %s)", ">=": "(%s >=? %s)", "==": "(%s =? %s)", "!=": "(negb (%s =? %s))"}[op]
            return m % (a, b), True
        return a, ab

    def add(self):
        a, ab = self.mul()
        while self.peek() in ("+", "-"):
            op = self.eat()
            b, _ = self.mul()
            a = "(%s %s %s)" % (a, op, b)
        return a, ab

    def mul(self):
        a, ab = self.unary()
        while self.peek() == "*":
            self.eat()
            b, _ = self.unary()
            a = "(%s * %s)" % (a, b)
        return a, ab

    def unary(self):
        if self.peek() == "-":
            self.eat()
            a, _ = self.unary()
            return "(- %s)" % a, False
        return self.primary()

    def primary(self):
        t = self.eat()
        if t == "(":
            a, ab = self.ternary()
            self.eat(")")
            return a, ab
        if t.isdigit():
            return t, False
        if t in self.env:
            return self.env[t], False
        if t in IDENT:
            return IDENT[t], False
        die("%s: unknown identifier '%s'" % (self.where, t))


def expr(text, where, want_bool=False, env=None):
    p = P(text, where, env)
    a, ab = p.ternary()
    if p.peek() is not None:
        die("%s: trailing tokens in '%s'" % (where, text))
    if want_bool != ab:
        die("%s: expected %s expression: '%s'" % (where, "boolean" if want_bool else "integer", text))
    return a


# ---------------------------------------------------------------- locate the structs
ENGINES = ["SqR", "SqC", "BandR", "BandC", "SymLo", "SymUp", "LowR", "LowC", "UpR", "UpC"]
HEADERS = [  # (regex on the struct header, key)
    (r"struct SquareEngine\s*$", "SquareEngine<ROW>"),
    (r"struct SquareEngine<COL_MAJOR>\s*:\s*public SquareEngine<ROW_MAJOR>\s*$", "SquareEngine<COL>"),
    (r"struct BandEngine\s*$", "BandEngine<ROW>"),
    (r"struct BandEngine<COL_MAJOR,\s*LDiags,\s*UDiags>\s*:\s*public BandEngine<ROW_MAJOR,\s*LDiags,\s*UDiags>\s*$", "BandEngine<COL>"),
    (r"struct SymmEngine\s*:\s*public SquareEngine<ROW_MAJOR>\s*$", "SymmEngine<LO>"),
    (r"struct SymmEngine<ROW_UPPER_COL_LOWER>\s*:\s*public SquareEngine<ROW_MAJOR>\s*$", "SymmEngine<UP>"),
    (r"struct LowerBase\s*:\s*public SquareEngine<Order>\s*$", "LowerBase"),
    (r"struct UpperBase\s*:\s*public SquareEngine<Order>\s*$", "UpperBase"),
    (r"struct LowerEngine\s*:\s*public LowerBase<ROW_MAJOR>\s*$", "LowerEngine<ROW>"),
    (r"struct LowerEngine<COL_MAJOR>\s*:\s*public LowerBase<COL_MAJOR>\s*$", "LowerEngine<COL>"),
    (r"struct UpperEngine\s*:\s*public UpperBase<ROW_MAJOR>\s*$", "UpperEngine<ROW>"),
    (r"struct UpperEngine<COL_MAJOR>\s*:\s*public UpperBase<COL_MAJOR>\s*$", "UpperEngine<COL>"),
]
CHAIN = {  # resolution order (struct first, then bases)
    "SqR": ["SquareEngine<ROW>"], "SqC": ["SquareEngine<COL>", "SquareEngine<ROW>"],
    "BandR": ["BandEngine<ROW>"], "BandC": ["BandEngine<COL>", "BandEngine<ROW>"],
    "SymLo": ["SymmEngine<LO>", "SquareEngine<ROW>"], "SymUp": ["SymmEngine<UP>", "SquareEngine<ROW>"],
    "LowR": ["LowerEngine<ROW>", "LowerBase", "SquareEngine<ROW>"], "LowC": ["LowerEngine<COL>", "LowerBase", "SquareEngine<COL>", "SquareEngine<ROW>"],
    "UpR": ["UpperEngine<ROW>", "UpperBase", "SquareEngine<ROW>"], "UpC": ["UpperEngine<COL>", "UpperBase", "SquareEngine<COL>", "SquareEngine<ROW>"],
}
TRANSPOSE_NAMES = {"SquareEngine<COL_MAJOR>": "SqC", "SquareEngine<ROW_MAJOR>": "SqR",
                   "BandEngine<COL_MAJOR,UDiags,LDiags>": "BandC", "BandEngine<ROW_MAJOR,UDiags,LDiags>": "BandR",
                   "SymmEngine<ROW_LOWER_COL_UPPER>": "SymLo", "SymmEngine<ROW_UPPER_COL_LOWER>": "SymUp",
                   "UpperEngine<COL_MAJOR>": "UpC", "UpperEngine<ROW_MAJOR>": "UpR",
                   "LowerEngine<COL_MAJOR>": "LowC", "LowerEngine<ROW_MAJOR>": "LowR"}


def main():
    path = os.path.join(REPO, "include/adept/SpecialMatrix.h")
    t = S.strip(open(path).read())
    bl = S.blocks(t)
    structs = {}
    for o, c, hdr in bl:
        h = re.sub(r"template\s*<[^{}]*?>\s*(?=struct)", "", hdr.strip(), flags=re.S)
        h = " ".join(h.split())
        for rx, key in HEADERS:
            if re.search(rx, h):
                if key in structs:
                    die("struct %s found twice" % key)
                structs[key] = (o, c)
    for _, key in HEADERS:
        if key not in structs:
            die("engine struct %s not found (header changed?)" % key)

    def members(key):
        o, c = structs[key]
        out = {}
        for o2, c2, hdr in bl:
            if o < o2 < c and S.is_function(hdr) and S.enclosing_function(bl, o2) is None:
                name = S.func_name(hdr)
                out.setdefault(name, []).append(t[o2 + 1:c2])
        body = t[o:c]
        m = re.search(r"typedef\s+([A-Za-z_<>, ]+?)\s+transpose_engine\s*;", body)
        if m:
            out["transpose_engine"] = ["".join(m.group(1).split())]
        else:
            # typedef typename if_then_else<(COND), X, Y>::type transpose_engine;  COND over the band widths
            m = re.search(r"typedef\s+typename\s+if_then_else\s*<\s*\(([^()]*)\)\s*,\s*([A-Za-z_]+<[A-Za-z_0-9, ]*>)\s*,\s*([A-Za-z_]+<[A-Za-z_0-9, ]*>)\s*>\s*::\s*type\s+transpose_engine\s*;", body)
            if m:
                out["transpose_engine"] = ["if|%s|%s|%s" % tuple("".join(g.split()) for g in m.groups())]
            elif "transpose_engine" in body:
                die("transpose_engine typedef of an unknown form in %s" % key)
        return out
    mem = {k: members(k) for k in structs}

    def resolve(engine, fname):
        for key in CHAIN[engine]:
            if fname in mem[key]:
                return mem[key][fname][0], key
        die("engine %s: member %s not found in %s" % (engine, fname, CHAIN[engine]))

    def ret_expr(engine, fname, want_bool=False):
        body, key = resolve(engine, fname)
        m = re.fullmatch(r"\s*return\s+(.*?);\s*", body, re.S)
        if not m:
            die("%s::%s: body is not a single return statement: %s" % (key, fname, body.strip()[:80]))
        return expr(m.group(1), "%s::%s" % (key, fname), want_bool)

    def assigns(engine, fname, names):
        body, key = resolve(engine, fname)
        stm = [s.strip() for s in body.split(";") if s.strip()]
        got = {}
        for s in stm:
            m = re.fullmatch(r"(index\[MyArrayNum\+\d\]|[a-z_0-9]+)\s*=\s*(.*)", s, re.S)
            if not m:
                die("%s::%s: unexpected statement '%s'" % (key, fname, s))
            env = {k: v for k, v in got.items() if not k.startswith("index[")}
            got[m.group(1)] = expr(m.group(2), "%s::%s" % (key, fname), False, env)
        return [got.get(n) for n in names]

    def guard(engine):
        body, key = resolve(engine, "value_at_location")
        b = " ".join(body.split())
        if re.fullmatch(r"return data\[loc\[MyArrayNum\]\];", b):
            return "true"
        m = re.fullmatch(r"if \((.*)\) \{ return data\[loc\[MyArrayNum\]\]; \} else \{ return 0; \}", b)
        if not m:
            die("%s::value_at_location: unexpected body '%s'" % (key, b[:100]))
        return expr(m.group(1), "%s::value_at_location" % key, True)

    def stored(engine):
        """guard of the inactive get_scalar: condition under which data[index] is returned"""
        body, key = resolve(engine, "get_scalar")
        b = " ".join(body.split())
        if re.fullmatch(r"return data\[index\(i,j,offset\)\];", b):
            return "true"
        m = re.fullmatch(r"if \((.*?)\) \{ return data\[index\(i,j,offset\)\]; \} else \{ return 0; \}", b)
        if m:
            return expr(m.group(1), "%s::get_scalar" % key, True)
        m = re.fullmatch(r"Index off = j-i; Type val; if \((.*?)\) \{ val = 0; \} else \{ val = data\[index\(i,j,offset\)\]; \} return val;", b)
        if m:
            c = m.group(1).replace("off", "(j-i)")
            return "(negb %s)" % expr(c, "%s::get_scalar" % key, True)
        die("%s::get_scalar: unexpected body '%s'" % (key, b[:120]))

    out = ["(* GENERATED by tools/gen_engines.py from include/adept/SpecialMatrix.h - do not edit. *)",
           "From Coq Require Import ZArith Bool.", "Local Open Scope Z_scope.",
           "Inductive engine := " + " | ".join(ENGINES) + ".",
           "(* L, U are the LDiags/UDiags template parameters of BandEngine (ignored by the others) *)"]

    def define(name, args, f):
        out.append("Definition %s (e : engine) (L U %s : Z) : %s :=\n  match e with" % (name, args, "bool" if name.startswith(("guard", "stored")) else "Z"))
        for e in ENGINES:
            out.append("  | %s => %s" % (e, f(e)))
        out.append("  end.")
    define("pack_offset", "dim", lambda e: ret_expr(e, "pack_offset"))
    define("index", "i j off", lambda e: ret_expr(e, "index"))
    define("row_offset", "off loc e1", lambda e: ret_expr(e, "row_offset"))
    define("data_size", "dim off", lambda e: ret_expr(e, "data_size"))
    define("upper_offset", "dim off k", lambda e: ret_expr(e, "upper_offset"))
    define("lower_offset", "dim off k", lambda e: ret_expr(e, "lower_offset"))
    rr = {e: assigns(e, "get_row_range", ["j_start", "j_end_plus_1", "index_start", "index_stride"]) for e in ENGINES}
    for k, nm in enumerate(["rr_j_start", "rr_j_end", "rr_index_start", "rr_index_stride"]):
        for e in ENGINES:
            if rr[e][k] is None:
                die("%s::get_row_range does not assign %s" % (e, nm))
        define(nm, "i dim off", lambda e, k=k: rr[e][k])
    ex = {e: assigns(e, "set_extras", ["index[MyArrayNum+1]", "index[MyArrayNum+2]"]) for e in ENGINES}
    define("extra1", "i off", lambda e: ex[e][0] or "0")
    out.append("Definition extra2 (e : engine) (L U i off : Z) : Z :=\n  let e1 := extra1 e L U i off in\n  match e with")
    for e in ENGINES:
        out.append("  | %s => %s" % (e, ex[e][1] or "0"))
    out.append("  end.")
    define("guard", "loc e1 e2", guard)
    define("stored", "i j", stored)
    out.append("(* L, U: the band widths of the matrix being transposed *)")
    out.append("Definition transpose_engine (e : engine) (L U : Z) : engine :=\n  match e with")
    names = dict(TRANSPOSE_NAMES)
    names["BandEngine<ROW_MAJOR,0,0>"] = "BandR"     # only as the branch taken when both widths are zero
    for e in ENGINES:
        body, key = resolve(e, "transpose_engine")
        if body.startswith("if|"):
            _, cond, yes, no = body.split("|")
            if cond != "LDiags+UDiags==0":
                die("%s: transpose_engine condition '%s' is not a modelled one" % (key, cond))
            if yes != "BandEngine<ROW_MAJOR,0,0>" or no not in TRANSPOSE_NAMES:
                die("%s: unknown transpose_engine branches '%s' / '%s'" % (key, yes, no))
            out.append("  | %s => if (L + U =? 0) then %s else %s" % (e, names[yes], TRANSPOSE_NAMES[no]))
            continue
        if body not in TRANSPOSE_NAMES:
            die("%s: unknown transpose_engine '%s'" % (key, body))
        out.append("  | %s => %s" % (e, TRANSPOSE_NAMES[body]))
    out.append("  end.")
    out.append("(* a transposed band engine exchanges its LDiags and UDiags parameters *)")
    out.append("Definition transpose_swaps_LU (e : engine) : bool := match e with BandR | BandC => true | _ => false end.")
    print("\n".join(out))


main()
