#!/usr/bin/env python3
"""translator (C05, fastexp): reads quick_e::fastexp_float / fastexp_double / polynomial_5 / polynomial_13m
from include/adept/quick_e.h and writes Gen_Fastexp.v: the same computation over the real numbers, with
every constant replaced by the exact binary value the compiler stores (correct rounding of the literal,
float constants rounded to 24 bits, `1.f/6.f` evaluated as one correctly rounded float division).
unchecked_round(v) becomes the integer parameter n; pow2n(r) becomes 2^n.  Strict grammar: anything
unexpected is an error (the check then reports a broken obligation)."""
import sys, os, re
from fractions import Fraction

REPO = sys.argv[1] if len(sys.argv) > 1 else "/repo"
SRC = os.path.join(REPO, "include/adept/quick_e.h")


def die(msg):
    sys.stderr.write("gen_fastexp: " + msg + "\n")
    sys.exit(2)


def round_bin(q, prec):
    """round the rational q to the nearest binary floating-point number with `prec` significant bits
    (ties to even; exponent range ignored: all constants here are normal)"""
    if q == 0:
        return Fraction(0)
    s = -1 if q < 0 else 1
    q = abs(q)
    e = 0
    while q >= 2 ** prec:
        q /= 2
        e += 1
    while q < 2 ** (prec - 1):
        q *= 2
        e -= 1
    m = q.numerator // q.denominator
    r = q - m
    if r > Fraction(1, 2) or (r == Fraction(1, 2) and m % 2 == 1):
        m += 1
    return s * Fraction(m) * (Fraction(2) ** e)


def lit(text, is_float_ctx):
    """value of a C floating literal: (rational, precision) after rounding to its own type"""
    t = text.strip()
    f = t.endswith("f") or t.endswith("F")
    if f:
        t = t[:-1]
    m = re.fullmatch(r"([-+]?)(\d*)\.?(\d*)(?:[eE]([-+]?\d+))?", t)
    if not m or (m.group(2) == "" and m.group(3) == ""):
        die("cannot read literal '%s'" % text)
    q = Fraction(int((m.group(2) or "0") + (m.group(3) or "")), 10 ** len(m.group(3) or ""))
    if m.group(4):
        q *= Fraction(10) ** int(m.group(4))
    if m.group(1) == "-":
        q = -q
    return round_bin(q, 24 if f else 53), (24 if f else 53)


def const_value(expr, target_prec):
    """a constant initialiser: literal, or literal/literal (one correctly rounded division in the type of
    the operands), then converted to the declared type"""
    e = expr.strip()
    sign = 1
    if e.startswith("+"):
        e = e[1:].strip()
    if e.startswith("-"):
        sign = -1
        e = e[1:].strip()
    if "/" in e:
        a, b = e.split("/")
        (qa, pa), (qb, pb) = lit(a, False), lit(b, False)
        if pa != pb:
            die("mixed precision division '%s'" % expr)
        q = round_bin(qa / qb, pa)
    else:
        q, _ = lit(e, False)
    return round_bin(sign * q, target_prec)


def coq_q(q):
    n, d = q.numerator, q.denominator
    if d == 1:
        return "(%d)" % n if n < 0 else "%d" % n
    return "(%d / %d)" % (n, d)


def function_body(text, header_re):
    m = re.search(header_re, text)
    if not m:
        die("function not found: " + header_re)
    i = text.index("{", m.end() - 1)
    depth, j = 0, i
    while True:
        if text[j] == "{":
            depth += 1
        elif text[j] == "}":
            depth -= 1
            if depth == 0:
                break
        j += 1
    body = text[i + 1:j]
    body = re.sub(r"//[^\n]*", "", body)
    return m, body


# ---------------------------------------------------------------- expressions: calls, identifiers
TOK = re.compile(r"\s*(set1<Vec>|set0<Vec>|[A-Za-z_][A-Za-z0-9_]*|[(),])")


def parse_call(text, env, where):
    toks, pos = [], 0
    text = text.strip()
    while pos < len(text):
        m = TOK.match(text, pos)
        if not m:
            die("%s: cannot tokenise '%s'" % (where, text[pos:pos + 30]))
        toks.append(m.group(1))
        pos = m.end()
    k = [0]

    def peek():
        return toks[k[0]] if k[0] < len(toks) else None

    def eat(t=None):
        x = peek()
        if x is None or (t is not None and x != t):
            die("%s: expected %s found %s" % (where, t, x))
        k[0] += 1
        return x

    def expr():
        name = eat()
        if peek() == "(":
            eat("(")
            args = [expr()]
            while peek() == ",":
                eat(",")
                args.append(expr())
            eat(")")
            if name == "mul" and len(args) == 2:
                return "(%s * %s)" % tuple(args)
            if name == "fma" and len(args) == 3:
                return "(%s * %s + %s)" % tuple(args)
            if name == "fnma" and len(args) == 3:
                return "(%s - %s * %s)" % (args[2], args[0], args[1])
            if name == "set1<Vec>" and len(args) == 1:
                return args[0]
            if name == "unchecked_round" and len(args) == 1:
                return "ROUND[%s]" % args[0]
            if name == "pow2n" and len(args) == 1:
                if args[0] != env.get("__round_var"):
                    die("%s: pow2n of something that is not the rounded quotient" % where)
                return "(powerRZ 2 n)"
            die("%s: unknown call %s/%d" % (where, name, len(args)))
        if name not in env:
            die("%s: unknown identifier %s" % (where, name))
        return env[name]

    r = expr()
    if peek() is not None:
        die("%s: trailing tokens %s" % (where, toks[k[0]:]))
    return r


def polynomial(text, name, coeff_names):
    """the return expression of polynomial_5 / polynomial_13m as a Coq function of x and the coefficients"""
    _, body = function_body(text, r"Vec\s+%s\s*\(Vec const x,[^)]*\)\s*\{" % name)
    env = {"x": "x"}
    for c in coeff_names:
        env[c] = c
    stmts = [s.strip() for s in body.split(";") if s.strip()]
    ret = None
    for s in stmts:
        if s.startswith("using "):
            continue
        m = re.fullmatch(r"Vec\s+(\w+)\s*=\s*(.*)", s, re.S)
        if m:
            env[m.group(1)] = parse_call(m.group(2), env, name)
            continue
        m = re.fullmatch(r"return\s+(.*)", s, re.S)
        if m:
            ret = parse_call(m.group(1), env, name)
            continue
        die("%s: unexpected statement '%s'" % (name, s))
    if ret is None:
        die("%s: no return" % name)
    return ret


def fastexp(text, fname, ctype, prec, polyname):
    _, body = function_body(text, r"Vec\s+%s\s*\(Vec const initial_x\)\s*\{" % fname)
    # drop the range clamp (modelled separately: min_x / max_x are emitted as constants)
    body_main = body.split("#ifdef __FAST_MATH__")[0] if "#ifdef __FAST_MATH__" in body else body
    body_main = re.sub(r"#ifndef __FAST_MATH__(.*?)#endif", r"\1", body_main, flags=re.S)
    consts, env, order = {}, {"initial_x": "x0"}, []
    z_def = None
    for s in [t.strip() for t in body_main.split(";") if t.strip()]:
        if s.startswith("using "):
            continue
        m = re.fullmatch(r"const\s+%s\s+(\w+)\s*=\s*(.*)" % ctype, s, re.S)
        if m:
            consts[m.group(1)] = const_value(m.group(2), prec)
            env[m.group(1)] = "c_" + m.group(1)
            continue
        m = re.fullmatch(r"(Vec\s+)?(\w+)\s*=\s*(.*)", s, re.S)
        if m:
            var, rhs = m.group(2), m.group(3)
            pm = re.fullmatch(r"%s\s*\(\s*x\s*,([^)]*)\)" % polyname, rhs.strip(), re.S)
            if pm:
                args = [a.strip() for a in pm.group(1).split(",")]
                for a in args:
                    if a not in consts:
                        die("%s: polynomial coefficient %s is not a constant" % (fname, a))
                env[var] = "(poly %s)" % env["x"]
                order.append(("polyargs", args))
                continue
            val = parse_call(rhs, env, fname)
            if val.startswith("ROUND["):
                order.append(("round_arg", val[6:-1]))
                env["__round_var"] = "(IZR n)"
                env[var] = "(IZR n)"
            else:
                env[var] = val
            continue
        die("%s: unexpected statement '%s'" % (fname, s))
    for need in ("min_x", "max_x"):
        if need not in consts:
            die("%s: constant %s not found" % (fname, need))
    if "z" not in env:
        die("%s: no result z" % fname)
    return consts, env, order


def main():
    text = open(SRC).read()
    out = ["(* GENERATED by tools/gen_fastexp.py from include/adept/quick_e.h -- do not edit *)",
           "From Coq Require Import Reals ZArith.", "Local Open Scope R_scope.", ""]
    specs = [("d", "fastexp_double", "double", 53, "polynomial_13m", ["c%d" % i for i in range(2, 14)]),
             ("f", "fastexp_float", "float", 24, "polynomial_5", ["c%d" % i for i in range(0, 6)])]
    for tag, fname, ctype, prec, polyname, cn in specs:
        pexpr = polynomial(text, polyname, cn)
        consts, env, order = fastexp(text, fname, ctype, prec, polyname)
        out.append("Module FE_%s." % tag)
        for k, v in consts.items():
            out.append("  Definition c_%s : R := %s." % (k, coq_q(v)))
        args = [a for kind, a in order if kind == "polyargs"]
        rarg = [a for kind, a in order if kind == "round_arg"]
        if len(args) != 1 or len(rarg) != 1 or len(args[0]) != len(cn):
            die("%s: unexpected structure" % fname)
        out.append("  Definition poly_gen (%s x : R) : R := %s." % (" ".join(cn), pexpr))
        out.append("  Definition poly (x : R) : R := poly_gen %s x." % " ".join("c_" + a for a in args[0]))
        out.append("  (* the quantity that unchecked_round turns into the integer n *)")
        out.append("  Definition round_arg (x0 : R) : R := %s." % rarg[0])
        out.append("  Definition reduced (x0 : R) (n : Z) : R := %s." % env["x"])
        out.append("  Definition result (x0 : R) (n : Z) : R := %s." % env["z"])
        out.append("End FE_%s." % tag)
        out.append("")
    sys.stdout.write("\n".join(out) + "\n")


if __name__ == "__main__":
    main()
