#!/bin/sh
# tools/seed_confirm.sh CID NAME [flags...]: independent confirmation of a sub-agent's change in /tmp/sw/NAME
# (patch in /tmp/sw/NAME-out/patch.diff): demo passes without, fails with; the 25 tests pass with.
# Prints a summary; leaves the worktree with the change applied.
W=/tmp/sw/$2; O=/tmp/sw/$2-out
cd $W || exit 2
git checkout -q -- . ; git apply --check $O/patch.diff || { echo "patch does not apply"; exit 2; }
CMD=$(head -1 $O/demo.cpp | sed 's,^// *,,; s,^/\* *,,; s, *\*/ *$,,')
echo "demo compile: $CMD"
make -C $W/include adept_source.h > /dev/null 2>&1
cd $O
( eval "$CMD" ) > demo_clean.build.log 2>&1 ; B=$(ls -t | grep -v '\.' | head -1); ./demo > demo_clean.out 2>&1; R0=$?
git -C $W apply $O/patch.diff
make -C $W/include adept_source.h > /dev/null 2>&1
( eval "$CMD" ) > demo_mut.build.log 2>&1 ; timeout 120 ./demo > demo_mut.out 2>&1; R1=$?
echo "demo clean rc=$R0 ; demo with change rc=$R1"
cd $W; rm -f test/*.o adept/*.o adept/*.lo test/test_results.txt
make -j8 > build.log 2>&1; make -j8 check > check.log 2>&1; make check > check.log 2>&1
echo "suite: $(grep -c PASSED check.log) PASSED, $(grep -c FAILED check.log) FAILED"
