#!/bin/sh
# tools/seed_run.sh CID NAME : confirm the change of /tmp/sw/NAME, then run CID's quick check from a private copy
# of /verif (/tmp/verif2) against that worktree (VERIF_REPO), so that /repo and /verif/coq/generated stay untouched.
CID=$1; N=$2; mkdir -p /tmp/sw/results
{
  /verif/tools/seed_confirm.sh $CID $N
  rsync -a --delete --exclude .git --exclude build --exclude replays /verif/ /tmp/verif2/
  cd /tmp/verif2 && VERIF_REPO=/tmp/sw/$N timeout 1800 ./check $CID --tier quick 2>&1 | grep -E "VIOLATION|KNOWN|tier=" | cut -c1-600
  echo "check rc=$?"
} > /tmp/sw/results/$N.log 2>&1
