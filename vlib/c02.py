"""C02 — forward, reverse and Jacobian results agree.  Models Tape.v/Jacobian.v (tie H)."""
import os, random
from . import common as C
from .tapecases import gen_case, sections

CID = "C02"
# (label, block width M, compiler flags)
BUILDS_QUICK = [("sse2-packet2", 2, ""), ("scalar-M3", 3, "-DADEPT_DOUBLE_PACKET_SIZE=1 -DADEPT_MULTIPASS_SIZE=3")]
BUILDS_THOROUGH = BUILDS_QUICK + [("scalar-M1", 1, "-DADEPT_DOUBLE_PACKET_SIZE=1 -DADEPT_MULTIPASS_SIZE=1"),
                                  ("scalar-M4", 4, "-DADEPT_DOUBLE_PACKET_SIZE=1 -DADEPT_MULTIPASS_SIZE=4"),
                                  ("scalar-M8", 8, "-DADEPT_DOUBLE_PACKET_SIZE=1 -DADEPT_MULTIPASS_SIZE=8"),
                                  ("avx-packet4", 4, "-mavx"), ("avx512-packet8", 8, "-mavx512f")]
SENT = "-777"


def oracle(n, m, line):
    """C02's statement evaluated on the implementation's own output"""
    s = sections(line)
    if "N" not in s:
        return "no output"
    if [int(x) for x in s["N"]] != [n, m]:
        return "independent()/dependent() registered %s variables, expected %d/%d" % (s["N"], n, m)
    F, R = s["F"], s["R"]          # F[j*m+i], R[i*n+j]
    J = lambda i, j: F[j * m + i]
    for i in range(m):
        for j in range(n):
            if R[i * n + j] != J(i, j):
                return "adjoint pass row %d differs from tangent pass column %d at (%d,%d): %s vs %s" % (i, j, i, j, R[i * n + j], J(i, j))
    col = [J(i, j) for j in range(n) for i in range(m)]
    row = [J(i, j) for i in range(m) for j in range(n)]
    for nm in ("PF", "PR", "PA", "TF", "TR", "TA", "OF", "OR"):
        if s.get(nm) != col:
            return "%s is not the column-major m x n Jacobian of the unit-vector passes: %s vs %s" % (nm, s.get(nm), col)
    for nm in ("QF", "QR", "MF", "MR", "MA", "#J", "#JF", "#JR"):
        if s.get(nm) != row:
            return "%s is not the row-major Jacobian (row=dependent, column=independent): %s vs %s" % (nm, s.get(nm), row)
    w = 3 * n + 2
    exp = [SENT] * ((2 * m + 1) * w)
    for i in range(m):
        for j in range(n):
            exp[(1 + 2 * i) * w + 2 + 3 * j] = J(i, j)
    for nm in ("SF", "SR", "SA"):
        if s.get(nm) != exp:
            return "%s: strided Matrix target not filled correctly / stray write" % nm
    if s.get("#dims") != [str(m), str(n)]:
        return "Matrix-returning jacobian() has extents %s, expected %d x %d" % (s.get("#dims"), m, n)
    if s.get("#X") != ["3"]:
        return "wrongly sized Matrix target not rejected with size_mismatch (%s of 3)" % s.get("#X")
    return None


def strip_harness_only(line):
    return " | ".join(p.strip() for p in line.split("|") if p.strip() and not p.strip().startswith("#"))


def build_all(run, builds, extra="", tag=""):
    """compile one harness per build in parallel; returns {label: exe}"""
    import concurrent.futures as cf
    bd = C.build_dir()
    C.adept_tu()
    out = {}

    def one(b):
        label, M, flags = b
        exe = os.path.join(bd, "c02_%s%s" % (label, tag))
        ok, cmd, log = C.cxx(os.path.join(C.HARNESS, "c02_jacobian.cpp"), exe, "-O1 -g -w -ffp-contract=off %s %s" % (flags, extra))
        return label, ok, exe, cmd, log
    with cf.ThreadPoolExecutor(max_workers=8) as ex:
        for label, ok, exe, cmd, log in ex.map(one, builds):
            if ok:
                out[label] = (exe, cmd)
            else:
                run.finding("build:%s" % label, "broken-obligation", "cannot build the harness against the current tree (%s): %s" % (label, log[-500:]), {"cmd": cmd})
    return out


def gen_cases(rng, M, tier):
    cases = []
    # every residue of m and n modulo M, m<n, m=n, m>n
    for n in range(1, 3 * M + 3):
        for m in ([1, M, M + 1, 2 * M, 3 * M + 2] if tier == "quick" else range(1, 3 * M + 3)):
            cases.append(gen_case(rng, M, n, m))
    for _ in range(100 if tier == "quick" else 1500):
        cases.append(gen_case(rng, M))
    return cases


def shrink_case(line, pred):
    """drop statements / operations while pred stays true"""
    t = line.split()
    ng, ns = int(t[0]), int(t[1])
    pos = 2
    stm = []
    for _ in range(ns):
        lhs, k = int(t[pos]), int(t[pos + 1])
        stm.append((lhs, [(int(t[pos + 2 + 2 * i]), int(t[pos + 3 + 2 * i])) for i in range(k)]))
        pos += 2 + 2 * k
    rest = t[pos:]

    def mk(stm):
        out = [ng, len(stm)]
        for lhs, ops in stm:
            out += [lhs, len(ops)]
            for q, i in ops:
                out += [q, i]
        return " ".join(map(str, out)) + " " + " ".join(rest)
    changed = True
    while changed:
        changed = False
        for i in range(len(stm)):
            cand = stm[:i] + stm[i + 1:]
            if pred(mk(cand)):
                stm, changed = cand, True
                break
        if changed:
            continue
        for i, (lhs, ops) in enumerate(stm):
            for j in range(len(ops)):
                cand = stm[:i] + [(lhs, ops[:j] + ops[j + 1:])] + stm[i + 1:]
                if pred(mk(cand)):
                    stm, changed = cand, True
                    break
            if changed:
                break
    return mk(stm)


def nm_of(line):
    from .tapecases import flat
    t = list(map(int, line.split()))
    pos = 2
    for _ in range(t[1]):
        pos += 2 + 2 * t[pos + 1]
    out = []
    for _ in range(2):
        k = t[pos]; pos += 1
        out.append(sum(t[pos + 3 * i + 1] for i in range(k)))
        pos += 3 * k
    return out[0], out[1]


def compare(run, label, M, exe, cases, model, cid, args="", what="serial"):
    """run model and implementation on the cases; report counterexamples / broken correspondence"""
    cov = run.coverage
    inp = "\n".join(c[0] for c in cases) + "\n"
    rc, mo, se = C.sh("%s %d" % (model, M), inp=inp, timeout=900)
    mo = mo.split("\n")
    rc2, io, se2 = C.sh("%s %s" % (exe, args), inp=inp, timeout=900)
    io = io.split("\n")
    if rc2 != 0 or len(io) < len(cases):
        # find the first case on which the harness dies and shrink it
        def dies(l):
            r, o, e = C.sh("%s %s" % (exe, args), inp=l + "\n", timeout=60)
            return r != 0
        first = None
        for (line, n, m) in cases:
            if dies(line):
                first = line
                break
        key = "crash:%s" % label.split(":")[0]
        if first is None:
            run.finding(key, "counterexample", "harness %s died (rc=%d) on the batch but on no single case: %s" % (label, rc2, se2[-600:]),
                        {"build": label, "stderr": se2[-2000:], "args": args})
        else:
            small = shrink_case(first, dies)
            r, o, e = C.sh("%s %s" % (exe, args), inp=small + "\n", timeout=60)
            run.finding(key, "counterexample", "%s build %s (M=%d) crashes / corrupts memory (rc=%d: %s) on case [%s]"
                        % (what, label, M, r, e.strip().split("\n")[0][:200], small),
                        {"case": small, "build": label, "M": M, "args": args, "stderr": e[-1500:]})
        return "CRASH"
    bad_or, bad_mm = [], []
    for (line, n, m), a, b in zip(cases, mo, io):
        cov["evaluations"] += 1
        o = oracle(n, m, b)
        if o is not None:
            bad_or.append((line, o))
        elif a.strip().rstrip("|").strip() != strip_harness_only(b):
            bad_mm.append(line)

    def run1(l):
        _, a, _ = C.sh("%s %d" % (model, M), inp=l + "\n"); _, b, _ = C.sh("%s %s" % (exe, args), inp=l + "\n")
        return a.strip(), b.strip()
    if bad_or:
        line, o = min(bad_or, key=lambda x: len(x[0]))

        def pred(l):
            n, m = nm_of(l)
            return oracle(n, m, run1(l)[1]) is not None
        small = shrink_case(line, pred)
        n, m = nm_of(small)
        a, b = run1(small)
        run.finding("oracle:%s:%s" % (label, oracle(n, m, b).split(":")[0][:40]), "counterexample",
                    "%s build %s (M=%d): %s ; case [%s]" % (what, label, M, oracle(n, m, b), small),
                    {"case": small, "build": label, "M": M, "impl": b, "model": a, "args": args})
    elif bad_mm:
        small = shrink_case(bad_mm[0], lambda l: (lambda ab: ab[0].rstrip("|").strip() != strip_harness_only(ab[1]))(run1(l)))
        a, b = run1(small)
        sa, sb = sections(a), sections(b)
        diff = [k for k in sa if sa[k] != sb.get(k)]
        run.finding("correspondence:jacobian:%s" % label, "broken-obligation",
                    "model (Tape.v/Jacobian.v, M=%d) and implementation (%s, %s) disagree in sections %s on case [%s] although the "
                    "implementation's outputs are mutually consistent; theorems of Properties_%s.v no longer speak about this code"
                    % (M, label, what, diff, small, cid),
                    {"case": small, "build": label, "M": M, "impl": b, "model": a, "args": args, "correspondence": "Jacobian.v vs adept/jacobian.cpp"})
    return se2


def check(run, replay=None):
    tier, seed = run.tier, run.seed
    rng = random.Random(seed * 7919 + 2)
    C.standard_coq_phase(run, CID, gens=("jacobian",))
    ok, msg = C.ensure_ocaml()
    if not ok:
        run.finding("build:ocaml", "broken-obligation", msg, {})
        return
    builds = BUILDS_QUICK if tier == "quick" else BUILDS_THOROUGH
    if replay is not None:
        builds = [b for b in BUILDS_THOROUGH if b[0] == replay.get("build")] or builds
    exes = build_all(run, builds, "-fsanitize=address,undefined -fno-sanitize-recover=all")
    model = os.path.join(C.OCAML, "driver_c02.exe")
    nontriv = set()
    for label, M, flags in builds:
        if label not in exes:
            continue
        if replay is not None:
            n, m = nm_of(replay["case"])
            cases = [(replay["case"], n, m)]
        else:
            cases = gen_cases(rng, M, tier)
        compare(run, label, M, exes[label][0], cases, model, CID)
        for line, n, m in cases:
            if int(line.split()[1]) >= 2 and n >= 2 and m >= 2:
                nontriv.add(line)
        run.coverage["samples"].append({"build": label, "M": M, "case": cases[len(cases) // 2][0]})
    cov = run.coverage
    cov["distinct_nontrivial"] = len(nontriv)
    cov["rule"] = ("tapes written through Stack::add/append_derivative_dependence (arbitrary lhs/rhs, zero multipliers, repeated indices), "
                   "multipliers k/4 (all arithmetic exact in double, so ring theorems apply literally); independents/dependents given as "
                   "scalars and strided (also reversed) active views, repeated and overlapping; every (m mod M, n mod M) residue with "
                   "1 <= m,n <= 3M+2; builds: %s.  Compared: unit-seed tangent and adjoint passes, jacobian/jacobian_forward/jacobian_reverse in "
                   "raw-pointer (default and row-major offsets), Matrix (plain, transposed, strided view with guard cells), Matrix-returning forms, "
                   "wrong-size rejection.  Non-trivial = >= 2 statements and m,n >= 2." % ", ".join(b[0] for b in builds))
    cov["traces_validated_against_impl"] = cov["evaluations"]
    run.assumptions += ["Tape.v/Jacobian.v are hand models; tie = outputs compared exactly on every case",
                        "floating-point rounding not modelled: case data are dyadic so that all results are exact",
                        "negative Matrix strides as Jacobian target are outside the claim (jacobian.cpp replaces offsets <= 0)"]
