"""C20 — interpolation.  Model Interp.v (tie H) run on OCaml doubles; independent exact-rational oracle."""
import os, random, math
from fractions import Fraction as F
from . import common as C

CID = "C20"


def decode(opts):
    interp, extrap = opts >> 4, opts & 15
    if interp not in (0, 1) or extrap > 3 or (interp == 1 and extrap == 1):
        return None
    s = "lin" if interp == 0 else "near"
    p = {0: ("L" if s == "lin" else "C"), 1: "L", 2: "C", 3: "K"}[extrap]
    return s, p


def weights1(s, p, x, q):
    """exact weights {knot: weight} of the documented interpolant along one coordinate, or None = constant; 'tie' if ambiguous"""
    n = len(x)
    up = x[1] > x[0]
    lo, hi = (x[0], x[-1]) if up else (x[-1], x[0])
    if q < lo or q > hi:
        if p == "K":
            return None
        if p == "C":
            end = 0 if (q < lo) == up else n - 1
            return {end: F(1)}
        a = 0 if (q < lo) == up else n - 2
    else:
        a = None
        for j in range(n - 1):
            l, h = min(x[j], x[j + 1]), max(x[j], x[j + 1])
            if l <= q <= h:
                a = j
                break
    t = F(q - x[a]) / F(x[a + 1] - x[a])
    if s == "near":
        if t == F(1, 2):
            return "tie"
        return {a + 1: F(1)} if t > F(1, 2) else {a: F(1)}
    w = {}
    w[a] = w.get(a, 0) + (1 - t)
    w[a + 1] = w.get(a + 1, 0) + t
    return w


def oracle_rows(kind, opts, c, coords, data, m, queries):
    """expected output rows (list of list of Fraction) or an exception name; None where not decidable (ties)"""
    d = decode(opts)
    dims = [len(x) for x in coords]
    if kind in ("D1", "A1"):
        if len(coords[0]) != len(data) or len(coords[0]) == 0:
            return "size_mismatch"
        if len(coords[0]) == 1:
            return [list(data[0]) for _ in queries[0]]
    else:
        if any(n < 2 for n in dims):
            return "size_mismatch"
    if d is None:
        return "array_exception"
    s, p = d
    out = []
    for qi in range(len(queries[0])):
        ws = [weights1(s, p, coords[k], queries[k][qi]) for k in range(len(coords))]
        if any(w == "tie" for w in ws):
            out.append(None)
            continue
        if any(w is None for w in ws):
            out.append([c] * m)
            continue
        row = [F(0)] * m
        import itertools
        for combo in itertools.product(*[list(w.items()) for w in ws]):
            wt = F(1)
            idx = []
            for (j, wj) in combo:
                wt *= wj
                idx.append(j)
            cell = data
            for j in idx:
                cell = cell[j]
            for t in range(m):
                row[t] += wt * cell[t]
        out.append(row)
    return out


def gen_coords(rng, n):
    step = [rng.choice([4, 8, 16, 24, 40]) for _ in range(n - 1)]
    x = [rng.randrange(-64, 64)]
    for s in step:
        x.append(x[-1] + s)
    if rng.random() < 0.4:
        x = [-v for v in x]
    return x


def gen_queries(rng, x, k):
    lo, hi = min(x), max(x)
    out = []
    for _ in range(k):
        r = rng.random()
        if r < 0.25:
            out.append(rng.choice(x))
        elif r < 0.35:
            out.append(rng.choice([lo - rng.randrange(1, 40), hi + rng.randrange(1, 40)]))
        elif r < 0.45 and len(x) > 1:
            j = rng.randrange(len(x) - 1)
            out.append((x[j] + x[j + 1]) // 2)
        else:
            out.append(rng.randrange(lo - 8, hi + 9))
    return out


def nested(rng, dims, m):
    if not dims:
        return [rng.randrange(-80, 81) for _ in range(m)]
    return [nested(rng, dims[1:], m) for _ in range(dims[0])]


def flatten(a):
    return [x for b in a for x in (flatten(b) if isinstance(b, list) else [b])]


def gen_case(rng, kinds):
    kind = rng.choice(kinds)
    opts = rng.choice([0, 0, 1, 2, 3, 16, 18, 19, 17, 4, 32] + [rng.randrange(64)])
    c = rng.randrange(-160, 160)
    m = rng.choice([1, 1, 2, 3])
    nd = {"D1": 1, "A1": 1, "D2": 2, "D3": 3}[kind]
    ns = [rng.choice([2, 2, 3, 4, 5, 9] if kind in ("D1", "A1") else [2, 3, 4]) for _ in range(nd)]
    if kind == "D1" and rng.random() < 0.05:
        ns = [1]
    coords = [gen_coords(rng, n) for n in ns]
    data = nested(rng, ns, m)
    nq = rng.randrange(1, 7)
    queries = [gen_queries(rng, coords[k], nq) for k in range(nd)]
    if kind == "A1":
        opts = rng.choice([0, 1, 2, 3, 16, 18, 19])
    toks = [kind, opts, c]
    if kind in ("D1", "A1"):
        toks += [ns[0]] + coords[0] + [m, ns[0]] + flatten(data) + [nq] + queries[0]
    else:
        for x in coords:
            toks += [len(x)] + x
        toks += [m] + flatten(data)
        for q in queries:
            toks += [nq] + q
    line = " ".join(map(str, toks))
    return line, (kind, opts, F(c, 16), [[F(v, 16) for v in x] for x in coords], scale(data), m, [[F(v, 16) for v in q] for q in queries])


def scale(a):
    return [scale(b) if isinstance(b, list) else F(b, 16) for b in a]


def nonfinite_cases(rng, n):
    out = []
    for _ in range(n):
        x = gen_coords(rng, rng.choice([2, 3, 5]))
        y = [rng.randrange(-50, 50) for _ in x]
        q = [rng.choice(["nan", "inf", "-inf", str(rng.choice(x))]) for _ in range(4)]
        out.append("D1 %d 16 %d %s 1 %d %s 4 %s" % (rng.choice([0, 2, 3, 16, 19]), len(x), " ".join(map(str, x)), len(x), " ".join(map(str, y)), " ".join(q)))
    return out


def close(a, b, tol=1e-9):
    if isinstance(b, F):
        b = float(b)
    if math.isnan(a) or math.isnan(b):
        return False
    return abs(a - b) <= tol * (1 + abs(b))


def check(run, replay=None):
    tier, seed = run.tier, run.seed
    rng = random.Random(seed * 7919 + 20)
    C.standard_coq_phase(run, CID, gens=("interp",))
    ok, msg = C.ensure_ocaml()
    if not ok:
        run.finding("build:ocaml", "broken-obligation", msg, {})
        return
    exe = os.path.join(C.build_dir(), "c20")
    okc, cmd, log = C.cxx(os.path.join(C.HARNESS, "c20_interp.cpp"), exe, "-O0 -g -w -ffp-contract=off -fsanitize=address,undefined -fno-sanitize-recover=all")
    if not okc:
        run.finding("build:c20", "broken-obligation", "cannot build the harness: " + log[-600:], {"cmd": cmd})
        return
    model = os.path.join(C.OCAML, "driver_c20.exe")
    if replay is not None:
        cases = [(replay["case"], None)]
    else:
        ncase = 1500 if tier == "quick" else 30000
        cases = [gen_case(rng, ["D1", "D1", "A1", "D2", "D3"]) for _ in range(ncase)]
        # every option word on one fixed data set
        for o in range(64):
            cases.append(("D1 %d 24 3 0 16 48 1 3 16 -32 80 5 -16 0 8 48 64" % o,
                          ("D1", o, F(24, 16), [[F(0), F(1), F(3)]], [[F(1)], [F(-2)], [F(5)]], 1, [[F(-1), F(0), F(1, 2), F(3), F(4)]])))
    lines = [c[0] for c in cases]
    inp = "\n".join(lines) + "\n"
    rc, io, se = C.sh(exe, inp=inp, timeout=900)
    rcm, mo, _ = C.sh(model, inp=inp, timeout=900)
    io, mo = io.split("\n"), mo.split("\n")
    cov = run.coverage
    if rc != 0:
        k = len([x for x in io if x.strip()])
        run.finding("crash", "counterexample", "interpolation harness died on case [%s]: %s" % (lines[min(k, len(lines) - 1)][:200], [x for x in se.split("\n") if "ERROR" in x][:1]),
                    {"case": lines[min(k, len(lines) - 1)]})
    nontriv, nties = set(), 0
    for (line, spec), a, b in zip(cases, mo, io):
        cov["evaluations"] += 1
        bi = b.split(" | J")
        bvals = bi[0].strip()
        if spec is not None:
            kind, opts, c, coords, data, m, queries = spec
            exp = oracle_rows(kind, opts, c, coords, data, m, queries)
            if isinstance(exp, str):
                if bvals != "EXC " + exp:
                    run.finding("oracle:exception", "counterexample", "case [%s]: expected %s, implementation gives [%s]" % (line[:200], exp, bvals[:100]), {"case": line})
                continue
            if not bvals.startswith("OK"):
                run.finding("oracle:unexpected-exception", "counterexample", "case [%s]: implementation gives [%s]" % (line[:200], bvals[:100]), {"case": line})
                continue
            got = [float(t) for t in bvals.split()[1:]]
            want = []
            for r in exp:
                want += (r if r is not None else [None] * m)
            if len(got) != len(want):
                run.finding("oracle:shape", "counterexample", "case [%s]: %d values returned, %d expected" % (line[:200], len(got), len(want)), {"case": line})
                continue
            bad = [(k, g, float(w)) for k, (g, w) in enumerate(zip(got, want)) if w is not None and not close(g, w)]
            nties += sum(1 for w in want if w is None)
            if bad:
                k, g, w = bad[0]
                run.finding("oracle:value:%s:%s" % (kind, "lin" if (opts >> 4) == 0 else "near"), "counterexample",
                            "case [%s]: output %d is %r but the %s interpolant is %r" % (line[:240], k, g, "linear" if (opts >> 4) == 0 else "nearest", w), {"case": line, "index": k, "impl": g, "exact": w})
                continue
            if len(coords[0]) >= 3:
                nontriv.add(line)
            if kind == "A1" and len(bi) > 1:
                # derivative of each output w.r.t. each data value = its interpolation weight (interp is linear in the data)
                jac = [float(t) for t in bi[1].split()]
                ny = len(coords[0])
                nq = len(queries[0])
                s, p = decode(opts)
                okj = True
                for qi in range(nq):
                    w = weights1(s, p, coords[0], queries[0][qi])
                    for t in range(m):
                        for k in range(ny):
                            for t2 in range(m):
                                col = k * m + t2 if m > 1 else k
                                rowi = qi * m + t
                                if w == "tie":
                                    continue
                                wexp = 0.0 if (w is None or t != t2) else float(w.get(k, 0))
                                if rowi * (ny * m) + col < len(jac) and not close(jac[rowi * (ny * m) + col], wexp):
                                    okj = False
                if not okj:
                    run.finding("oracle:derivative", "counterexample", "case [%s]: Jacobian w.r.t. the data is not the matrix of interpolation weights: %s" % (line[:200], bi[1][:200]), {"case": line})
                    continue
        # correspondence with the model (same formulas on doubles: bit-identical for passive data)
        if line.startswith("A1"):
            ga = [float(t) for t in a.split()[1:]] if a.startswith("OK") else None
            gb = [float(t) for t in bvals.split()[1:]] if bvals.startswith("OK") else None
            same = (ga is None and gb is None and a.strip() == bvals) or (ga is not None and gb is not None and len(ga) == len(gb) and all(close(u, v, 1e-14) or (math.isnan(u) and math.isnan(v)) for u, v in zip(ga, gb)))
        else:
            same = a.strip() == bvals
        if not same:
            run.finding("correspondence:interp", "broken-obligation", "Interp.v and interp.h disagree on [%s]: model [%s] impl [%s]" % (line[:200], a[:160], bvals[:160]), {"case": line, "model": a, "impl": b})
    if replay is None:
        nf = nonfinite_cases(rng, 200)
        rc2, io2, se2 = C.sh(exe, inp="\n".join(nf) + "\n", timeout=300)
        cov["evaluations"] += len(nf)
        if rc2 != 0:
            run.finding("crash:nonfinite", "counterexample", "non-finite query crashes interp: %s" % [x for x in se2.split("\n") if "ERROR" in x][:1], {"case": nf[len([x for x in io2.split(chr(10)) if x.strip()])] if nf else ""})
        cov["nonfinite_queries_no_crash"] = len(nf)
    cov["distinct_nontrivial"] = len(nontriv)
    cov["nearest_ties_not_decided_by_oracle"] = nties
    cov["samples"] = [{"case": lines[3][:300]}, {"case": lines[len(lines) // 2][:300]}]
    cov["rule"] = ("dyadic knots (2-9 per dimension, increasing or decreasing, a single knot occasionally), dyadic data with 1-3 trailing values, queries at knots / mid-points / inside / "
                   "outside / at the ends, every option word 0..63, 1-D passive and active (Jacobian w.r.t. the data = weights), 2-D and 3-D; outputs compared with an exact rational "
                   "evaluation of the documented interpolant (relative 1e-9) and bit-for-bit with the extracted Coq model run on doubles; NaN/inf queries only checked for no crash. "
                   "Non-trivial = at least 3 knots and a decided comparison.")
    cov["traces_validated_against_impl"] = cov["evaluations"]
    run.assumptions += ["theorems are over the reals (standard-library axioms listed in trusted_base); floating-point rounding is measured by the run (bit-identical to the model on doubles), not proved",
                        "trailing dimensions: 0 or 1 in the harness (rows of any length in the model)", "nearest-neighbour ties and non-finite queries have no defined value in the property"]
