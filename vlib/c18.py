"""C18 — the minimizer never leaves the box and reports what it actually reached;  C19 — each algorithm finds the
box-constrained minimum of a convex quadratic.

Models: Minim.v (Levenberg / Levenberg-Marquardt, unbounded and bounded), MinimCG.v (line search; conjugate gradient,
unbounded and bounded), MinimLBFGS.v (L-BFGS, unbounded and bounded) - hand models, tie H - with the theorems of Properties_C18.v /
Properties_C19.v; Gen_Minim.v (tie G) for the call-back arguments of all the bounded drivers and of the line search.  The implementation is run in a LAPACK build on data-defined problems with an instrumented cost
function (every state passed to a call-back is checked against the box exactly; every call runs in a child process under
an alarm).  For every modelled driver the sequence of call-back states, status, counts, x, reported cost and norm are
compared with the extracted model run on doubles."""
import os, math, subprocess
from fractions import Fraction
from itertools import product
from . import common as C

ALGOS = ["L-BFGS", "Conjugate-Gradient", "Conjugate-Gradient-FR", "Levenberg", "Levenberg-Marquardt"]
BIG = 1e300
STATUS = {0: "SUCCESS", 1: "EMPTY_STATE", 2: "MAX_ITERATIONS_REACHED", 3: "FAILED_TO_CONVERGE", 4: "DIRECTION_UPHILL", 5: "BOUND_REACHED",
          6: "INVALID_COST_FUNCTION", 7: "INVALID_GRADIENT", 8: "INVALID_BOUNDS", 10: "NOT_YET_CONVERGED"}


def close(a, b, rel=1e-10):
    return a == b or (math.isnan(a) and math.isnan(b)) or abs(a - b) <= 1e-12 + rel * max(abs(a), abs(b))


def kkt_point(n, A, b, lo, hi):
    """exact solution of min 0.5 x'Ax - b'x, lo <= x <= hi (A symmetric positive definite): enumeration of the active sets
    over the rationals; returns (x, active) or None"""
    A = [[Fraction(v) for v in r] for r in A]
    b = [Fraction(v) for v in b]
    choices = []
    for i in range(n):
        c = [0]
        if lo[i] > -BIG:
            c.append(-1)
        if hi[i] < BIG:
            c.append(1)
        choices.append(c)
    for act in product(*choices):
        free = [i for i in range(n) if act[i] == 0]
        x = [None] * n
        for i in range(n):
            if act[i] == -1:
                x[i] = Fraction(lo[i])
            elif act[i] == 1:
                x[i] = Fraction(hi[i])
        # solve A_ff x_f = b_f - A_fb x_b
        m = len(free)
        M = [[A[free[r]][free[c]] for c in range(m)] + [b[free[r]] - sum(A[free[r]][j] * x[j] for j in range(n) if act[j] != 0)] for r in range(m)]
        ok = True
        for c in range(m):
            p = next((r for r in range(c, m) if M[r][c] != 0), None)
            if p is None:
                ok = False
                break
            M[c], M[p] = M[p], M[c]
            for r in range(m):
                if r != c and M[r][c] != 0:
                    f = M[r][c] / M[c][c]
                    M[r] = [u - f * v for u, v in zip(M[r], M[c])]
        if not ok:
            continue
        for k, i in enumerate(free):
            x[i] = M[k][m] / M[k][k]
        if any((lo[i] > -BIG and x[i] < Fraction(lo[i])) or (hi[i] < BIG and x[i] > Fraction(hi[i])) for i in free):
            continue
        g = [sum(A[i][j] * x[j] for j in range(n)) - b[i] for i in range(n)]
        if all((act[i] == 0) or (act[i] == -1 and g[i] >= 0) or (act[i] == 1 and g[i] <= 0) for i in range(n)):
            return [float(v) for v in x], act
    return None


def parse(out):
    """-> list of runs; each: dict(algo, bounded, prob, n, case, status..., P line if any, Q data if any)"""
    runs, xs = [], []
    q = None
    pline = None
    for l in out.split("\n"):
        if l.startswith("Q "):
            f = [t.strip() for t in l.split("|")]
            n = int(f[0].split()[1])
            a = [float(v) for v in f[1].split()]
            q = {"n": n, "A": [a[i * n:(i + 1) * n] for i in range(n)], "b": [float(v) for v in f[2].split()],
                 "lo": [float(v) for v in f[3].split()], "hi": [float(v) for v in f[4].split()]}
        elif l.startswith("P "):
            pline = l
        elif l.startswith("X "):
            xs.append(l.split())
        elif l.startswith("M "):
            f = [t.strip() for t in l.split("|")]
            h = f[0].split()
            r = {"algo": h[1], "bounded": int(h[2]), "prob": h[3], "n": int(h[4]), "case": h[5], "how": f[-1], "line": l[:600], "P": pline, "Q": q if h[3] in "qt" else None,
                 "mls": (int(pline.split("|")[0].split()[9]) if pline and len(pline.split("|")[0].split()) > 9 else 10)}
            pline = None
            if r["how"] == "ok" and not f[1].startswith("EXC") and not f[1].startswith("-"):
                r["status"], r["it"], r["maxit"], r["samples"] = map(int, f[1].split())
                t = f[2].split()
                r["outside"], r["overshoot"], r["retout"] = int(t[0]), float(t[1]), int(t[2])
                r["rep"], r["true"], r["startrep"], r["starttrue"] = map(float, f[3].split())
                r["gn"], r["gfree"], r["thr"] = map(float, f[4].split())
                r["x"] = [float(v) for v in f[5].split()]
                if len(f) > 7 and f[6].startswith("E"):
                    r["E"] = [[float(v) for v in t.split()] for t in f[6][1:].split(";") if t.strip()]
            elif f[1].startswith("EXC"):
                r["exc"] = f[1]
            runs.append(r)
    return runs, xs


def describe(r):
    return "%s, %s, problem %s n=%d, case %s" % (r["algo"], "bounded" if r["bounded"] else "unbounded", r["prob"], r["n"], r["case"])


def c18_checks(run, runs, xs, args):
    for r in runs:
        run.coverage["evaluations"] += 1
        pay = {"harness_args": args, "case": r["case"], "algo": r["algo"], "line": r["line"]}
        if r["how"] != "ok":
            run.finding("terminates:%s" % r["algo"], "counterexample", "minimize() %s (%s)" % ("does not return within 10 s" if r["how"] == "TIMEOUT" else "crashes", describe(r)), pay)
            continue
        if "exc" in r:
            run.finding("exception:%s" % r["algo"], "counterexample", "minimize() throws %s (%s)" % (r["exc"], describe(r)), pay)
            continue
        if "status" not in r:
            continue
        invalid = r["status"] in (6, 7)
        if r["outside"] or r["retout"]:
            run.finding("feasible:%s" % r["algo"], "counterexample",
                        "%d state(s) passed to the user's call-backs lie outside the bounds (largest overshoot %.3e)%s (%s)" % (r["outside"], r["overshoot"], "; the returned state is outside the bounds" if r["retout"] else "", describe(r)), pay)
        elif r["maxit"] > 0 and r["it"] > r["maxit"]:
            run.finding("iterations:%s" % r["algo"], "counterexample", "%d iterations reported with a maximum of %d (%s)" % (r["it"], r["maxit"], describe(r)), pay)
        elif not invalid and not (r["rep"] == r["true"] or (math.isnan(r["rep"]) and math.isnan(r["true"]))):
            run.finding("reported-cost:%s" % r["algo"], "counterexample", "cost_function() = %.17g but the cost function at the returned state is %.17g (status %s; %s)" % (r["rep"], r["true"], STATUS.get(r["status"]), describe(r)), pay)
        elif not invalid and r["true"] > r["starttrue"] + 1e-9 * abs(r["starttrue"]) + 1e-12:
            run.finding("monotone:%s" % r["algo"], "counterexample", "the cost at the returned state, %.17g, exceeds the cost at the (projected) start, %.17g (%s)" % (r["true"], r["starttrue"], describe(r)), pay)
        elif not invalid and not close(r["startrep"], r["starttrue"]):
            run.finding("start-cost:%s" % r["algo"], "counterexample", "start_cost_function() = %.17g but the cost function at the start moved onto the box is %.17g (%s)" % (r["startrep"], r["starttrue"], describe(r)), pay)
        elif r["status"] == 0 and r["gfree"] > r["thr"] * (1 + 1e-6):
            run.finding("converged:%s" % r["algo"], "counterexample",
                        "status SUCCESS with threshold %.1e, but the norm of the gradient over the components not pinned to a bound by its sign is %.6g at the returned x=%s (%s)" % (r["thr"], r["gfree"], r["x"], describe(r)), pay)
        elif r["status"] not in STATUS or r["status"] in (5, 10, 1):
            run.finding("status:%s" % r["algo"], "counterexample", "minimize() returns status %d, which is not a final status (%s)" % (r["status"], describe(r)), pay)
    for t in xs:
        run.coverage["evaluations"] += 1
        if t[2] == "invalid-bounds" and (t[3] != "8" or t[4] != "8"):
            run.finding("status:invalid-bounds:%s" % t[1], "counterexample", "%s with lower >= upper bounds / bounds of the wrong length returns %s / %s instead of INVALID_BOUNDS (8)" % (t[1], t[3], t[4]), {"harness_args": args, "line": " ".join(t)})
        if t[2] == "non-finite-cost" and t[3] != "6":
            run.finding("status:non-finite-cost:%s" % t[1], "counterexample", "%s on a cost function that is NaN at the start returns %s instead of INVALID_COST_FUNCTION (6)" % (t[1], t[3]), {"harness_args": args, "line": " ".join(t)})


def c19_checks(run, runs, args, stats):
    for r in runs:
        if r.get("Q") is None or "status" not in r or r["maxit"] != 200 or r.get("mls", 10) != 10:
            continue          # default line-search budget only: with a limit of 2 iterations giving up is the documented outcome
        run.coverage["evaluations"] += 1
        q = r["Q"]
        pay = {"harness_args": args, "case": r["case"], "algo": r["algo"], "line": r["line"]}
        lo = q["lo"] if r["bounded"] else [-1.8e308] * q["n"]
        hi = q["hi"] if r["bounded"] else [1.8e308] * q["n"]
        key = (tuple(map(tuple, q["A"])), tuple(q["b"]), tuple(lo), tuple(hi))
        if key not in stats["kkt"]:
            stats["kkt"][key] = kkt_point(q["n"], q["A"], q["b"], lo, hi)
        sol = stats["kkt"][key]
        if sol is None:
            continue
        xs, act = sol
        if any(a != 0 for a in act):
            stats["on_face"] += 1
        budget = 20 * r["n"] + 50
        if r["status"] != 0:
            run.finding("status:%s" % r["algo"], "counterexample",
                        "strictly convex quadratic, %s: status %s after %d iterations at x=%s; the box-constrained minimum is %s (%s)" % ("box" if r["bounded"] else "no box", STATUS.get(r["status"], r["status"]), r["it"], r["x"], xs, describe(r)), pay)
        elif max(abs(a - b) for a, b in zip(r["x"], xs)) > 2 * r["thr"] + 1e-9:
            run.finding("kkt:%s" % r["algo"], "counterexample",
                        "strictly convex quadratic: status SUCCESS at x=%s but the point satisfying the first-order conditions of the box-constrained problem is %s (threshold %.1e; %s)" % (r["x"], xs, r["thr"], describe(r)), pay)
        elif r["it"] > budget:
            run.finding("budget:%s" % r["algo"], "counterexample", "strictly convex quadratic in %d variables: %d iterations, more than the budget 20n+50 = %d (%s)" % (r["n"], r["it"], budget, describe(r)), pay)
        stats["max_it"] = max(stats["max_it"], r["it"] if r["status"] == 0 else 0)


def correspondence(run, runs, args, stats):
    """every run for which the harness printed a P line (Levenberg family; conjugate gradient; bounded L-BFGS): the extracted
    model of that driver on doubles against the implementation"""
    model = os.path.join(C.OCAML, "driver_c18.exe")
    # runs with a line-search iteration limit of 2 (the search gives up) are checked against the property oracles only
    lm = [r for r in runs if r.get("P") and "status" in r and "E" in r and r.get("mls", 10) == 10]
    if not lm:
        return

    def run_model(rs, pert):
        p = subprocess.run([model, str(pert)], input="\n".join(r["P"] for r in rs) + "\n", capture_output=True, text=True, timeout=1800)
        return p.stdout.split("\n")

    def compare(r, line):
        """-> (identical, index of the first call-back at which the two differ (len = results only differ), why, margin)"""
        g = [t.strip() for t in line.split("|")]
        if len(g) < 5 or not g[0].startswith("R"):
            return False, 0, "model output: " + line[:200], 1.0
        mst, mit, mns = map(int, g[0].split()[1:])
        mc, msc, mgn = map(float, g[1].split())
        mx = [float(v) for v in g[2].split()]
        mev = [[float(v) for v in t.split()] for t in g[4][1:].split(";") if t.strip()]
        margin = float(g[3])
        tie_counts = [int(v) for v in g[5][1:].split()] if len(g) > 5 and g[5].startswith("T") else []
        tol = 1e-7

        def cl(a, b, t=tol):
            return a == b or (math.isnan(a) and math.isnan(b)) or abs(a - b) <= t * max(1.0, abs(a), abs(b))

        def tolk(k):
            # last-bit differences grow along an iteration (non-convex problems, tens of line searches): the tolerance on the
            # k-th distinct state doubles every 8 states, from 1e-7 up to 1e-3 (the Rosenbrock valley is that sensitive; runs
            # that differ in a decision differ in their counts or grossly in their states)
            return min(1e-3, tol * 2.0 ** (k / 8.0))
        # consecutive evaluations of the same state (to the tolerance) are compared as one: a step that lands exactly on a bound
        # in one arithmetic and one ulp inside it in the other only adds such repetitions (the variable is placed on the bound
        # and the cost evaluated again at what is, to the tolerance, the same state), after which the two runs coincide again
        def compress(seq):
            out, first = [], []
            for j, st in enumerate(seq):
                if not out or len(out[-1]) != len(st) or not all(cl(u, v) for u, v in zip(out[-1], st)):
                    out.append(st)
                    first.append(j)
            return out, first
        (ie, _), (me, mfirst) = compress(r["E"]), compress(mev)

        def tiny_sign(k):
            # the linear solver of the model returned, at or before the evaluation where the runs part, a component that is zero
            # up to rounding (below 1e-9 of the largest, or exactly zero where another solver returns 1e-17): its sign decides whether a variable at a bound is released
            # and is not the same in two solvers; the runs may then differ by when that variable is released
            raw = mfirst[k] if k < len(mfirst) else len(mev)
            return any(c <= raw + 1 for c in tie_counts)
        for k, (a, b) in enumerate(zip(ie, me)):
            if len(a) != len(b) or not all(cl(u, v, tolk(k)) for u, v in zip(a, b)):
                return False, k, "distinct call-back state %d: implementation evaluates %s, model %s" % (k, a, b), (0.0 if tiny_sign(k) else margin)
        n = min(len(ie), len(me))
        if len(ie) != len(me):
            # one run is a prefix of the other and ends there with FAILED_TO_CONVERGE: it could not lower the cost any more, by
            # an ulp, from a point where the other arithmetic still can - a tie at the level of the last bit of the cost
            short_status = r["status"] if len(ie) < len(me) else mst
            stall = short_status == 3
            return False, n, "%d distinct states passed to call-backs, model %d" % (len(ie), len(me)), (0.0 if (stall or tiny_sign(n)) else margin)
        same_reps = (len(r["E"]) - len(ie)) == (len(mev) - len(me))
        tl = tolk(n)
        if r["status"] in (0, 3) and mst in (0, 3) and (r["status"], r["it"], r["samples"]) != (mst, mit, mns) \
           and all(cl(u, v, tl) for u, v in zip(r["x"], mx)) and cl(r["rep"], mc, 1e-12):
            # both runs visit the same states and end at the same point with the same cost (to 1e-12); one stops (SUCCESS, or
            # gives up) where the other, one ulp of the cost away from the other side of a sufficient-decrease / cost-reduction
            # test, goes on for a few more trials without getting anywhere: a tie at the level of the last bit of the cost
            return False, n, "stall at rounding level: implementation %s, model %s at the same point" % (STATUS.get(r["status"]), STATUS.get(mst)), 0.0
        if (r["status"], r["it"]) != (mst, mit) or (same_reps and r["samples"] != mns):
            return False, n, "status/iterations/samples: implementation %s/%d/%d, model %s/%d/%d" % (STATUS.get(r["status"]), r["it"], r["samples"], STATUS.get(mst, mst), mit, mns), margin
        if not all(cl(u, v, tl) for u, v in zip(r["x"], mx)):
            return False, n, "returned x: %s, model %s" % (r["x"], mx), margin
        if r["status"] not in (6, 7) and not (cl(r["rep"], mc, tl) and cl(r["startrep"], msc)):
            return False, n, "reported cost / start cost: %.17g / %.17g, model %.17g / %.17g" % (r["rep"], r["startrep"], mc, msc), margin
        if r["status"] not in (6, 7) and not cl(r["gn"], mgn, max(1e-5, 100 * tl)):
            return False, n, "gradient norm: %.17g, model %.17g" % (r["gn"], mgn), margin
        return True, n, "", margin

    out = run_model(lm, 0)
    pending = []
    for r, line in zip(lm, out):
        ok, k, why, margin = compare(r, line)
        stats["lm_runs"] += 1
        if ok:
            stats["lm_same"] += 1
        else:
            pending.append((r, k, why, line, margin))
    # The implementation (LAPACK, vectorized dot products) and the model round differently.  A run of the model under a
    # different rounding (perturbation ids: light = solve / direction norm by one ulp, heavy = every multiplication and
    # division, the cost by one ulp, and 1-512 ulp of its largest component on every component of solve's result) that takes the
    # same way as the implementation at the point where the unperturbed model left it (it reproduces the next distinct
    # state) shows that the difference is one of rounding - typically a step that lands exactly on a bound in one arithmetic
    # and one ulp inside it in the other, or a component that is zero up to rounding and decides a release - not of control
    # flow: a different control flow is not reachable by noise of that size unless the decision was a tie.
    for pert in range(1, 41):
        if not pending:
            break
        out = run_model([p[0] for p in pending], pert)
        still = []
        for (r, k, why, line0, margin), line in zip(pending, out):
            ok, kp, _, _ = compare(r, line)
            if ok:
                stats["lm_same_perturbed"] += 1
            elif kp > k:
                stats["lm_explained_prefix"] = stats.get("lm_explained_prefix", 0) + 1
            else:
                still.append((r, k, why, line0, margin))
        pending = still
    for r, k, why, line, margin in pending:
        # decisions taken with a tiny relative margin may legitimately go the other way; conjugate gradient / L-BFGS on non-convex
        # problems run for tens of iterations over which last-bit differences are amplified, hence the wider margin there
        if margin < (1e-9 if r["algo"].startswith("Levenberg") else 1e-6):
            stats["lm_near_tie"] += 1
            continue
        run.finding("correspondence:%s" % r["algo"], "broken-obligation",
                    "the model of this driver (Minim.v / MinimCG.v / MinimLBFGS.v, to which the theorems of Properties_C18.v / C19.v apply) no longer reproduces the implementation: %s (%s)" % (why, describe(r)),
                    {"harness_args": args, "case": r["case"], "algo": r["algo"], "P": r["P"], "impl": r["line"], "model": line[:600]})


def check(run, replay=None, cid="C18"):
    tier, seed = run.tier, run.seed
    C.standard_coq_phase(run, cid, gens=("minim",) if cid == "C18" else ())
    ok, msg = C.ensure_ocaml()
    bd = C.build_dir()
    exe = os.path.join(bd, "c18")
    okc, cmd, log = C.cxx(os.path.join(C.HARNESS, "c18_minimizer.cpp"), exe, "-O1 -g -w -DHAVE_BLAS -DHAVE_LAPACK", libs="-llapack -lblas", hooks=False)
    if not ok or not okc:
        run.finding("build:c18", "broken-obligation", "cannot build the driver / the harness (LAPACK build) against the current tree: " + (msg or log)[-600:], {"cmd": cmd})
        return
    if replay is not None and "harness_args" in replay:
        arglist = [replay["harness_args"]]
    elif tier == "quick":
        arglist = ["5 4 %d" % (seed * 100 + k) for k in range(6)] + ["6 8 %d" % (seed * 100 + 50)]
    else:
        arglist = ["6 8 %d" % (seed * 1000 + k) for k in range(60)] + ["7 12 %d" % (seed * 1000 + 500 + k) for k in range(10)]
    stats = {"kkt": {}, "on_face": 0, "max_it": 0, "lm_runs": 0, "lm_same": 0, "lm_same_perturbed": 0, "lm_near_tie": 0}
    dist = {}
    nruns = 0
    sample = None
    for args in arglist:
        rc, so, se = C.sh("%s %s" % (exe, args), timeout=3600)
        if rc != 0:
            run.finding("harness:%s" % args, "counterexample", "the minimizer harness died (exit %d) with arguments %s: %s" % (rc, args, se[-400:].replace("\n", " ")), {"harness_args": args, "stderr": se[-2000:]})
            continue
        runs, xs = parse(so)
        nruns += len(runs)
        for r in runs:
            k = "%s/%s/%s" % (r["algo"], "box" if r["bounded"] else "free", r["prob"])
            dist[k] = dist.get(k, 0) + 1
            if "status" in r:
                dist["status:" + STATUS.get(r["status"], str(r["status"]))] = dist.get("status:" + STATUS.get(r["status"], str(r["status"])), 0) + 1
            if sample is None and r.get("status") == 0 and r["bounded"] and r["n"] >= 3 and r["prob"] == "q":
                sample = {"run": describe(r), "x": r["x"], "iterations": r["it"], "reported_cost": r["rep"]}
        if cid == "C18":
            c18_checks(run, runs, xs, args)
        else:
            c19_checks(run, runs, args, stats)
        correspondence(run, runs, args, stats)
    cov = run.coverage
    cov["distinct_nontrivial"] = nruns
    cov["traces_validated_against_impl"] = stats["lm_runs"]
    cov["correspondence"] = {"runs_compared_with_the_extracted_model": stats["lm_runs"], "identical_decisions": stats["lm_same"], "identical_under_a_rounding_perturbation": stats["lm_same_perturbed"], "divergence_explained_by_a_rounding_perturbation": stats.get("lm_explained_prefix", 0),
                             "discarded_near_ties": stats["lm_near_tie"]}
    cov["input_distribution"] = dist
    cov["samples"] = [sample or {"note": "no sample"}]
    cov["exhaustive"] = False
    if cid == "C19":
        cov["quadratics_with_solution_on_a_face"] = stats["on_face"]
        cov["largest_iteration_count_of_a_converged_run"] = stats["max_it"]
    cov["rule"] = ("harness arguments %s (largest dimension, box variants, seed): for each dimension and box variant (wide, tight around part of the solution, one-sided, tiny) "
                   "problems q (random SPD quadratic), r (Rosenbrock chain), l (quadratic minus logs, non-finite outside its domain), t (separable quadratic whose step from the "
                   "origin meets several faces at the same or nearly the same fraction) x 5 algorithms x {unbounded, bounded} x starts (inside, on faces, outside above, mixed outside, origin) "
                   "x settings (max iterations 5/40/200, threshold 1e-6/1e-3, max step, ensure_updated_state, line-search iteration limit 10 or 2).  %s" % (
                       arglist if len(arglist) < 9 else "%s ... (%d invocations)" % (arglist[:3], len(arglist)),
                       "Checked per run: every call-back argument and the returned state inside the box (exact), reported cost = cost at returned x, <= cost at the projected start, "
                       "SUCCESS => gradient norm over components not pinned by sign <= threshold, iterations <= maximum, return within 10 s, statuses for invalid bounds / NaN cost."
                       if cid == "C18" else
                       "Checked per strictly convex quadratic with max_iterations=200: status SUCCESS, returned x within 2*threshold of the exact KKT point (active-set enumeration over the rationals), iterations <= 20n+50."))
    run.assumptions += ["Minim.v, MinimCG.v, MinimLBFGS.v are hand models (tie = comparison of call-back sequences and results on every run)",
                        "the feasibility theorems for conjugate gradient and L-BFGS assume that a line search entered without bounds (no component of the direction points to a finite bound) cannot leave the box",
                        "LAPACK's solve, the norm, the finiteness test and the user's functions are Section variables of the model; in the comparison they are an OCaml elimination, sqrt of a sum of squares, Float.is_finite and the harness's problems re-implemented in OCaml",
                        "comparison rules (DESIGN.md section 4, C18): distinct states only (repeated evaluations of one state merged), tolerance 1e-7 growing to 1e-3 along a run, up to 40 rounding perturbations of the model (<= 1 ulp on operations and cost, <= 512 ulp of the largest component on the solver result, cancellation error on gradient components) to explain a divergence, direct recognition of ties (solver component zero up to rounding; same end point and cost after different numbers of trials; one run a prefix of the other ending FAILED_TO_CONVERGE), near-tie margins 1e-9 (Levenberg) / 1e-6 (CG, L-BFGS)",
                        "termination is observed (10 s alarm per call), not proved for floating point"]
    if cid == "C19":
        run.assumptions.append("'within an iteration budget proportional to the size' is explored with the budget 20n+50 on the generated quadratics (condition number below ~10), not proved")
