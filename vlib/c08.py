"""C08 — distinct gradient slots.  Model GapList.v (hand, tie H), theorems Properties_C08.v."""
import os, random
from . import common as C

CID = "C08"
SIZES = [1, 2, 3]


def exhaustive(L, max_live=5):
    """all maximal histories of length L over R1,R2,R3,U<k> (k < #live <= max_live); prefixes are
    covered because every step's state is compared"""
    out = []

    def rec(h, nlive):
        if len(h) == L:
            out.append(" ".join(h))
            return
        if nlive < max_live:
            for n in SIZES:
                rec(h + ["R%d" % n], nlive + 1)
        for k in range(nlive):
            rec(h + ["U%d" % k], nlive - 1)
    rec([], 0)
    return out


def random_histories(rng, count, length):
    out = []
    for _ in range(count):
        h, nlive = [], 0
        style = rng.choice(["mixed", "stacklike", "freemiddle", "growgap", "exactfit"])
        for _ in range(length):
            r = rng.random()
            if nlive == 0 or (r < 0.5 and nlive < 12):
                n = rng.choice([1, 1, 2, 3, 5]) if style != "exactfit" else rng.choice([2, 2, 3])
                h.append("R%d" % n); nlive += 1
            elif r < 0.53:
                h.append("N")
            else:
                if style == "stacklike":
                    k = 0 if rng.random() < 0.8 else rng.randrange(nlive)
                elif style == "freemiddle":
                    k = nlive // 2
                elif style == "growgap":
                    k = min(nlive - 1, rng.choice([1, 1, 2, 0]))
                else:
                    k = rng.randrange(nlive)
                h.append("U%d" % k); nlive -= 1
        out.append(" ".join(h))
    return out


def run_tool(cmd, hist, timeout=900):
    rc, so, se = C.sh(cmd, inp="\n".join(hist) + "\n", timeout=timeout)
    return rc, so.split("\n")[:len(hist)], se


def oracle(hist, outline):
    """the property itself, evaluated on the implementation's observable output alone"""
    live = []
    steps = outline.strip("|").split("|") if outline else []
    toks = hist.split()
    if len(steps) != len(toks):
        return "harness produced %d steps for %d operations" % (len(steps), len(toks))
    for t, (tok, st) in enumerate(zip(toks, steps)):
        ret, ig, mg, nreg, gaps = st.split(",")
        ret, ig, mg, nreg = int(ret), int(ig), int(mg), int(nreg)
        if tok[0] == "R":
            n = int(tok[1:])
            for (s, m) in live:
                if ret < s + m and s < ret + n:
                    return "step %d %s: returned block [%d,%d) overlaps live block [%d,%d)" % (t, tok, ret, ret + n, s, s + m)
            if ret < 0:
                return "step %d: negative index" % t
            live.insert(0, (ret, n))
        elif tok[0] == "U":
            k = int(tok[1:])
            if k < len(live):
                live.pop(k)
        for (s, m) in live:
            if s + m > mg:
                return "step %d: live index %d not below max_gradients()=%d" % (t, s + m - 1, mg)
        if nreg != sum(m for _, m in live):
            return "step %d: n_gradients_registered()=%d but %d live elements" % (t, nreg, sum(m for _, m in live))
    return None


def first_diff(a, b):
    sa, sb = a.strip("|").split("|"), b.strip("|").split("|")
    for i, (x, y) in enumerate(zip(sa, sb)):
        if x != y:
            return i
    return min(len(sa), len(sb))


def shrink(hist, pred):
    """greedy deletion of operations while pred(history) stays true; U indices may go out of range
    (then they are no-ops in model and harness alike)"""
    toks = hist.split()
    changed = True
    while changed and len(toks) > 1:
        changed = False
        for i in range(len(toks)):
            cand = toks[:i] + toks[i + 1:]
            if pred(" ".join(cand)):
                toks = cand
                changed = True
                break
    return " ".join(toks)


def check(run, replay=None):
    tier, seed = run.tier, run.seed
    rng = random.Random(seed * 7919 + 8)
    coq_ok = C.standard_coq_phase(run, CID, gens=("gaplist",))
    ok, msg = C.ensure_ocaml()
    bd = C.build_dir()
    exe = os.path.join(bd, "c08")
    okc, cmd, log = C.cxx(os.path.join(C.HARNESS, "c08_gaplist.cpp"), exe, "-O1 -g -w -fsanitize=address,undefined -fno-sanitize-recover=all")
    if not ok or not okc:
        run.finding("build:c08", "broken-obligation", "cannot build driver/harness against the current tree: " + (msg or log)[-600:], {"cmd": cmd})
        return
    model = os.path.join(C.OCAML, "driver_c08.exe")
    if replay is not None:
        hists = [replay["history"]]
    else:
        L = 6 if tier == "quick" else 7
        hists = exhaustive(L)
        nex = len(hists)
        hists += random_histories(rng, 300 if tier == "quick" else 12000, 120 if tier == "quick" else 200)
        corpus = os.path.join(C.VERIF, "corpus", CID)
        if os.path.isdir(corpus):
            for f in sorted(os.listdir(corpus)):
                hists.insert(0, open(os.path.join(corpus, f)).read().strip())
    rc, mo, se = run_tool(model, hists)
    cov = run.coverage
    nontriv = set()
    env_asan = "ASAN_OPTIONS=detect_leaks=1 "
    for mode in ("api", "obj"):
        rc, io, se = run_tool(env_asan + exe + " " + mode, hists)
        if rc != 0:
            run.finding("crash:%s" % mode, "counterexample", "harness (%s mode) died: %s" % (mode, se[-500:]), {"mode": mode, "stderr": se[-2000:]})
            continue

        def run1(hh, mode=mode):
            _, a, _ = run_tool(model, [hh]); _, b, _ = run_tool(env_asan + exe + " " + mode, [hh])
            return a[0], b[0]

        def report_counterexample(h):
            small = shrink(h, lambda hh: oracle(hh, run1(hh)[1]) is not None)
            a, b = run1(small)
            run.finding("oracle:%s:%s" % (mode, small), "counterexample",
                        "allocator violates the property on history [%s] (%s mode): %s" % (small, mode, oracle(small, b)),
                        {"history": small, "mode": mode, "model": a, "impl": b})
        orcs, mism = [], []
        for h, m, i in zip(hists, mo, io):
            cov["evaluations"] += 1
            if "-" in m:
                nontriv.add(h)
            if oracle(h, i) is not None:
                orcs.append(h)
            elif m != i:
                mism.append(h)
        if orcs:
            report_counterexample(min(orcs, key=len))
        elif mism:
            # the tie is broken: search the implementation for an input on which the property itself fails,
            # by random continuations of the (shrunk) disagreeing histories
            small = shrink(min(mism, key=len), lambda hh: (lambda ab: ab[0] != ab[1])(run1(hh)))
            a, b = run1(small)
            ext = []
            for base in [small] + mism[:20]:
                for _ in range(150):
                    toks = base.split()
                    nl = sum(1 for t in toks if t[0] == "R") - sum(1 for t in toks if t[0] == "U")
                    for _ in range(rng.randrange(1, 10)):
                        if nl <= 0 or rng.random() < 0.6:
                            toks.append("R%d" % rng.choice([1, 1, 2, 3])); nl += 1
                        else:
                            toks.append("U%d" % rng.randrange(nl)); nl -= 1
                    ext.append(" ".join(toks))
            _, eo, _ = run_tool(env_asan + exe + " " + mode, ext)
            bad = [h for h, o in zip(ext, eo) if oracle(h, o) is not None]
            cov["search_cases"] = cov.get("search_cases", 0) + len(ext)
            if bad:
                report_counterexample(min(bad, key=len))
            else:
                run.finding("correspondence:gaplist:%s" % mode, "broken-obligation",
                            "model GapList.v and adept::Stack (%s mode) disagree at step %d of [%s]: model %s / impl %s; "
                            "theorems of Properties_C08.v no longer speak about this code" % (mode, first_diff(a, b), small, a, b),
                            {"history": small, "mode": mode, "model": a, "impl": b, "correspondence": "GapList.step vs Stack::(un)register_gradient(s)"})
    cov["distinct_nontrivial"] = len(nontriv)
    cov["rule"] = ("histories over R1/R<n>/U<k>/N; exhaustive: every history of length %s over sizes {1,2,3} with <=5 live blocks, "
                   "each step compared in two modes (direct API, real adouble/aVector objects); random: structured styles "
                   "(stack-like, free-middle, grow-gap, exact-fit, mixed). Non-trivial = some step has a non-empty gap list (a slot is released out of order)."
                   % ("6 (quick)" if tier == "quick" else "7 (thorough)"))
    cov["exhaustive"] = replay is None
    cov["samples"] = [{"history": h[:200], "model_and_impl": m[:400]} for h, m in list(zip(hists, mo))[-2:]] + [{"history": hists[len(hists)//2], "model_and_impl": mo[len(hists)//2]}]
    cov["traces_validated_against_impl"] = cov["evaluations"]
    run.assumptions += ["GapList.v is a hand model; tie = every step of every history compared with the real Stack (exact integers)",
                        "32-bit int overflow of indices not modelled", "harness build: " + cmd]
