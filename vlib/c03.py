"""C03 — array-statement derivatives match those of the equivalent scalar loops.
Tie G: Gen_Ops.v (shared with C01).  Tie H: element-wise statements against the extracted ArrayStmt.aexec model.
Direct check of the property for the whole catalogue: every array statement against the scalar program it denotes
(std::vector<adouble> loops), full Jacobians and values."""
import os
from concurrent.futures import ThreadPoolExecutor
from . import common as C

CID = "C03"
X, Y, Z, T, P, S = "X", "Y", "Z", "T", "P", "s"


def b(k, l, r):
    return "(bin %s %s %s)" % (k, l, r)


def u(f, a):
    return "(un %s %s)" % (f, a)


def c(x):
    return "(const %s)" % repr(float(x))


def model_cases(p):
    """case number -> right-hand side of  T = e  (compound assignments unpacked as Array.h does)"""
    return {
        0: b("add", b("mul", X, Y), Z), 1: b("mul", X, b("mul", Y, Z)), 2: b("mul", b("mul", X, Y), Z),
        3: b("add", b("mul", S, X), b("mul", c(p), Y)),
        4: b("div", b("mul", u("sin", X), u("exp", Y)), b("add", c(2.0), b("mul", Z, Z))),
        5: b("pow", b("add", b("mul", X, X), c(1.0)), Y),
        6: b("add", T, b("mul", X, Y)), 7: b("sub", T, b("div", X, b("add", c(2.0), b("mul", Y, Y)))),
        8: b("mul", T, b("add", X, S)), 9: b("div", T, b("add", c(2.0), b("mul", Y, Y))),
        10: b("mul", b("max", X, Y), b("min", X, c(0.5))),
        28: b("add", b("mul", X, P), c(p)), 30: b("mul", X, S),
        39: b("mul", X, b("mul", Y, b("mul", Z, X))),
        40: b("mul", b("mul", b("sub", X, Y), b("div", Y, Z)), b("atan2", X, Z)),
        41: b("add", b("mul", u("uminus", X), u("abs", Y)), b("mul", u("sqrt", b("add", b("mul", Z, Z), c(1.0))), u("tanh", X))),
        42: X, 46: b("mul", X, Y), 47: b("mul", Z, b("mul", u("sin", X), Y)), 48: b("mul", b("mul", u("sin", X), Y), Z),
    }


DESCR = {0: "T = X*Y+Z", 1: "T = X*(Y*Z)", 2: "T = (X*Y)*Z", 3: "T = s*X+p*Y", 4: "T = sin(X)*exp(Y)/(2+Z*Z)", 5: "T = pow(X*X+1,Y)", 6: "T += X*Y",
         7: "T -= X/(2+Y*Y)", 8: "T *= X+s", 9: "T /= 2+Y*Y", 10: "T = max(X,Y)*min(X,0.5)", 11: "T = noalias(X*Y)", 12: "T = Z*noalias(X*Y)",
         13: "T.where(P>0) = X*Y", 14: "T.where(X>Y) = either_or(X*Z,Y)", 15: "s2 = sum(X*Y)", 16: "s2 = mean(X*Z+Y)", 17: "s2 = product(1+0.1*X)",
         18: "s2 = maxval(X*Y)", 19: "s2 = minval(X+Z)", 20: "s2 = norm2(X*Y)", 21: "s2 = dot_product(X,Y*Z)", 22: "T = X(idx)*Y", 23: "T(idx) = X*Y",
         24: "M2 = M*N+spread<0>(X,m)", 25: "M2 = outer_product(M(__,0),X)*N", 26: "T = sum(M*N,0)", 27: "R = sum(M,1)/(1+sum(N*N,1)); s2 = sum(R)",
         28: "T = X*P+p", 29: "T = P*X*Y", 30: "T = X*s", 31: "T = s", 32: "T = p", 33: "T = eval(X*Y)*Z", 34: "M2 = M*s+N/(1.5+M*M)", 35: "M2 *= M",
         36: "T = product(1+0.1*M,0)", 37: "T = mean(M*N,0)+maxval(M,0)-minval(N,0)", 38: "s2 = sum(M*spread<0>(X,m))", 39: "T = X*(Y*(Z*X))",
         40: "T = (X-Y)*(Y/Z)*atan2(X,Z)", 41: "T = -X*abs(Y)+sqrt(Z*Z+1)*tanh(X)", 42: "T = X", 43: "T = X*X(idx)", 44: "T = norm2(M,0)",
         45: "M2 = M.T().T()*transpose(transpose(N))", 46: "T = X*noalias(Y)", 47: "T = Z*noalias(sin(X)*Y)", 48: "T = noalias(sin(X)*Y)*Z",
         49: "{adouble tmp = X(0)*Y(0);} s2 = product(1+0.1*X)", 50: "{adouble tmp ...} s2 = sum(X*Z)", 51: "{adouble tmp ...} s2 = maxval(X*Z)+minval(Y)+norm2(Z)+mean(X)", 52: "s2 = sum(diag_vector(M*N,-1))", 53: "s2 = sum(diag_vector(M*N,1))", 54: "s2 = sum(diag_vector(M*N))", 55: "M2.where(M>N) = M(__,reversed)*N", 56: "M2.where(N>0.3) = either_or(M*s, N(__,reversed))", 57: "M2.where(all) = M*N+spread<0>(X,m)"}
VIEWS = ["plain", "stride 2", "reversed"]


def close(a, bb, rel=1e-9):
    return a == bb or abs(a - bb) <= 1e-11 + rel * max(abs(a), abs(bb))


def check(run, replay=None):
    tier, seed = run.tier, run.seed
    C.standard_coq_phase(run, CID, gens=("ops", "reduce"))
    ok, msg = C.ensure_ocaml()
    if not ok:
        run.finding("build:c03", "broken-obligation", "cannot build the model driver: " + msg[-600:], {})
        return
    bd = C.build_dir()
    exe = os.path.join(bd, "c03")
    okc, cmd, log = C.cxx(os.path.join(C.HARNESS, "c03_arrays.cpp"), exe, "-O0 -g -w")
    if not okc:
        run.finding("build:c03:harness", "broken-obligation", "harness does not compile against the current tree: " + log[-600:], {"cmd": cmd})
        return
    sizes = [(1, 1), (2, 1), (3, 2), (5, 3), (8, 2), (9, 4)] if tier == "quick" else [(n, m) for n in (1, 2, 3, 4, 5, 7, 8, 9, 16, 17) for m in (1, 2, 3, 5)]
    seeds = [seed] if tier == "quick" else [seed, seed + 1, seed + 2]
    jobs = [(n, m, s) for (n, m) in sizes for s in seeds]
    if replay is not None and "case" in replay:
        jobs = [(replay["n"], replay["m"], replay["seed"])]

    def runjob(j):
        return j, C.sh("%s %d %d %d" % (exe, j[0], j[1], j[2]), timeout=900)
    with ThreadPoolExecutor(max_workers=16) as ex:
        results = list(ex.map(runjob, jobs))
    cov = run.coverage
    ncase = nz_total = 0
    dist = {}
    model_lines, model_expect = [], {}
    samples = []
    for (n, m, sd), (rc, so, se) in results:
        lines = so.split("\n")
        last_b = [l for l in lines if l.startswith("B ")][-1:] or ["?"]
        if rc != 0:
            t = last_b[0].split()
            desc = DESCR.get(int(t[1]), t[1]) if len(t) > 1 else "?"
            run.finding("crash:case%s" % (t[1] if len(t) > 1 else "?"), "counterexample",
                        "harness died (exit %d) in statement '%s' with n=%d m=%d view %s: %s" % (rc, desc, n, m, VIEWS[int(t[4])] if len(t) > 4 else "?", se[-300:]),
                        {"case": int(t[1]) if len(t) > 1 else -1, "n": n, "m": m, "seed": sd, "stderr": se[-1500:]})
        pending_x = None
        for l in lines:
            t = l.split()
            if not t:
                continue
            if t[0] == "C":
                ncase += 1
                cs, vm = int(t[1]), int(t[4])
                nz_total += int(t[9])
                dist[DESCR.get(cs, str(cs))] = dist.get(DESCR.get(cs, str(cs)), 0) + 1
                if t[10] != "ok":
                    run.finding("jacobian:case%d" % cs, "counterexample",
                                "array statement '%s' (n=%d, m=%d, %s views) and the scalar program it denotes differ: max relative Jacobian difference %s, value difference %s; %s"
                                % (DESCR.get(cs, cs), n, m, VIEWS[vm], t[7], t[8], " ".join(t[11:])),
                                {"case": cs, "n": n, "m": m, "seed": sd, "view": VIEWS[vm], "line": l})
                elif len(samples) < 3 and cs in (1, 14, 25) and n >= 3:
                    samples.append({"statement": DESCR[cs], "n": n, "m": m, "view": VIEWS[vm], "harness_line": l})
            elif t[0] == "X":
                pending_x = t
            elif t[0] == "J" and pending_x is not None:
                cs, vm, nn = int(t[1]), int(t[2]), int(t[3])
                xv = [float(x) for x in pending_x[4:]]
                p = xv[5 * nn + 1]
                e = model_cases(p).get(cs)
                if e is not None:
                    cid = "k%d_%d_%d_%d_%d" % (cs, nn, m, vm, sd)
                    model_lines.append("%s %d | %s | %s" % (cid, nn, e, " ".join(repr(x) for x in xv[:5 * nn + 1])))
                    model_expect[cid] = ([float(x) for x in t[4:]], cs, nn, m, vm, sd)
                pending_x = None
    # tie: model Jacobians of the element-wise statements
    rcm, mo, me = C.sh(os.path.join(C.OCAML, "driver_c03.exe"), inp="\n".join(model_lines) + "\n", timeout=600)
    got = {}
    for l in mo.split("\n"):
        t = l.split()
        if len(t) > 2 and t[1] == "J":
            got[t[0]] = [float(x) for x in t[2:]]
    ntie = 0
    for cid, (jimpl, cs, nn, m, vm, sd) in model_expect.items():
        jm = got.get(cid)
        ntie += 1
        if jm is None or len(jm) != len(jimpl):
            run.finding("driver:c03", "broken-obligation", "model driver gave no Jacobian for %s: %s" % (cid, me[-200:]), {"id": cid})
            continue
        bad = [k for k in range(len(jm)) if not close(jm[k], jimpl[k])]
        if bad:
            k = bad[0]
            run.finding("correspondence:elementwise:case%d" % cs, "broken-obligation",
                        "model ArrayStmt.aexec and the implementation disagree on the Jacobian of '%s' (n=%d, %s views): entry (output %d, input %d) model %r / implementation %r; "
                        "theorems of Properties_C03.v no longer speak about this code" % (DESCR.get(cs, cs), nn, VIEWS[vm], k // (4 * nn + 1), k % (4 * nn + 1), jm[k], jimpl[k]),
                        {"case": cs, "n": nn, "m": m, "seed": sd, "correspondence": "ArrayStmt.aexec + Tape.rev_sweep vs Stack::jacobian"})
    cov["evaluations"] = ncase
    cov["distinct_nontrivial"] = nz_total
    cov["traces_validated_against_impl"] = ntie
    cov["distribution"] = dist
    cov["samples"] = samples or [{"note": "no sample collected"}]
    cov["exhaustive"] = False
    cov["rule"] = ("catalogue of %d active array statements (element-wise operators and functions, scalar broadcast, compound assignment, noalias, eval, where / either_or, "
                   "sum mean product maxval minval norm2 over all elements and over one dimension, dot_product, integer-vector indexing as source and target, spread, "
                   "outer_product, transposes, rank-2 statements, reductions after a temporary has died) x views {plain, stride 2, reversed} x sizes %s; each compared with the "
                   "scalar program it denotes: full Jacobian (all outputs x all inputs) and values; element-wise cases additionally against the extracted model. "
                   "Non-trivial = number of non-zero Jacobian entries compared." % (len(DESCR), sizes))
    run.assumptions += ["Gen_Ops.v regenerated from the source on every run (shared with C01)",
                        "ArrayStmt.v is a hand model of the element loop for rank-1 element-wise statements; reductions, indexing, where, spread, outer_product, rank > 1 and "
                        "FixedArray loops are not modelled: for them the array-vs-scalar-loop comparison is the only evidence (partial)",
                        "the scalar programs are recorded by the same library (Active<T>), whose correctness is C01",
                        "tolerances: Jacobian 1e-9 relative, values 1e-10"]
