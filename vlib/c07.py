"""C07 — array data lives while referenced; only copy-construction and link share it.
Model Storage.v (tie H).  Independent specification: a Python object model in which arrays reference
blocks, construction/link/slice share the block and `=` copies values."""
import os, random, itertools
from . import common as C

CID = "C07"
NS, NB, BL = 6, 2, 4


class Block:
    def __init__(self, vals, owned):
        self.v = list(vals)
        self.owned = owned      # library-owned (counted by n_storage_objects) or user memory


class Spec:
    """the behaviour the property demands"""

    def __init__(self):
        self.a = [None] * NS     # None or dict(block, off, len, owner)
        self.bufs = [Block([900 + 10 * k + j for j in range(BL)], False) for k in range(NB)]

    def vals(self, x):
        return x["block"].v[x["off"]:x["off"] + x["len"]] if x["block"] else []

    def owners(self, b):
        return sum(1 for x in self.a if x and x["block"] is b and x["owner"])

    def nobj(self):
        return len(set(id(x["block"]) for x in self.a if x and x["owner"] and x["block"] is not None))

    def assign(self, i, vals):
        x = self.a[i]
        if x["block"] is None:
            if vals:
                self.a[i] = dict(block=Block(vals, True), off=0, len=len(vals), owner=True)
        elif x["len"] == len(vals):
            x["block"].v[x["off"]:x["off"] + x["len"]] = list(vals)

    def dangling_risk(self, i):
        """would releasing slot i free a block that a non-owning live array still addresses?"""
        x = self.a[i]
        if not x or not x["owner"] or x["block"] is None:
            return False
        if self.owners(x["block"]) > 1:
            return False
        return any(y and y is not x and y["block"] is x["block"] and not y["owner"] for y in self.a)

    def apply(self, t):
        op = t[0]
        a = self.a
        if op == "N":
            _, i, n, v = t
            if a[i] is None and n > 0:
                a[i] = dict(block=Block([v] * n, True), off=0, len=n, owner=True)
        elif op == "E":
            if a[t[1]] is None:
                a[t[1]] = dict(block=None, off=0, len=0, owner=False)
        elif op in ("C", "F"):
            _, i, j = t
            if a[i] is None and a[j] is not None:
                a[i] = dict(a[j])
                if op == "F":
                    a[i]["owner"] = False
        elif op == "S":
            _, i, j, b, n = t
            if a[i] is None and a[j] is not None and b + n <= a[j]["len"] and n > 0:
                a[i] = dict(block=a[j]["block"], off=a[j]["off"] + b, len=n, owner=a[j]["owner"])
        elif op == "X":
            _, i, k = t
            if a[i] is None:
                a[i] = dict(block=self.bufs[k], off=0, len=BL, owner=False)
        elif op == "L":
            _, i, j = t
            if a[i] is not None and a[j] is not None and i != j and a[j]["block"] is not None:
                a[i] = dict(a[j])
        elif op == "A":
            _, i, j = t
            if a[i] is not None and a[j] is not None:
                self.assign(i, self.vals(a[j]))
        elif op == "MO":
            _, i, n, v = t
            if a[i] is not None and n > 0:
                x = a[i]
                sole = x["block"] is not None and x["owner"] and self.owners(x["block"]) == 1
                if x["block"] is None or (sole and x["len"] == n):
                    # the target may take the temporary's data: for a sole owner that is indistinguishable from copying,
                    # except that a whole-block owner viewing part of a larger block keeps only n values
                    a[i] = dict(block=Block([v] * n, True), off=0, len=n, owner=True)
                elif sole:
                    pass                      # size_mismatch
                else:
                    self.assign(i, [v] * n)
        elif op == "MX":
            _, i, k = t
            if a[i] is not None:
                self.assign(i, self.bufs[k].v)
        elif op == "MS":
            _, i, j, b, n = t
            if a[i] is not None and a[j] is not None and b + n <= a[j]["len"] and n > 0:
                self.assign(i, self.vals(a[j])[b:b + n])
        elif op == "R":
            _, i, n = t
            if a[i] is not None:
                a[i] = dict(block=Block([0] * n, True), off=0, len=n, owner=True) if n > 0 else dict(block=None, off=0, len=0, owner=False)
        elif op == "CL":
            if a[t[1]] is not None:
                a[t[1]] = dict(block=None, off=0, len=0, owner=False)
        elif op == "D":
            a[t[1]] = None
        elif op == "W":
            _, i, k, v = t
            if a[i] is not None and k < a[i]["len"]:
                a[i]["block"].v[a[i]["off"] + k] = v

    def show(self, after_resize_slot=None):
        parts = ["%d ;" % self.nobj()]
        for i, x in enumerate(self.a):
            if x is None:
                parts.append(" -")
            else:
                nl = self.owners(x["block"]) if (x["owner"] and x["block"] is not None) else 0
                parts.append(" %d:%d:%s" % (x["len"], nl, ",".join(map(str, self.vals(x)))))
        parts.append(" ;")
        for b in self.bufs:
            parts.append(" " + ",".join(map(str, b.v)))
        return "".join(parts)


def gen_history(rng, length):
    sp = Spec()
    toks = []
    for _ in range(length):
        livei = [i for i in range(NS) if sp.a[i] is not None]
        deadi = [i for i in range(NS) if sp.a[i] is None]
        cands = []
        if deadi:
            i = rng.choice(deadi)
            cands += [("N", i, rng.randrange(1, 5), rng.randrange(1, 9))] * 3 + [("E", i)]
            if livei:
                j = rng.choice(livei)
                cands += [("C", i, j)] * 2 + [("F", i, j)]
                if sp.a[j]["len"] >= 1:
                    n = rng.randrange(1, sp.a[j]["len"] + 1)
                    cands += [("S", i, j, rng.randrange(0, sp.a[j]["len"] - n + 1), n)] * 2
            cands += [("X", i, rng.randrange(NB))]
        if livei:
            i = rng.choice(livei)
            j = rng.choice(livei)
            cands += [("A", i, j)] * 2 + [("MO", i, rng.choice([sp.a[i]["len"] or 2, rng.randrange(1, 5)]), rng.randrange(10, 19))] * 2
            cands += [("MX", i, rng.randrange(NB))] * 2
            if sp.a[j]["len"] >= 1:
                n = rng.choice([sp.a[i]["len"], rng.randrange(1, sp.a[j]["len"] + 1)])
                if 1 <= n <= sp.a[j]["len"]:
                    cands += [("MS", i, j, rng.randrange(0, sp.a[j]["len"] - n + 1), n)]
            if i != j:
                cands += [("L", i, j)]
            cands += [("R", i, rng.randrange(0, 5)), ("CL", i), ("D", i)] + [("W", i, rng.randrange(0, max(1, sp.a[i]["len"])), rng.randrange(20, 99))] * 3
        t = rng.choice(cands)
        # never free a block that a soft link still addresses (user error outside the property)
        if t[0] in ("L", "R", "CL", "D", "MO") and sp.dangling_risk(t[1]):
            continue
        sp.apply(t)
        toks.append(t)
    return toks


def text(toks):
    return " ".join(" ".join(map(str, t)) for t in toks)


def spec_output(toks):
    sp = Spec()
    out = []
    for t in toks:
        sp.apply(t)
        out.append(sp.show())
    return out


def parse_steps(line):
    body = line.split("END")[0]
    return [p.strip().replace("! ", "") for p in body.split("|") if p.strip()], line.split("END")[1] if "END" in line else ""


def check(run, replay=None):
    tier, seed = run.tier, run.seed
    rng = random.Random(seed * 7919 + 7)
    C.standard_coq_phase(run, CID, gens=("globals",))
    ok, msg = C.ensure_ocaml()
    if not ok:
        run.finding("build:ocaml", "broken-obligation", msg, {})
        return
    exes = []
    for tag, fl in (("rank1", ""), ("rank2", "-DC07_RANK2")):
        exe = os.path.join(C.build_dir(), "c07_" + tag)
        okc, cmd, log = C.cxx(os.path.join(C.HARNESS, "c07_storage.cpp"), exe, "-O0 -g -w -fsanitize=address,undefined -fno-sanitize-recover=all " + fl)
        if not okc:
            run.finding("build:c07:" + tag, "broken-obligation", "cannot build the harness: " + log[-600:], {"cmd": cmd})
            return
        exes.append((tag, exe))
    model = os.path.join(C.OCAML, "driver_c07.exe")
    if replay is not None:
        hists = [[tuple(int(x) if x.lstrip("-").isdigit() else x for x in grp) for grp in replay["ops"]]]
    else:
        hists = [gen_history(rng, rng.randrange(3, 41)) for _ in range(1500 if tier == "quick" else 30000)]
        # systematic: every ordered pair of (construction kind, assignment kind, release order) on two or three slots
        ctor = [[("N", 0, 3, 5)], [("N", 1, 3, 5), ("C", 0, 1)], [("N", 1, 4, 5), ("S", 0, 1, 1, 3)], [("X", 0, 0)], [("N", 1, 3, 5), ("F", 0, 1)], [("E", 0)]]
        asg = [[("N", 2, 3, 7), ("A", 0, 2)], [("MO", 0, 3, 8)], [("MO", 0, 2, 8)], [("MX", 0, 1)], [("N", 2, 4, 7), ("MS", 0, 2, 1, 3)], [("N", 2, 3, 7), ("L", 0, 2)]]
        fin = [[("W", 0, 0, 55)], [("W", 2, 0, 56), ("D", 2)], [("D", 0)], [("R", 0, 2)], [("CL", 0), ("D", 1)]]
        for c, a_, f in itertools.product(ctor, asg, fin):
            sp = Spec()
            h = []
            for t in c + a_ + f + [("D", 0), ("D", 2), ("D", 1)]:
                if t[0] in ("L", "R", "CL", "D", "MO") and sp.dangling_risk(t[1]):
                    continue
                sp.apply(t)
                h.append(t)
            hists.append(h)
    lines = [text(h) for h in hists]
    inp = "\n".join(lines) + "\n"
    rcm, mo, _ = C.sh(model, inp=inp, timeout=900)
    mo = mo.split("\n")
    cov = run.coverage
    nontriv = set()
    for tag, exe in exes:
        rc, io, se = C.sh("ASAN_OPTIONS=detect_leaks=1 " + exe, inp=inp, timeout=900)
        io = io.split("\n")
        if rc != 0:
            k = min(len([x for x in io if x.strip()]), len(hists) - 1)
            h = list(hists[k])

            def crashes(hh):
                r, o, e = C.sh("ASAN_OPTIONS=detect_leaks=1 " + exe, inp=text(hh) + "\n", timeout=60)
                return r != 0, e
            if crashes(h)[0]:
                changed = True
                while changed and len(h) > 1:
                    changed = False
                    for d in range(len(h)):
                        cand = h[:d] + h[d + 1:]
                        if crashes(cand)[0]:
                            h, changed = cand, True
                            break
            _, e = crashes(h)
            run.finding("crash", "counterexample", "(" + tag + " build) life-cycle history [%s] crashes (double free / use after free / leak reported by ASan): %s"
                        % (text(h)[:300], [x for x in e.split("\n") if "ERROR" in x or "SUMMARY" in x][:2]), {"ops": [list(map(str, t)) for t in h]})
            # carry on with the histories after the crashing one
            rest = lines[k + 1:]
            if rest:
                rc3, io3, se3 = C.sh("ASAN_OPTIONS=detect_leaks=1 " + exe, inp="\n".join(rest) + "\n", timeout=900)
                io = io[:k] + [""] + io3.split("\n")
        for h, l, a, b in zip(hists, lines, mo, io):
            cov["evaluations"] += 1
            if not b.strip():
                continue
            steps, tail = parse_steps(b)
            want = spec_output(h)
            payload = {"ops": [list(map(str, t)) for t in h]}
            # (1) the property, from the specification alone
            bad = None
            for k, (s, w) in enumerate(zip(steps, want)):
                if s != w:
                    bad = (k, s, w)
                    break
            if bad is None and "leak=0" not in tail:
                run.finding("spec:leak", "counterexample", "(" + tag + " build) history [%s]: library-owned data not released after all arrays were destroyed (%s)" % (l[:300], tail.strip()), payload)
                continue
            if bad is not None:
                k, s, w = bad
                opn = h[k][0]
                run.finding("spec:%s" % opn, "counterexample",
                            "(" + tag + " build) history [%s]: after step %d (%s) the implementation shows [%s] but sharing/copy semantics require [%s]" % (l[:300], k, " ".join(map(str, h[k])), s, w), payload)
                continue
            if any(t[0] in ("C", "S", "L") for t in h) and any(t[0] in ("A", "MO", "MX", "MS") for t in h):
                nontriv.add(l)
            # (2) correspondence with the Coq model
            msteps, mtail = parse_steps(a)
            if msteps != steps:
                kk = next((k for k, (x, y) in enumerate(zip(msteps, steps)) if x != y), min(len(msteps), len(steps)))
                run.finding("correspondence:storage", "broken-obligation", "Storage.v and adept::Array disagree at step %d of [%s]: model [%s] impl [%s]"
                            % (kk, l[:300], msteps[kk] if kk < len(msteps) else "", steps[kk] if kk < len(steps) else ""), payload)
            elif "faults=0" not in mtail:
                run.finding("model:fault", "broken-obligation", "the model reports a link operation on freed storage for [%s]" % l[:300], payload)
    cov["distinct_nontrivial"] = len(nontriv)
    cov["samples"] = [{"history": lines[0]}, {"history": lines[len(lines) // 2]}]
    cov["rule"] = ("histories of sized/default/copy/slice/soft-link/external-buffer construction, link, copy assignment, move assignment from an owning temporary, from a temporary on "
                   "external memory and from an rvalue slice, resize, clear, destruction and element writes over a pool of 6 Vectors and 2 external buffers, and the same histories on n x 1 Matrix objects (Array<2> constructors, row-range slices, resize(n,1)); random (3-40 operations) plus all "
                   "combinations of 6 construction kinds x 6 assignment kinds x 5 continuations; after every operation n_storage_objects(), every array's length, link count and values and "
                   "the external buffers are compared with a Python specification (share on construction/link/slice, copy on '=') and with the Coq model; ASan with leak detection. "
                   "Non-trivial = history with both a sharing operation and an assignment.")
    cov["traces_validated_against_impl"] = cov["evaluations"]
    run.assumptions += ["rank-1 arrays and n x 1 matrices, contiguous views (the model is rank-agnostic: element counts and link counts)",
                        "histories never free data that a soft link still addresses (user responsibility by the documentation)",
                        "FixedArray and SpecialMatrix objects use the same Storage link protocol; not in the harness"]
