"""C06 — views address exactly the elements their index expressions denote.
Model View.v (tie H).  Independent oracle: Python nested lists of parent indices with ordinary
list slicing (the *denotation*), compared with the implementation directly."""
import os, random, itertools
from . import common as C

CID = "C06"


# ------------------------------------------------------------------ denotational oracle (nested lists)
def shape(a):
    s = []
    while isinstance(a, list):
        s.append(len(a))
        a = a[0] if a else None
    return s


def flat(a):
    if not isinstance(a, list):
        return [a]
    return [x for b in a for x in flat(b)]


def build(dims, start=0):
    if not dims:
        return start
    n = 1
    for d in dims[1:]:
        n *= d
    return [build(dims[1:], start + i * n) for i in range(dims[0])]


def sl(a, args):
    if not args:
        return a
    k = args[0]
    if k[0] == "s":
        return sl(a[k[1]], args[1:])
    b, e, s = k[1], k[2], k[3]
    idx = list(range(b, e + (1 if s > 0 else -1), s))
    return [sl(a[i], args[1:]) for i in idx]


def get(a, idx):
    for i in idx:
        a = a[i]
    return a


def apply_den(a, op):
    kind = op[0]
    if kind == "S":
        return sl(a, op[1])
    if kind == "I":
        return a[op[1]]
    if kind == "T":
        return [list(r) for r in zip(*a)]
    if kind == "M":
        p = op[1]
        sh = shape(a)
        nsh = [sh[k] for k in p]

        def rec(prefix):
            if len(prefix) == len(p):
                old = [0] * len(p)
                for i, k in enumerate(p):
                    old[k] = prefix[i]
                return get(a, old)
            return [rec(prefix + [i]) for i in range(nsh[len(prefix)])]
        return rec([])
    if kind == "G":
        k = op[1]
        n = len(a)
        return [a[i][i + k] for i in range(n - k)] if k >= 0 else [a[i - k][i] for i in range(n + k)]
    if kind == "U":
        ib, ie = op[1], op[2]
        return [r[ib:ie + 1] for r in a[ib:ie + 1]]
    if kind == "H":
        f = flat(a)

        def rec(dims, off):
            if not dims:
                return f[off]
            n = 1
            for d in dims[1:]:
                n *= d
            return [rec(dims[1:], off + i * n) for i in range(dims[0])]
        return rec(op[1], 0)
    if kind == "L":
        return a
    raise ValueError(kind)


# ------------------------------------------------------------------ program generation
def absarg(rng, d, allow_end, style=None):
    """scalar index 0..d-1 as ('s', value, text-impl, text-model)"""
    i = rng.randrange(d)
    if allow_end and rng.random() < 0.4:
        return ("s", i), "e %d" % (i - (d - 1))
    return ("s", i), "s %d" % i


def rangearg(rng, d, allow_end):
    s = rng.choice([1, 1, 2, 3, -1, -1, -2, -3])
    b, e = rng.randrange(d), rng.randrange(d)
    if (s > 0 and b > e) or (s < 0 and b < e):
        b, e = e, b
    if rng.random() < 0.2:
        return ("r", 0, d - 1, 1), "a"
    if allow_end and rng.random() < 0.4:
        return ("r", b, e, s), "R %d %d %d" % (b - (d - 1), e - (d - 1), s)
    return ("r", b, e, s), "r %d %d %d" % (b, e, s)


def gen_program(rng, maxops=5):
    rank = rng.choice([1, 1, 2, 2, 2, 3, 3, 4])
    dims = [rng.randrange(1, 6) for _ in range(rank)]
    if rank == 2 and rng.random() < 0.5:
        dims[1] = dims[0]
    if rank == 1 and rng.random() < 0.5:
        dims = [rng.choice([4, 6, 8, 12, 16, 24])]
    text = ["P %d %s" % (rank, " ".join(map(str, dims)))]
    ops = []
    a = build(dims)
    for _ in range(rng.randrange(1, maxops + 1)):
        sh = shape(a)
        r = len(sh)
        if r == 0:
            break
        choices = ["S", "S", "S", "L"]
        if r > 1:
            choices += ["I", "M"]
        if r == 2:
            choices += ["T", "T"]
            if sh[0] == sh[1]:
                choices += ["G", "G", "U"]
        if r == 1 and sh[0] in (4, 6, 8, 12, 16, 24):
            choices += ["H", "H"]
        k = rng.choice(choices)
        if k == "S":
            args, txt = [], []
            full = r <= 3
            for d in sh:
                if rng.random() < 0.35 and r > 0:
                    x, t = absarg(rng, d, full)
                else:
                    x, t = rangearg(rng, d, full)
                args.append(x)
                txt.append(t)
            op = ("S", args)
            text.append("S %d %s" % (r, " ".join(txt)))
        elif k == "I":
            i = rng.randrange(sh[0])
            op = ("I", i)
            text.append(("I %d" % i) if rng.random() < 0.5 else ("J %d" % (i - (sh[0] - 1))))
        elif k == "T":
            op = ("T",)
            text.append("T")
        elif k == "M":
            p = list(range(r))
            rng.shuffle(p)
            op = ("M", p)
            text.append("M %d %s" % (r, " ".join(map(str, p))))
        elif k == "G":
            kk = rng.randrange(-(sh[0] - 1), sh[0])
            op = ("G", kk)
            text.append("G %d" % kk)
        elif k == "U":
            ib = rng.randrange(sh[0])
            ie = rng.randrange(ib, sh[0])
            op = ("U", ib, ie)
            text.append("U %d %d" % (ib, ie))
        elif k == "H":
            n = sh[0]
            facs = [d for d in (2, 3, 4) if n % d == 0]
            d0 = rng.choice(facs)
            nd = [d0, n // d0]
            if nd[1] % 2 == 0 and nd[1] > 2 and rng.random() < 0.4:
                nd = [d0, 2, nd[1] // 2]
            op = ("H", nd)
            text.append("H %d %s" % (len(nd), " ".join(map(str, nd))))
        else:
            op = ("L",)
            text.append("L")
        a = apply_den(a, op)
        ops.append(op)
        if not flat(a):
            break
    return " ".join(text), dims, a


def exhaustive_slices():
    """every admissible single slice of parents of rank 1-2 with extents <= 3 (strides -2..2)"""
    out = []
    for dims in [[1], [2], [3], [1, 2], [2, 2], [3, 2], [2, 3], [3, 3]]:
        per_dim = []
        for d in dims:
            alts = [(("s", i), "s %d" % i) for i in range(d)]
            for s in (-2, -1, 1, 2):
                for b in range(d):
                    for e in range(d):
                        if (s > 0 and b <= e) or (s < 0 and e <= b):
                            alts.append((("r", b, e, s), "r %d %d %d" % (b, e, s)))
                            alts.append((("r", b, e, s), "R %d %d %d" % (b - (d - 1), e - (d - 1), s)))
            per_dim.append(alts)
        for combo in itertools.product(*per_dim):
            args = [c[0] for c in combo]
            txt = "P %d %s S %d %s" % (len(dims), " ".join(map(str, dims)), len(dims), " ".join(c[1] for c in combo))
            out.append((txt, dims, apply_den(build(dims), ("S", args))))
    return out


def expected_line(dims, a):
    """what the property demands, from the denotation alone"""
    sh = shape(a)
    els = flat(a)
    n = 1
    for d in dims:
        n *= d
    mem = list(range(n))
    for k, x in enumerate(els):
        mem[x] = 1000 + k
    return "%d%s |%s |%s" % (len(sh), "".join(" %d" % d for d in sh), "".join(" %d" % x for x in els), "".join(" %d" % x for x in mem))


def bad_programs(rng, count):
    """one scalar index or range end-point outside 0..n-1 (for the bounds-checked build)"""
    out = []
    for _ in range(count):
        rank = rng.choice([1, 2, 3])
        dims = [rng.randrange(1, 5) for _ in range(rank)]
        badpos = rng.randrange(rank)
        txt = []
        for k, d in enumerate(dims):
            bad = rng.choice([-1, d, d + 1, -2])
            if k == badpos:
                form = rng.choice(["s", "rb", "re", "e"])
                if form == "s":
                    txt.append("s %d" % bad)
                elif form == "e":
                    txt.append("e %d" % (bad - (d - 1)))
                elif form == "rb":
                    txt.append("r %d %d 1" % (bad, d - 1))
                else:
                    txt.append("r 0 %d 1" % bad)
            else:
                txt.append(rng.choice(["a", "s %d" % rng.randrange(d), "r 0 %d 1" % (d - 1)]))
        if all(t.startswith(("s", "e")) for t in txt):
            txt[(badpos + 1) % rank if rank > 1 else 0] = txt[(badpos + 1) % rank if rank > 1 else 0] if rank > 1 and (badpos + 1) % rank != badpos else txt[badpos]
        out.append("P %d %s S %d %s" % (rank, " ".join(map(str, dims)), rank, " ".join(txt)))
    return out


def iv_programs(rng, count, bad=False):
    """slices with one or two integer-vector arguments mixed with scalar indices, __, ranges and `end`-relative reversed ranges on
    rank 1-3 parents: (program line, expected output line).  The harness copies the indexed elements out and then assigns 7777
    through the same indexed expression.  bad=True: exactly one index-vector entry is outside 0..n-1."""
    import itertools
    out = []
    while len(out) < count:
        rank = rng.choice([1, 2, 2, 3, 3, 3])
        dims = [rng.randrange(2, 6) for _ in range(rank)]
        nv = 1 if rank == 1 or rng.random() < 0.7 else 2
        vpos = sorted(rng.sample(range(rank), nv))
        txt, sel = [], []
        badpos = rng.choice(vpos)
        for k, d in enumerate(dims):
            if k in vpos:
                m = rng.randrange(1, min(d, 4) + 1)
                idx = rng.sample(range(d), m)
                if bad and k == badpos:
                    idx[rng.randrange(m)] = rng.choice([-1, d, d + 1])
                txt.append("v %d %s" % (m, " ".join(map(str, idx)))); sel.append(idx)
            else:
                c = rng.random()
                if c < 0.35:
                    i = rng.randrange(d); txt.append("s %d" % i); sel.append(i)
                elif c < 0.55:
                    txt.append("a"); sel.append(list(range(d)))
                elif c < 0.8:
                    txt.append("R 0 %d -1" % (-(d - 1))); sel.append(list(range(d - 1, -1, -1)))
                else:
                    a = rng.randrange(d); b = rng.randrange(a, d); txt.append("r %d %d 1" % (a, b)); sel.append(list(range(a, b + 1)))
        line = "P %d %s S %d %s" % (rank, " ".join(map(str, dims)), rank, " ".join(txt))
        if bad:
            out.append((line, "EXC index_out_of_bounds"))
            continue
        lists = [x if isinstance(x, list) else [x] for x in sel]
        sh = [len(x) for x in sel if isinstance(x, list)]

        def lin(c):
            r = 0
            for k, i in enumerate(c):
                r = r * dims[k] + i
            return r
        cells = [lin(c) for c in itertools.product(*lists)]
        n = 1
        for d in dims:
            n *= d
        mem = list(range(n))
        for c in cells:
            mem[c] = 7777
        out.append((line, "%d%s |%s |%s" % (len(sh), "".join(" %d" % d for d in sh), "".join(" %d" % x for x in cells), "".join(" %d" % x for x in mem))))
    return out


def run_lines(cmd, lines, timeout=600):
    rc, so, se = C.sh(cmd, inp="\n".join(lines) + "\n", timeout=timeout)
    return rc, so.split("\n")[:len(lines)], se


def check(run, replay=None):
    tier, seed = run.tier, run.seed
    rng = random.Random(seed * 7919 + 6)
    C.standard_coq_phase(run, CID, gens=("slice",))
    ok, msg = C.ensure_ocaml()
    if not ok:
        run.finding("build:ocaml", "broken-obligation", msg, {})
        return
    bd = C.build_dir()
    C.adept_tu()
    import concurrent.futures as cf
    flags = "-O0 -g -w -fsanitize=address,undefined -fno-sanitize-recover=all"

    def build(tag, extra):
        exe = os.path.join(bd, "c06_" + tag)
        okc, cmd, log = C.cxx(os.path.join(C.HARNESS, "c06_views.cpp"), exe, flags + " " + extra)
        return tag, okc, exe, cmd, log
    exes = {}
    with cf.ThreadPoolExecutor(max_workers=2) as ex:
        for tag, okc, exe, cmd, log in ex.map(lambda a: build(*a), [("plain", ""), ("checked", "-DADEPT_BOUNDS_CHECKING")]):
            if okc:
                exes[tag] = exe
            else:
                run.finding("build:" + tag, "broken-obligation", "cannot build the harness: " + log[-600:], {"cmd": cmd})
    if len(exes) < 2:
        return
    model = os.path.join(C.OCAML, "driver_c06.exe")
    cov = run.coverage
    if replay is not None:
        progs = [(replay["case"], None, None)]
    else:
        progs = exhaustive_slices()
        cov["exhaustive_single_slices"] = len(progs)
        progs += [gen_program(rng) for _ in range(1500 if tier == "quick" else 30000)]
    lines = [p[0] for p in progs]
    nontriv = set()
    for tag in ("plain", "checked", "plain-const", "checked-const"):
        base = tag.split("-")[0]
        exes[tag] = exes[base] + (" const" if tag.endswith("const") else "")
        rc, io, se = run_lines(exes[tag], lines)
        rcm, mo, _ = run_lines(model + (" checked" if base == "checked" else ""), lines)
        if rc != 0:
            # the harness handles one program per line: the first line without output is the crashing one
            nout = len([x for x in io if x.strip()])
            cand = lines[nout:nout + 1] + lines[max(0, nout - 1):nout]
            for l in cand:
                r1, o1, e1 = run_lines(exes[tag], [l], 60)
                if r1 != 0:
                    run.finding("crash:%s" % tag, "counterexample", "view program [%s] crashes the %s build: %s" % (l, tag, [x for x in e1.strip().split("\n") if "ERROR" in x or "SUMMARY" in x][:2]),
                                {"case": l, "build": tag})
                    break
            else:
                run.finding("crash:%s" % tag, "counterexample", "the %s build of the view harness died (rc=%d) but no single program reproduces it" % (tag, rc), {"build": tag, "stderr": se[-1500:]})
            continue
        for (l, dims, den), a, b in zip(progs, mo, io):
            cov["evaluations"] += 1
            if den is not None:
                exp = expected_line(dims, den)
                if len(flat(den)) > 1 and l.count(" ") > 8:
                    nontriv.add(l)
                if b.strip() != exp:
                    run.finding("denotation:%s" % tag, "counterexample",
                                "view program [%s] (%s build): implementation gives [%s], the composed index map denotes [%s]" % (l, tag, b.strip()[:300], exp[:300]),
                                {"case": l, "build": tag, "impl": b, "expected": exp})
                    continue
            if a.strip() != b.strip():
                run.finding("correspondence:view:%s" % tag, "broken-obligation",
                            "View.v and adept::Array disagree on [%s] (%s build): model [%s] impl [%s]" % (l, tag, a.strip()[:300], b.strip()[:300]),
                            {"case": l, "build": tag, "model": a, "impl": b})
    if replay is None:
        # bounds-checked build: inadmissible indices must raise index_out_of_bounds before any access
        bad = bad_programs(rng, 400 if tier == "quick" else 5000)
        rc, io, se = run_lines(exes["checked"], bad)
        rcm, mo, _ = run_lines(model + " checked", bad)
        for l, a, b in zip(bad, mo, io):
            cov["evaluations"] += 1
            if not b.startswith("EXC index_out_of_bounds"):
                run.finding("bounds:not-raised", "counterexample",
                            "bounds-checked build does not raise index_out_of_bounds for [%s]: %s" % (l, b[:200]), {"case": l, "build": "checked", "impl": b})
            elif a.strip() != b.strip():
                run.finding("correspondence:bounds", "broken-obligation", "checked model and implementation disagree on [%s]: %s / %s" % (l, a, b), {"case": l, "build": "checked"})
        cov["inadmissible_programs_checked_build"] = len(bad)
        # integer-vector indexing mixed with the other index kinds: values read and written through, both builds; and entries
        # outside 0..n-1 in the bounds-checked build
        ivp = iv_programs(rng, 300 if tier == "quick" else 5000)
        for tag in ("plain", "checked"):
            rc, io, se = run_lines(exes[tag], [l for l, _ in ivp])
            for (l, exp), b in zip(ivp, io):
                cov["evaluations"] += 1
                if b.strip() != exp:
                    run.finding("denotation:index-vector:%s" % tag, "counterexample",
                                "view program [%s] (%s build): implementation gives [%s], the index map denotes [%s]" % (l, tag, b.strip()[:300], exp[:300]), {"case": l, "build": tag, "impl": b, "expected": exp})
        ivb = iv_programs(rng, 200 if tier == "quick" else 3000, bad=True)
        rc, io, se = run_lines(exes["checked"], [l for l, _ in ivb])
        for (l, exp), b in zip(ivb, io):
            cov["evaluations"] += 1
            if not b.startswith("EXC index_out_of_bounds"):
                run.finding("bounds:index-vector-not-raised", "counterexample",
                            "bounds-checked build does not raise index_out_of_bounds for the index-vector entry outside 0..n-1 in [%s]: %s" % (l, b[:200]), {"case": l, "build": "checked", "impl": b})
        cov["index_vector_programs"] = len(ivp) + len(ivb)
        cov["exhaustive"] = False
    cov["distinct_nontrivial"] = len(nontriv)
    cov["samples"] = [{"program": lines[len(lines) // 2]}, {"program": lines[-1]}, {"program": lines[7]}]
    cov["rule"] = ("programs = parent array (rank 1-4, extents 1-5) followed by 1-5 view-forming operations: operator() with scalar/range/stride(+-)/"
                   "`end`-relative/__ arguments, operator[], T, permute, diag_vector(k), submatrix_on_diagonal, reshape, soft_link; every admissible "
                   "single slice of rank<=2, extents<=3 exhaustively; output = rank, extents, parent element at every index, and the whole parent after "
                   "writing through every element; compared with (a) the nested-list denotation computed in Python and (b) the extracted Coq model; both the "
                   "default and the ADEPT_BOUNDS_CHECKING build (plus programs with one out-of-range index; plus slices with integer-vector arguments mixed with scalar / range / end-relative arguments on rank 1-3 parents, read and written through, and with one vector entry out of range), each once through the non-const and once through the const overloads (operator(), operator[], T, soft_link, subset applied through a const reference).  Non-trivial = more than one element and at least two operations.")
    cov["traces_validated_against_impl"] = cov["evaluations"]
    run.assumptions += ["ranks 5-7 are covered by the theorems (any rank) but not by the harness (ranks 1-4)",
                        "parent arrays small enough that no row padding is applied (packed strides)"]
