"""C01 — reverse-mode gradients equal the true derivatives of the recorded program.
Tie G: Gen_Ops.v (rule tables translated from BinaryOperation.h / UnaryOperation.h).  Tie H: generated adouble
programs run against the extracted model (Program.exec on OCaml floats + Tape.rev_sweep) and against the
dual-number specification (Program.dexec)."""
import os, math, random
from concurrent.futures import ThreadPoolExecutor
from . import common as C

CID = "C01"
UNARY = ["log", "log10", "sin", "cos", "tan", "asin", "acos", "atan", "sinh", "cosh", "abs", "fabs", "sqrt", "tanh", "exp", "fastexp",
         "ceil", "floor", "log2", "expm1", "exp2", "log1p", "asinh", "acosh", "atanh", "erf", "erfc", "cbrt", "round", "trunc", "rint",
         "nearbyint", "uminus", "uplus"]
BINARY = ["add", "sub", "mul", "div", "pow", "atan2", "max", "min"]


def lit(c):
    return repr(float(c))


def frac_ok(x, half):
    f = x - math.floor(x)
    if min(f, 1 - f) < 0.05:
        return False
    return (not half) or abs(f - 0.5) > 0.05


def un_eval(f, x):
    """value of f(x) or None when x is outside the (safely interior) domain"""
    try:
        if f in ("log", "log10", "log2"):
            return None if x < 0.1 else {"log": math.log, "log10": math.log10, "log2": math.log2}[f](x)
        if f == "log1p":
            return None if x < -0.8 else math.log1p(x)
        if f in ("sin", "cos", "atan", "tanh", "asinh", "erf", "erfc", "uminus", "uplus"):
            return {"sin": math.sin, "cos": math.cos, "atan": math.atan, "tanh": math.tanh, "asinh": math.asinh, "erf": math.erf,
                    "erfc": math.erfc, "uminus": lambda t: -t, "uplus": lambda t: t}[f](x)
        if f == "tan":
            return None if abs(math.cos(x)) < 0.2 else math.tan(x)
        if f in ("asin", "acos", "atanh"):
            return None if abs(x) > 0.9 else {"asin": math.asin, "acos": math.acos, "atanh": math.atanh}[f](x)
        if f in ("sinh", "cosh", "exp", "fastexp", "expm1", "exp2"):
            return None if abs(x) > 8 else {"sinh": math.sinh, "cosh": math.cosh, "exp": math.exp, "fastexp": math.exp, "expm1": math.expm1,
                                            "exp2": lambda t: 2.0 ** t}[f](x)
        if f in ("abs", "fabs"):
            return None if abs(x) < 1e-2 else abs(x)
        if f == "sqrt":
            return None if x < 0.1 else math.sqrt(x)
        if f == "acosh":
            return None if x < 1.1 else math.acosh(x)
        if f == "cbrt":
            return None if abs(x) < 0.05 else math.copysign(abs(x) ** (1.0 / 3.0), x)
        if f in ("ceil", "floor", "trunc"):
            return None if not frac_ok(x, False) else float({"ceil": math.ceil, "floor": math.floor, "trunc": math.trunc}[f](x))
        if f in ("round", "rint", "nearbyint"):
            return None if not frac_ok(x, True) else float(round(x))
    except (ValueError, OverflowError):
        return None
    return None


def bin_eval(k, a, b):
    try:
        if k == "add":
            return a + b
        if k == "sub":
            return a - b
        if k == "mul":
            return a * b
        if k == "div":
            return None if abs(b) < 0.2 else a / b
        if k == "pow":
            return None if (a < 0.2 or abs(b) > 4 or a > 50) else a ** b
        if k == "atan2":
            return None if a * a + b * b < 0.05 else math.atan2(a, b)
        if k in ("max", "min"):
            return None if abs(a - b) < 1e-2 else (max(a, b) if k == "max" else min(a, b))
    except (ValueError, OverflowError, ZeroDivisionError):
        return None
    return None


CPP_BIN = {"add": "(%s + %s)", "sub": "(%s - %s)", "mul": "(%s * %s)", "div": "(%s / %s)", "pow": "pow(%s, %s)", "atan2": "atan2(%s, %s)",
           "max": "max(%s, %s)", "min": "min(%s, %s)"}


class Gen:
    def __init__(self, rng, nv):
        self.rng, self.nv = rng, nv
        self.vals = {}
        self.names = {}        # var id -> C++ name
        self.live = []         # var ids usable in expressions
        self.used_un, self.used_bin = set(), set()

    def leaf_var(self):
        i = self.rng.choice(self.live)
        return self.names[i], "(var %d)" % i, self.vals[i], True

    def leaf_const(self):
        c = round(self.rng.choice([-1, 1]) * self.rng.uniform(0.3, 2.5), 3)
        return lit(c), "(const %s)" % lit(c), c, False

    def expr(self, depth):
        """returns (cpp, sexpr, value, is_active)"""
        rng = self.rng
        if depth <= 0 or rng.random() < 0.18:
            return self.leaf_var()
        for _ in range(30):
            if rng.random() < 0.38:
                f = rng.choice(UNARY)
                a = self.expr(depth - 1)
                if not a[3]:
                    continue
                v = un_eval(f, a[2])
                if v is None or abs(v) > 1e4:
                    continue
                self.used_un.add(f)
                cpp = {"uminus": "(-%s)", "uplus": "(+%s)"}.get(f, f + "(%s)") % a[0]
                return cpp, "(un %s %s)" % (f, a[1]), v, True
            k = rng.choice(BINARY)
            shape = rng.random()
            if shape < 0.6:
                l, r = self.expr(depth - 1), self.expr(depth - 1)
            elif shape < 0.8:
                l, r = self.leaf_const(), self.expr(depth - 1)
            else:
                l, r = self.expr(depth - 1), self.leaf_const()
            if not (l[3] or r[3]):
                continue
            if k == "atan2" and not r[3]:
                continue
            v = bin_eval(k, l[2], r[2])
            if v is None or abs(v) > 1e4:
                continue
            self.used_bin.add(k + ("" if (l[3] and r[3]) else (":scalar-left" if not l[3] else ":scalar-right")))
            if k == "div" and not r[3]:
                return "(%s / %s)" % (l[0], r[0]), "(bin mul %s (recip %s))" % (l[1], lit(r[2])), v, True
            return CPP_BIN[k] % (l[0], r[0]), "(bin %s %s %s)" % (k, l[1], r[1]), v, True
        return self.leaf_var()


def gen_program(rng, pid, nstmts):
    nv = rng.randrange(2, 6)
    g = Gen(rng, nv)
    init = [round(rng.choice([-1, 1]) * rng.uniform(0.3, 2.2), 3) for _ in range(nv)]
    for i in range(nv):
        g.vals[i] = init[i]
        g.names[i] = "v[%d]" % i
        g.live.append(i)
    cpp, model = [], []
    nextid = [nv]
    observable = list(range(nv))

    def stmts(n, depth_scope):
        for _ in range(n):
            r = rng.random()
            i = rng.choice([x for x in g.live if x < nv] if rng.random() < 0.8 else g.live)
            if r < 0.40:
                e = g.expr(rng.randrange(1, 5))
                cpp.append("%s = %s;" % (g.names[i], e[0])); model.append("(sete %d %s)" % (i, e[1])); g.vals[i] = e[2]
            elif r < 0.55:
                op = rng.choice(["add", "sub", "mul", "div"])
                e = g.expr(rng.randrange(1, 4))
                v = bin_eval(op, g.vals[i], e[2])
                if v is None or abs(v) > 1e4:
                    continue
                cpp.append("%s %s= %s;" % (g.names[i], {"add": "+", "sub": "-", "mul": "*", "div": "/"}[op], e[0]))
                model.append("(sete %d (bin %s (var %d) %s))" % (i, op, i, e[1])); g.vals[i] = v
            elif r < 0.62:
                c = round(rng.uniform(-2, 2), 3)
                cpp.append("%s = %s;" % (g.names[i], lit(c))); model.append("(setp %d %s)" % (i, lit(c))); g.vals[i] = c
            elif r < 0.72:
                c = round(rng.choice([-1, 1]) * rng.uniform(0.4, 2), 3)
                op = rng.choice(["+", "-", "*", "/"])
                if op == "+":
                    model.append("(addp %d %s)" % (i, lit(c))); g.vals[i] += c
                elif op == "-":
                    model.append("(addp %d %s)" % (i, lit(-c))); g.vals[i] -= c
                elif op == "*":
                    model.append("(sete %d (bin mul (var %d) (const %s)))" % (i, i, lit(c))); g.vals[i] *= c
                else:
                    model.append("(sete %d (bin mul (var %d) (recip %s)))" % (i, i, lit(c))); g.vals[i] /= c
                cpp.append("%s %s= %s;" % (g.names[i], op, lit(c)))
            elif r < 0.80:
                j = rng.choice(g.live)
                cpp.append("%s = %s;" % (g.names[i], g.names[j])); model.append("(sete %d (var %d))" % (i, j)); g.vals[i] = g.vals[j]
            elif r < 0.90:
                t = nextid[0]; nextid[0] += 1
                g.names[t] = "t%d" % t
                kind = rng.random()
                if kind < 0.6:
                    e = g.expr(rng.randrange(1, 4))
                    cpp.append("adouble t%d = %s;" % (t, e[0])); model.append("(sete %d %s)" % (t, e[1])); g.vals[t] = e[2]
                elif kind < 0.8:
                    j = rng.choice(g.live)
                    cpp.append("adouble t%d(%s);" % (t, g.names[j])); model.append("(sete %d (var %d))" % (t, j)); g.vals[t] = g.vals[j]
                else:
                    c = round(rng.uniform(-2, 2), 3)
                    cpp.append("adouble t%d = %s;" % (t, lit(c))); model.append("(setp %d %s)" % (t, lit(c))); g.vals[t] = c
                g.live.append(t)
                if depth_scope == 0:
                    observable.append(t)
            elif r < 0.95 and depth_scope < 2:
                # a scope whose temporaries die (their gradient indices are recycled afterwards)
                before = list(g.live)
                cpp.append("{")
                stmts(rng.randrange(1, 4), depth_scope + 1)
                cpp.append("}")
                g.live[:] = before
            elif depth_scope < 2:
                # a branch on a passive comparison: only the taken branch is part of the recorded program
                j = rng.choice(g.live)
                thr = round(g.vals[j] + rng.choice([-1, 1]) * rng.uniform(0.2, 1.0), 3)
                taken = g.vals[j] > thr
                cpp.append("if (%s.value() > %s) {" % (g.names[j], lit(thr)))
                save_vals, save_live, save_model, save_next = dict(g.vals), list(g.live), list(model), nextid[0]
                stmts(rng.randrange(1, 3), depth_scope + 1)
                then_vals, then_model = dict(g.vals), list(model)
                g.vals, model[:] = dict(save_vals), save_model
                g.live[:] = save_live
                cpp.append("} else {")
                stmts(rng.randrange(1, 3), depth_scope + 1)
                cpp.append("}")
                if taken:
                    g.vals, model[:] = then_vals, then_model
                g.live[:] = save_live
    stmts(nstmts, 0)
    outs = [rng.choice(range(nv))]
    o2 = rng.choice(observable)
    if o2 not in outs:
        outs.append(o2)
    total = nextid[0]
    body = "\n    ".join(cpp)
    decl_obs = ", ".join("{%d, &%s}" % (i, g.names[i]) for i in observable)
    fn = ("static void prog_%d(FILE* os) {\n  Stack stack;\n  adouble v[%d];\n  %s\n  stack.new_recording();\n"
          "  long ns0 = stack.n_statements(), no0 = stack.n_operations();\n  {\n    %s\n    long ns1 = stack.n_statements(), no1 = stack.n_operations();\n"
          "    Obs obs[] = {%s};\n    report(os, \"p%d\", stack, obs, %d, (const int[]){%s}, %d, ns1 - ns0, no1 - no0);\n  }\n}\n"
          % (pid, nv, " ".join("v[%d] = %s;" % (i, lit(init[i])) for i in range(nv)), body, decl_obs, pid, len(observable),
             ", ".join(str(o) for o in outs), len(outs)))
    line = "p%d %d | %s | outs %s | %s" % (pid, total, " ".join(lit(x) for x in init), " ".join(str(o) for o in outs), " ".join(model))
    return fn, line, g.used_un, g.used_bin, observable


PRELUDE = r"""
#include <adept.h>
#include <cstdio>
#include <cmath>
using namespace adept;
struct Obs { int id; adouble* p; };
static void report(FILE* os, const char* pid, Stack& stack, Obs* obs, int nobs, const int* outs, int nouts, long ns, long no) {
  std::fprintf(os, "%s V", pid);
  for (int k = 0; k < nobs; ++k) std::fprintf(os, " %d:%.17g", obs[k].id, obs[k].p->value());
  std::fprintf(os, "\n");
  for (int o = 0; o < nouts; ++o) {
    stack.clear_gradients();
    for (int k = 0; k < nobs; ++k) if (obs[k].id == outs[o]) obs[k].p->set_gradient(1.0);
    stack.reverse();
    std::fprintf(os, "%s G %d", pid, outs[o]);
    for (int k = 0; k < nobs; ++k) std::fprintf(os, " %d:%.17g", obs[k].id, obs[k].p->get_gradient());
    std::fprintf(os, "\n");
  }
  std::fprintf(os, "%s N %ld %ld\n", pid, ns, no);
  std::fflush(os);
}
"""


def close(a, b, rel=2e-10, ab=1e-12):
    if a == b:
        return True
    if math.isnan(a) or math.isnan(b):
        return math.isnan(a) and math.isnan(b)
    return abs(a - b) <= ab + rel * max(abs(a), abs(b))


def check(run, replay=None):
    tier, seed = run.tier, run.seed
    rng = random.Random(seed * 1000003 + 1)
    C.standard_coq_phase(run, CID, gens=("ops", "active"))
    ok, msg = C.ensure_ocaml()
    if not ok:
        run.finding("build:c01", "broken-obligation", "cannot build the model driver: " + msg[-600:], {})
        return
    bd = C.build_dir()
    nunits, per = (8, 24) if tier == "quick" else (32, 40)
    units = []
    pid = 0
    used_un, used_bin = set(), set()
    allprogs = {}
    for u in range(nunits):
        fns, lines = [], []
        for _ in range(per):
            fn, line, uu, ub, obs = gen_program(rng, pid, rng.randrange(3, 9))
            fns.append(fn); lines.append(line); used_un |= uu; used_bin |= ub
            allprogs["p%d" % pid] = (fn, line, obs)
            pid += 1
        src = os.path.join(bd, "c01_u%d.cpp" % u)
        with open(src, "w") as f:
            f.write(PRELUDE + "\n".join(fns) + "\nint main() {\n" + "\n".join("  prog_%d(stdout);" % int(l.split()[0][1:]) for l in lines) + "\n  return 0;\n}\n")
        units.append((u, src, lines))
    C.adept_tu()
    # ---- the derivative table against central differences of libm (independent of the generated table, which the model and
    # the dual-number oracle share): every unary function at points of both signs inside its domain
    fd_funcs = ["log", "log10", "log2", "log1p", "sin", "cos", "tan", "asin", "acos", "atan", "sinh", "cosh", "tanh", "asinh", "acosh", "atanh",
                "exp", "fastexp", "expm1", "exp2", "sqrt", "cbrt", "erf", "erfc", "abs", "fabs"]
    pts = [-2.3, -1.4, -0.85, -0.6, -0.3, 0.25, 0.45, 0.7, 1.3, 1.9, 2.6]
    fd_cases = [(f, x) for f in fd_funcs for x in pts if un_eval(f, x) is not None and un_eval(f, x - 1e-4) is not None and un_eval(f, x + 1e-4) is not None]
    fsrc = os.path.join(bd, "c01_table.cpp")
    with open(fsrc, "w") as f:
        f.write("#include <adept.h>\n#include <cstdio>\nusing namespace adept;\nint main() { Stack stack;\n")
        for k, (fn, x) in enumerate(fd_cases):
            f.write("  { adouble x = %r; stack.new_recording(); adouble y = %s(x); y.set_gradient(1.0); stack.reverse(); std::printf(\"%d %%.17g %%.17g\\n\", value(y), x.get_gradient()); }\n" % (x, fn, k))
        f.write("  return 0; }\n")
    fexe = os.path.join(bd, "c01_table")
    okc, cmd, log = C.cxx(fsrc, fexe, "-O0 -w -ffp-contract=off")
    if not okc:
        run.finding("build:c01:table", "broken-obligation", "derivative-table program does not compile against the current tree: " + log[-400:], {"cmd": cmd})
    else:
        rc, so, se = C.sh(fexe, timeout=120)
        for l in so.split("\n"):
            t = l.split()
            if len(t) != 3:
                continue
            fn, x = fd_cases[int(t[0])]
            h = 1e-5
            num = (un_eval(fn, x + h) - un_eval(fn, x - h)) / (2 * h)
            got = float(t[2])
            run.coverage["evaluations"] += 1
            if not (abs(got - num) <= 1e-6 + 1e-5 * abs(num)) and fn != "fastexp" or (fn == "fastexp" and not (abs(got - num) <= 1e-4 * (1 + abs(num)))):
                run.finding("table:%s" % fn, "counterexample",
                            "d/dx %s(x) at x=%r: the recorded derivative is %.12g, the central difference of the function is %.12g" % (fn, x, got, num),
                            {"case": "table", "function": fn, "x": x, "recorded": got, "numeric": num})

    def build(u):
        k, src, lines = u
        exe = os.path.join(bd, "c01_u%d" % k)
        okc, cmd, log = C.cxx(src, exe, "-O0 -w -ffp-contract=off -fpermissive")
        if not okc:
            return k, None, cmd, log
        rc, so, se = C.sh(exe, timeout=300)
        return k, (rc, so, se), cmd, log
    with ThreadPoolExecutor(max_workers=16) as ex:
        results = list(ex.map(build, units))
    cov = run.coverage
    nprog = nontriv = 0
    samples = []
    for (k, res, cmd, log), (_, src, lines) in zip(results, units):
        if res is None:
            run.finding("build:c01:unit%d" % k, "broken-obligation", "generated programs do not compile against the current tree: " + log[-600:], {"cmd": cmd})
            continue
        rc, so, se = res
        impl = {}
        for l in so.split("\n"):
            t = l.split()
            if len(t) >= 2:
                impl.setdefault(t[0], []).append(t[1:])
        rcm, mo, me = C.sh(os.path.join(C.OCAML, "driver_c01.exe"), inp="\n".join(lines) + "\n", timeout=600)
        model = {}
        for l in mo.split("\n"):
            t = l.split()
            if len(t) >= 2:
                model.setdefault(t[0], []).append(t[1:])
        for line in lines:
            p = line.split()[0]
            nprog += 1
            fn = allprogs[p][0]
            if p not in impl or len(impl[p]) < 2:
                run.finding("crash:%s" % p, "counterexample", "generated program died or printed nothing (exit %d): %s" % (rc, se[-300:]),
                            {"case": p, "program": fn, "model_line": line})
                continue
            if p not in model:
                run.finding("driver:%s" % p, "broken-obligation", "model driver failed on a program: " + me[-300:], {"model_line": line})
                continue
            mrows = {(r[0], r[1] if r[0] in "GD" else ""): r for r in model[p]}
            bad = None
            for r in impl[p]:
                if r[0] == "V":
                    mv = mrows[("V", "")][1:]
                    for tok in r[1:]:
                        i, x = tok.split(":")
                        if not close(float(x), float(mv[int(i)])):
                            bad = bad or ("value", "variable %s: implementation %s, model %s" % (i, x, mv[int(i)]))
                elif r[0] == "G":
                    mg, md = mrows[("G", r[1])][2:], mrows[("D", r[1])][2:]
                    for tok in r[2:]:
                        i, x = tok.split(":")
                        if not close(float(x), float(md[int(i)]), rel=1e-8, ab=1e-10):
                            bad = ("derivative", "d(var %s)/d(var %s): reverse mode gives %s, exact first-order (dual number) evaluation gives %s" % (r[1], i, x, md[int(i)]))
                        elif not close(float(x), float(mg[int(i)])) and bad is None:
                            bad = ("tie", "d(var %s)/d(var %s): implementation %s, model tape %s" % (r[1], i, x, mg[int(i)]))
                        if float(md[int(i)]) != 0.0:
                            nontriv += 1
                elif r[0] == "N":
                    mn = mrows[("N", "")][1:]
                    if r[1:] != mn and bad is None:
                        bad = ("tie", "recorded %s statements / %s operations, model %s / %s" % (r[1], r[2], mn[0], mn[1]))
            if len(samples) < 2:
                samples.append({"program": fn[:700], "model_term": line[:500]})
            if bad:
                kind, what = bad
                if kind in ("derivative", "value"):
                    run.finding("%s:%s" % (kind, p), "counterexample", "program %s: %s" % (p, what), {"case": p, "program": fn, "model_line": line})
                else:
                    run.finding("correspondence:program", "broken-obligation",
                                "model Program.v/Expr.v and the implementation disagree on program %s (%s) although the derivative itself is right; "
                                "theorems of Properties_C01.v no longer speak about this code" % (p, what),
                                {"program": fn, "model_line": line, "correspondence": "Program.exec + Tape.rev_sweep vs adept::Stack"})
    cov["evaluations"] = nprog + len(fd_cases)
    cov["distinct_nontrivial"] = nontriv
    cov["traces_validated_against_impl"] = nprog
    cov["samples"] = samples
    cov["functions_exercised"] = sorted(used_un)
    cov["binary_forms_exercised"] = sorted(used_bin)
    cov["exhaustive"] = False
    cov["rule"] = ("random programs over 2-5 active inputs: assignments of expression trees of depth <= 4 (every unary function of the table, + - * / pow atan2 max min with "
                   "active/active, scalar/active, active/scalar operands), compound assignments with expressions and with passive scalars, copies, re-assignment, "
                   "constructed temporaries, scopes whose temporaries die (index recycling), branches on passive comparisons; arguments kept inside each function's "
                   "domain by evaluating while generating; plus the recorded derivative of every unary function at 11 points of both signs against a central difference of the libm function (independent of the generated table). Compared: every variable's value, reverse-mode gradient of two outputs w.r.t. every variable, against the "
                   "model tape and against dual-number evaluation; statement and operation counts. Non-trivial = a non-zero derivative entry compared.")
    run.assumptions += ["Gen_Ops.v is regenerated from BinaryOperation.h / UnaryOperation.h on every run",
                        "Expr.v / Program.v are hand models; tie = generated adouble programs compared with the extracted model on OCaml floats (same libm)",
                        "scalar-left / scalar-right wrapper classes are modelled as BinaryOperation with a Scalar operand (n_arrays = n_scratch = 0), as the source does when it "
                        "calls the policy with Scalar<L>(left); their own template arithmetic is observed by the differential run, not translated",
                        "rounding: model and implementation agree to 2e-10 relative; derivative against the dual-number specification to 1e-8 relative",
                        "real-analysis table: asin acos erf erfc cbrt atan2 and rounding functions not covered by C01_table_partial (checked numerically by the run only)"]
