"""C11 — misuse is reported by the documented exception, never by memory corruption.
Model Protocol.v (shared with C10; tie H).  Two runs under AddressSanitizer/UBSan: (1) the misuse catalogue (every
documented misuse class x sizes 1..6: exception type at the call site and follow-up work), in a default and in an
ADEPT_STACK_THREAD_UNSAFE build; (2) misuse-heavy protocol histories against the extracted model, exception kinds
included."""
import os, random
from . import common as C
from . import c10

CID = "C11"
ASAN = "-O0 -g -w -fsanitize=address,undefined -fno-sanitize-recover=all"


def gen_history(rng, maxlen):
    """protocol histories that commit misuse on purpose: passes and reads before seeds, objects created after the first seed
    (seeded, read, used in statements), appends to the wrong variable, Jacobians without lists"""
    ng = rng.randrange(1, 5)
    nobj = ng
    toks = [str(ng)]
    last_lhs = None
    for _ in range(rng.randrange(4, maxlen)):
        r = rng.random()
        if r < 0.22:
            lhs = rng.randrange(nobj)
            k = rng.choice([0, 1, 1, 2, 3])
            toks += ["S", str(lhs), str(k)]
            for _ in range(k):
                toks += [str(rng.choice([-8, -4, -2, -1, 1, 2, 3, 4, 8])), str(rng.randrange(nobj))]
            last_lhs = lhs
        elif r < 0.36:
            toks += ["G", str(rng.randrange(nobj)), str(rng.choice([-4, -2, 1, 2, 4]))]
        elif r < 0.50:
            toks.append(rng.choice(["F", "R"]))
        elif r < 0.58:
            toks.append("C")
        elif r < 0.70:
            toks.append("A"); nobj += 1
        elif r < 0.72:
            if nobj > ng:
                toks.append("X"); nobj -= 1
                if last_lhs is not None and last_lhs >= nobj:
                    last_lhs = None
        elif r < 0.80:
            lhs = rng.randrange(nobj) if (last_lhs is None or rng.random() < 0.6) else last_lhs
            toks += ["W", str(lhs), str(rng.choice([-4, 2, 4])), str(rng.randrange(nobj))]
        elif r < 0.88:
            toks += ["O", str(rng.randrange(nobj))]
        elif r < 0.92:
            toks += [rng.choice(["I", "D"]), str(rng.randrange(nobj))]
        elif r < 0.95:
            toks.append("J")
        elif r < 0.97:
            toks.append("N"); last_lhs = None
        else:
            toks.append("K")
    toks += ["K", "C", "G", str(rng.randrange(ng)), "4", "R"]
    for i in range(nobj):
        toks += ["O", str(i)]
    return " ".join(toks)


def gen_rerecord(rng):
    """a stack reused for a SMALLER recording: many objects, a pass that leaves non-zero gradients, objects destroyed,
    new_recording, a seed (initialisation over the smaller range), then objects created after that seed are read,
    seeded and swept: every one of them must raise gradient_out_of_range / be swept with a zero gradient, although
    the gradient buffer allocated for the first recording is long enough to hold them"""
    ng = rng.randrange(1, 4)
    extra = rng.randrange(2, 7)
    nobj = ng
    toks = [str(ng)]
    for _ in range(extra):
        toks.append("A"); nobj += 1
    for _ in range(rng.randrange(1, 4)):
        lhs = rng.randrange(nobj)
        toks += ["S", str(lhs), "1", str(rng.choice([-4, 2, 4, 8])), str(rng.randrange(nobj))]
    for i in range(nobj):
        if rng.random() < 0.8:
            toks += ["G", str(i), str(rng.choice([-4, 2, 4, 12]))]
    toks.append(rng.choice(["F", "R", "K"]))
    for _ in range(rng.randrange(1, extra + 1)):
        toks.append("X"); nobj -= 1
    toks.append("N")
    for _ in range(rng.randrange(0, 3)):
        lhs = rng.randrange(nobj)
        toks += ["S", str(lhs), "1", str(rng.choice([-4, 2, 4])), str(rng.randrange(nobj))]
    toks += ["G", str(rng.randrange(nobj)), "4"]
    first_late = nobj
    for _ in range(rng.randrange(1, 4)):
        toks.append("A"); nobj += 1
    for i in range(first_late, nobj):
        toks += rng.choice([["O", str(i)], ["G", str(i), "8"], ["O", str(i), "G", str(i), "2"]])
    if rng.random() < 0.7:
        toks += ["S", str(rng.randrange(first_late)), "1", "4", str(rng.randrange(first_late, nobj))]
    toks.append(rng.choice(["F", "R"]))
    for i in range(nobj):
        toks += ["O", str(i)]
    return " ".join(toks)


def check(run, replay=None):
    tier, seed = run.tier, run.seed
    rng = random.Random(seed * 92821 + 11)
    C.standard_coq_phase(run, CID, gens=("stack",))
    ok, msg = C.ensure_ocaml()
    bd = C.build_dir()
    builds = [("default", ""), ("thread-unsafe", "-DADEPT_STACK_THREAD_UNSAFE")]
    cov = run.coverage
    classes = set()
    # ---- (1) misuse catalogue
    for name, fl in builds:
        exe = os.path.join(bd, "c11_" + name)
        okc, cmd, log = C.cxx(os.path.join(C.HARNESS, "c11_misuse.cpp"), exe, ASAN + " -DHAVE_BLAS " + fl, libs="-lblas")
        if not okc:
            run.finding("build:c11:" + name, "broken-obligation", "misuse harness does not compile against the current tree: " + log[-600:], {"cmd": cmd})
            continue
        rc, so, se = C.sh(exe, timeout=900)
        lines = so.split("\n")
        if rc != 0:
            last = [l for l in lines if l.startswith("B ")][-1:] or ["B ? ?"]
            t = last[0].split()
            run.finding("corruption:%s" % t[1], "counterexample",
                        "misuse '%s' (size %s, %s build) ends in a crash or a sanitizer report instead of an exception: %s" % (t[1], t[2], name, se[-400:].replace("\n", " ")),
                        {"case": t[1], "n": t[2], "build": name, "stderr": se[-2500:]})
        for l in lines:
            t = l.split()
            if len(t) >= 6 and t[0] == "M":
                cov["evaluations"] += 1
                classes.add(t[1])
                if t[3] != t[4]:
                    run.finding("exception:%s" % t[1], "counterexample",
                                "misuse '%s' (size %s, %s build): the documented exception is %s, caught: %s" % (t[1], t[2], name, t[3], t[4]),
                                {"case": t[1], "n": t[2], "build": name, "line": l})
                elif t[5] != "1":
                    run.finding("recovery:%s" % t[1], "counterexample",
                                "after catching %s from misuse '%s' (size %s, %s build) the follow-up valid computation on the same objects gives a wrong result" % (t[3], t[1], t[2], name),
                                {"case": t[1], "n": t[2], "build": name, "line": l})
    # ---- (2) misuse-heavy protocol histories against the model
    exe = os.path.join(bd, "c11_protocol")
    okc, cmd, log = C.cxx(os.path.join(C.HARNESS, "c10_protocol.cpp"), exe, "-O1 -g -w -fsanitize=address,undefined -fno-sanitize-recover=all")
    if not ok or not okc:
        run.finding("build:c11:protocol", "broken-obligation", "cannot build driver/harness against the current tree: " + (msg or log)[-600:], {"cmd": cmd})
        return
    model = os.path.join(C.OCAML, "driver_c10.exe")
    if replay is not None and "history" in replay:
        hists = [replay["history"]]
    else:
        hists = [gen_history(rng, 25 if tier == "quick" else 50) for _ in range(1500 if tier == "quick" else 30000)]
        hists += [gen_rerecord(rng) for _ in range(300 if tier == "quick" else 6000)]

    def both(hs):
        rc1, so1, se1 = C.sh(exe, inp="\n".join(hs) + "\n", timeout=900)
        rc2, so2, se2 = C.sh(model, inp="\n".join(hs) + "\n", timeout=900)
        return rc1, so1.split("\n"), se1, so2.split("\n")
    rc1, io, se1, mo = both(hists)
    if rc1 != 0:
        k = min(len(hists) - 1, max(0, len([l for l in io if l.strip() != ""])))

        def dies(l):
            return both([l])[0] != 0
        small = c10.shrink(hists[k], dies) if dies(hists[k]) else hists[k]
        run.finding("corruption:protocol", "counterexample", "history [%s] ends in a crash or a sanitizer report: %s" % (small[:300], se1[-300:].replace("\n", " ")),
                    {"history": small, "stderr": se1[-2500:]})
    nerr = 0
    mism = []
    for h, a, b in zip(hists, io, mo):
        cov["evaluations"] += 1
        if "E:" in b:
            nerr += 1
        if a.split() != b.split():
            mism.append(h)
    if mism and rc1 == 0:
        def differs(l):
            _, a, _, b = both([l])
            return a[0].split() != b[0].split()
        small = c10.shrink(min(mism, key=len), differs)
        _, a, _, b = both([small])
        run.finding("protocol:%s" % small, "counterexample",
                    "history [%s]: the real Stack observes [%s], the model (whose exception kinds and recovery are Properties_C11.v) gives [%s]" % (small, a[0].strip(), b[0].strip()),
                    {"history": small, "impl": a[0], "model": b[0]})
    cov["distinct_nontrivial"] = nerr + len(classes)
    cov["traces_validated_against_impl"] = len(hists)
    cov["misuse_classes"] = sorted(classes)
    cov["samples"] = [{"history": hists[-1][:300], "observations": mo[len(hists) - 1][:300]}, {"history": hists[len(hists) // 3][:300], "observations": mo[len(hists) // 3][:300]}]
    cov["exhaustive"] = False
    cov["rule"] = ("(1) %d misuse classes x sizes 1..6 x {default, ADEPT_STACK_THREAD_UNSAFE} builds under ASan+UBSan: exception type caught at the call site against the "
                   "type the manual names, then valid work on the same stack / arrays with its result checked; (2) random protocol histories that commit misuse on purpose "
                   "(passes and reads before seeds, objects created after the first seed then seeded / read / used in statements, append to another variable, Jacobian without "
                   "lists; a family that re-uses the stack for a smaller recording after destroying objects and then touches objects created after the new seed) on an ASan build, every observation and exception kind compared with the extracted model. Non-trivial = histories in which at least one exception "
                   "is raised, plus misuse classes." % len(classes))
    run.assumptions += ["Protocol.v is a hand model; tie = exact comparison of observations and exception kinds",
                        "array-side misuse classes and stack_already_active are outside the model: exception type and recovery are tested under sanitizers, not proved",
                        "index_out_of_bounds on element access needs -DADEPT_BOUNDS_CHECKING and is covered by C06's check",
                        "memory safety is observed by AddressSanitizer/UBSan on the runs made; the theorem C11_no_out_of_bounds is about the gradient list only"]
