"""C05 — vectorized evaluation equals scalar evaluation on every instruction set.
Models: VecSplit.v (hand, tie H: hook counters of every statement of the sweep against the model's counts, in each
instruction-set build) and generated/Gen_Fastexp.v (tie G).  Theorems: Properties_C05.v."""
import os, re
from concurrent.futures import ThreadPoolExecutor
from . import common as C

CID = "C05"
ISAS = [("sse2", "", ["sse2"]), ("avx", "-mavx", ["avx"]), ("avx2fma", "-mavx2 -mfma", ["avx2", "fma"]),
        ("avx512f", "-mavx512f", ["avx512f"])]
CLS = {0: "unary(a)", 1: "binary(a,b)", 2: "ternary(a,b,c)", 3: "array-with-scalar(a,const)"}
RED = ["sum", "product", "maxval", "minval", "norm2", "mean", "sum(a*b)"]


def host_flags():
    try:
        txt = open("/proc/cpuinfo").read()
        m = re.search(r"^flags\s*:\s*(.*)$", txt, re.M)
        return set(m.group(1).split()) if m else set()
    except OSError:
        return set()


def model_counts(lines):
    """counters predicted by the extracted model for the A / R lines, keyed by line index"""
    rc, so, se = C.sh(os.path.join(C.OCAML, "driver_c05.exe"), inp="\n".join(lines) + "\n", timeout=900)
    out = {}
    if rc != 0:
        return None, se[-500:]
    for l in so.split("\n"):
        t = l.split()
        if len(t) == 4:
            out[int(t[0]) - 1] = (int(t[1]), int(t[2]), int(t[3]))
    return out, ""


def describe_A(t):
    return ("type=%s width=%s rank=%s rows=%s n=%s class=%s address mod width: target %s a %s b %s c %s rows_aligned=%s"
            % ({"f": "float", "d": "double"}[t[1]], t[2], t[3], t[4], t[5], CLS.get(int(t[6]), t[6]), t[7], t[8], t[9], t[10], t[11]))


def check(run, replay=None):
    tier, seed = run.tier, run.seed
    C.standard_coq_phase(run, CID, gens=("fastexp", "vecguard"))
    ok, msg = C.ensure_ocaml()
    if not ok:
        run.finding("build:c05", "broken-obligation", "cannot build the model driver: " + msg[-600:], {})
        return
    flags = host_flags()
    bd = C.build_dir()
    src = os.path.join(C.HARNESS, "c05_simd.cpp")
    builds = []
    skipped = []
    for name, fl, need in ISAS:
        if all(n in flags for n in need):
            builds.append((name, "off", "-O2 -w -ffp-contract=off " + fl))
            builds.append((name, "default", "-O2 -w " + fl))
        else:
            skipped.append(name)
    C.adept_tu()

    def build(b):
        name, fp, fl = b
        exe = os.path.join(bd, "c05_%s_%s" % (name, fp))
        okc, cmd, log = C.cxx(src, exe, fl)
        return b, exe, okc, cmd, log
    with ThreadPoolExecutor(max_workers=8) as ex:
        built = list(ex.map(build, builds))
    cov = run.coverage
    cov["builds"] = []
    mode = "thin" if tier == "quick" else "full"
    n_eval = 0
    n_simd = 0
    dist = {}
    samples = []
    tables = {}
    for (name, fp, fl), exe, okc, cmd, log in built:
        if not okc:
            run.finding("build:c05:%s:%s" % (name, fp), "broken-obligation",
                        "harness does not compile for %s against the current tree: %s" % (name, log[-500:]), {"cmd": cmd})
            continue
        cov["builds"].append("%s/fp-contract=%s" % (name, fp))
        # ---------------- fastexp (both contraction settings)
        rc, so, se = C.sh(exe + " fastexp", timeout=600)
        if rc != 0:
            run.finding("crash:fastexp:%s:%s" % (name, fp), "counterexample", "fastexp sweep died in the %s build: %s" % (name, se[-300:]),
                        {"case": "fastexp", "build": name, "flags": fl, "stderr": se[-1500:]})
        else:
            tab = {}
            for l in so.split("\n"):
                t = l.split()
                if not t:
                    continue
                if t[0] == "F":
                    ty, w, N, packets, bitdiff, nsafe, maxulp, argmax, over2, dbad = t[1], int(t[2]), int(t[3]), int(t[4]), int(t[5]), int(t[6]), float(t[7]), float(t[8]), int(t[9]), int(t[10])
                    n_eval += N
                    dist["fastexp %s %s/%s" % (ty, name, fp)] = {"arguments": N, "packets": packets, "max_ulp_from_expl": maxulp, "at": argmax,
                                                                "scalar_vs_packet_bit_differences": bitdiff}
                    if packets == 0:
                        run.finding("fastexp-not-vectorized:%s:%s:%s" % (name, fp, ty), "broken-obligation",
                                    "fastexp(Array) did not take the packet path in the %s build: the comparison scalar/packet is vacuous" % name, {"build": name})
                    if fp == "default" and bitdiff:
                        ex1 = [x for x in so.split("\n") if x.startswith("F-BITDIFF %s" % ty)][:3]
                        run.finding("fastexp-bits:%s:%s" % (name, ty), "counterexample",
                                    "fastexp differs between its scalar and packet form in the %s build at default settings (%d arguments), e.g. %s" % (name, bitdiff, ex1),
                                    {"case": "fastexp", "build": name, "flags": fl, "examples": ex1})
                    if over2:
                        ex1 = [x for x in so.split("\n") if x.startswith("F-ULP %s" % ty)][:3]
                        run.finding("fastexp-ulp:%s:%s:%s" % (name, fp, ty), "counterexample",
                                    "fastexp is more than 2 ulp from exp for %d arguments with a normal result (%s build), e.g. %s" % (over2, name, ex1),
                                    {"case": "fastexp", "build": name, "flags": fl, "examples": ex1})
                    if dbad:
                        run.finding("fastexp-derivative:%s:%s:%s" % (name, fp, ty), "counterexample",
                                    "recorded derivative of fastexp differs from its value (%d cases, %s build)" % (dbad, name),
                                    {"case": "fastexp", "build": name, "flags": fl})
                elif t[0] == "T":
                    tab[(t[1], t[2])] = float(t[3])
            tables[(name, fp)] = tab
        # ---------------- assignments and reductions (contraction disabled, as the property states); in the
        # builds at default settings only fastexp(a) goes through the assignment sweep
        for what in (("assign", "reduce", "general") if fp == "off" else ("assign",)):
            rc, so, se = C.sh("%s %s %s %d %s" % (exe, what, mode, seed, "all" if fp == "off" else "fxonly"), timeout=1800)
            lines = [l for l in so.split("\n") if l[:2] in ("A ", "R ", "G ")]
            if rc != 0 and what == "general":
                last = [l for l in so.split("\n") if l.startswith("P ")][-1:]
                run.finding("crash:general:%s" % name, "counterexample",
                            "vectorized evaluation crashes in the %s build on: %s (t = a + a or sum(a)): %s" % (name, last[0][2:] if last else "?", se[-200:]),
                            {"case": "general", "build": name, "flags": fl, "statement": last, "stderr": se[-1500:]})
            elif rc != 0:
                run.finding("crash:%s:%s" % (what, name), "counterexample",
                            "%s sweep died in the %s build after %d statements (last: %s): %s" % (what, name, len(lines), lines[-1] if lines else "-", se[-300:]),
                            {"case": what, "build": name, "flags": fl, "after": lines[-1] if lines else "", "stderr": se[-1500:]})
            pred, err = model_counts(lines)
            if pred is None:
                run.finding("build:c05:driver", "broken-obligation", "model driver failed: " + err, {})
                continue
            first_cnt = None
            for k, l in enumerate(lines):
                t = l.split()
                n_eval += 1
                if t[0] == "A":
                    h, p, tl, mism, mismp, inc = int(t[12]), int(t[13]), int(t[14]), int(t[15]), int(t[16]), int(t[17])
                    key = "w%s rank%s %s" % (t[2], t[3], "simd" if p > 0 else "scalar")
                    dist[key] = dist.get(key, 0) + 1
                    if p > 0:
                        n_simd += 1
                        if len(samples) < 3 and int(t[5]) > 9:
                            samples.append({"build": name, "line": l, "meaning": describe_A(t), "model_counts": pred.get(k)})
                    if mism or mismp:
                        run.finding("simd-values:%s:%s:rank%s:class%s" % (name, t[1], t[3], t[6]), "counterexample",
                                    "vectorized assignment differs from scalar evaluation in %d element(s) (%d against a plain loop) in the %s build: %s; counters head/packets/tail %d/%d/%d"
                                    % (mism, mismp, name, describe_A(t), h, p, tl),
                                    {"case": "assign", "build": name, "flags": fl, "line": l})
                    if inc:
                        run.finding("simd-harness:%s" % name, "broken-obligation",
                                    "counters differ between operations of one class or the scalar reference was vectorized (%s): %s" % (name, l), {"line": l})
                    if pred.get(k) != (h, p, tl) and first_cnt is None:
                        first_cnt = (l, pred.get(k), (h, p, tl), describe_A(t))
                elif t[0] == "G":
                    r = int(t[3])
                    h, p, tl, mism = int(t[-4]), int(t[-3]), int(t[-2]), int(t[-1])
                    kind = int(t[4 + r])
                    key = "general w%s rank%s %s" % (t[2], t[3], "simd" if p > 0 else "scalar")
                    dist[key] = dist.get(key, 0) + 1
                    if p > 0:
                        n_simd += 1
                    desc = "%s, %s width %s rank %s dims %s; target address mod width %s strides %s; operand address mod width %s strides %s" % (
                        "t = a + a" if kind == 0 else "sum(a)", {"f": "float", "d": "double"}[t[1]], t[2], r, t[4:4 + r], t[5 + r], t[6 + r:6 + 2 * r],
                        t[6 + 2 * r], t[7 + 2 * r:7 + 3 * r])
                    if mism:
                        run.finding("simd-values:%s:%s:general-rank%s" % (name, t[1], r), "counterexample",
                                    "vectorized evaluation differs from scalar evaluation (%s build): %s; counters %d/%d/%d" % (name, desc, h, p, tl),
                                    {"case": "general", "build": name, "flags": fl, "line": l})
                    if pred.get(k) != (h, p, tl) and first_cnt is None:
                        first_cnt = (l, pred.get(k), (h, p, tl), desc)
                else:
                    h, p, tl, refvec, okb = int(t[9]), int(t[10]), int(t[11]), int(t[12]), int(t[15])
                    key = "reduce w%s rank%s %s" % (t[2], t[3], "simd" if p > 0 else "scalar")
                    dist[key] = dist.get(key, 0) + 1
                    if p > 0:
                        n_simd += 1
                    desc = "%s of %s, width %s, rank %s, rows %s, n=%s, address mod width a %s b %s" % (
                        RED[int(t[6])], {"f": "float", "d": "double"}[t[1]], t[2], t[3], t[4], t[5], t[7], t[8])
                    if not okb:
                        run.finding("simd-reduce:%s:%s:%s" % (name, t[1], RED[int(t[6])]), "counterexample",
                                    "vectorized reduction differs from the scalar one by %s, more than the re-association bound %s, in the %s build: %s"
                                    % (t[13], t[14], name, desc), {"case": "reduce", "build": name, "flags": fl, "line": l})
                    if refvec:
                        run.finding("simd-harness:%s" % name, "broken-obligation", "the scalar reference reduction was vectorized: " + l, {"line": l})
                    if pred.get(k) != (h, p, tl) and first_cnt is None:
                        first_cnt = (l, pred.get(k), (h, p, tl), desc)
            if first_cnt:
                l, pm, im, desc = first_cnt
                run.finding("correspondence:split:%s:%s" % (what, name), "broken-obligation",
                            "model VecSplit.v and the implementation disagree on (prologue, packets, epilogue) for %s (%s build): model %s / hook counters %s; "
                            "the theorems of Properties_C05.v no longer speak about this code" % (desc, name, pm, im),
                            {"line": l, "model": pm, "impl": im, "correspondence": "VecSplit.stmt_counts / reduce_counts vs verif::simd_log()"})
    # ---------------- agreement between instruction sets (each within 2 ulp of exp => within 4 ulp of each other)
    import math
    keys = sorted(tables)
    worst = 0.0
    for i in range(len(keys)):
        for j in range(i + 1, len(keys)):
            a, b = tables[keys[i]], tables[keys[j]]
            for k in a:
                if k in b and a[k] != b[k] and math.isfinite(a[k]) and math.isfinite(b[k]) and a[k] > 0:
                    x = float(k[1])
                    if (k[0] == "f" and -80 <= x <= 85) or (k[0] == "d" and -700 <= x <= 705):
                        m, e = math.frexp(a[k])
                        ulp = math.ldexp(1.0, e - (24 if k[0] == "f" else 53))
                        d = abs(a[k] - b[k]) / ulp
                        worst = max(worst, d)
                        if d > 4.0:
                            run.finding("fastexp-across-builds:%s" % k[0], "counterexample",
                                        "fastexp(%s) differs by %.1f ulp between builds %s and %s (%r against %r)" % (k[1], d, keys[i], keys[j], a[k], b[k]),
                                        {"case": "fastexp", "x": k[1], "builds": [list(keys[i]), list(keys[j])]})
    cov["evaluations"] = n_eval
    cov["distinct_nontrivial"] = n_simd
    cov["traces_validated_against_impl"] = n_eval
    cov["distribution"] = dist
    cov["max_ulp_between_builds"] = worst
    cov["skipped_instruction_sets"] = skipped
    cov["samples"] = samples or [{"note": "no statement took the packet path"}]
    cov["exhaustive"] = False
    cov["rule"] = ("per instruction-set build (those the host CPU supports): float and double, rank 1 and rank 2 (3 padded rows), every length 0..4w+3, "
                   "every alignment offset 0..w-1 of the target and of operand a, operand b offsets %s, four operand classes x up to 6 operations, plus a strided "
                   "operand and an unpadded row stride; rank-3 arrays on user memory with padded/unpadded row and plane strides; FixedArray operands of rank 1 at every alignment and of rank 2 with row lengths 2w, 2w+1, 3w, 4w-1; values random finite of mixed sign and magnitude (seeded); every element and the guard elements around "
                   "the target compared with the same statement on strided copies (Adept's scalar path) and with a plain C++ loop; reductions sum/product/maxval/"
                   "minval/norm2/mean/sum(a*b). Non-trivial = the hook shows at least one packet was executed." % ("sampled (equal, +1, 0)" if mode == "thin" else "all"))
    run.assumptions += ["VecSplit.v is a hand model; tie = hook counters (prologue, packets, epilogue) of every statement of the sweep compared with the model's counts",
                        "Gen_Fastexp.v is regenerated from quick_e.h by tools/gen_fastexp.py on every run (constants rounded as the compiler rounds them)",
                        "modelled, not verified: a packet operation is the lane-wise IEEE scalar operation (observed by the sweep, bitwise); floating-point rounding inside fastexp "
                        "(only the method error is proved); the rounding bound of re-associated accumulation (standard bound used as the oracle)",
                        "instruction sets not supported by this host are not run: %s" % (skipped or "none"),
                        "Interval's interval tactic (Coq-checked, uses vm_compute on its own floating-point library; no native_compute)"]
