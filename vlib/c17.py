"""C17 — special matrices behave as the dense matrices they stand for.
Generated model Gen_Engines.v (tie G: translator) + Engines.v; correspondence run (tie H) and an
independent dense oracle in Python."""
import os, re
from . import common as C

CID = "C17"
KIND = {"SqR": 0, "SqC": 0, "BandR": 1, "BandC": 1, "SymLo": 2, "SymUp": 2, "LowR": 3, "LowC": 3, "UpR": 4, "UpC": 4}


def dense(name, L, U, n):
    k = KIND[name]
    D = [[0] * n for _ in range(n)]
    for i in range(n):
        for j in range(n):
            if k == 1 and not (-L <= j - i <= U):
                continue
            if k == 3 and i < j:
                continue
            if k == 4 and i > j:
                continue
            D[i][j] = 100 + 10 * max(i, j) + min(i, j) if k == 2 else 100 + 10 * i + j
    return D


def assigned(name, L, U, n):
    k = KIND[name]
    X = lambda i, j: 1000 + 10 * i + j
    A = [[0] * n for _ in range(n)]
    for i in range(n):
        for j in range(n):
            if k == 0:
                A[i][j] = X(i, j)
            elif k == 1:
                A[i][j] = X(i, j) if -L <= j - i <= U else 0
            elif name == "SymLo":
                A[i][j] = X(max(i, j), min(i, j))
            elif name == "SymUp":
                A[i][j] = X(min(i, j), max(i, j))
            elif k == 3:
                A[i][j] = X(i, j) if i >= j else 0
            else:
                A[i][j] = X(i, j) if i <= j else 0
    return A


def flat(M):
    return [str(x) for r in M for x in r]


def tr(M):
    return [list(r) for r in zip(*M)]


def expected(name, L, U, n):
    D = dense(name, L, U, n)
    Dt = tr(D)
    exp = {"D": flat(D), "M": flat(D), "T": flat(Dt), "TT": flat(D), "E": [str(3 * x) for r in D for x in r],
           "F": [str(D[i][j] + Dt[i][j]) for i in range(n) for j in range(n)], "A": flat(assigned(name, L, U, n))}
    for k in range(-(n - 1), n):
        exp["G%d" % k] = [str(D[t][t + k]) for t in range(n - k)] if k >= 0 else [str(D[t - k][t]) for t in range(n + k)]
        exp["TG%d" % k] = [str(Dt[t][t + k]) for t in range(n - k)] if k >= 0 else [str(Dt[t - k][t]) for t in range(n + k)]
    if n >= 2:
        a, b = n // 3, n - 1 - (1 if n > 3 else 0)
        exp["U%d_%d" % (a, b)] = flat([r[a:b + 1] for r in D[a:b + 1]])
        exp["TU%d_%d" % (a, b)] = flat([r[a:b + 1] for r in Dt[a:b + 1]])
        m = b - a + 1
        Ds = [r[a:b + 1] for r in D[a:b + 1]]
        for k in range(-(m - 1), m):
            exp["UG%d" % k] = [str(Ds[t][t + k]) for t in range(m - k)] if k >= 0 else [str(Ds[t - k][t]) for t in range(m + k)]
            W = [r[:] for r in D]
            for t in range(m - abs(k)):
                i, j = (a + t, a + t + k) if k >= 0 else (a + t - k, a + t)
                W[i][j] = -7
                if KIND[name] == 2:
                    W[j][i] = -7
            exp["UW%d" % k] = flat(W)
        # assignment of X(i,j) = 2000+10i+j to the sub-matrix view: the stored part of the block, mirrored for symmetric kinds
        kk = KIND[name]
        UA = [r[:] for r in D]
        X5 = lambda i, j: 2000 + 10 * i + j
        for i in range(m):
            for j in range(m):
                if kk == 0:
                    v = X5(i, j)
                elif kk == 1:
                    if not (-L <= j - i <= U):
                        continue
                    v = X5(i, j)
                elif name == "SymLo":
                    v = X5(max(i, j), min(i, j))
                elif name == "SymUp":
                    v = X5(min(i, j), max(i, j))
                elif kk == 3:
                    if i < j:
                        continue
                    v = X5(i, j)
                else:
                    if i > j:
                        continue
                    v = X5(i, j)
                UA[a + i][a + j] = v
        exp["UA"] = flat(UA)
    return exp, D


def sections(line):
    parts = [p.strip() for p in line.split("|")]
    head = parts[0].split()
    secs = {}
    for p in parts[1:]:
        t = p.split()
        if t:
            secs[t[0]] = t[1:]
    return head, secs


def check(run, replay=None):
    coq_ok = C.standard_coq_phase(run, CID, gens=["engines"])
    ok, msg = C.ensure_ocaml()
    if not ok:
        run.finding("build:ocaml", "broken-obligation", msg, {})
        return
    bd = C.build_dir()
    exe = os.path.join(bd, "c17")
    okc, cmd, log = C.cxx(os.path.join(C.HARNESS, "c17_special.cpp"), exe, "-O0 -g -w -fsanitize=address,undefined -fno-sanitize-recover=all")
    if not okc:
        run.finding("build:c17", "broken-obligation", "cannot build the harness: " + log[-600:], {"cmd": cmd})
        return
    rc, so, se = C.sh(exe, timeout=600)
    impl = [l for l in so.split("\n") if l.strip()]
    if rc != 0:
        run.finding("crash", "counterexample", "special-matrix harness died after %d configurations: %s" % (len(impl), [x for x in se.split("\n") if "ERROR" in x or "SUMMARY" in x][:2]),
                    {"last": impl[-1][:200] if impl else "", "stderr": se[-1500:]})
    heads = [" ".join(sections(l)[0]) for l in impl]
    rcm, mo, _ = C.sh(os.path.join(C.OCAML, "driver_c17.exe"), inp="\n".join(heads) + "\n", timeout=300)
    model = mo.split("\n")
    cov = run.coverage
    nontriv = set()
    for l, m in zip(impl, model):
        head, secs = sections(l)
        name, L, U, n = head[0], int(head[1]), int(head[2]), int(head[3])
        if replay is not None and head != replay.get("config"):
            continue
        exp, D = expected(name, L, U, n)
        for sname, vals in secs.items():
            cov["evaluations"] += 1
            if sname.startswith("W"):
                wi, wj = map(int, sname[1:].split("_"))
                W = [r[:] for r in D]
                W[wi][wj] = -5
                if KIND[name] == 2:
                    W[wj][wi] = -5
                want = flat(W)
            elif sname == "EXC":
                run.finding("exception:%s" % name, "counterexample", "unexpected exception for %s: %s" % (head, " ".join(vals)[:200]), {"config": head})
                continue
            else:
                want = exp.get(sname)
            if want is None:
                continue
            if vals != want:
                key = "dense:%s:%s" % (name, re.sub(r"[-0-9_]+$", "", sname))
                run.finding(key, "counterexample",
                            "%s(L=%d,U=%d) of size %d: section %s gives %s but the dense equivalent is %s" % (name, L, U, n, sname, " ".join(vals)[:160], " ".join(want)[:160]),
                            {"config": head, "section": sname, "impl": vals, "dense": want})
        if n >= 3:
            nontriv.add(tuple(head))
        if m.strip().rstrip("|").strip() != l.strip().rstrip("|").strip():
            ms = sections(m)[1]
            diff = [k for k in secs if ms.get(k) != secs[k]]
            run.finding("correspondence:engines:%s" % name, "broken-obligation",
                        "generated engine model and SpecialMatrix disagree for %s in sections %s" % (head, diff), {"config": head, "model": m[:800], "impl": l[:800]})
    cov["distinct_nontrivial"] = len(nontriv)
    cov["exhaustive"] = replay is None
    cov["samples"] = [{"config": sections(impl[40])[0], "line": impl[40][:300]}] if len(impl) > 40 else []
    cov["rule"] = ("all typedef'd kinds (Square row/col, Diag, Tridiag, Pentadiag, Symm both orientations, Lower/Upper both orders) plus general bands (1,2) (2,0) (0,3) (3,3) (2,1), "
                   "sizes 1..7 (bands wider than the matrix included); per configuration: all (i,j) element reads, conversion to dense, T(), T().T(), diag_vector(k) for every stored "
                   "diagonal of the matrix and of its transpose, submatrix_on_diagonal of both, diag_vector(k) of the sub-matrix view for every stored diagonal (read) and one of them written through to the parent, S+2S, S.T()+S, assignment from a dense expression, single-element write; integer data. "
                   "Each section is compared with the dense equivalent computed in Python and with the model generated from the source. Non-trivial = size >= 3. "
                   "Column-major band engines are reachable only through T() (their passive lvalue accessor does not compile).")
    cov["traces_validated_against_impl"] = cov["evaluations"]
    run.assumptions += ["tools/gen_engines.py (strict grammar for the engine structs) is trusted; its output is exercised by the correspondence run",
                        "active special matrices are covered under C03/C09 (same engine functions)"]
