"""Shared machinery of ./check: Coq build, extraction, C++ harness builds, known findings,
replays, evidence.  Plain python3, no dependencies."""
import os, sys, re, json, time, subprocess, hashlib, shutil, fcntl, atexit, random

VERIF = os.path.dirname(os.path.dirname(os.path.abspath(__file__)))
REPO = os.environ.get("VERIF_REPO", "/repo")
COQ = os.path.join(VERIF, "coq")
OCAML = os.path.join(VERIF, "ocaml")
HARNESS = os.path.join(VERIF, "harness")
GUARD = "RJHOGAN_ADEPT_2_VERIF"
NCPU = 16

_build_dir = None


def build_dir():
    """scratch directory for this run (removed at exit)"""
    global _build_dir
    if _build_dir is None:
        base = os.path.join(VERIF, "build")
        os.makedirs(base, exist_ok=True)
        _build_dir = os.path.join(base, "run.%d" % os.getpid())
        os.makedirs(_build_dir, exist_ok=True)
        atexit.register(lambda: shutil.rmtree(_build_dir, ignore_errors=True))
    return _build_dir


def sh(cmd, timeout=600, cwd=None, inp=None, env=None):
    """run a command, return (rc, stdout, stderr); rc=124 on timeout"""
    e = dict(os.environ)
    if env:
        e.update(env)
    try:
        p = subprocess.run(cmd, shell=isinstance(cmd, str), cwd=cwd, input=inp,
                           stdout=subprocess.PIPE, stderr=subprocess.PIPE,
                           timeout=timeout, env=e, universal_newlines=True, errors="replace")
        return p.returncode, p.stdout, p.stderr
    except subprocess.TimeoutExpired as ex:
        return 124, (ex.stdout or "") if isinstance(ex.stdout, str) else "", "TIMEOUT after %ss" % timeout


class Lock:
    def __init__(self, name):
        self.path = os.path.join(VERIF, "build", name)
        os.makedirs(os.path.dirname(self.path), exist_ok=True)

    def __enter__(self):
        self.f = open(self.path, "w")
        fcntl.flock(self.f, fcntl.LOCK_EX)
        return self

    def __exit__(self, *a):
        fcntl.flock(self.f, fcntl.LOCK_UN)
        self.f.close()


# ----------------------------------------------------------------------------- translators
def write_if_changed(path, text):
    old = None
    if os.path.exists(path):
        old = open(path).read()
    if old != text:
        with open(path, "w") as f:
            f.write(text)
        return True
    return False


def regen(names):
    """run translators tools/gen_<name>.py; each prints the .v text on stdout (rc!=0 = grammar error).
    returns {name: (ok, message)}; on failure a stub that does not compile is written so that
    dependent obligations fail instead of silently using an old table."""
    res = {}
    os.makedirs(os.path.join(COQ, "generated"), exist_ok=True)
    for n in names:
        tool = os.path.join(VERIF, "tools", "gen_%s.py" % n)
        out = os.path.join(COQ, "generated", "Gen_%s.v" % n.capitalize())
        rc, so, se = sh([sys.executable, tool, REPO], timeout=120)
        if rc == 0 and so.strip():
            write_if_changed(out, so)
            res[n] = (True, "")
        else:
            write_if_changed(out, "(* translator gen_%s.py failed on the current source: %s *)\nTranslator_failed.\n"
                             % (n, se.strip().replace("*)", "* )")[-400:]))
            res[n] = (False, se.strip()[-800:])
    return res


# ----------------------------------------------------------------------------- Coq
FORBIDDEN = re.compile(r"\b(Admitted|admit|Axiom|Axioms|Parameter|Parameters|Conjecture|Unset\s+Guard|bypass_check|type-in-type|impredicative-set|Admit\s+Obligations)\b")


def coq_sources():
    out = []
    for sub in ("theories", "generated", "extract"):
        d = os.path.join(COQ, sub)
        if os.path.isdir(d):
            for f in sorted(os.listdir(d)):
                if f.endswith(".v"):
                    out.append(os.path.join(d, f))
    return out


def strip_comments(text):
    out = []
    depth = 0
    i = 0
    while i < len(text):
        if text.startswith("(*", i):
            depth += 1
            i += 2
        elif text.startswith("*)", i) and depth > 0:
            depth -= 1
            i += 2
        else:
            if depth == 0:
                out.append(text[i])
            i += 1
    return "".join(out)


def hygiene():
    """forbidden vernacular anywhere in the development (comments stripped)"""
    bad = []
    for f in coq_sources():
        t = strip_comments(open(f).read())
        for m in FORBIDDEN.finditer(t):
            bad.append("%s: %s" % (os.path.relpath(f, VERIF), m.group(0)))
    return bad


def coq_project():
    """(re)write _CoqProject listing every .v present and refresh the Makefile"""
    lines = ["-Q theories Adept", "-Q generated AdeptGen", "-arg -w -arg -notation-overridden,-deprecated-hint-without-locality,-deprecated-instance-without-locality"]
    for sub in ("theories", "generated"):
        d = os.path.join(COQ, sub)
        if os.path.isdir(d):
            for f in sorted(os.listdir(d)):
                if f.endswith(".v"):
                    lines.append("%s/%s" % (sub, f))
    changed = write_if_changed(os.path.join(COQ, "_CoqProject"), "\n".join(lines) + "\n")
    if changed or not os.path.exists(os.path.join(COQ, "Makefile")):
        sh("coq_makefile -f _CoqProject -o Makefile", cwd=COQ, timeout=60)


def coq_make(targets=None, timeout=1500):
    """full .vo build of the targets (all if None) under a lock; returns (ok, log)"""
    with Lock("coq.lock"):
        coq_project()
        t = " ".join(targets) if targets else ""
        rc, so, se = sh("make -k -j%d %s" % (NCPU, t), cwd=COQ, timeout=timeout)
        return rc == 0, so + se


def coq_check_properties(cid, timeout=600):
    """compile Properties_<cid>.v afresh (always), collect theorem names and Print Assumptions.
    returns dict(ok, theorems, assumptions{thm: [axioms]}, log, cmd)"""
    src = os.path.join(COQ, "theories", "Properties_%s.v" % cid)
    text = strip_comments(open(src).read())
    thms = re.findall(r"^\s*(?:Theorem|Example)\s+([A-Za-z0-9_']+)", text, re.M)
    cmd = "coqc -Q theories Adept -Q generated AdeptGen theories/Properties_%s.v" % cid
    with Lock("coq.lock"):
        rc, so, se = sh("timeout %d %s" % (timeout, cmd), cwd=COQ, timeout=timeout + 10)
    log = so + se
    assumptions = {}
    # output of successive "Print Assumptions X." in order
    pa = re.findall(r"Print\s+Assumptions\s+([A-Za-z0-9_']+)\s*\.", text)
    blocks = re.split(r"(?m)^(?=Closed under the global context|Axioms:)", so)
    blocks = [b for b in blocks if b.startswith("Closed under") or b.startswith("Axioms:")]
    for name, b in zip(pa, blocks):
        if b.startswith("Closed"):
            assumptions[name] = []
        else:
            ax = re.findall(r"(?m)^([A-Za-z_][A-Za-z0-9_.']*)\s*:", b[len("Axioms:"):])
            assumptions[name] = sorted(set(ax))
    return {"ok": rc == 0, "theorems": thms, "assumptions": assumptions, "log": log[-3000:], "cmd": cmd}


# ----------------------------------------------------------------------------- OCaml
def ensure_ocaml(force=False):
    """extract the models (ExtrOcamlBasic only) and build the drivers; rebuild when stale"""
    with Lock("ocaml.lock"):
        ext = os.path.join(COQ, "extract", "Extract.v")
        model = os.path.join(OCAML, "model.ml")
        srcs = [ext] + [f for f in coq_sources() if ("/theories/" in f or "/generated/" in f) and "Propert" not in f and "Proofs" not in f]
        newest = max(os.path.getmtime(f) for f in srcs)
        if force or not os.path.exists(model) or os.path.getmtime(model) < newest:
            # the model files must be consistent with the regenerated tables even when a proof file above them
            # no longer compiles (make -k): extraction needs the definitions, not the proofs
            coq_make([os.path.relpath(f, COQ)[:-2] + ".vo" for f in srcs if f != ext])
            rc, so, se = sh("coqc -Q ../coq/theories Adept -Q ../coq/generated AdeptGen ../coq/extract/Extract.v",
                            cwd=OCAML, timeout=600)
            if rc != 0:
                return False, "extraction failed: " + (so + se)[-2000:]
        drivers = [f for f in sorted(os.listdir(OCAML)) if f.startswith("driver_") and f.endswith(".ml")]
        for d in drivers:
            exe = os.path.join(OCAML, d[:-3] + ".exe")
            deps = [os.path.join(OCAML, x) for x in ("model.ml", "zutil.ml", "zfns.ml", d)]
            if force or not os.path.exists(exe) or os.path.getmtime(exe) < max(os.path.getmtime(x) for x in deps):
                rc, so, se = sh("ocamlfind ocamlopt -O3 -w -a -o %s model.mli model.ml zutil.ml zfns.ml %s 2>&1 || "
                                "ocamlfind ocamlopt -w -a -o %s model.mli model.ml zutil.ml zfns.ml %s"
                                % (exe, d, exe, d), cwd=OCAML, timeout=600)
                if rc != 0:
                    return False, "driver build failed (%s): %s" % (d, (so + se)[-2000:])
        return True, ""


# ----------------------------------------------------------------------------- C++
def adept_tu():
    """single-translation-unit include file naming the CURRENT /repo/adept/*.h and *.cpp by path
    (include/adept_source.h is a generated *copy* and goes stale when adept/*.cpp is edited)"""
    p = os.path.join(build_dir(), "adept_tu.h")
    if not os.path.exists(p):
        files = [os.path.join(REPO, "config_platform_independent.h")]
        d = os.path.join(REPO, "adept")
        files += [os.path.join(d, f) for f in sorted(os.listdir(d)) if f.endswith(".h")]
        files += [os.path.join(d, f) for f in sorted(os.listdir(d)) if f.endswith(".cpp")]
        with open(p, "w") as f:
            f.write("#ifndef VERIF_ADEPT_TU\n#define VERIF_ADEPT_TU 1\n")
            for x in files:
                f.write('#include "%s"\n' % x)
            f.write("#endif\n")
    return p


def cxx(src, out, flags="", libs="", timeout=900, std="c++11", single_tu=True, compiler="g++", hooks=True):
    """compile a harness against the CURRENT /repo sources (one translation unit, hooks on)"""
    inc = "-I%s/include -I%s/adept" % (REPO, REPO)
    tu = "-include %s" % adept_tu() if single_tu else ""
    cmd = "%s -std=%s %s %s %s %s %s -o %s %s" % (compiler, std, ("-D" + GUARD) if hooks else "", flags, inc, tu, src, out, libs)
    rc, so, se = sh(cmd, timeout=timeout)
    return rc == 0, cmd, (so + se)[-4000:]


# ----------------------------------------------------------------------------- findings
def known_findings(cid):
    """KNOWN_FINDINGS.txt: 'known: property=C04 key=<key> <text>' / 'fixed: property=C04 <commit> <text>'"""
    known = {}
    p = os.path.join(VERIF, "KNOWN_FINDINGS.txt")
    if os.path.exists(p):
        for line in open(p):
            m = re.match(r"known:\s+property=(\S+)\s+key=(\S+)\s+(.*)", line.strip())
            if m and m.group(1) == cid:
                known[m.group(2)] = m.group(3)
    return known


class Run:
    """collects what one check run did; turns it into stdout lines, replay files, evidence, exit code"""

    def __init__(self, cid, tier, seed):
        self.cid, self.tier, self.seed = cid, tier, seed
        self.t0 = time.time()
        self.findings = []       # dict(key, kind, what, payload)
        self.coverage = {"evaluations": 0, "distinct_nontrivial": 0, "samples": [], "rule": "",
                         "obligations": 0, "discharged": 0, "checker_cmd": "", "trusted_base": []}
        self.assumptions = []
        self.notes = []
        self.level = "proof"

    def finding(self, key, kind, what, payload):
        """kind: 'counterexample' (property fails on a concrete input of the implementation)
                 'broken-obligation' (a theorem / generated definition / correspondence no longer checks)"""
        for f in self.findings:
            if f["key"] == key:
                return
        self.findings.append({"key": key, "kind": kind, "what": what, "payload": payload})

    def add_coq(self, props):
        cov = self.coverage
        n = len(props["theorems"])
        cov["obligations"] += n
        if props["ok"]:
            cov["discharged"] += n
        cov["checker_cmd"] = (cov["checker_cmd"] + " ; " if cov["checker_cmd"] else "") + \
            "make -C coq -j16 (full .vo build) ; " + props["cmd"]
        axs = sorted(set(a for l in props["assumptions"].values() for a in l))
        cov["print_assumptions"] = {k: (v if v else "Closed under the global context") for k, v in props["assumptions"].items()}
        cov["trusted_base"] += ["Coq 8.16.1 kernel (coqc, vm_compute; no native_compute)",
                                "axioms reported by Print Assumptions in this run: " + (", ".join(axs) if axs else "none (closed under the global context)")]

    def finish(self):
        known = known_findings(self.cid)
        nviol = 0
        lines = []
        # a concrete failing input (not a known one) supersedes "broken obligation" reports: it is the replay
        fresh = [f for f in self.findings if f["kind"] == "counterexample" and f["key"] not in known]
        if fresh:
            dropped = [f for f in self.findings if f["kind"] == "broken-obligation"]
            if dropped:
                self.notes.append("broken obligations subsumed by the counterexample(s): " + "; ".join(f["key"] for f in dropped))
                fresh[0]["payload"] = dict(fresh[0]["payload"], broken_obligations=[f["what"][:300] for f in dropped])
            self.findings = [f for f in self.findings if f["kind"] != "broken-obligation"]
        for f in self.findings:
            if f["kind"] == "counterexample" and f["key"] in known:
                lines.append("KNOWN-FINDING: property=%s %s [%s]" % (self.cid, known[f["key"]], f["key"]))
                continue
            nviol += 1
            d = os.path.join(VERIF, "replays", self.cid)
            os.makedirs(d, exist_ok=True)
            h = hashlib.sha1(json.dumps([f["key"], f["payload"]], sort_keys=True, default=str).encode()).hexdigest()[:12]
            path = os.path.join(d, "%s.json" % h)
            with open(path, "w") as fp:
                json.dump({"property": self.cid, "kind": f["kind"], "key": f["key"], "what": f["what"],
                           "seed": self.seed, "payload": f["payload"]}, fp, indent=1, default=str)
            tail = " no-failing-input-found" if f["kind"] == "broken-obligation" else ""
            lines.append("# %s: %s" % (f["key"], f["what"][:300].replace("\n", " ")))
            lines.append("VIOLATION property=%s replay=%s%s" % (self.cid, os.path.relpath(path, VERIF), tail))
        cov = self.coverage
        cov["known_findings_reobserved"] = [f["key"] for f in self.findings if f["key"] in known and f["kind"] == "counterexample"]
        cov["samples"] = cov["samples"][:8]
        ev = {"property_id": self.cid, "tier": self.tier, "seed": self.seed, "level": self.level,
              "coverage": cov, "assumptions": self.assumptions, "wall_s": round(time.time() - self.t0, 2),
              "violations": nviol, "notes": self.notes}
        os.makedirs(os.path.join(VERIF, "evidence"), exist_ok=True)
        with open(os.path.join(VERIF, "evidence", "%s.json" % self.cid), "w") as fp:
            json.dump(ev, fp, indent=1, default=str)
        for l in lines:
            print(l)
        print("%s tier=%s seed=%d obligations=%d/%d evaluations=%d violations=%d wall=%.1fs" % (
            self.cid, self.tier, self.seed, cov["discharged"], cov["obligations"], cov["evaluations"], nviol, time.time() - self.t0))
        sys.stdout.flush()
        return 1 if nviol else 0


def standard_coq_phase(run, cid, gens=(), extra_targets=()):
    """steps (1)(2) of every check: regenerate, build, re-check the property file.
    returns True when every obligation checked."""
    ok_all = True
    g = regen(gens)
    for n, (ok, msg) in g.items():
        if not ok:
            ok_all = False
            run.finding("translator:%s" % n, "broken-obligation",
                        "translator gen_%s.py rejects the current source (tie broken): %s" % (n, msg), {"translator": n, "message": msg})
    bad = hygiene()
    if bad:
        ok_all = False
        run.finding("hygiene", "broken-obligation", "forbidden vernacular in the development: %s" % bad[:5], {"hits": bad})
    targets = ["theories/Properties_%s.vo" % cid] + list(extra_targets)
    ok, log = coq_make(targets)
    props = coq_check_properties(cid)
    run.add_coq(props)
    if not (ok and props["ok"]):
        ok_all = False
        m = re.findall(r'File "([^"]+)", line (\d+)[^\n]*\n(Error:[^\n]*(?:\n[^\n]+){0,3})', log + props["log"])
        where = "; ".join("%s:%s %s" % (a, b, c.replace("\n", " ")[:200]) for a, b, c in m[:3]) or (log + props["log"])[-600:]
        run.finding("coq:%s" % cid, "broken-obligation",
                    "proof obligations of Properties_%s.v no longer check: %s" % (cid, where),
                    {"theorem_file": "coq/theories/Properties_%s.v" % cid, "errors": where})
    if run.tier == "thorough" and ok and props["ok"]:
        # independent re-check of the compiled property file and everything under it
        cmd = "coqchk -silent -o -Q theories Adept -Q generated AdeptGen Adept.Properties_%s" % cid
        with Lock("coq.lock"):
            rc, so, se = sh("timeout 300 " + cmd, cwd=COQ, timeout=320)
        out = so + se
        m = re.search(r"\* Axioms:(.*?)\n\s*\n\* Constants/Inductives relying on type-in-type:(.*?)\n\s*\n\* Constants/Inductives relying on unsafe \(co\)fixpoints:(.*?)\n\s*\n\* Inductives whose positivity is assumed:(.*?)\n", out, re.S)
        if rc == 124:
            run.notes.append("coqchk did not finish within 5 minutes (property files that depend on Coquelicot / Interval take more than 25 minutes to re-check); not counted")
        elif rc != 0 or not m:
            ok_all = False
            run.finding("coqchk:%s" % cid, "broken-obligation", "coqchk rejects the compiled Properties_%s.vo or its dependencies: %s" % (cid, out[-600:]), {"cmd": cmd, "output": out[-3000:]})
        else:
            ax = [a.strip() for a in m.group(1).strip().split("\n") if a.strip() and a.strip() != "<none>"]
            unsafe = [g.strip() for g in (m.group(2), m.group(3), m.group(4)) if g.strip() != "<none>"]
            run.coverage["coqchk"] = {"cmd": cmd, "axioms_of_all_loaded_libraries": ax, "type_in_type_unsafe_fixpoints_assumed_positivity": unsafe or "none"}
            run.coverage["checker_cmd"] += " ; " + cmd
            if unsafe:
                ok_all = False
                run.finding("coqchk-unsafe:%s" % cid, "broken-obligation", "coqchk reports definitions relying on disabled checks: %s" % unsafe, {"cmd": cmd})
    return ok_all
