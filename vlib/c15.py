"""C15 — matrix multiplication returns the true product for every operand form.
Model Matmul.v (hand, tie H).  The harness multiplies every pair of operand forms (dense views, vectors, expressions,
fixed-size arrays, symmetric / triangular / band / square special matrices on either side) and compares with the
triple loop on integer-valued data under AddressSanitizer; Jacobians of active products against the derivative of the
defining sum; dense pairs additionally against the extracted marshalling model on the same strides."""
import os
from . import common as C

CID = "C15"


def check(run, replay=None):
    tier = run.tier
    C.standard_coq_phase(run, CID, gens=("band", "engines"))
    ok, msg = C.ensure_ocaml()
    bd = C.build_dir()
    exe = os.path.join(bd, "c15")
    okc, cmd, log = C.cxx(os.path.join(C.HARNESS, "c15_matmul.cpp"), exe, "-O0 -g -w -DHAVE_BLAS -fsanitize=address,undefined -fno-sanitize-recover=all", libs="-lblas", hooks=False)
    if not ok or not okc:
        run.finding("build:c15", "broken-obligation", "cannot build driver/harness (BLAS build) against the current tree: " + (msg or log)[-600:], {"cmd": cmd})
        return
    rc, so, se = C.sh("%s %d" % (exe, 5 if tier == "quick" else 7), timeout=1800)
    lines = so.split("\n")
    cov = run.coverage
    if rc != 0:
        last = [l for l in lines if l.startswith("B ")][-1:] or ["B ?"]
        run.finding("crash:%s" % "_".join(last[0].split()[1:6]), "counterexample",
                    "matmul harness died (exit %d; AddressSanitizer or crash) in: %s : %s" % (rc, last[0][2:], se[:500].replace("\n", " ")),
                    {"case": last[0][2:], "stderr": se[:3000]})
    forms = set()
    samples = []
    for l in lines:
        t = l.split()
        if not t or t[0] not in ("P", "J"):
            continue
        cov["evaluations"] += 1
        status = t[-1]
        if t[0] == "P":
            lf, rf, m, k, n = t[1], t[2], t[3], t[4], t[5]
            forms.add((lf, rf))
            if status != "ok":
                run.finding("product:%s:%s" % (lf, rf), "counterexample",
                            "matmul / ** of a %s left operand and a %s right operand (%sx%s times %sx%s) %s" % (
                                lf, rf, m, k, k, n, "differs from the product of the element values by %s" % t[6] if status == "DIFF" else "throws " + status[4:]),
                            {"case": "product", "line": l})
            elif len(samples) < 3 and lf != "row-major" and int(m) > 1:
                samples.append({"line": l})
        else:
            lf, rf, act, m, k, n = t[1], t[2], t[3], t[4], t[5], t[6]
            forms.add((lf + "/active-" + act, rf))
            if status != "ok":
                run.finding("jacobian:%s:%s:%s" % (lf, rf, act), "counterexample",
                            "active matmul (%s operand(s) active) of a %s and a %s operand (%sx%s times %sx%s): the Jacobian %s" % (
                                act, lf, rf, m, k, k, n, "differs from the derivative of the defining sum by %s" % t[7] if status == "DIFF" else "computation throws " + status[4:]),
                            {"case": "jacobian", "line": l})
    # tie: dense pairs against the extracted model
    d = [l for l in lines if l.startswith("D ")]
    rc2, mo, me = C.sh(os.path.join(C.OCAML, "driver_c15.exe"), inp="\n".join(d) + "\n", timeout=600)
    mo = mo.split("\n")
    ntie = ncopy = 0
    for a, b in zip(d, mo):
        if b == "copy":
            ncopy += 1
            continue
        ntie += 1
        try:
            va = [float(x) for x in a.split("|")[3].split()]
            vb = [float(x) for x in b.split()]
        except ValueError:
            va, vb = [0], [1]
        if va != vb:
            run.finding("correspondence:marshalling", "broken-obligation",
                        "model Matmul.v and the implementation disagree on the product for operand strides [%s]: implementation %s / model %s; theorems of Properties_C15.v no longer speak about this code"
                        % (a.split("|", 1)[0].strip() + " |" + "|".join(a.split("|")[1:3]), va[:6], vb[:6]),
                        {"line": a, "model": b, "correspondence": "Matmul.adept_gemm_cell / adept_gemv_cell vs matmul.h + cppblas.cpp + libblas"})
            break
    cov["distinct_nontrivial"] = len(forms)
    cov["traces_validated_against_impl"] = ntie
    cov["model_says_copy_first"] = ncopy
    cov["samples"] = samples or [{"note": "no sample"}]
    cov["exhaustive"] = False
    cov["rule"] = ("10 dense matrix forms (row-major, transposed, strided rows / columns / both, reversed rows / columns, sliced, transposed-sliced, column-major storage) "
                   "x the same 10 on the other side, x 5 vector forms (contiguous, strided, reversed, sliced, strided-reversed) on either side, expressions, fixed-size arrays, "
                   "and SymmMatrix (both orientations), SquareMatrix, UpperMatrix, LowerMatrix, TridiagMatrix, DiagMatrix, band matrices with unequal diagonal counts and their "
                   "transposes on either side of dense / vector operands; extents including 1; both matmul() and **; integer-valued elements so that every product is exact; "
                   "AddressSanitizer + UBSan; active products: full Jacobian against the derivative of the defining sum for 5 x 5 layouts x which operand is active. "
                   "Non-trivial = distinct (left form, right form) pairs.")
    run.assumptions += ["Matmul.v is a hand model of the dense marshalling; tie = product values compared exactly on the strides the harness reports",
                        "libblas is taken to implement the reference semantics written in Matmul.v (it is what computes the numbers compared)",
                        "special-matrix kernels, copies of awkwardly strided operands and front ends are tested, not modelled (partial)",
                        "BLAS itself is not instrumented: reads it makes outside an operand are only caught when they change the result or fault",
                        "DiagMatrix::T() as an operand is excluded here: it is the recorded finding diagmatrix-transpose of C17"]
