"""Generator of passive/active array statements shared by C04 (value semantics), C05 (vectorization)
and C03 (derivatives).  A statement is produced in three forms at once:
  * C++ source text operating on named parent arrays;
  * an s-expression for the extracted Coq model (views as base/extents/strides in the parent's REAL layout);
  * a Python specification: 'evaluate the whole right-hand side, element by element in index order on the
    initial contents, then store' computed on nested lists (independent of strides and of the alias logic).
"""
import random, itertools

# parent arrays: name -> extents.  Two families (P*, Q*) so that disjoint operands exist.
PARENTS = {"P0": [13], "P1": [5, 6], "P2": [2, 3, 4], "Q0": [13], "Q1": [5, 6], "P3": [4, 17], "Q2": [3, 2, 4]}
ORDER = ["P0", "P1", "P2", "Q0", "Q1", "P3", "Q2"]


def prod(l):
    r = 1
    for x in l:
        r *= x
    return r


def init_value(name, flat_index):
    """initial content of logical element number flat_index of a parent (small integers, exact in float)"""
    k = ORDER.index(name)
    return ((flat_index * 3 + k * 5) % 7) - 2          # -2 .. 4


class V:
    """a view: C++ text, parent, logical multi-indices (nested lists of parent logical index tuples)"""

    def __init__(self, name, text, cells, dims):
        self.name, self.text, self.cells, self.dims = name, text, cells, dims   # cells: flat list (index order) of parent index tuples


def all_idx(dims):
    return list(itertools.product(*[range(d) for d in dims]))


def parent_view(name):
    d = PARENTS[name]
    return V(name, name, all_idx(d), list(d))


def slice_view(rng, v, want_dims=None, allow_neg=True):
    """random operator() on a full parent: returns a view with len(want_dims) ranges matching want_dims (or random)"""
    pd = PARENTS[v.name]
    r = len(pd)
    nr = len(want_dims) if want_dims is not None else rng.randint(1, r)
    if nr > r:
        return None
    range_pos = sorted(rng.sample(range(r), nr))
    args, sel = [], []
    k = 0
    for dpos in range(r):
        d = pd[dpos]
        if dpos in range_pos:
            n = want_dims[k] if want_dims is not None else rng.randint(1, d)
            k += 1
            if n > d:
                return None
            smax = (d - 1) // (n - 1) if n > 1 else 3
            s = rng.randint(1, max(1, min(3, smax)))
            span = (n - 1) * s
            b = rng.randint(0, d - 1 - span)
            idxs = [b + s * t for t in range(n)]
            if allow_neg and rng.random() < 0.3:
                idxs = idxs[::-1]
                s = -s
            if s == 1 and idxs[0] == 0 and n == d and rng.random() < 0.5:
                args.append("__")
            elif s == 1:
                args.append("range(%d,%d)" % (idxs[0], idxs[-1]))
            else:
                args.append("stride(%d,%d,%d)" % (idxs[0], idxs[-1], s))
            sel.append(idxs)
        else:
            i = rng.randrange(d)
            args.append(str(i))
            sel.append(i)
    dims = [len(s) for s in sel if isinstance(s, list)]
    cells = []
    for combo in itertools.product(*[s if isinstance(s, list) else [s] for s in sel]):
        cells.append(tuple(combo))
    return V(v.name, "%s(%s)" % (v.name, ",".join(args)), cells, dims)


def transpose(v):
    n0, n1 = v.dims
    cells = [v.cells[i * n1 + j] for j in range(n1) for i in range(n0)]
    return V(v.name, v.text + ".T()", cells, [n1, n0])


def random_view(rng, dims, family=None, allow_neg=True):
    """a view with exactly the extents dims, on a parent of the requested family ('P'/'Q'/None)"""
    for _ in range(50):
        name = rng.choice([n for n in ORDER if (family is None or n[0] == family) and len(PARENTS[n]) >= len(dims)])
        if len(dims) == 2 and rng.random() < 0.25:
            v = slice_view(rng, parent_view(name), [dims[1], dims[0]], allow_neg)
            if v is not None:
                return transpose(v)
        v = slice_view(rng, parent_view(name), list(dims), allow_neg)
        if v is not None:
            return v
    return None


# ----------------------------------------------------------------------------- expressions
class E:
    def __init__(self, kind, *a):
        self.kind, self.a = kind, a


OPS = {"+": "BAdd", "-": "BSub", "*": "BMul", "max": "BMax", "min": "BMin"}


def gen_expr(rng, dims, depth, target_family, overlap, allow=("leaf", "scalar", "neg", "bin", "spread", "outer")):
    """random expression of extents dims.  overlap: probability that a leaf is taken from the target's family"""
    r = rng.random()
    if depth == 0 or r < 0.3:
        if rng.random() < 0.15 and "scalar" in allow and depth < 2:
            return E("scalar", rng.randint(-3, 3))
        fam = target_family if rng.random() < overlap else ("Q" if target_family == "P" else "P")
        v = random_view(rng, dims, fam)
        if v is None:
            v = random_view(rng, dims, None)
        if v is None:
            return E("scalar", 1)
        return E("leaf", v)
    if r < 0.4 and "neg" in allow:
        return E("neg", gen_expr(rng, dims, depth - 1, target_family, overlap, allow))
    if r < 0.5 and len(dims) == 2 and "outer" in allow:
        return E("outer", gen_expr(rng, [dims[0]], 0, target_family, overlap, ("leaf",)), gen_expr(rng, [dims[1]], 0, target_family, overlap, ("leaf",)))
    if r < 0.6 and len(dims) == 2 and "spread" in allow:
        d = rng.randrange(2)
        sub = [dims[1 - d]]
        return E("spread", d, gen_expr(rng, sub, 0, target_family, overlap, ("leaf",)), dims[d])
    op = rng.choice(["+", "+", "-", "*", "max", "min"])
    a = gen_expr(rng, dims, depth - 1, target_family, overlap, allow)
    b = gen_expr(rng, dims, depth - 1, target_family, overlap, allow)
    if not leaves(a) and not leaves(b):
        v = random_view(rng, dims, None)
        if v is not None:
            a = E("leaf", v)
    return E("bin", op, a, b)


def cxx(e, scalar_type="double"):
    k = e.kind
    if k == "leaf":
        return e.a[0].text
    if k == "scalar":
        return "%s(%d)" % (scalar_type, e.a[0]) if e.a[0] >= 0 else "(%s(%d))" % (scalar_type, e.a[0])
    if k == "neg":
        return "(-%s)" % cxx(e.a[0], scalar_type)
    if k == "bin":
        op, a, b = e.a
        if op in ("max", "min"):
            return "%s(%s,%s)" % (op, cxx(a, scalar_type), cxx(b, scalar_type))
        return "(%s %s %s)" % (cxx(a, scalar_type), op, cxx(b, scalar_type))
    if k == "noalias":
        return "noalias(%s)" % cxx(e.a[0], scalar_type)
    if k == "spread":
        return "spread<%d>(%s,%d)" % (e.a[0], cxx(e.a[1], scalar_type), e.a[2])
    if k == "outer":
        return "outer_product(%s,%s)" % (cxx(e.a[0], scalar_type), cxx(e.a[1], scalar_type))
    if k == "gt":
        return "(%s > %s)" % (cxx(e.a[0], scalar_type), cxx(e.a[1], scalar_type))
    raise ValueError(k)


def leaves(e):
    if e.kind == "leaf":
        return [e.a[0]]
    out = []
    for x in e.a:
        if isinstance(x, E):
            out += leaves(x)
    return out


def spec_eval(e, mem, idx):
    """value of element idx (tuple) of e on memory mem: {parent: {logical tuple: value}}"""
    k = e.kind
    if k == "leaf":
        v = e.a[0]
        pos = 0
        for d, i in zip(v.dims, idx):
            pos = pos * d + i
        return mem[v.name][v.cells[pos]]
    if k == "scalar":
        return e.a[0]
    if k == "neg":
        return -spec_eval(e.a[0], mem, idx)
    if k == "bin":
        op, a, b = e.a
        x, y = spec_eval(a, mem, idx), spec_eval(b, mem, idx)
        return {"+": x + y, "-": x - y, "*": x * y, "max": max(x, y), "min": min(x, y)}[op]
    if k == "noalias":
        return spec_eval(e.a[0], mem, idx)
    if k == "spread":
        d, sub, n = e.a
        return spec_eval(sub, mem, tuple(i for t, i in enumerate(idx) if t != d))
    if k == "outer":
        return spec_eval(e.a[0], mem, (idx[0],)) * spec_eval(e.a[1], mem, (idx[1],))
    if k == "gt":
        return 1 if spec_eval(e.a[0], mem, idx) > spec_eval(e.a[1], mem, idx) else 0
    raise ValueError(k)


# ----------------------------------------------------------------------------- model s-expressions
def view_triple(v, layout):
    """(base, dims, strides) of the view in the parent's real layout; layout[name] = list of parent strides"""
    st = layout[v.name]

    def a(cell):
        return sum(i * s for i, s in zip(cell, st))
    base = a(v.cells[0])
    strides = []
    r = len(v.dims)
    for k in range(r):
        if v.dims[k] > 1:
            idx = [0] * r
            idx[k] = 1
            pos = 0
            for d, i in zip(v.dims, idx):
                pos = pos * d + i
            strides.append(a(v.cells[pos]) - base)
        else:
            strides.append(st[-1] if st else 1)
    return base, v.dims, strides


def sx_view(v, layout):
    b, d, s = view_triple(v, layout)
    return "(v %d %d (%s) (%s))" % (ORDER.index(v.name), b, " ".join(map(str, d)), " ".join(map(str, s)))


def sx(e, layout):
    k = e.kind
    if k == "leaf":
        return sx_view(e.a[0], layout)
    if k == "scalar":
        return "(s %d)" % e.a[0]
    if k == "neg":
        return "(neg %s)" % sx(e.a[0], layout)
    if k == "bin":
        return "(bin %s %s %s)" % (OPS[e.a[0]], sx(e.a[1], layout), sx(e.a[2], layout))
    if k == "noalias":
        return "(noalias %s)" % sx(e.a[0], layout)
    if k == "spread":
        return "(spread %d %s)" % (e.a[0], sx(e.a[1], layout))
    if k == "outer":
        return "(outer %s %s)" % (sx(e.a[0], layout), sx(e.a[1], layout))
    if k == "gt":
        return "(bin BGt %s %s)" % (sx(e.a[0], layout), sx(e.a[1], layout))
    raise ValueError(k)


# ----------------------------------------------------------------------------- statements
class Stmt:
    def __init__(self, kind, **kw):
        self.kind = kind
        self.__dict__.update(kw)


def initial_memory():
    mem = {}
    for name in ORDER:
        d = PARENTS[name]
        mem[name] = {cell: init_value(name, k) for k, cell in enumerate(all_idx(d))}
    return mem


def overlaps_shifted(target, e):
    """does some leaf of e address a target cell at a different position? (compound-assignment known finding)"""
    tset = {c: k for k, c in enumerate(target.cells)}
    for v in leaves(e):
        if v.name != target.name:
            continue
        if len(v.cells) == len(target.cells):
            for k, c in enumerate(v.cells):
                if c in tset and tset[c] != k:
                    return True
        else:
            if any(c in tset for c in v.cells):
                return True
    return False


def index_vector_cxx(idx, mode):
    """C++ block prefix declaring intVector I (contents idx) as a contiguous vector, a stride-2 view or a reversed view"""
    n = len(idx)
    if mode == 0:
        pre = "intVector IP(%d); intVector I; I >>= IP;" % n
    elif mode == 1:
        pre = "intVector IP(%d); IP = -99; intVector I; I >>= IP(stride(0,%d,2));" % (2 * n, 2 * n - 2)
    else:
        pre = "intVector IP(%d); intVector I; I >>= IP(stride(%d,0,-1));" % (n, n - 1)
    return pre + " " + " ".join("I(%d) = %d;" % (k, v) for k, v in enumerate(idx))


def gen_extra(rng):
    """statement kinds outside the Coq model (specification only): integer-vector-indexed targets and sources, find, minloc, maxloc,
    mean / product / maxval / minval along a dimension"""
    kind = rng.choice(["scatter", "scatter", "gather", "gather", "find", "minloc", "maxloc", "reddim", "mixed", "mixed"])
    if kind == "mixed":
        # an index vector combined with scalar indices and ranges (possibly `end`-relative) on a rank-2 / rank-3 parent
        name = rng.choice(["P2", "Q2", "P1", "P3"])
        d = PARENTS[name]
        r = len(d)
        vpos = rng.randrange(r)
        args, sel = [], []
        for k in range(r):
            if k == vpos:
                n = rng.randint(1, min(d[k], 4))
                idx = rng.sample(range(d[k]), n)
                args.append("I"); sel.append(idx)
            else:
                c = rng.random()
                if c < 0.35:
                    i = rng.randrange(d[k]); args.append(str(i)); sel.append(i)
                elif c < 0.5:
                    args.append("__"); sel.append(list(range(d[k])))
                elif c < 0.7:
                    args.append("stride(end,0,-1)"); sel.append(list(range(d[k] - 1, -1, -1)))
                elif c < 0.85 and d[k] >= 2:
                    args.append("range(end-1,end)"); sel.append([d[k] - 2, d[k] - 1])
                else:
                    a = rng.randrange(d[k]); b = rng.randrange(a, d[k]); args.append("range(%d,%d)" % (a, b)); sel.append(list(range(a, b + 1)))
        lists = [x for x in sel if isinstance(x, list)]
        if not 1 <= len(lists) <= 2:
            return None
        cells = [tuple(c) for c in itertools.product(*[x if isinstance(x, list) else [x] for x in sel])]
        dims = [len(x) for x in lists]
        return Stmt("mixed", name=name, text="%s(%s)" % (name, ",".join(args)), idx=sel[vpos], mode=rng.randrange(3), cells=cells, dims=dims,
                    write=rng.random() < 0.5, c=rng.randint(5, 9))
    if kind in ("scatter", "gather"):
        L = rng.randint(2, 7)
        n = rng.randint(1, L)
        big = random_view(rng, [L], "P")
        if big is None or len(set(big.cells)) != len(big.cells):
            return None
        mode = rng.randrange(3)
        if kind == "scatter":
            idx = rng.sample(range(L), n)                       # distinct: the stored positions do not depend on the order
            # the right-hand side may read the indexed target's own parent (IndexedArray::operator= tests for the overlap and
            # evaluates into a temporary): plain and compound assignment
            e = gen_expr(rng, [n], rng.choice([0, 1, 1]), "P", rng.choice([0.0, 0.5, 0.9]), ("leaf", "scalar", "neg", "bin"))
            if not leaves(e):
                return None
            return Stmt("scatter", target=big, idx=idx, mode=mode, e=e, op=rng.choice(["", "", "+", "-", "*"]))
        idx = [rng.randrange(L) for _ in range(n)]
        t = random_view(rng, [n], "Q")
        if t is None or len(set(t.cells)) != len(t.cells):
            return None
        e = gen_expr(rng, [n], rng.choice([0, 1]), "Q", 0.0, ("leaf", "scalar", "neg", "bin"))
        tset = set(t.cells)
        if any(v.name == t.name and any(c in tset for c in v.cells) for v in leaves(e)):
            return None
        return Stmt("gather", target=t, src=big, idx=idx, mode=mode, e=e, op=rng.choice(["+", "*", "-"]))
    if kind in ("find", "minloc", "maxloc"):
        n = rng.randint(1, 7)
        e = gen_expr(rng, [n], rng.choice([0, 1, 1, 2]), "P", 0.5, ("leaf", "neg", "bin"))
        if not leaves(e):
            return None
        return Stmt(kind, e=e, dims=[n], c=rng.randint(-1, 3))
    rank = rng.choice([2, 2, 3])
    dims = [rng.choice([1, 2, 3, 4]) for _ in range(rank)]
    e = gen_expr(rng, dims, rng.choice([0, 1]), "P", 0.5, ("leaf", "neg", "bin"))
    if not leaves(e):
        return None
    red = rng.choice(["sum", "product", "maxval", "minval"])
    if red == "product" and prod(dims) > 12:
        return None
    return Stmt("reddim", red=red, e=e, dims=dims, dim=rng.randrange(rank))


def gen_stmt(rng, kinds=("assign", "compound", "where", "fill", "reduce", "noalias", "extra", "extra")):
    kind = rng.choice(kinds)
    if kind == "extra":
        return gen_extra(rng)
    rank = rng.choice([1, 1, 2, 2, 3])
    for _ in range(100):
        dims = [rng.choice([1, 2, 3, 4, 5]) for _ in range(rank)]
        target = random_view(rng, dims, "P")
        if target is not None and len(set(target.cells)) == len(target.cells):
            break
    else:
        return None
    if kind == "fill":
        return Stmt("fill", target=target, c=rng.randint(-3, 5))
    overlap = rng.choice([0.0, 0.5, 0.9])
    e = gen_expr(rng, dims, rng.choice([0, 1, 1, 2]), "P", overlap)
    if not leaves(e):
        if kind == "reduce":
            return None
        if kind in ("assign", "compound", "where") and e.kind != "scalar":
            return None
    if kind == "assign":
        return Stmt("assign", target=target, e=e)
    if kind == "noalias":
        e2 = gen_expr(rng, dims, 1, "P", 0.0)      # operands from the other family only: wrapping them is legitimate
        # gen_expr falls back to any family when the other one has no view of these extents: noalias() over an operand that
        # shares memory with the target is the user's broken promise, not a statement with defined value semantics
        tset = set(target.cells)
        if any(v.name == target.name and any(c in tset for c in v.cells) for v in leaves(e2)):
            return None
        return Stmt("assign", target=target, e=E("noalias", e2))
    if kind == "compound":
        op = rng.choice(["+", "+", "-", "*"])
        return Stmt("compound", target=target, e=e, op=op, shifted=overlaps_shifted(target, e))
    if kind == "where":
        # masks independent of the target or reading it at the same position (see DESIGN.md: the mask is not the right-hand side)
        mleaf = target if rng.random() < 0.4 else random_view(rng, dims, "Q")
        if mleaf is None:
            mleaf = target
        mask = E("gt", E("leaf", mleaf), E("scalar", rng.randint(-1, 2)))
        return Stmt("where", target=target, e=e, mask=mask)
    if kind == "reduce":
        red = rng.choice(["sum", "product", "maxval", "minval", "sumdim", "dot", "count_gt"])
        if red == "dot":
            n = rng.randint(1, 6)
            a, b = random_view(rng, [n], None), random_view(rng, [n], None)
            if a is None or b is None:
                return None
            return Stmt("reduce", red=red, e=E("leaf", a), e2=E("leaf", b), dims=[n])
        if red == "sumdim":
            if rank < 2:
                return None
            return Stmt("reduce", red=red, e=e, dims=dims, dim=rng.randrange(rank))
        if red == "product":
            dims = dims[:1] if prod(dims) > 8 else dims
            e = gen_expr(rng, dims, 0, "P", 0.5)
            if not leaves(e):
                return None
        return Stmt("reduce", red=red, e=e, dims=dims)
    return None


def stmt_cxx(s, ty="double"):
    if s.kind == "fill":
        return "%s = %s(%d);" % (s.target.text, ty, s.c)
    if s.kind == "assign":
        return "%s = %s;" % (s.target.text, cxx(s.e, ty))
    if s.kind == "compound":
        return "%s %s= %s;" % (s.target.text, s.op, cxx(s.e, ty))
    if s.kind == "where":
        return "%s.where(%s) = %s;" % (s.target.text, cxx(s.mask, ty), cxx(s.e, ty))
    if s.kind == "reduce":
        if s.red == "dot":
            return "RESULT(dot_product(%s,%s));" % (cxx(s.e, ty), cxx(s.e2, ty))
        if s.red == "sumdim":
            return "RESULTA(sum(%s,%d));" % (cxx(s.e, ty), s.dim)
        if s.red == "count_gt":
            return "RESULT(count(%s > %s(0)));" % (cxx(s.e, ty), ty)
        return "RESULT(%s(%s));" % (s.red, cxx(s.e, ty))
    if s.kind == "scatter":
        return "{ %s %s(I) %s= %s; }" % (index_vector_cxx(s.idx, s.mode), s.target.text, s.op, cxx(s.e, ty))
    if s.kind == "gather":
        return "{ %s %s = %s(I) %s %s; }" % (index_vector_cxx(s.idx, s.mode), s.target.text, s.src.text, s.op, cxx(s.e, ty))
    if s.kind == "mixed":
        if s.write:
            return "{ %s %s = %s(%d); }" % (index_vector_cxx(s.idx, s.mode), s.text, ty, s.c)
        return "{ %s Array<%d,real,false> r__; r__ = %s; out_arr(os, r__); }" % (index_vector_cxx(s.idx, s.mode), len(s.dims), s.text)
    if s.kind == "find":
        return "RESULTI(find(%s > %s(%d)));" % (cxx(s.e, ty), ty, s.c)
    if s.kind in ("minloc", "maxloc"):
        return "RESULT(%s(%s));" % (s.kind, cxx(s.e, ty))
    if s.kind == "reddim":
        return "RESULTA(%s(%s,%d));" % (s.red, cxx(s.e, ty), s.dim)
    raise ValueError(s.kind)


def stmt_sx(s, layout):
    if s.kind in ("scatter", "gather", "find", "minloc", "maxloc", "reddim", "mixed"):
        return None            # outside the Coq model: specification only
    if s.kind == "fill":
        return "(fill %s %d)" % (sx_view(s.target, layout), s.c)
    if s.kind == "assign":
        return "(assign %s %s)" % (sx_view(s.target, layout), sx(s.e, layout))
    if s.kind == "compound":
        return "(op %s %s %s)" % (OPS[s.op], sx_view(s.target, layout), sx(s.e, layout))
    if s.kind == "where":
        return "(where %s %s %s)" % (sx_view(s.target, layout), sx(s.mask, layout), sx(s.e, layout))
    if s.kind == "reduce":
        d = " ".join(map(str, s.dims))
        if s.red == "dot":
            return "(reduce sum (%s) (bin BMul %s %s))" % (d, sx(s.e, layout), sx(s.e2, layout))
        if s.red == "sumdim":
            return "(sumdim %d (%s) %s)" % (s.dim, d, sx(s.e, layout))
        if s.red == "count_gt":
            return "(reduce sum (%s) (bin BGt %s (s 0)))" % (d, sx(s.e, layout))
        return "(reduce %s (%s) %s)" % (s.red, d, sx(s.e, layout))
    raise ValueError(s.kind)


def stmt_spec(s):
    """(final memory as {parent: flat list}, result list or None) demanded by the property"""
    mem = initial_memory()
    result = None
    if s.kind in ("fill", "assign", "compound", "where"):
        t = s.target
        idxs = all_idx(t.dims)
        if s.kind == "fill":
            vals = [s.c] * len(idxs)
            mask = [1] * len(idxs)
        else:
            e = s.e if s.kind != "compound" else E("bin", s.op, E("leaf", t), s.e)
            vals = [spec_eval(e, mem, i) for i in idxs]
            mask = [spec_eval(s.mask, mem, i) for i in idxs] if s.kind == "where" else [1] * len(idxs)
        for k, i in enumerate(idxs):
            if mask[k]:
                mem[t.name][t.cells[k]] = vals[k]
    elif s.kind == "scatter":
        t = s.target
        vals = [spec_eval(s.e, mem, (k,)) for k in range(len(s.idx))]
        if s.op:
            f = {"+": lambda a, b: a + b, "-": lambda a, b: a - b, "*": lambda a, b: a * b}[s.op]
            vals = [f(mem[t.name][t.cells[i]], vals[k]) for k, i in enumerate(s.idx)]
        for k, i in enumerate(s.idx):
            mem[t.name][t.cells[i]] = vals[k]
    elif s.kind == "gather":
        t = s.target
        f = {"+": lambda a, b: a + b, "-": lambda a, b: a - b, "*": lambda a, b: a * b}[s.op]
        vals = [f(mem[s.src.name][s.src.cells[i]], spec_eval(s.e, mem, (k,))) for k, i in enumerate(s.idx)]
        for k in range(len(s.idx)):
            mem[t.name][t.cells[k]] = vals[k]
    elif s.kind == "mixed":
        if s.write:
            for c in s.cells:
                mem[s.name][c] = s.c
        else:
            result = [mem[s.name][c] for c in s.cells]
    elif s.kind == "find":
        result = [k for k in range(s.dims[0]) if spec_eval(s.e, mem, (k,)) > s.c]
    elif s.kind in ("minloc", "maxloc"):
        vals = [spec_eval(s.e, mem, (k,)) for k in range(s.dims[0])]
        best = min(vals) if s.kind == "minloc" else max(vals)
        result = [vals.index(best)]
    elif s.kind == "reddim":
        out_dims = [d for k, d in enumerate(s.dims) if k != s.dim]
        result = []
        for oi in all_idx(out_dims):
            vals = [spec_eval(s.e, mem, tuple(list(oi[:s.dim]) + [kk] + list(oi[s.dim:]))) for kk in range(s.dims[s.dim])]
            if s.red == "sum":
                result.append(sum(vals))
            elif s.red == "product":
                r = 1
                for v in vals:
                    r *= v
                result.append(r)
            else:
                result.append(max(vals) if s.red == "maxval" else min(vals))
    else:
        idxs = all_idx(s.dims)
        if s.red == "dot":
            result = [sum(spec_eval(s.e, mem, i) * spec_eval(s.e2, mem, i) for i in idxs)]
        elif s.red == "sumdim":
            out_dims = [d for k, d in enumerate(s.dims) if k != s.dim]
            result = []
            for oi in all_idx(out_dims):
                tot = 0
                for kk in range(s.dims[s.dim]):
                    full = list(oi[:s.dim]) + [kk] + list(oi[s.dim:])
                    tot += spec_eval(s.e, mem, tuple(full))
                result.append(tot)
        else:
            vals = [spec_eval(s.e, mem, i) for i in idxs]
            if s.red == "sum":
                result = [sum(vals)]
            elif s.red == "product":
                r = 1
                for v in vals:
                    r *= v
                result = [r]
            elif s.red == "maxval":
                result = [max(vals)]
            elif s.red == "minval":
                result = [min(vals)]
            elif s.red == "count_gt":
                result = [sum(1 for v in vals if v > 0)]
    flat = {name: [mem[name][c] for c in all_idx(PARENTS[name])] for name in ORDER}
    return flat, result


def boundary_stmts():
    """systematic: every relative position of a target and an operand of the same parent around the boundary of the
    alias test (disjoint, touching in exactly one element at either end, shifted by 1..n-1, identical), forward
    and reversed operands, rank 1 and rows/columns of a matrix"""
    out = []
    N = PARENTS["P0"][0]
    for n in (1, 2, 3, 4):
        for ts in range(0, N - n + 1, 1):
            for sh in range(-n - 1, n + 2):
                os_ = ts + sh
                if os_ < 0 or os_ + n > N:
                    continue
                if ts not in (0, 3, N - n) and abs(sh) not in (n - 1, n, 1, 0):
                    continue
                t = V("P0", "P0(range(%d,%d))" % (ts, ts + n - 1), [(i,) for i in range(ts, ts + n)], [n])
                for rev in (False, True):
                    cells = [(i,) for i in range(os_, os_ + n)]
                    if rev:
                        if n == 1:
                            continue
                        cells = cells[::-1]
                        txt = "P0(stride(%d,%d,-1))" % (os_ + n - 1, os_)
                    else:
                        txt = "P0(range(%d,%d))" % (os_, os_ + n - 1)
                    v = V("P0", txt, cells, [n])
                    out.append(Stmt("assign", target=t, e=E("leaf", v)))
                    if sh in (n - 1, -(n - 1), n, -n) and not rev:
                        out.append(Stmt("assign", target=t, e=E("bin", "+", E("leaf", v), E("scalar", 1))))
                        out.append(Stmt("where", target=t, e=E("leaf", v), mask=E("gt", E("leaf", t), E("scalar", -5))))
    # matrix: a row against a shifted row / column segments touching in one element
    R, Cc = PARENTS["P1"]
    for n in (2, 3):
        for i in range(R):
            for ts in range(0, Cc - n + 1):
                for sh in (-(n - 1), n - 1, -n, n, 0, 1):
                    os_ = ts + sh
                    if os_ < 0 or os_ + n > Cc:
                        continue
                    t = V("P1", "P1(%d,range(%d,%d))" % (i, ts, ts + n - 1), [(i, j) for j in range(ts, ts + n)], [n])
                    v = V("P1", "P1(%d,range(%d,%d))" % (i, os_, os_ + n - 1), [(i, j) for j in range(os_, os_ + n)], [n])
                    out.append(Stmt("assign", target=t, e=E("leaf", v)))
        for j in range(Cc):
            for ts in range(0, R - n + 1):
                for sh in (-(n - 1), n - 1):
                    os_ = ts + sh
                    if os_ < 0 or os_ + n > R:
                        continue
                    t = V("P1", "P1(range(%d,%d),%d)" % (ts, ts + n - 1, j), [(i, j) for i in range(ts, ts + n)], [n])
                    v = V("P1", "P1(range(%d,%d),%d)" % (os_, os_ + n - 1, j), [(i, j) for i in range(os_, os_ + n)], [n])
                    out.append(Stmt("assign", target=t, e=E("leaf", v)))
    # every reduction along every dimension of whole rank-2 and rank-3 parents and of one strided / reversed view of each
    for name in ("P1", "P2", "Q2", "P3"):
        pv = parent_view(name)
        views = [pv]
        d = PARENTS[name]
        if len(d) == 3:
            cells = [(i, j, k) for i in range(d[0] - 1, -1, -1) for j in range(d[1]) for k in range(0, d[2], 2)]
            views.append(V(name, "%s(stride(%d,0,-1),__,stride(0,%d,2))" % (name, d[0] - 1, d[2] - 1 - (d[2] - 1) % 2), cells, [d[0], d[1], len(range(0, d[2], 2))]))
        else:
            cells = [(i, j) for i in range(0, d[0], 2) for j in range(d[1] - 1, -1, -1)]
            views.append(V(name, "%s(stride(0,%d,2),stride(%d,0,-1))" % (name, d[0] - 1 - (d[0] - 1) % 2, d[1] - 1), cells, [len(range(0, d[0], 2)), d[1]]))
        for v in views:
            for dim in range(len(v.dims)):
                for red in ("sum", "maxval", "minval", "product"):
                    if red == "product" and v.dims[dim] > 6:
                        continue
                    out.append(Stmt("reddim", red=red, e=E("leaf", v), dims=list(v.dims), dim=dim))
    return out
