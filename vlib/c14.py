"""C14 — shared array data can be linked / sliced concurrently when built thread-safe.
Tie G: Gen_Globals.v (micro-steps of add_link / remove_link, declared type of n_links_).  Tie H: threads making and
destroying views of one shared array under ThreadSanitizer and AddressSanitizer, thread-safe build with ordinary views,
default build with soft links."""
import os
from . import common as C
from . import c12

CID = "C14"


def check(run, replay=None):
    tier = run.tier
    C.standard_coq_phase(run, CID, gens=("globals",))
    bd = C.build_dir()
    src = os.path.join(C.HARNESS, "c14_links.cpp")
    builds = [("tsan-threadsafe", "-O1 -g -w -fsanitize=thread -pthread -DADEPT_STORAGE_THREAD_SAFE", "hard"),
              ("asan-threadsafe", "-O1 -g -w -fsanitize=address -pthread -DADEPT_STORAGE_THREAD_SAFE", "hard"),
              ("tsan-default-softlinks", "-O1 -g -w -fsanitize=thread -pthread", "soft")]
    cov = run.coverage
    samples = []
    for name, fl, mode in builds:
        exe = os.path.join(bd, "c14_" + name)
        okc, cmd, log = C.cxx(src, exe, fl, hooks=False)
        if not okc:
            run.finding("build:c14:" + name, "broken-obligation", "link harness does not compile against the current tree: " + log[-600:], {"cmd": cmd})
            continue
        runs = [(mode, T, IT) for T, IT in ([(2, 300), (4, 300), (8, 200)] if tier == "quick" else [(2, 5000), (4, 5000), (8, 3000), (16, 2000)])]
        if mode == "hard":
            runs += [("last", T, IT) for T, IT in ([(2, 1500), (4, 1000)] if tier == "quick" else [(2, 20000), (3, 20000), (4, 20000), (8, 10000)])]
        for mode, T, IT in runs:
            what = "%s build, %d threads x %d iterations of %s" % (name, T, IT, "the threads hold the last links and release them together" if mode == "last" else "copy / link / slice / destroy (%s views)" % mode)
            if "tsan" in name:
                so = c12.run_tsan(run, CID, exe, "%s %d %d" % (mode, T, IT), what, cov)
            else:
                rc, so, se = C.sh("%s %s %d %d" % (exe, mode, T, IT), timeout=1200)
                if rc != 0:
                    run.finding("memory:%s" % name, "counterexample", "AddressSanitizer / crash in %s: %s" % (what, se[:600].replace("\n", " ")),
                                {"case": what, "stderr": se[:3000]})
            for l in so.split("\n"):
                t = l.split()
                if len(t) == 6 and t[0] == "L":
                    cov["evaluations"] += int(t[2]) * int(t[3])
                    cov["distinct_nontrivial"] += int(t[3]) if int(t[2]) > 1 else 0
                    samples.append({"build": name, "mode": t[1], "threads": int(t[2]), "iterations": int(t[3]), "checksum_failures": int(t[4]), "storage_objects_left": int(t[5])})
                    if int(t[4]):
                        run.finding("values:%s" % name, "counterexample", "views of the shared array read wrong elements %s times (%s)" % (t[4], what), {"case": what})
                    if int(t[5]) != 0 and "storage-counters-race" not in [f["key"] for f in run.findings]:
                        run.finding("leak:%s" % name, "counterexample", "n_storage_objects() is off by %s after all threads joined and the owner was destroyed (%s)" % (t[5], what), {"case": what})
    cov["samples"] = samples[:6] or [{"note": "no run completed"}]
    cov["traces_validated_against_impl"] = cov["evaluations"]
    cov["exhaustive"] = False
    cov["rule"] = ("threads simultaneously copy-construct, link, slice (vector range, matrix rows, diagonal, view of a view) and destroy views of one shared array while "
                   "reading it and creating private arrays; thread-safe build under ThreadSanitizer and under AddressSanitizer (double free / use after free), default build "
                   "through soft links under ThreadSanitizer; n_storage_objects() after join. Non-trivial = iterations with more than one thread.")
    run.assumptions += ["Gen_Globals.v regenerated from the sources on every run: add_link / remove_link micro-steps and the declared type of n_links_",
                        "modelled, not proved: a std::atomic<int> read-modify-write is one indivisible step",
                        "the sanitizers see only the executions that happened",
                        "n_storage_objects() is only compared when the counters themselves did not race in this run (known finding storage-counters-race)"]
