"""C12 — threads that each own a stack do not interfere.
Tie G: Gen_Globals.v (inventory of process-wide state).  Tie H: std::thread workloads under ThreadSanitizer, results
compared bit for bit with the solo run; racy locations must be inside the set the access map predicts."""
import os, re
from . import common as C

CID = "C12"
PREDICTED = {"adept::internal::n_storage_objects_created_": "storage-counters-race", "adept::internal::n_storage_objects_deleted_": "storage-counters-race"}


def tsan_races(stderr):
    """list of (location or top frame, report text) for every ThreadSanitizer report"""
    out = []
    for blk in stderr.split("WARNING: ThreadSanitizer:")[1:]:
        kind = re.sub(r"\s*\(pid=\d+\)", "", blk.split("\n", 1)[0].strip())
        m = re.search(r"Location is global '([^']+)'", blk)
        if m:
            loc = m.group(1)
        else:
            f = re.search(r"#0 (\S+)[^\n]*?(/repo/[^\s:]+:\d+)", blk)
            loc = "%s at %s" % (kind, f.group(2) if f else (re.search(r"#0 ([^\n]+)", blk).group(1)[:80] if re.search(r"#0 ([^\n]+)", blk) else "?"))
        out.append((loc, ("WARNING: ThreadSanitizer:" + blk)[:2500]))
    return out


def run_tsan(run, cid, exe, args, what, cov):
    rc, so, se = C.sh('TSAN_OPTIONS="halt_on_error=0 history_size=4" %s %s' % (exe, args), timeout=1200)
    races = tsan_races(se)
    locs = {}
    for loc, txt in races:
        locs.setdefault(loc, txt)
    for loc, txt in locs.items():
        if loc in PREDICTED:
            run.finding(PREDICTED[loc], "counterexample", "ThreadSanitizer: data race on %s (%s)" % (loc, what), {"case": what, "location": loc, "report": txt})
        else:
            run.finding("race:%s" % re.sub(r"[^A-Za-z0-9_:.]+", "_", loc)[:80], "counterexample",
                        "ThreadSanitizer reports a race / memory error outside the predicted set, on %s, in %s" % (loc, what), {"case": what, "location": loc, "report": txt})
    cov.setdefault("tsan_locations", [])
    cov["tsan_locations"] = sorted(set(cov["tsan_locations"]) | set(locs))
    if rc not in (0, 66) and not races:
        run.finding("crash:%s" % what, "counterexample", "%s died with exit code %d: %s" % (what, rc, se[-300:]), {"case": what, "stderr": se[-2000:]})
    return so


def check(run, replay=None):
    tier = run.tier
    C.standard_coq_phase(run, CID, gens=("globals",))
    bd = C.build_dir()
    exe = os.path.join(bd, "c12")
    okc, cmd, log = C.cxx(os.path.join(C.HARNESS, "c12_threads.cpp"), exe, "-O1 -g -w -DHAVE_BLAS -fsanitize=thread -pthread", libs="-lblas", hooks=False)
    if not okc:
        run.finding("build:c12", "broken-obligation", "thread harness does not compile against the current tree: " + log[-600:], {"cmd": cmd})
        return
    cov = run.coverage
    configs = [(2, 60), (4, 60), (8, 30)] if tier == "quick" else [(2, 2000), (3, 2000), (4, 2000), (8, 1000), (16, 500)]
    samples = []
    for T, R in configs:
        so = run_tsan(run, CID, exe, "%d %d" % (T, R), "%d threads x %d rounds, each thread its own Stack" % (T, R), cov)
        for l in so.split("\n"):
            t = l.split()
            if len(t) == 5 and t[0] == "R":
                cov["evaluations"] += int(t[1]) * int(t[2])
                cov["distinct_nontrivial"] += int(t[2]) if int(t[1]) > 1 else 0
                samples.append({"threads": int(t[1]), "rounds": int(t[2]), "result_mismatches": int(t[3]), "active_stack_failures": int(t[4])})
                if int(t[3]):
                    run.finding("interference:%s" % t[1], "counterexample",
                                "with %s concurrent threads, %s thread-rounds produced results that differ (bitwise) from the same workload run alone" % (t[1], t[3]),
                                {"case": "threads", "threads": int(t[1]), "rounds": int(t[2])})
                if int(t[4]):
                    run.finding("active-stack", "counterexample", "active_stack() was not the thread's own stack (or not null in a thread without one) %s times" % t[4],
                                {"case": "threads", "threads": int(t[1])})
    cov["samples"] = samples or [{"note": "no run completed"}]
    cov["traces_validated_against_impl"] = cov["evaluations"]
    cov["exhaustive"] = False
    cov["rule"] = ("std::thread workloads: each thread constructs its own Stack, records active scalar and array statements (element-wise, outer_product, reductions), runs "
                   "adjoint, tangent, forward / reverse / automatic Jacobians and allocates passive arrays; results compared bitwise with the solo run; one extra thread without "
                   "a stack checks active_stack() == 0; all under ThreadSanitizer (library built without the verification hooks). Non-trivial = rounds with more than one thread. "
                   "Schedules are those the OS produces: ThreadSanitizer's happens-before analysis, not the repetition, is what speaks about other interleavings.")
    run.assumptions += ["Gen_Globals.v regenerated from the sources on every run; the proof that its Plain entries are the settings, the unsafe pointer and the two counters is re-checked",
                        "modelled, not proved: a workload touches only its own Stack / arrays and the inventoried globals (ThreadSanitizer observes this)",
                        "ThreadSanitizer sees only the executions that happened; its vector-clock analysis covers re-orderings of the observed synchronisation, not all schedules"]
