"""generator of tape cases shared by C02, C13 (and C10): text lines understood by
ocaml/driver_c02.ml and harness/c02_jacobian.cpp"""
import random


def segs_for(rng, ng, count, allow_neg=True):
    """list of segments (start,count,step) whose flattened length is `count`; repeated and
    overlapping indices on purpose"""
    segs, left = [], count
    while left > 0:
        c = min(left, rng.choice([1, 1, 2, 3, 4, left]))
        if c == 1:
            segs.append((rng.randrange(ng), 1, 1))
        else:
            step = rng.choice([1, 1, 2, 3, -1, -2] if allow_neg else [1, 1, 2, 3])
            span = (c - 1) * abs(step)
            if span >= ng:
                step = 1 if step > 0 else -1
                span = c - 1
            if span >= ng:
                c = 1
                segs.append((rng.randrange(ng), 1, 1))
                left -= 1
                continue
            lo = rng.randrange(0, ng - span)
            segs.append((lo, c, step) if step > 0 else (lo + span, c, step))
        left -= c
    return segs


def flat(segs):
    return [s + i * st for (s, c, st) in segs for i in range(c)]


def gen_case(rng, M, n=None, m=None):
    n = n if n is not None else rng.randrange(1, 3 * M + 3)
    m = m if m is not None else rng.randrange(1, 3 * M + 3)
    ng = rng.randrange(max(3, max(n, m) // 2 + 1), max(n, m) + 6)
    ns = rng.randrange(0, 12)
    toks = [ng, ns]
    for _ in range(ns):
        lhs = rng.randrange(ng)
        k = rng.choice([0, 1, 1, 2, 2, 3, 4])
        toks += [lhs, k]
        for _ in range(k):
            toks += [rng.choice([-8, -4, -3, -2, -1, 0, 1, 2, 3, 4, 6, 8]), rng.randrange(ng)]
    si, sd = segs_for(rng, ng, n), segs_for(rng, ng, m)
    for segs in (si, sd):
        toks.append(len(segs))
        for s in segs:
            toks += list(s)
    return " ".join(map(str, toks)), n, m


def sections(line):
    out = {}
    for part in line.split("|"):
        p = part.split()
        if p:
            out[p[0]] = p[1:]
    return out
