"""C09 — recording never writes outside its buffers.  Model Buffers.v (tie H: event traces from the
guarded hook) + generated site table Gen_Sites.v (tie G)."""
import os, re, random
from . import common as C

CID = "C09"
CAPS_QUICK = [1, 2, 3, 4, 7]
CAPS_THOROUGH = [1, 2, 3, 4, 5, 7, 8, 16, 64, 1000]
FLAGS = "-O0 -g -w -DHAVE_BLAS -fsanitize=address,undefined -fno-sanitize-recover=all"


def parse(line):
    p = [x.strip() for x in line.split("|")]
    if len(p) < 6 or not p[0].startswith("K"):
        return None
    kind, s, d = p[0].split()
    return {"kind": kind[1:], "s": int(s), "d": int(d), "start": p[1], "trace": p[2], "end": p[3], "viol": int(p[4]), "grads": p[5]}


def requests(trace):
    return " ".join(t for t in trace.split() if t[0] in "CPILR")


def check(run, replay=None):
    import concurrent.futures as cf
    tier = run.tier
    coq_ok = C.standard_coq_phase(run, CID, gens=["sites", "ops", "reduce"])
    ok, msg = C.ensure_ocaml()
    if not ok:
        run.finding("build:ocaml", "broken-obligation", msg, {})
        return
    caps = CAPS_QUICK if tier == "quick" else CAPS_THOROUGH
    if replay is not None:
        caps = [replay["capacity"]]
    bd = C.build_dir()
    C.adept_tu()

    def build(k):
        exe = os.path.join(bd, "c09_k%d" % k)
        okc, cmd, log = C.cxx(os.path.join(C.HARNESS, "c09_buffers.cpp"), exe, FLAGS + " -DADEPT_INITIAL_STACK_LENGTH=%d" % k, libs="-lblas")
        return k, okc, exe, cmd, log
    exes = {}
    with cf.ThreadPoolExecutor(max_workers=8) as ex:
        for k, okc, exe, cmd, log in ex.map(build, caps):
            if okc:
                exes[k] = exe
            else:
                run.finding("build:c09", "broken-obligation", "cannot build the harness against the current tree: " + log[-600:], {"cmd": cmd})
    model = os.path.join(C.OCAML, "driver_c09.exe")
    cov = run.coverage
    ref_grads, ref_req = {}, {}
    kinds_seen, nontriv = set(), set()
    for k in caps:
        if k not in exes:
            continue
        if replay is not None:
            rc, so, se = C.sh("%s %s 12 64" % (exes[k], replay["kind"]), timeout=900)
        else:
            rc, so, se = C.sh(exes[k], timeout=900)
        lines = [parse(l) for l in so.split("\n")]
        lines = [l for l in lines if l]
        if replay is not None:
            lines = [l for l in lines if (l["kind"], l["s"], l["d"]) == (replay["kind"], replay["s"], replay["d"])]
        if rc != 0:
            last = lines[-1] if lines else None
            run.finding("crash:k=%d" % k, "counterexample",
                        "catalogue run with initial capacity %d died (rc=%d) after %s: %s" % (k, rc, (last["kind"], last["s"], last["d"]) if last else None, se.strip().split("\n")[1:3]),
                        {"capacity": k, "kind": last["kind"] if last else "?", "s": last["s"] if last else 0, "d": last["d"] if last else 0, "stderr": se[-1500:]})
        inp = "\n".join("%s | %s" % (l["start"], l["trace"]) for l in lines) + "\n"
        rcm, mo, _ = C.sh(model, inp=inp, timeout=300)
        mo = mo.split("\n")
        for l, m in zip(lines, mo):
            cov["evaluations"] += 1
            kinds_seen.add(l["kind"])
            key3 = (l["kind"], l["s"], l["d"])
            payload = {"capacity": k, "kind": l["kind"], "s": l["s"], "d": l["d"], "trace": l["trace"], "start": l["start"], "end": l["end"]}
            if "G" in l["trace"] or "g" in l["trace"]:
                nontriv.add((k,) + key3)
            # (1) the property itself on the implementation: no store outside the buffers
            if l["viol"] > 0:
                run.finding("overflow:%s" % l["kind"], "counterexample",
                            "statement kind '%s' (size %d) entered with %d spare operation slots and initial capacity %d stores %d time(s) at or "
                            "beyond the allocated capacity: trace [%s]" % (l["kind"], l["s"], l["d"], k, l["viol"], l["trace"]), payload)
                continue
            # (2) derivatives identical to those of every other capacity
            gk = (l["kind"], l["s"])
            if gk in ref_grads and ref_grads[gk][0] != l["grads"]:
                run.finding("derivs:%s" % l["kind"], "counterexample",
                            "derivatives of kind '%s' (size %d) depend on the buffer capacity: [%s] with k=%d,d=%d but [%s] with k=%d,d=%d"
                            % (l["kind"], l["s"], l["grads"], k, l["d"], ref_grads[gk][0], ref_grads[gk][1], ref_grads[gk][2]), payload)
            ref_grads.setdefault(gk, (l["grads"], k, l["d"]))
            if gk in ref_req and ref_req[gk] != requests(l["trace"]):
                run.finding("requests:%s" % l["kind"], "broken-obligation",
                            "the sequence of recording requests of kind '%s' depends on the capacity (model assumes it does not)" % l["kind"], payload)
            ref_req.setdefault(gk, requests(l["trace"]))
            # (3) correspondence with the model: same growth events, same final state, and the trace obeys the discipline [safe]
            mp = [x.strip() for x in m.split("|")]
            if len(mp) < 4:
                continue
            if mp[0].split() != l["trace"].split() or mp[1] != l["end"]:
                run.finding("correspondence:buffers", "broken-obligation",
                            "Buffers.v and StackStorageOrig disagree on kind '%s' (s=%d,d=%d,k=%d): model [%s] -> %s, impl [%s] -> %s"
                            % (l["kind"], l["s"], l["d"], k, mp[0], mp[1], l["trace"], l["end"]), dict(payload, model=m))
            elif mp[3] != "safe=1":
                run.finding("discipline:%s" % l["kind"], "broken-obligation",
                            "the trace of kind '%s' (s=%d) pushes without sufficient reservation (hypothesis [safe] of C09_no_out_of_bounds_store fails) "
                            "although no overflow happened in this run: [%s]" % (l["kind"], l["s"], l["trace"]), payload)
        cov["samples"].append({"capacity": k, "case": [lines[len(lines) // 3]["kind"], lines[len(lines) // 3]["s"], lines[len(lines) // 3]["d"]],
                               "trace": lines[len(lines) // 3]["trace"][:200]} if lines else {})
    # when only the discipline / an obligation / the correspondence broke: search the implementation for a real overflow
    broken = [f for f in run.findings if f["kind"] == "broken-obligation"]
    if broken and replay is None and not any(f["kind"] == "counterexample" for f in run.findings):
        kinds = sorted(set(f["payload"].get("kind") for f in broken if f["payload"].get("kind"))) or sorted(kinds_seen)
        nsearch = 0
        for k in caps:
            if k not in exes:
                continue
            for kd in kinds[:12]:
                rc, so, se = C.sh("%s %s 12 64" % (exes[k], kd), timeout=600)
                for l in [parse(x) for x in so.split("\n")]:
                    if not l:
                        continue
                    nsearch += 1
                    if l["viol"] > 0:
                        run.finding("overflow:%s" % l["kind"], "counterexample",
                                    "search: statement kind '%s' (size %d) entered with %d spare operation slots and initial capacity %d stores %d time(s) "
                                    "beyond the allocated capacity: trace [%s]" % (l["kind"], l["s"], l["d"], k, l["viol"], l["trace"]),
                                    {"capacity": k, "kind": l["kind"], "s": l["s"], "d": l["d"], "trace": l["trace"]})
                        break
                if any(f["kind"] == "counterexample" for f in run.findings):
                    break
            if any(f["kind"] == "counterexample" for f in run.findings):
                break
        cov["search_cases"] = nsearch
    # generated obligations: one per check_space call
    gen = os.path.join(C.COQ, "generated", "Gen_Sites.v")
    nsites = len(re.findall(r"^\s*mkSite ", open(gen).read(), re.M)) if os.path.exists(gen) else 0
    cov["obligations"] += nsites
    if coq_ok:
        cov["discharged"] += nsites
    cov["generated_site_obligations"] = nsites
    cov["statement_kinds"] = sorted(kinds_seen)
    cov["distinct_nontrivial"] = len(nontriv)
    cov["rule"] = ("catalogue of %d statement kinds that record (scalar ctor/assign/compound/copy, element references, array = expression/passive/"
                   "scalar/active scalar, reversed views, where, either_or, integer-indexed targets rank 1-2, reductions whole and per dimension, dot, "
                   "outer_product, spread, diag_vector, add/append_derivative_dependence, fixed arrays, symmetric matrices, interp, matmul) x sizes "
                   "{1,2,3,5,9} x spare slots d in 0..11 (0..3 for large sizes) x initial capacities %s, ASan+UBSan, hook skips and counts any store beyond "
                   "capacity.  Non-trivial = a buffer grew during the traced statement." % (len(kinds_seen), caps))
    cov["traces_validated_against_impl"] = cov["evaluations"]
    run.assumptions += ["demand column of the site table (tools/sites_table.py) is read by hand from the source; every observed trace is additionally "
                        "checked against the discipline [safe], which is the hypothesis of the theorems",
                        "tools/gen_sites.py (strict grammar) is trusted to find every check_space call",
                        "memory safety of the C++ stores themselves: ASan + capacity hook, not proved"]
