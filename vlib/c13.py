"""C13 — parallel Jacobian equals the serial one.  Model jac_*_omp of Jacobian.v."""
import os, random, re
from . import common as C
from .tapecases import gen_case
from . import c02

CID = "C13"


def check(run, replay=None):
    tier, seed = run.tier, run.seed
    rng = random.Random(seed * 7919 + 13)
    C.standard_coq_phase(run, CID, gens=("jacobian",))
    ok, msg = C.ensure_ocaml()
    if not ok:
        run.finding("build:ocaml", "broken-obligation", msg, {})
        return
    builds = c02.BUILDS_QUICK if tier == "quick" else c02.BUILDS_THOROUGH
    exes = c02.build_all(run, builds, "-fopenmp", tag="_omp")
    model = os.path.join(C.OCAML, "driver_c02.exe")
    threads = [1, 2, 3, 16] if tier == "quick" else [1, 2, 3, 4, 5, 7, 8, 11, 13, 16]
    nontriv = set()
    hook_seen = 0
    crashed = False
    for label, M, flags in builds:
        if label not in exes:
            continue
        if replay is not None:
            n, m = c02.nm_of(replay["case"])
            cases = [(replay["case"], n, m)]
            threads_here = [int(replay.get("args", "2") or 2)]
        else:
            cases = []
            for n in range(1, 3 * M + 3):
                for m in ([1, M + 1, 3 * M + 2] if tier == "quick" else range(1, 3 * M + 3)):
                    cases.append(gen_case(rng, M, n, m))
            cases += [gen_case(rng, M, rng.randrange(M + 1, 5 * M), rng.randrange(M + 1, 5 * M)) for _ in range(40 if tier == "quick" else 200)]
            threads_here = threads
        for k in threads_here:
            se = c02.compare(run, label + ":threads=%d" % k, M, exes[label][0], cases, model, CID, args=str(k), what="OpenMP (%d threads)" % k)
            if se == "CRASH":
                crashed = True
                break
            mh = re.search(r"HOOK threads_used=(\d+) blocks=(\d+)", se or "")
            if mh and k > 1:
                hook_seen = max(hook_seen, int(mh.group(1)))
        for line, n, m in cases:
            if n > M and m > M:
                nontriv.add(line)
        run.coverage["samples"].append({"build": label, "M": M, "threads": threads_here, "case": cases[len(cases) // 2][0]})
    cov = run.coverage
    cov["distinct_nontrivial"] = len(nontriv)
    cov["openmp_threads_that_processed_blocks"] = hook_seen
    if replay is None and hook_seen < 2 and not crashed:
        run.notes.append("hook counter saw fewer than 2 OpenMP threads processing blocks: the parallel routine may not have been exercised")
        run.finding("hook:no-parallel-run", "broken-obligation",
                    "the per-thread block counter (hook in jacobian.cpp) saw %d threads: the OpenMP routines were not exercised, so the tie of "
                    "jac_*_omp to the code was not checked in this run" % hook_seen, {"threads_seen": hook_seen})
    cov["rule"] = ("same tapes and observations as C02, harness built with -fopenmp, set_max_jacobian_threads(k) for k in %s; every "
                   "output compared exactly with the model (whose OpenMP routines in two block orders equal the serial ones) and with the "
                   "unit-vector passes; n_statements/n_operations compared after the Jacobian calls (recording unchanged).  Non-trivial = "
                   "m,n > block width (parallel routine is dispatched)." % threads)
    cov["traces_validated_against_impl"] = cov["evaluations"]
    run.assumptions += ["threads are modelled as an arbitrary execution order of whole blocks with private buffers; hardware interleavings inside a block touch only private memory and disjoint output cells (C13_blocks_disjoint)",
                        "OpenMP runtime and its static schedule are trusted to run each block exactly once"]
