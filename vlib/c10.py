"""C10 — a recording can be replayed, re-seeded, paused and restarted without residue.
Model Protocol.v (hand, tie H).  Two runs on a pausable build: (1) random protocol histories on the real Stack against
the extracted model, every observation compared; (2) every statement kind of the catalogue executed while paused."""
import os, random
from . import common as C

CID = "C10"


def gen_history(rng, maxlen):
    ng = rng.randrange(2, 7)
    toks = [str(ng)]
    paused = False
    seeded = False
    nind = ndep = 0
    style = rng.choice(["mixed", "passes", "rerecord", "pausey", "jacobians"])
    for _ in range(rng.randrange(5, maxlen)):
        r = rng.random()
        w = {"mixed": (0.30, 0.45, 0.62, 0.70, 0.80, 0.88), "passes": (0.12, 0.40, 0.75, 0.80, 0.85, 0.90), "rerecord": (0.30, 0.42, 0.55, 0.60, 0.66, 0.86),
             "pausey": (0.35, 0.45, 0.58, 0.62, 0.88, 0.92), "jacobians": (0.22, 0.30, 0.40, 0.75, 0.80, 0.86)}[style]
        if r < w[0]:
            lhs = rng.randrange(ng)
            k = rng.choice([0, 1, 1, 2, 2, 3])
            toks += ["S", str(lhs), str(k)]
            for _ in range(k):
                toks += [str(rng.choice([-8, -6, -4, -2, -1, 0, 1, 2, 3, 4, 6, 8])), str(rng.randrange(ng))]
        elif r < w[1]:
            toks += ["G", str(rng.randrange(ng)), str(rng.choice([-4, -2, 1, 2, 4, 8]))]
            seeded = True
        elif r < w[2]:
            x = rng.random()
            if x < 0.35:
                toks.append("F" if seeded or rng.random() < 0.1 else "C")
            elif x < 0.7:
                toks.append("R" if seeded or rng.random() < 0.1 else "C")
            else:
                toks.append("C"); seeded = False
        elif r < w[3]:
            x = rng.random()
            if x < 0.35:
                toks += ["I", str(rng.randrange(ng))]; nind += 1
            elif x < 0.7:
                toks += ["D", str(rng.randrange(ng))]; ndep += 1
            elif x < 0.8:
                toks.append("CI"); nind = 0
            elif x < 0.9:
                toks.append("CD"); ndep = 0
            else:
                toks.append("J")
        elif r < w[4]:
            toks.append("U" if paused else "P"); paused = not paused
        elif r < w[5]:
            toks.append("N"); seeded = False; nind = ndep = 0
        else:
            x = rng.random()
            if x < 0.5:
                toks += ["O", str(rng.randrange(ng))]
            elif x < 0.75:
                toks.append("K")
            else:
                toks.append("J")
    # closing observations
    toks.append("K")
    toks.append("J")
    for i in range(ng):
        toks += ["O", str(i)]
    return " ".join(toks)


def valid(line):
    """every object index refers to an object that exists at that point"""
    toks = line.split()
    n = int(toks[0]); i = 1
    n0 = n
    try:
        while i < len(toks):
            t = toks[i]
            if t == "S":
                k = int(toks[i + 2])
                idx = [int(toks[i + 1])] + [int(toks[i + 4 + 2 * j]) for j in range(k)]
                i += 3 + 2 * k
            elif t == "G":
                idx = [int(toks[i + 1])]; i += 3
            elif t == "W":
                idx = [int(toks[i + 1]), int(toks[i + 3])]; i += 4
            elif t in ("I", "D", "O"):
                idx = [int(toks[i + 1])]; i += 2
            else:
                idx = []
                if t == "A":
                    n += 1
                if t == "X" and n > n0:
                    n -= 1
                i += 1
            if any(x < 0 or x >= n for x in idx):
                return False
    except (ValueError, IndexError):
        return False
    return True


def shrink(line, differs):
    toks = line.split()
    ng, rest = toks[0], toks[1:]
    # split into operations
    ops, i = [], 0
    while i < len(rest):
        t = rest[i]
        if t == "S":
            k = int(rest[i + 2]); n = 3 + 2 * k
        elif t == "G":
            n = 3
        elif t == "W":
            n = 4
        elif t in ("I", "D", "O"):
            n = 2
        else:
            n = 1
        ops.append(rest[i:i + n]); i += n
    changed = True
    while changed and len(ops) > 1:
        changed = False
        for k in range(len(ops)):
            cand = ops[:k] + ops[k + 1:]
            l = " ".join([ng] + [x for o in cand for x in o])
            if valid(l) and differs(l):
                ops = cand; changed = True
                break
    return " ".join([ng] + [x for o in ops for x in o])


def check(run, replay=None):
    tier, seed = run.tier, run.seed
    rng = random.Random(seed * 65537 + 10)
    C.standard_coq_phase(run, CID, gens=("stack",))
    ok, msg = C.ensure_ocaml()
    bd = C.build_dir()
    exe = os.path.join(bd, "c10")
    okc, cmd, log = C.cxx(os.path.join(C.HARNESS, "c10_protocol.cpp"), exe, "-O1 -g -w -DADEPT_RECORDING_PAUSABLE -fsanitize=address,undefined -fno-sanitize-recover=all")
    exe2 = os.path.join(bd, "c10_pause")
    okc2, cmd2, log2 = C.cxx(os.path.join(C.HARNESS, "c09_buffers.cpp"), exe2,
                             "-O0 -g -w -DADEPT_RECORDING_PAUSABLE -DHAVE_BLAS -fsanitize=address,undefined -fno-sanitize-recover=all", libs="-lblas")
    if not ok or not okc or not okc2:
        run.finding("build:c10", "broken-obligation", "cannot build driver/harness against the current tree: " + (msg or log or log2)[-600:], {"cmd": cmd})
        return
    model = os.path.join(C.OCAML, "driver_c10.exe")
    cov = run.coverage
    # ---- (1) protocol histories
    if replay is not None and "history" in replay:
        hists = [replay["history"]]
    else:
        hists = [gen_history(rng, 30 if tier == "quick" else 60) for _ in range(1500 if tier == "quick" else 30000)]
        corpus = os.path.join(C.VERIF, "corpus", CID)
        if os.path.isdir(corpus):
            for f in sorted(os.listdir(corpus)):
                hists.insert(0, open(os.path.join(corpus, f)).read().strip())

    def both(hs):
        rc1, so1, se1 = C.sh(exe, inp="\n".join(hs) + "\n", timeout=900)
        rc2, so2, se2 = C.sh(model, inp="\n".join(hs) + "\n", timeout=900)
        return rc1, so1.split("\n"), se1, so2.split("\n")
    rc1, io, se1, mo = both(hists)
    if rc1 != 0:
        k = max(0, len([l for l in io if l.strip() != ""]) - 1)
        run.finding("crash:protocol", "counterexample", "protocol harness died (exit %d) near history [%s]: %s" % (rc1, hists[min(k, len(hists) - 1)][:300], se1[-300:]),
                    {"history": hists[min(k, len(hists) - 1)], "stderr": se1[-1500:]})
    nontriv = 0
    mism = []
    for h, a, b in zip(hists, io, mo):
        cov["evaluations"] += 1
        if ("P" in h.split()) or (h.count(" N") > 0 and h.count(" F") + h.count(" R") > 1):
            nontriv += 1
        if a.split() != b.split():
            mism.append(h)
    if mism:
        def differs(l):
            _, a, _, b = both([l])
            return a[0].split() != b[0].split()
        small = shrink(min(mism, key=len), differs)
        _, a, _, b = both([small])
        # the model is the specification here (its theorems are the property): a disagreement on an observation of a
        # protocol-respecting history is a failing history of the implementation
        run.finding("protocol:%s" % small, "counterexample",
                    "history [%s]: the real Stack observes [%s], the recording life-cycle model (residue-free by Properties_C10.v) gives [%s]" % (small, a[0].strip(), b[0].strip()),
                    {"history": small, "impl": a[0], "model": b[0]})
    cov["samples"] = [{"history": hists[-1][:300], "observations": mo[len(hists) - 1][:300]}, {"history": hists[len(hists) // 2][:300], "observations": mo[len(hists) // 2][:300]}]
    # ---- (2) every statement kind while paused
    rc, so, se = C.sh(exe2 + " pause", timeout=1200)
    lines = [l for l in so.split("\n") if l.startswith("U")]
    if rc != 0:
        run.finding("crash:paused", "counterexample", "statement catalogue died while paused after '%s': %s" % (lines[-1][:80] if lines else "-", se[-300:]),
                    {"case": "pause", "after": lines[-1] if lines else "", "stderr": se[-1500:]})
    kinds = set()
    for l in lines:
        f = l.split("|")
        name = f[0].split()[0][1:]
        kinds.add(name)
        cov["evaluations"] += 1
        grew = f[1].split()
        vals = f[2].split()
        if grew != ["0", "0"]:
            run.finding("paused-records:%s" % name, "counterexample",
                        "statement kind '%s' (size %s) executed while recording was paused grew the stacks by %s statements / %s operations" % (name, f[0].split()[1], grew[0], grew[1]),
                        {"case": "pause", "line": l})
        elif vals[0] != vals[1]:
            run.finding("paused-value:%s" % name, "counterexample",
                        "statement kind '%s' computes %s while paused and %s while recording" % (name, vals[1], vals[0]), {"case": "pause", "line": l})
        elif f[3].split() != f[4].split():
            run.finding("paused-residue:%s" % name, "counterexample",
                        "after a paused section running '%s' (size %s) the gradient of a statement recorded after continue_recording() is [%s], without the paused section [%s]"
                        % (name, f[0].split()[1], f[3].strip(), f[4].strip()), {"case": "pause", "line": l})
    cov["distinct_nontrivial"] = nontriv + len(lines)
    cov["traces_validated_against_impl"] = len(hists)
    cov["paused_statement_kinds"] = sorted(kinds)
    cov["exhaustive"] = False
    cov["rule"] = ("(1) random protocol histories (styles mixed / many passes / re-recording / pausing / Jacobians) over 2-6 gradient slots: statements written through "
                   "add/append_derivative_dependence with dyadic multipliers, seeds, tangent and adjoint passes, clear_*, independent/dependent, jacobian, pause/continue, "
                   "new_recording, with get_gradient, counts and Jacobians observed; compared exactly with the extracted model. Non-trivial = contains a pause or a re-recording "
                   "followed by more than one pass. (2) every statement kind of the C09 catalogue x sizes 1,2,3,5 executed while paused: stack growth, value, and the gradient "
                   "of a statement recorded after continue_recording() with / without the paused section.")
    run.assumptions += ["Protocol.v is a hand model; tie = every observation of every history compared exactly (dyadic data, no rounding)",
                        "wrong-variable append_derivative_dependence (documented misuse) is not generated: after that exception the real stack keeps the pushed operation (C11 territory)",
                        "activate/deactivate of several stacks is not in the model",
                        "'every recording site is a no-op while paused' is checked by executing the catalogue while paused, not proved"]
