"""C16 — solve and inv satisfy their defining equations.
Tie G: Gen_Lapack.v (arguments passed to LAPACK).  The property itself is checked in a LAPACK build: residuals of the
defining equations for every operand layout, arguments unmodified, exceptions."""
import os
from . import common as C

CID = "C16"


def check(run, replay=None):
    tier = run.tier
    C.standard_coq_phase(run, CID, gens=("lapack",))
    bd = C.build_dir()
    exe = os.path.join(bd, "c16")
    okc, cmd, log = C.cxx(os.path.join(C.HARNESS, "c16_solve.cpp"), exe, "-O0 -g -w -DHAVE_BLAS -DHAVE_LAPACK -fsanitize=address,undefined -fno-sanitize-recover=all",
                          libs="-llapack -lblas", hooks=False)
    if not okc:
        run.finding("build:c16", "broken-obligation", "cannot build the harness (LAPACK build) against the current tree: " + log[-600:], {"cmd": cmd})
        return
    rc, so, se = C.sh("%s %d" % (exe, 5 if tier == "quick" else 9), timeout=1800)
    lines = so.split("\n")
    cov = run.coverage
    if rc != 0:
        last = [l for l in lines if l.startswith("B ")][-1:] or ["B ?"]
        run.finding("crash:%s" % "_".join(last[0].split()[1:5]), "counterexample",
                    "solve / inv harness died (exit %d; AddressSanitizer or crash) in: %s : %s" % (rc, last[0][2:], se[:500].replace("\n", " ")), {"case": last[0][2:], "stderr": se[:3000]})
    kinds = set()
    worst = 0.0
    samples = []
    for l in lines:
        t = l.split()
        if not t:
            continue
        if t[0] == "S":
            cov["evaluations"] += 1
            kind, af, bf, n, p, res, unmod, status = t[1], t[2], t[3], t[4], t[5], t[6], t[7], t[8]
            kinds.add((kind, af, bf))
            try:
                worst = max(worst, float(res))
            except ValueError:
                pass
            if status != "ok":
                why = ("throws " + status[4:]) if status.startswith("EXC") else ("modifies its arguments" if unmod == "0" else "leaves a residual of %s in the defining equation" % res)
                run.finding("%s:%s:%s" % (kind, af, bf), "counterexample",
                            "%s with a %s matrix given as %s and right-hand side %s (n=%s, %s right-hand sides) %s" % ("inv" if kind.startswith("inv") else "solve", kind, af, bf, n, p, why),
                            {"case": kind, "line": l})
            elif len(samples) < 3 and int(n) >= 3 and bf not in ("row-major", "-"):
                samples.append({"line": l})
        elif t[0] == "X":
            cov["evaluations"] += 1
            if t[1] == "singular" and any(x != "matrix_ill_conditioned" for x in t[3:6]):
                run.finding("exception:singular", "counterexample", "an exactly singular %sx%s matrix: solve(vector), solve(matrix), inv gave %s instead of matrix_ill_conditioned" % (t[2], t[2], t[3:6]), {"case": "singular", "line": l})
            if t[1] == "singular-symmetric" and any(x != "matrix_ill_conditioned" for x in t[3:7]):
                run.finding("exception:singular-symmetric", "counterexample",
                            "exactly singular symmetric %sx%s systems (rank-one matrix with a vector / a matrix right-hand side, zero matrix, rank-one in the other storage orientation) gave %s instead of matrix_ill_conditioned ('none' = a result was returned)" % (t[2], t[2], t[3:7]),
                            {"case": "singular-symmetric", "line": l})
            if t[1] == "nonsquare" and t[3] != "invalid_operation":
                run.finding("exception:nonsquare", "counterexample", "inv of a non-square matrix gave %s instead of invalid_operation" % t[3], {"case": "nonsquare", "line": l})
    cov["distinct_nontrivial"] = len(kinds)
    cov["traces_validated_against_impl"] = cov["evaluations"]
    cov["largest_residual"] = worst
    cov["samples"] = samples or [{"note": "no sample"}]
    cov["exhaustive"] = False
    cov["rule"] = ("LAPACK build under ASan/UBSan: general matrices presented as row-major, transposed, strided rows, reversed rows, sliced, column-major storage, strided both ways "
                   "and as an expression, symmetric matrices in both storage orientations; right-hand sides in the same 7 layouts with 1..n+2 columns and vectors (contiguous, "
                   "strided, reversed); n = 1..%s; strongly diagonally dominant matrices (condition number < 10) so that the residual bound 5e-9*n is far above rounding; inverse "
                   "checked on both sides; arguments compared before / after; exactly singular (zero column) and non-square inputs for the exceptions. Non-trivial = distinct "
                   "(kind, matrix layout, right-hand-side layout)." % (5 if tier == "quick" else 9))
    run.assumptions += ["Gen_Lapack.v regenerated from solve.cpp / inv.cpp / cpplapack.h on every run",
                        "LAPACK (?gesv ?sysv ?getrf ?getri ?sytrf ?sytri) is an oracle: Section variables with their documented contracts as hypotheses of the theorems; liblapack is what the check runs",
                        "rounding error is measured, not proved; the copies into working arrays are Array assignments (C04)"]
