"""C04 — array statements have element-wise value semantics despite aliasing / layout.
Model Assign.v (tie H); independent specification computed on nested lists (arraygen.stmt_spec)."""
import os, random, concurrent.futures as cf
from . import common as C
from . import arraygen as G
from . import arrayharness as H

CID = "C04"


def layout_of(exe):
    rc, so, se = C.sh(exe + " describe", timeout=60)
    lay = {}
    for l in so.strip().split("\n"):
        t = l.split()
        lay[t[0]] = list(map(int, t[1:]))
    return lay


def build_units(run, units, ty, flags, tag):
    """units: list of (stmts, ids).  returns list of exe paths (None on failure)"""
    bd = C.build_dir()
    C.adept_tu()

    def one(k):
        stmts, ids = units[k]
        src = os.path.join(bd, "%s_%d.cpp" % (tag, k))
        open(src, "w").write(H.source(stmts, ids, ty))
        exe = os.path.join(bd, "%s_%d" % (tag, k))
        ok, cmd, log = C.cxx(src, exe, flags, timeout=1500)
        return exe if ok else None, cmd, log
    exes = []
    with cf.ThreadPoolExecutor(max_workers=14) as ex:
        for exe, cmd, log in ex.map(one, range(len(units))):
            if exe is None:
                run.finding("build:%s" % tag, "broken-obligation", "cannot build the generated statement harness: " + log[-700:], {"cmd": cmd})
            exes.append(exe)
    return exes


def parse_out(line):
    """-> id, result (list or None), {parent: [values]}, exception text or None"""
    parts = [p.strip() for p in line.split("|")]
    head = parts[0].split()
    cid = int(head[0])
    res, exc = None, None
    if len(head) > 1 and head[1] == "R":
        res = head[2:]
    elif len(head) > 1 and head[1] == "EXC":
        exc = " ".join(head[2:])
    mem = {}
    for p in parts[1:]:
        t = p.split()
        if t:
            mem[t[0]] = t[1:]
    return cid, res, mem, exc


def check(run, replay=None):
    tier, seed = run.tier, run.seed
    rng = random.Random(seed * 7919 + 4)
    C.standard_coq_phase(run, CID, gens=("alias",))
    ok, msg = C.ensure_ocaml()
    if not ok:
        run.finding("build:ocaml", "broken-obligation", msg, {})
        return
    nunits, per = (8, 110) if tier == "quick" else (14, 400)
    stmts = []
    rs = random.Random(seed * 7919 + 4)
    if replay is not None:
        rs = random.Random(replay["gen_seed"])
        nunits, per = replay["nunits"], replay["per"]
    bnd = G.boundary_stmts() if replay is None or replay.get("boundary", True) else []
    stmts += bnd
    nbu = (len(bnd) + 299) // 300
    while len(stmts) < len(bnd) + nunits * per:
        s = G.gen_stmt(rs)
        if s is not None:
            stmts.append(s)
    # hand-picked boundary statements first (single-element overlaps, full overlap, reversal in place, transposes)
    units = [(stmts[k * 300:min(len(bnd), (k + 1) * 300)], list(range(k * 300, min(len(bnd), (k + 1) * 300)))) for k in range(nbu)]
    units += [(stmts[len(bnd) + k * per:len(bnd) + (k + 1) * per], list(range(len(bnd) + k * per, len(bnd) + (k + 1) * per))) for k in range(nunits)]
    cov = run.coverage
    cov["boundary_statements"] = len(bnd)
    nontriv = set()
    for order_name, flag in (("row-major", ""), ("bounds-checked", "-DADEPT_BOUNDS_CHECKING")):
        exes = build_units(run, units, "double", "-O0 -g0 -w -fsanitize=address,undefined -fno-sanitize-recover=all " + flag, "c04" + order_name[:1])
        if not any(exes):
            return
        lay = layout_of([e for e in exes if e][0])
        # model input
        model = os.path.join(C.OCAML, "driver_c04.exe")
        first = "LAYOUT " + " ; ".join("%s %s" % (n, " ".join(map(str, lay[n]))) for n in G.ORDER)
        minp = first + "\n" + "\n".join("%d %s" % (k, G.stmt_sx(s, lay)) for k, s in enumerate(stmts) if G.stmt_sx(s, lay) is not None) + "\n"
        rcm, mo, mse = C.sh(model, inp=minp, timeout=900)
        mlines = {}
        for l in mo.split("\n"):
            if l.strip():
                cid, res, mem, exc = parse_out(l)
                mlines[cid] = (res, mem)

        def runexe(exe):
            return C.sh(exe, timeout=900) if exe else (1, "", "not built")
        with cf.ThreadPoolExecutor(max_workers=14) as ex:
            outs = list(ex.map(runexe, exes))
        for (rc, so, se), (ustmts, uids) in zip(outs, units):
            lines = [l for l in so.split("\n") if l.strip()]
            if rc != 0:
                k = uids[min(len(lines), len(uids) - 1)]
                run.finding("crash", "counterexample", "statement [%s] crashes: %s" % (G.stmt_cxx(stmts[k]), [x for x in se.split("\n") if "ERROR" in x or "SUMMARY" in x][:2]),
                            {"statement": G.stmt_cxx(stmts[k]), "gen_seed": seed * 7919 + 4, "nunits": nunits, "per": per, "id": k})
            for l in lines:
                cid, res, mem, exc = parse_out(l)
                s = stmts[cid]
                cov["evaluations"] += 1
                text = G.stmt_cxx(s)
                payload = {"statement": text, "gen_seed": seed * 7919 + 4, "nunits": nunits, "per": per, "id": cid}
                want_mem, want_res = G.stmt_spec(s)
                if exc is not None:
                    run.finding("exception:%s" % s.kind, "counterexample", "well-formed statement [%s] raised: %s" % (text, exc[:200]), payload)
                    continue
                bad = [n for n in G.ORDER if mem.get(n) != list(map(str, want_mem[n]))]
                badres = want_res is not None and res != list(map(str, want_res))
                if bad or badres:
                    if s.kind == "compound" and s.shifted:
                        key = "compound-shifted-overlap"
                    else:
                        key = "semantics:%s" % (s.kind if s.kind not in ("reduce", "reddim") else s.kind + ":" + s.red)
                    what = ("statement [%s]: parent %s becomes [%s] but evaluating the whole right-hand side first gives [%s]"
                            % (text, bad[0], " ".join(mem.get(bad[0], [])), " ".join(map(str, want_mem[bad[0]]))) if bad else
                            "statement [%s] returns %s, definition gives %s" % (text, res, want_res))
                    run.finding(key, "counterexample", what, payload)
                else:
                    if s.kind != "reduce" and any(v.name == s.target.name for v in G.leaves(s.e)) if s.kind in ("assign", "compound", "where") else False:
                        nontriv.add(text)
                # correspondence with the Coq model (faithful: includes the compound-assignment behaviour)
                if cid in mlines:
                    mres, mmem = mlines[cid]
                    if any(mmem.get(n) != mem.get(n) for n in G.ORDER) or (res is not None and mres != res):
                        run.finding("correspondence:assign:%s" % s.kind, "broken-obligation",
                                    "Assign.v and adept::Array disagree on [%s]" % text, dict(payload, model=str(mres) + str(mmem)[:300], impl=l[:300]))
    cov["distinct_nontrivial"] = len(nontriv)
    cov["samples"] = [{"statement": G.stmt_cxx(stmts[k])} for k in (0, len(stmts) // 3, len(stmts) // 2, len(stmts) - 1)]
    kinds = {}
    for s in stmts:
        kk = s.kind if s.kind not in ("reduce", "reddim") else s.kind + ":" + s.red
        kinds[kk] = kinds.get(kk, 0) + 1
    cov["statement_kinds"] = kinds
    cov["rule"] = ("random passive statements over six parent arrays (ranks 1-3, one with padded rows): plain, compound (+= -= *=), where, scalar fill, noalias (disjoint operands only), "
                   "reductions (sum product maxval minval count, sum / product / maxval / minval along a dimension of rank-2 and rank-3 expressions, dot_product), find, minloc / maxloc (first occurrence), integer-vector-indexed targets and sources whose index vector is contiguous, strided or reversed (specification only); targets and operands are views with positive/negative strides, scalar indices, transposes; "
                   "operands drawn from the target's own parent with probability 0 / 0.5 / 0.9 (disjoint, shifted, reversed, identical overlaps); expression nodes + - * max min neg scalar "
                   "spread outer_product; generated as C++ and executed under ASan; every parent compared (integer data, exact) with the 'whole right-hand side first' specification and with the "
                   "Coq model. where-masks never read shifted target elements (the mask is not the right-hand side). Non-trivial = right-hand side reads the target's parent.")
    cov["traces_validated_against_impl"] = cov["evaluations"]
    run.assumptions += ["integer-vector-indexed targets / sources, find, minloc/maxloc and reductions other than sum along a dimension are compared with the specification only (not in the Coq model); right-hand sides of indexed targets do not read the target's parent",
                        "column-major default order (set_array_row_major_order(false)) not yet exercised"]
