"""writes the C++ source of a harness executing a list of array statements (see arraygen.py)"""
from . import arraygen as G

HEADER = r'''
#include <adept_arrays.h>
#include <iostream>
#include <sstream>
#include <string>
#include <cstdlib>
using namespace adept;
typedef %(ty)s real;
struct World {
  Array<1,real,false> P0, Q0; Array<2,real,false> P1, Q1, P3; Array<3,real,false> P2, Q2;
  World() : P0(13), Q0(13), P1(5,6), Q1(5,6), P3(4,17), P2(2,3,4), Q2(3,2,4) { init(); }
  template <class A> void fill1(A& a, int k) { long n = 0; for (int i = 0; i < a.dimension(0); ++i) a(i) = (real)((((n++) * 3 + k * 5) %% 7) - 2); }
  template <class A> void fill2(A& a, int k) { long n = 0; for (int i = 0; i < a.dimension(0); ++i) for (int j = 0; j < a.dimension(1); ++j) a(i,j) = (real)((((n++) * 3 + k * 5) %% 7) - 2); }
  template <class A> void fill3(A& a, int k) { long n = 0; for (int i = 0; i < a.dimension(0); ++i) for (int j = 0; j < a.dimension(1); ++j) for (int l = 0; l < a.dimension(2); ++l) a(i,j,l) = (real)((((n++) * 3 + k * 5) %% 7) - 2); }
  void init() { fill1(P0, 0); fill2(P1, 1); fill3(P2, 2); fill1(Q0, 3); fill2(Q1, 4); fill2(P3, 5); fill3(Q2, 6); }
};
static void pr(std::ostream& os, real v) { os << " " << (long long)v; if ((real)(long long)v != v) os << "?"; }
static void dump(World& w, std::ostream& os) {
  os << " | P0"; for (int i = 0; i < 13; ++i) pr(os, w.P0(i));
  os << " | P1"; for (int i = 0; i < 5; ++i) for (int j = 0; j < 6; ++j) pr(os, w.P1(i,j));
  os << " | P2"; for (int i = 0; i < 2; ++i) for (int j = 0; j < 3; ++j) for (int l = 0; l < 4; ++l) pr(os, w.P2(i,j,l));
  os << " | Q0"; for (int i = 0; i < 13; ++i) pr(os, w.Q0(i));
  os << " | Q1"; for (int i = 0; i < 5; ++i) for (int j = 0; j < 6; ++j) pr(os, w.Q1(i,j));
  os << " | P3"; for (int i = 0; i < 4; ++i) for (int j = 0; j < 17; ++j) pr(os, w.P3(i,j));
  os << " | Q2"; for (int i = 0; i < 3; ++i) for (int j = 0; j < 2; ++j) for (int l = 0; l < 4; ++l) pr(os, w.Q2(i,j,l));
}
static void out_arr(std::ostream& os, const Array<1,real,false>& a) { os << "R"; for (int i = 0; i < a.dimension(0); ++i) pr(os, a(i)); }
static void out_arr(std::ostream& os, const Array<2,real,false>& a) { os << "R"; for (int i = 0; i < a.dimension(0); ++i) for (int j = 0; j < a.dimension(1); ++j) pr(os, a(i,j)); }
#define NAMES Array<1,real,false>& P0 = w.P0; Array<1,real,false>& Q0 = w.Q0; Array<2,real,false>& P1 = w.P1; Array<2,real,false>& Q1 = w.Q1; \
              Array<2,real,false>& P3 = w.P3; Array<3,real,false>& P2 = w.P2; Array<3,real,false>& Q2 = w.Q2; (void)Q2; (void)P0; (void)Q0; (void)P1; (void)Q1; (void)P3; (void)P2;
#define RESULT(x) do { os << "R"; pr(os, (real)(x)); } while (0)
#define RESULTI(x) do { intVector r_ = (x); os << "R"; for (int i_ = 0; i_ < r_.dimension(0); ++i_) pr(os, (real)r_(i_)); } while (0)
'''

MAIN = r'''
int main(int argc, char** argv) {
  if (argc > 1 && std::string(argv[1]) == "describe") {
    World w;
    std::cout << "P0 " << w.P0.offset(0) << "\n" << "P1 " << w.P1.offset(0) << " " << w.P1.offset(1) << "\n"
              << "P2 " << w.P2.offset(0) << " " << w.P2.offset(1) << " " << w.P2.offset(2) << "\n"
              << "Q0 " << w.Q0.offset(0) << "\n" << "Q1 " << w.Q1.offset(0) << " " << w.Q1.offset(1) << "\n"
              << "P3 " << w.P3.offset(0) << " " << w.P3.offset(1) << "\n"
              << "Q2 " << w.Q2.offset(0) << " " << w.Q2.offset(1) << " " << w.Q2.offset(2) << "\n";
    return 0;
  }
  const int n = sizeof(cases) / sizeof(cases[0]);
  for (int k = 0; k < n; ++k) {
    World w;
    std::ostringstream os;
    os << ids[k] << " ";
    try { cases[k](w, os); } catch (adept::exception& e) { os << "EXC " << e.what(); }
    dump(w, os);
    std::cout << os.str() << std::endl;
  }
  return 0;
}
'''


def source(stmts, ids, ty="double", extra_case_code=None):
    out = [HEADER % {"ty": ty}]
    for k, s in enumerate(stmts):
        body = G.stmt_cxx(s, ty)
        if s.kind == "reduce" and s.red == "sumdim":
            r = len(s.dims) - 1
            body = "{ Array<%d,real,false> r__; r__ = sum(%s,%d); out_arr(os, r__); }" % (r, G.cxx(s.e, ty), s.dim)
        if s.kind == "reddim":
            r = len(s.dims) - 1
            body = "{ Array<%d,real,false> r__; r__ = %s(%s,%d); out_arr(os, r__); }" % (r, s.red, G.cxx(s.e, ty), s.dim)
        out.append("static void case_%d(World& w, std::ostream& os) { NAMES %s }" % (k, body))
    out.append("typedef void (*CaseFn)(World&, std::ostream&);")
    out.append("static CaseFn cases[] = {%s};" % ",".join("case_%d" % k for k in range(len(stmts))))
    out.append("static int ids[] = {%s};" % ",".join(str(i) for i in ids))
    out.append(MAIN)
    return "\n".join(out)
