"""C19 — each algorithm finds the box-constrained minimum of a convex quadratic (machinery shared with C18: vlib/c18.py)."""
from . import c18

CID = "C19"


def check(run, replay=None):
    c18.check(run, replay, cid="C19")
