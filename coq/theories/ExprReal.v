(* C01_table: the derivative expressions and binary partial derivatives that the translator reads from
   UnaryOperation.h / BinaryOperation.h are the true derivatives over the real numbers, on the open domain
   of each function (exactly, or within a stated relative error where the source uses a decimal constant). *)
From Coq Require Import Reals Lra ZArith.
From Coquelicot Require Import Coquelicot.
From Interval Require Import Tactic.
From Adept Require Export RealOps.
From Adept Require Import Scalar ExprDefs Expr.
From AdeptGen Require Import Gen_Ops.
Local Open Scope R_scope.

Definition Rf1 (f : fname) (x : R) : R :=
  match f with
  | F_log => ln x | F_log10 => ln x / ln 10 | F_log2 => ln x / ln 2 | F_log1p => ln (1 + x)
  | F_sin => sin x | F_cos => cos x | F_tan => tan x | F_atan => atan x
  | F_sinh => sinh x | F_cosh => cosh x | F_tanh => tanh x
  | F_abs => Rabs x | F_fabs => Rabs x | F_sqrt => sqrt x
  | F_exp => exp x | F_fastexp => exp x | F_expm1 => exp x - 1 | F_exp2 => exp (x * ln 2)
  | F_asinh => ln (x + sqrt (x * x + 1)) | F_acosh => ln (x + sqrt (x * x - 1)) | F_atanh => / 2 * ln ((1 + x) / (1 - x))
  | F_uplus => x | F_uminus => - x | F_fast_sqr => x * x
  | _ => 0      (* asin acos erf erfc cbrt and the rounding functions: no real-analysis counterpart used here *)
  end.
Definition Rf2 (f : fname) (x y : R) : R := match f with F_pow => Rpower x y | _ => 0 end.
Definition RF : FOps R := mkFOps R RO Rf1 Rf2 (fun n d => IZR n / IZR d).

Ltac table := unfold un_derivative; cbv beta iota delta [Rf1]; cbn [un_der eval_m RF RO f1 f2 flit fbase Rf1 oadd osub omul odiv oneg o0 o1 oltb b2t].

(* exact entries *)
Theorem table_log x : 0 < x -> is_derive (Rf1 F_log) x (un_derivative RF F_log x (Rf1 F_log x)).
Proof. intros H. table. auto_derive; [exact H|field; lra]. Qed.
Theorem table_log1p x : -1 < x -> is_derive (Rf1 F_log1p) x (un_derivative RF F_log1p x (Rf1 F_log1p x)).
Proof. intros H. table. auto_derive; [lra|field; lra]. Qed.
Theorem table_sin x : is_derive (Rf1 F_sin) x (un_derivative RF F_sin x (Rf1 F_sin x)).
Proof. table. auto_derive; [exact I|ring]. Qed.
Theorem table_cos x : is_derive (Rf1 F_cos) x (un_derivative RF F_cos x (Rf1 F_cos x)).
Proof. table. auto_derive; [exact I|ring]. Qed.
Theorem table_tan x : cos x <> 0 -> is_derive (Rf1 F_tan) x (un_derivative RF F_tan x (Rf1 F_tan x)).
Proof. intros H. table. unfold tan. auto_derive; [exact H|]. field_simplify; [|exact H|exact H]. rewrite <- (sin2_cos2 x) at 1. unfold Rsqr. field. exact H. Qed.
Theorem table_atan x : is_derive (Rf1 F_atan) x (un_derivative RF F_atan x (Rf1 F_atan x)).
Proof. table. auto_derive; [exact I|]. field. nra. Qed.
Theorem table_sinh x : is_derive (Rf1 F_sinh) x (un_derivative RF F_sinh x (Rf1 F_sinh x)).
Proof. table. auto_derive; [exact I|ring]. Qed.
Theorem table_cosh x : is_derive (Rf1 F_cosh) x (un_derivative RF F_cosh x (Rf1 F_cosh x)).
Proof. table. auto_derive; [exact I|ring]. Qed.
Theorem table_tanh x : is_derive (Rf1 F_tanh) x (un_derivative RF F_tanh x (Rf1 F_tanh x)).
Proof.
  table. unfold tanh. assert (cosh x <> 0) as H by (unfold cosh; pose proof (exp_pos x); pose proof (exp_pos (- x)); lra).
  auto_derive; [exact H|]. field. exact H.
Qed.
Theorem table_sqrt x : 0 < x -> is_derive (Rf1 F_sqrt) x (un_derivative RF F_sqrt x (Rf1 F_sqrt x)).
Proof. intros H. table. auto_derive; [exact H|]. field. apply Rgt_not_eq, sqrt_lt_R0. exact H. Qed.
Theorem table_exp x : is_derive (Rf1 F_exp) x (un_derivative RF F_exp x (Rf1 F_exp x)).
Proof. table. auto_derive; [exact I|ring]. Qed.
Theorem table_fastexp x : is_derive (Rf1 F_fastexp) x (un_derivative RF F_fastexp x (Rf1 F_fastexp x)).
Proof. table. auto_derive; [exact I|ring]. Qed.
Theorem table_expm1 x : is_derive (Rf1 F_expm1) x (un_derivative RF F_expm1 x (Rf1 F_expm1 x)).
Proof. table. auto_derive; [exact I|ring]. Qed.
Theorem table_uplus x : is_derive (Rf1 F_uplus) x (un_derivative RF F_uplus x (Rf1 F_uplus x)).
Proof. table. auto_derive; [exact I|field]. Qed.
Theorem table_uminus x : is_derive (Rf1 F_uminus) x (un_derivative RF F_uminus x (Rf1 F_uminus x)).
Proof. table. auto_derive; [exact I|field]. Qed.
Theorem table_abs x : x <> 0 -> is_derive (Rf1 F_abs) x (un_derivative RF F_abs x (Rf1 F_abs x)) /\
                                is_derive (Rf1 F_fabs) x (un_derivative RF F_fabs x (Rf1 F_fabs x)).
Proof.
  intros H. table. unfold Rltb, b2t. cbn [RF RO fbase o0 o1].
  assert (is_derive Rabs x (sign x)) as D by (auto_derive; [exact H|ring]).
  replace (0 / 1) with 0 by field.
  assert (sign x = (if (if Rlt_dec 0 x then true else false) then 1 else 0) - (if (if Rlt_dec x 0 then true else false) then 1 else 0)) as E.
  { destruct (Rlt_dec 0 x) as [P|NP]; destruct (Rlt_dec x 0) as [N|NN]; try lra.
    - rewrite sign_eq_1 by exact P. ring.
    - rewrite sign_eq_m1 by exact N. ring. }
  rewrite <- E. split; exact D.
Qed.
Theorem table_asinh x : is_derive (Rf1 F_asinh) x (un_derivative RF F_asinh x (Rf1 F_asinh x)).
Proof.
  table. assert (0 < x * x + 1) as H1 by nra. assert (0 < sqrt (x * x + 1)) as H2 by (apply sqrt_lt_R0; exact H1).
  assert (0 < x + sqrt (x * x + 1)) as H3.
  { assert (Rabs x < sqrt (x * x + 1)) as Hb.
    { rewrite <- sqrt_Rsqr_abs. apply sqrt_lt_1_alt. unfold Rsqr. nra. }
    unfold Rabs in Hb. destruct (Rcase_abs x); lra. }
  auto_derive; [repeat split; lra|]. replace (x * x + 1 / 1) with (x * x + 1) by field.
  set (s := sqrt (x * x + 1)) in *. replace (x * 1 + 1 * x) with (2 * x) by ring. field. split; lra.
Qed.
Theorem table_atanh x : -1 < x < 1 -> is_derive (Rf1 F_atanh) x (un_derivative RF F_atanh x (Rf1 F_atanh x)).
Proof.
  intros H. table. assert (0 < (1 + x) / (1 - x)) as H1 by (apply Rdiv_lt_0_compat; lra).
  auto_derive; [split; [lra|split; [|exact I]; unfold Rdiv in H1; replace (1 + - x) with (1 - x) by ring; exact H1]|]. field. repeat split; nra.
Qed.
(* entries whose source carries a decimal constant: the table value is within 1e-15 (relative) of the derivative *)
Theorem table_log10 x : 0 < x -> exists d, is_derive (Rf1 F_log10) x d /\ Rabs (un_derivative RF F_log10 x (Rf1 F_log10 x) - d) <= 1/1000000000000000 * Rabs d.
Proof.
  intros H. exists (1 / (x * ln 10)). assert (0 < ln 10) as L by interval. split.
  - cbv beta iota delta [Rf1]. auto_derive; [exact H|field; lra].
  - table. replace (IZR 8685889638065036553 / IZR 20000000000000000000 / x - 1 / (x * ln 10))
      with ((IZR 8685889638065036553 / IZR 20000000000000000000 - 1 / ln 10) * (1 / x)) by (field; lra).
    replace (1 / (x * ln 10)) with ((1 / ln 10) * (1 / x)) by (field; lra).
    rewrite !Rabs_mult. rewrite <- Rmult_assoc. apply Rmult_le_compat_r; [apply Rabs_pos|]. interval with (i_prec 100).
Qed.
Theorem table_log2 x : 0 < x -> exists d, is_derive (Rf1 F_log2) x d /\ Rabs (un_derivative RF F_log2 x (Rf1 F_log2 x) - d) <= 1/1000000000000000 * Rabs d.
Proof.
  intros H. exists (1 / (x * ln 2)). assert (0 < ln 2) as L by interval. split.
  - cbv beta iota delta [Rf1]. auto_derive; [exact H|field; lra].
  - table. replace (IZR 144269504088896340737 / IZR 100000000000000000000 / x - 1 / (x * ln 2))
      with ((IZR 144269504088896340737 / IZR 100000000000000000000 - 1 / ln 2) * (1 / x)) by (field; lra).
    replace (1 / (x * ln 2)) with ((1 / ln 2) * (1 / x)) by (field; lra).
    rewrite !Rabs_mult. rewrite <- Rmult_assoc. apply Rmult_le_compat_r; [apply Rabs_pos|]. interval with (i_prec 100).
Qed.
Theorem table_exp2 x : exists d, is_derive (Rf1 F_exp2) x d /\ Rabs (un_derivative RF F_exp2 x (Rf1 F_exp2 x) - d) <= 1/1000000000000000 * Rabs d.
Proof.
  exists (ln 2 * exp (x * ln 2)). split.
  - cbv beta iota delta [Rf1]. auto_derive; [exact I|ring].
  - table. replace (IZR 3465735902799726547086160607290883 / IZR 5000000000000000000000000000000000 * exp (x * ln 2) - ln 2 * exp (x * ln 2))
      with ((IZR 3465735902799726547086160607290883 / IZR 5000000000000000000000000000000000 - ln 2) * exp (x * ln 2)) by ring.
    rewrite !Rabs_mult. rewrite <- Rmult_assoc. apply Rmult_le_compat_r; [apply Rabs_pos|]. interval with (i_prec 150).
Qed.

(* binary partial derivatives written in Expr.dleft / Expr.dright *)
Theorem partial_add x y : is_derive (fun t => bop RF KAdd t y) x (dleft RF KAdd x y) /\ is_derive (fun t => bop RF KAdd x t) y (dright RF KAdd x y).
Proof. cbn. split; (auto_derive; [exact I|ring]). Qed.
Theorem partial_sub x y : is_derive (fun t => bop RF KSub t y) x (dleft RF KSub x y) /\ is_derive (fun t => bop RF KSub x t) y (dright RF KSub x y).
Proof. cbn. split; (auto_derive; [exact I|ring]). Qed.
Theorem partial_mul x y : is_derive (fun t => bop RF KMul t y) x (dleft RF KMul x y) /\ is_derive (fun t => bop RF KMul x t) y (dright RF KMul x y).
Proof. cbn. split; (auto_derive; [exact I|ring]). Qed.
Theorem partial_div x y : y <> 0 -> is_derive (fun t => bop RF KDiv t y) x (dleft RF KDiv x y) /\ is_derive (fun t => bop RF KDiv x t) y (dright RF KDiv x y).
Proof. intros H. cbn. split; (auto_derive; [first [exact I|exact H]|field; exact H]). Qed.
Theorem partial_pow x y : 0 < x -> is_derive (fun t => bop RF KPow t y) x (dleft RF KPow x y) /\ is_derive (fun t => bop RF KPow x t) y (dright RF KPow x y).
Proof.
  intros H. cbn. unfold Rpower. split; auto_derive; try exact H; try exact I.
  - replace ((y - 1 / 1) * ln x) with (y * ln x + - ln x) by field. rewrite exp_plus, exp_Ropp, exp_ln by exact H. field. lra.
  - ring.
Qed.
