(* C08 — every live active object owns a distinct gradient slot, in any order.
   This file holds only the property theorems; each is closed by [exact] of a lemma of
   GapListProofs.v and followed by Print Assumptions.
   Model: GapList.v (tie H: correspondence run of ./check C08 against adept::Stack; tie G for the register paths
   and the top-of-stack unregister paths: Gen_Gaplist.v, translated from Stack.h / Stack.cpp on every run). *)
From Coq Require Import ZArith List.
From Adept Require Import GapList GapListProofs GapListGen.
From AdeptGen Require Import Gen_Gaplist.
Import ListNotations.
Local Open Scope Z_scope.

(* Every history of register1 / registerN(n>=1) / unregister(k-th live block) / new_recording
   from the initial state satisfies the partition invariant (invalid operations are no-ops
   in [step], so no hypothesis on the history is needed). *)
Theorem C08_inv_every_history : forall ops, Inv (fst (run ops)) (snd (run ops)).
Proof. exact run_inv. Qed.
Print Assumptions C08_inv_every_history.

(* live blocks are pairwise disjoint: no gradient index is owned twice *)
Theorem C08_distinct : forall ops p q bp bq i, p <> q ->
  nth_error (snd (run ops)) p = Some bp -> nth_error (snd (run ops)) q = Some bq ->
  in_block i bp -> in_block i bq -> False.
Proof. intros ops. exact (live_distinct _ _ (run_inv ops)). Qed.
Print Assumptions C08_distinct.

(* every live index is below i_gradient, itself at most max_gradients() *)
Theorem C08_below_reported : forall ops p bp i,
  nth_error (snd (run ops)) p = Some bp -> in_block i bp ->
  0 <= i < ig (fst (run ops)) /\ ig (fst (run ops)) <= mg (fst (run ops)).
Proof. intros ops. exact (live_below_max _ _ (run_inv ops)). Qed.
Print Assumptions C08_below_reported.

(* n_gradients_registered() equals the number of live active elements *)
Theorem C08_count : forall ops, nreg (fst (run ops)) = total (snd (run ops)).
Proof. intros ops. exact (registered_count _ _ (run_inv ops)). Qed.
Print Assumptions C08_count.

(* recycling: a block handed out by register was not live *)
Theorem C08_recycle_fresh : forall ops n, 1 <= n -> forall i b p,
  snd (registerN (fst (run ops)) n) <= i < snd (registerN (fst (run ops)) n) + n ->
  nth_error (snd (run ops)) p = Some b -> ~ in_block i b.
Proof. intros ops n Hn i b p. exact (register_fresh _ _ n (run_inv ops) Hn i b p eq_refl). Qed.
Print Assumptions C08_recycle_fresh.

(* gaps and live blocks never overlap *)
Theorem C08_gaps_vs_live : forall ops p bp k g i,
  nth_error (snd (run ops)) p = Some bp -> nth_error (gaps (fst (run ops))) k = Some g ->
  in_block i bp -> ~ (fst g <= i <= snd g).
Proof. intros ops. exact (gaps_disjoint_from_live _ _ (run_inv ops)). Qed.
Print Assumptions C08_gaps_vs_live.

(* non-vacuity: a concrete history with recycling, a partial fit, a merge and the top shortcut *)
Example C08_example :
  let ops := [ORegN 3; OReg1; ORegN 2; OUnreg 1; ORegN 2; OUnreg 1; OReg1; ONewRec; OUnreg 2] in
  snd (run ops) = [(3,1); (6,2)] /\ gaps (fst (run ops)) = [(0,2);(4,5)] /\
  ig (fst (run ops)) = 8 /\ mg (fst (run ops)) = 9.
Proof. vm_compute. repeat split. Qed.

(* Tie G.  The register paths (register_gradient, do_register_gradients) and the top-of-stack branch of
   unregister_gradient / unregister_gradients, re-assembled from the arithmetic, comparisons and field updates
   read from the current source, are the hand model's functions - for every state and argument, not only for
   reachable ones.  An edit of any of those expressions (a comparison turned, a gap shrunk by the wrong amount,
   the count adjusted wrongly, the wrong end of the gap returned) changes Gen_Gaplist.v and breaks this. *)
Theorem C08_generated_register_and_top_paths : forall s idx n,
  gen_register1 s = register1 s /\
  gen_registerN s n = registerN s n /\
  gen_unregister1_top s idx = model_unregister_top s idx 1 /\
  gen_unregisterN_top n s idx = model_unregister_top s idx n.
Proof.
  intros s idx n.
  exact (conj (gen_register1_eq s) (conj (gen_registerN_eq s n)
        (conj (gen_unregister1_top_eq s idx) (gen_unregisterN_top_eq s idx n)))).
Qed.
Print Assumptions C08_generated_register_and_top_paths.

(* ... hence a block handed out by the code read from the source was not live, in every reachable state *)
Theorem C08_generated_recycle_fresh : forall ops n, 1 <= n -> forall i b p,
  snd (gen_registerN (fst (run ops)) n) <= i < snd (gen_registerN (fst (run ops)) n) + n ->
  nth_error (snd (run ops)) p = Some b -> ~ in_block i b.
Proof.
  intros ops n Hn i b p. rewrite gen_registerN_eq.
  exact (register_fresh _ _ n (run_inv ops) Hn i b p eq_refl).
Qed.
Print Assumptions C08_generated_recycle_fresh.

(* The whole allocator as the source has it: unregister_gradient (inline top-of-stack branch + unregister_gradient_not_top)
   and unregister_gradients, with the cached-gap test, the linear search, the insertion of a new gap and the two merges
   re-assembled from the expressions read from Stack.cpp, are the model's unregisterN for every state and argument. *)
Theorem C08_generated_unregister_paths : forall s idx n,
  gen_unregister1 s idx = unregisterN s idx 1 /\ gen_unregisterN s idx n = unregisterN s idx n.
Proof. intros s idx n. exact (conj (gen_unregister1_eq s idx) (gen_unregisterN_eq s idx n)). Qed.
Print Assumptions C08_generated_unregister_paths.

(* ... hence the partition invariant, for every history run with the functions read from the source *)
Theorem C08_generated_inv_every_history : forall ops,
  gen_run ops = run ops /\ Inv (fst (gen_run ops)) (snd (gen_run ops)).
Proof. intros ops. split; [exact (gen_run_eq ops)|]. rewrite gen_run_eq. exact (run_inv ops). Qed.
Print Assumptions C08_generated_inv_every_history.

(* non-vacuity: the generated paths on a state with two gaps - shrink of the first gap, exact fit, no fit,
   top-of-stack release that swallows the last gap *)
Example C08_example_generated :
  let s := mk 8 9 3 [(0,2);(6,7)] (Some 1%nat) in
  gen_registerN s 2 = (mk 8 9 5 [(2,2);(6,7)] (Some 1%nat), 0) /\
  gen_registerN s 3 = (mk 8 9 6 [(6,7)] (Some 0%nat), 0) /\
  gen_registerN s 4 = (mk 12 12 7 [(0,2);(6,7)] (Some 1%nat), 8) /\
  gen_unregister1_top (mk 9 9 3 [(0,2);(6,7)] (Some 1%nat)) 8 = Some (mk 6 9 2 [(0,2)] None) /\
  gen_unregister1_top s 3 = None /\
  gen_unregister1 s 3 = mk 8 9 2 [(0,3);(6,7)] (Some 0%nat) /\
  gen_unregisterN s 3 3 = mk 8 9 0 [(0,7)] (Some 0%nat) /\
  gaps (fst (gen_run [ORegN 3; OReg1; ORegN 2; OUnreg 1; ORegN 2; OUnreg 1; OReg1; ONewRec; OUnreg 2])) = [(0,2);(4,5)].
Proof. vm_compute. repeat split. Qed.
