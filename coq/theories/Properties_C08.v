(* C08 — every live active object owns a distinct gradient slot, in any order.
   This file holds only the property theorems; each is closed by [exact] of a lemma of
   GapListProofs.v and followed by Print Assumptions.
   Model: GapList.v (tie H: correspondence run of ./check C08 against adept::Stack). *)
From Coq Require Import ZArith List.
From Adept Require Import GapList GapListProofs.
Import ListNotations.
Local Open Scope Z_scope.

(* Every history of register1 / registerN(n>=1) / unregister(k-th live block) / new_recording
   from the initial state satisfies the partition invariant (invalid operations are no-ops
   in [step], so no hypothesis on the history is needed). *)
Theorem C08_inv_every_history : forall ops, Inv (fst (run ops)) (snd (run ops)).
Proof. exact run_inv. Qed.
Print Assumptions C08_inv_every_history.

(* live blocks are pairwise disjoint: no gradient index is owned twice *)
Theorem C08_distinct : forall ops p q bp bq i, p <> q ->
  nth_error (snd (run ops)) p = Some bp -> nth_error (snd (run ops)) q = Some bq ->
  in_block i bp -> in_block i bq -> False.
Proof. intros ops. exact (live_distinct _ _ (run_inv ops)). Qed.
Print Assumptions C08_distinct.

(* every live index is below i_gradient, itself at most max_gradients() *)
Theorem C08_below_reported : forall ops p bp i,
  nth_error (snd (run ops)) p = Some bp -> in_block i bp ->
  0 <= i < ig (fst (run ops)) /\ ig (fst (run ops)) <= mg (fst (run ops)).
Proof. intros ops. exact (live_below_max _ _ (run_inv ops)). Qed.
Print Assumptions C08_below_reported.

(* n_gradients_registered() equals the number of live active elements *)
Theorem C08_count : forall ops, nreg (fst (run ops)) = total (snd (run ops)).
Proof. intros ops. exact (registered_count _ _ (run_inv ops)). Qed.
Print Assumptions C08_count.

(* recycling: a block handed out by register was not live *)
Theorem C08_recycle_fresh : forall ops n, 1 <= n -> forall i b p,
  snd (registerN (fst (run ops)) n) <= i < snd (registerN (fst (run ops)) n) + n ->
  nth_error (snd (run ops)) p = Some b -> ~ in_block i b.
Proof. intros ops n Hn i b p. exact (register_fresh _ _ n (run_inv ops) Hn i b p eq_refl). Qed.
Print Assumptions C08_recycle_fresh.

(* gaps and live blocks never overlap *)
Theorem C08_gaps_vs_live : forall ops p bp k g i,
  nth_error (snd (run ops)) p = Some bp -> nth_error (gaps (fst (run ops))) k = Some g ->
  in_block i bp -> ~ (fst g <= i <= snd g).
Proof. intros ops. exact (gaps_disjoint_from_live _ _ (run_inv ops)). Qed.
Print Assumptions C08_gaps_vs_live.

(* non-vacuity: a concrete history with recycling, a partial fit, a merge and the top shortcut *)
Example C08_example :
  let ops := [ORegN 3; OReg1; ORegN 2; OUnreg 1; ORegN 2; OUnreg 1; OReg1; ONewRec; OUnreg 2] in
  snd (run ops) = [(3,1); (6,2)] /\ gaps (fst (run ops)) = [(0,2);(4,5)] /\
  ig (fst (run ops)) = 8 /\ mg (fst (run ops)) = 9.
Proof. vm_compute. repeat split. Qed.
