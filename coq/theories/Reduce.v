(* Whole-array reductions of active expressions to an active scalar (reduce.h: reduce_active with the policy classes
   Sum, Mean, Product, MaxVal, MinVal, Norm2), executed on the policy table that tools/gen_reduce.py recognises in
   the source (Gen_Reduce.v): which statements and operations are recorded, in which order, and the value.
   Specification beside it: dual-number evaluation of the scalar loop the reduction denotes. *)
From Coq Require Import ZArith List Bool.
From Adept Require Import Scalar ExprDefs Expr Tape Program ReduceDefs.
From AdeptGen Require Import Gen_Ops Gen_Reduce.
Import ListNotations.

Section Reduce.
Context {T : Type} (F : FOps T).
Variables (minf pinf : T) (ofnat : nat -> T).     (* -inf, +inf, the element count as a scalar *)
Let O := fbase F.

(* Expression::next_value_and_gradient / _special / _special2: store the value, push the gradient with the
   multiplier [mk value] (None: no multiplier) *)
Definition vgw (e : expr (T:=T)) (mk : T -> option T) : T * list (T * Z) :=
  let arrs := arrays_of e in
  let '(v, scr) := value_store F arrs e 0 0 (fun _ => o0 O) in
  (v, calc_gradient F arrs e 0 0 scr (mk v)).

(* the running total, the statements recorded so far, the operations pushed since the last push_lhs *)
Record rstate := mkR { r_total : T; r_tape : tape (T:=T); r_pending : list (T * nat) }.
Definition first_of (f : rfirst) : T := match f with RZero => o0 O | ROne => o1 O | RMinInf => minf | RMaxInf => pinf end.
(* push_lhs(t) after pushing [extra]: one statement made of everything pending *)
Definition close (t : nat) (st : rstate) (v : T) (extra : list (T * nat)) : rstate :=
  mkR v (r_tape st ++ [mkStmt t (r_pending st ++ extra)]) [].
(* total = <expression in total>, through Active::operator=(expression): gradient pushed, then push_lhs *)
Definition assign_expr (t : nat) (st : rstate) (e : expr (T:=T)) : rstate :=
  let '(v, ops) := value_and_gradient F e in close t st v (conv_ops ops).
Definition total_leaf (t : nat) (st : rstate) : expr (T:=T) := XAct (Z.of_nat t) (r_total st).

Definition racc_step (t : nat) (a : racc) (st : rstate) (e : expr (T:=T)) : rstate :=
  match a with
  | AccAdd =>
      let '(v, ops) := vgw e (fun _ => None) in
      mkR (oadd O (r_total st) v) (r_tape st) (r_pending st ++ conv_ops ops)
  | AccMulSpecial =>
      let '(v, ops) := vgw e (fun _ => Some (r_total st)) in
      assign_expr t (mkR (r_total st) (r_tape st) (r_pending st ++ conv_ops ops)) (XBin KMul (total_leaf t st) (XPas v))
  | AccAssignIf c =>
      if cmp_eval F c (value_at F (arrays_of e) e 0) (r_total st)
      then let '(v, ops) := vgw e (fun _ => None) in
           close t (mkR (r_total st) (r_tape st) (r_pending st ++ conv_ops ops)) v []     (* total = passive value: push_lhs only *)
      else st
  | AccSqSpecial2 n d =>
      let '(v, ops) := vgw e (fun v => Some (omul O (flit F n d) v)) in
      mkR (oadd O (r_total st) (omul O v v)) (r_tape st) (r_pending st ++ conv_ops ops)
  end.
Definition rfin_step (t n : nat) (f : rfin) (st : rstate) : rstate :=
  match f with
  | FinNone => st
  | FinPushLhs => close t st (r_total st) []
  | FinPushLhsDivN =>
      let st1 := close t st (r_total st) [] in
      assign_expr t st1 (XBin KMul (total_leaf t st1) (XPas (odiv O (o1 O) (ofnat n))))     (* total /= n is total * (1.0/n) *)
  | FinPushLhsSqrt =>
      let st1 := close t st (r_total st) [] in
      assign_expr t st1 (XUn F_sqrt (total_leaf t st1))
  end.
(* reduce_active: total = first_value (a statement without operations), the element loop, the finish *)
Definition reduce_run (t : nat) (p : rpolicy) (es : list (expr (T:=T))) : rstate :=
  let st0 := mkR (first_of (rp_first p)) [mkStmt t []] [] in
  let st1 := fold_left (racc_step t (rp_acc p)) es st0 in
  if rp_fin_needed p then rfin_step t (length es) (rp_fin p) st1 else st1.
Definition reduce_active (t : nat) (k : rkind) (es : list (expr (T:=T))) : rstate := reduce_run t (reduce_policy k) es.
(* reduce_dimension for an active argument (reduce.h): one temporary Active `total` (gradient index tt) is reduced per
   strip and then assigned to the result element (index r): result.get_lvalue(inew) = total records d r = 1 * d tt *)
Definition reduce_dim_tape (tt : nat) (p : rpolicy) (strips : list (nat * list (expr (T:=T)))) : tape (T:=T) :=
  concat (map (fun rs => r_tape (reduce_run tt p (snd rs)) ++ [mkStmt (fst rs) [(o1 O, tt)]]) strips).
Definition reduce_dim_values (tt : nat) (p : rpolicy) (strips : list (nat * list (expr (T:=T)))) : list (nat * T) :=
  map (fun rs => (fst rs, r_total (reduce_run tt p (snd rs)))) strips.

(* operations pushed under the single reservation made before the loop (the finishing assignments reserve their own) *)
Definition op_count (st : rstate) : nat := length (concat (map (@rhs T) (r_tape st))) + length (r_pending st).
Definition ops_in_loop (t : nat) (p : rpolicy) (es : list (expr (T:=T))) : nat :=
  op_count (fold_left (racc_step t (rp_acc p)) es (mkR (first_of (rp_first p)) [mkStmt t []] [])).
(* operations per element beyond those of the element expression itself *)
Definition acc_extra (a : racc) : Z := match a with AccMulSpecial => 1%Z | _ => 0%Z end.

(* ---------------- specification: the scalar loop on dual numbers (value, tangent) *)
Definition racc_spec (a : racc) (s x : T * T) : T * T :=
  match a with
  | AccAdd => (oadd O (fst s) (fst x), oadd O (snd s) (snd x))
  | AccMulSpecial => (omul O (fst s) (fst x), oadd O (omul O (fst s) (snd x)) (omul O (fst x) (snd s)))
  | AccAssignIf c => if cmp_eval F c (fst x) (fst s) then x else s
  | AccSqSpecial2 n d => (oadd O (fst s) (omul O (fst x) (fst x)), oadd O (snd s) (omul O (omul O (flit F n d) (fst x)) (snd x)))
  end.
Definition rfin_spec (n : nat) (f : rfin) (s : T * T) : T * T :=
  match f with
  | FinNone | FinPushLhs => s
  | FinPushLhsDivN => let c := odiv O (o1 O) (ofnat n) in (omul O (fst s) c, omul O c (snd s))
  | FinPushLhsSqrt => let r := f1 F F_sqrt (fst s) in (r, omul O (un_derivative F F_sqrt (fst s) r) (snd s))
  end.
Definition reduce_spec (p : rpolicy) (xs : list (T * T)) : T * T :=
  let s1 := fold_left (racc_spec (rp_acc p)) xs (first_of (rp_first p), o0 O) in
  if rp_fin_needed p then rfin_spec (length xs) (rp_fin p) s1 else s1.
(* a policy whose accumulation leaves operations pending must close them in its finish, one that closes them itself must not *)
Definition policy_wf (p : rpolicy) : bool :=
  match rp_acc p with
  | AccAdd | AccSqSpecial2 _ _ => rp_fin_needed p && match rp_fin p with FinNone => false | _ => true end
  | AccMulSpecial | AccAssignIf _ => negb (rp_fin_needed p) || match rp_fin p with FinNone => true | _ => false end
  end.
End Reduce.
