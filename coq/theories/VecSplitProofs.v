(* C05 (logic part): the three loops of a vectorized row cover every element exactly once, the packet
   body is a whole number of packets, and every packet access of every operand that took part in the
   negotiation is aligned. *)
From Coq Require Import ZArith List Bool Lia Arith.
From Adept Require Import VecSplit.
Import ListNotations.
Local Open Scope Z_scope.

Lemma align_off_range w a : 0 < w -> 0 <= align_off w a < w.
Proof. intros H. unfold align_off. apply Z.mod_pos_bound. exact H. Qed.
Lemma align_off_aligned w a : 0 < w -> (a + align_off w a) mod w = 0.
Proof.
  intros H. unfold align_off. pose proof (Z.mod_pos_bound a w H) as Ha.
  destruct (Z.eq_dec (a mod w) 0) as [E|NE].
  - rewrite E, Z.sub_0_r, Z.mod_same, Z.add_0_r by lia. exact E.
  - rewrite (Z.mod_small (w - a mod w)) by lia.
    rewrite (Z.div_mod a w) at 1 by lia. replace (w * (a / w) + a mod w + (w - a mod w)) with ((a / w + 1) * w) by lia.
    apply Z.mod_mul. lia.
Qed.

(* partition: 0 <= istart <= iend <= n, the body is a multiple of w, fewer than w elements are left *)
Theorem split_partition w n off : 0 < w -> 2 * w <= n -> 0 <= off < w ->
  let '(s, e) := split w n off off in
  s = off /\ s <= e <= n /\ (e - s) mod w = 0 /\ n - e < w /\ 0 <= n - e.
Proof.
  intros Hw Hn Ho. unfold split. destruct (Z.ltb_spec off 0); [lia|]. rewrite Z.eqb_refl. simpl.
  pose proof (Z.mod_pos_bound (n - off) w Hw). split; [reflexivity|]. split; [lia|]. split; [|lia].
  replace (n - off - (n - off) mod w + off - off) with (n - off - (n - off) mod w) by lia.
  rewrite (Z.div_mod (n - off) w) at 1 by lia. replace (w * ((n - off) / w) + (n - off) mod w - (n - off) mod w) with (((n - off) / w) * w) by lia.
  apply Z.mod_mul. lia.
Qed.
(* when the negotiation fails (clash, or different from the target's offset) everything is scalar *)
Theorem split_fallback w n r l : (r < 0 \/ r <> l) -> split w n r l = (0, 0).
Proof. intros H. unfold split. destruct (Z.ltb_spec r 0); [reflexivity|]. destruct (Z.eqb_spec r l); [lia|reflexivity]. Qed.

(* the index sets of the three loops: [0,s) scalar, s + w k for k < (e-s)/w packets of w lanes, [e,n) scalar:
   every index in [0,n) is in exactly one of them *)
Theorem split_covers w n off i : 0 < w -> 2 * w <= n -> 0 <= off < w -> 0 <= i < n ->
  let '(s, e) := split w n off off in
  (0 <= i < s /\ ~ (s <= i < e) /\ ~ (e <= i)) \/
  (s <= i < e /\ exists k lane, 0 <= k < (e - s) / w /\ 0 <= lane < w /\ i = s + w * k + lane) \/
  (e <= i < n /\ ~ (i < s)).
Proof.
  intros Hw Hn Ho Hi. pose proof (split_partition w n off Hw Hn Ho) as HP. destruct (split w n off off) as [s e].
  destruct HP as (-> & Hse & Hm & Ht & Ht0).
  destruct (Z_lt_le_dec i off); [left; lia|]. destruct (Z_lt_le_dec i e); [|right; right; lia].
  right; left. split; [lia|]. exists ((i - off) / w), ((i - off) mod w).
  pose proof (Z.div_mod (i - off) w ltac:(lia)). pose proof (Z.mod_pos_bound (i - off) w Hw).
  assert (e - off = w * ((e - off) / w)) as He by (apply Z.div_exact; [lia|exact Hm]).
  repeat split; try lia.
  - apply Z.div_pos; lia.
  - apply Z.div_lt_upper_bound; [lia|]. lia.
Qed.

(* alignment: an operand whose alignment offset equals the accepted offset is accessed at element addresses
   that are multiples of w in every packet of the body *)
Theorem packet_access_aligned w a off k : 0 < w -> align_off w a = off -> (a + off + w * k) mod w = 0.
Proof.
  intros Hw <-. rewrite <- Z.add_mod_idemp_l by lia. rewrite align_off_aligned by exact Hw. simpl.
  rewrite Z.mul_comm. apply Z.mod_mul. lia.
Qed.
(* the negotiated offset, when it is not a clash, is the offset of every array operand (scalars answer w) *)
Theorem combine_all_sound w offs r : 0 < w -> (forall o, In o offs -> 0 <= o <= w) -> combine_all w offs = r -> 0 <= r < w ->
  forall o, In o offs -> o = r \/ o = w.
Proof.
  intros Hw. revert r. induction offs as [|o0 t IH]; intros r Hb Hc Hr o Ho; [contradiction|].
  cbn [combine_all] in Hc. unfold combine_off in Hc.
  assert (0 <= o0 <= w) as Hb0 by (apply Hb; left; reflexivity).
  assert (forall o, In o t -> 0 <= o <= w) as Hbt by (intros; apply Hb; right; assumption).
  destruct (Z.eqb_spec o0 (combine_all w t)) as [E|NE].
  - subst r. destruct Ho as [<-|Ho]; [left; reflexivity|]. apply (IH o0 Hbt (eq_sym E) Hr o Ho).
  - destruct (Z.eqb_spec o0 w) as [E2|NE2].
    + destruct Ho as [<-|Ho]; [right; exact E2|]. apply (IH r Hbt Hc Hr o Ho).
    + destruct (Z.eqb_spec (combine_all w t) w) as [E3|NE3]; [|lia].
      subst r. destruct Ho as [<-|Ho]; [left; reflexivity|]. right.
      (* all remaining operands are "don't care" *)
      clear IH Hb Hb0 NE NE2 Hr. revert o Ho. induction t as [|o1 t IHt]; intros o Ho; [contradiction|].
      cbn [combine_all] in E3. unfold combine_off in E3. assert (0 <= o1 <= w) as Hb1 by (apply Hbt; left; reflexivity).
      destruct (Z.eqb_spec o1 (combine_all w t)) as [E4|NE4].
      * destruct Ho as [<-|Ho]; [lia|]. apply IHt; [intros; apply Hbt; right; assumption|lia|exact Ho].
      * destruct (Z.eqb_spec o1 w) as [E5|NE5].
        -- destruct Ho as [<-|Ho]; [exact E5|]. apply IHt; [intros; apply Hbt; right; assumption|exact E3|exact Ho].
        -- destruct (Z.eqb_spec (combine_all w t) w); lia.
Qed.

(* the counters of the hook *)
Theorem counts_total w n off : 0 < w -> 2 * w <= n -> 0 <= off < w ->
  let '(h, p, t) := counts w n (split w n off off) in h + w * p + t = n /\ 0 <= h < w /\ 0 <= t < w /\ 1 <= p.
Proof.
  intros Hw Hn Ho. pose proof (split_partition w n off Hw Hn Ho) as HP. unfold counts. destruct (split w n off off) as [s e].
  destruct HP as (-> & Hse & Hm & Ht & Ht0).
  assert (e - off = w * ((e - off) / w)) as He by (apply Z.div_exact; [lia|exact Hm]).
  assert (1 <= (e - off) / w) by (set (q := (e - off) / w) in *; clearbody q; nia).
  repeat split; lia.
Qed.

(* ---- the negotiation over expression trees *)
Definition in_dom (w x : Z) : Prop := x = -1 \/ 0 <= x <= w.
Lemma combine_off_dom w a b : 0 < w -> in_dom w a -> in_dom w b -> in_dom w (combine_off w a b).
Proof.
  unfold in_dom, combine_off. intros Hw Ha Hb.
  destruct (Z.eqb_spec a b); [assumption|]. destruct (Z.eqb_spec a w); [assumption|]. destruct (Z.eqb_spec b w); [assumption|]. left; reflexivity.
Qed.
Lemma combine_off_comm w a b : combine_off w a b = combine_off w b a.
Proof.
  unfold combine_off. destruct (Z.eqb_spec a b) as [E|NE]; destruct (Z.eqb_spec b a) as [E'|NE']; try lia.
  destruct (Z.eqb_spec a w); destruct (Z.eqb_spec b w); lia.
Qed.
Lemma combine_off_assoc w a b c : 0 < w -> combine_off w (combine_off w a b) c = combine_off w a (combine_off w b c).
Proof.
  intros Hw. unfold combine_off.
  destruct (Z.eqb_spec a b); destruct (Z.eqb_spec a w); destruct (Z.eqb_spec b w); destruct (Z.eqb_spec b c); destruct (Z.eqb_spec c w);
    repeat match goal with |- context [Z.eqb ?x ?y] => destruct (Z.eqb_spec x y) end; lia.
Qed.
Lemma combine_off_w_l w a : combine_off w w a = a.
Proof. unfold combine_off. destruct (Z.eqb_spec w a); [assumption|]. rewrite Z.eqb_refl. reflexivity. Qed.
Lemma combine_all_app w l1 l2 : 0 < w -> combine_all w (l1 ++ l2) = combine_off w (combine_all w l1) (combine_all w l2).
Proof.
  intros Hw. induction l1 as [|o t IH]; cbn [combine_all app].
  - rewrite combine_off_w_l. reflexivity.
  - rewrite IH, combine_off_assoc by exact Hw. reflexivity.
Qed.
(* the shape of the expression tree does not matter: the answer is the combination of the leaves *)
Theorem voff_leaves w e : 0 < w -> voff w e = combine_all w (map (align_off w) (leaves e)).
Proof.
  intros Hw. induction e as [a c| |a IH|l IHl r IHr]; cbn [voff leaves map combine_all].
  - rewrite combine_off_comm, combine_off_w_l. reflexivity.
  - reflexivity.
  - exact IH.
  - rewrite map_app, combine_all_app, IHl, IHr by exact Hw. reflexivity.
Qed.
(* accepted negotiation: every array leaf starts [off] elements before a packet boundary, so do all its packet accesses *)
Theorem accepted_offset_aligns_every_leaf w e lhs_addr n s en : 0 < w -> 2 * w <= n ->
  split w n (expr_off w e) (align_off w lhs_addr) = (s, en) -> s < en ->
  (lhs_addr + s) mod w = 0 /\ forall a, In a (leaves e) -> forall k, (a + s + w * k) mod w = 0.
Proof.
  intros Hw Hn Hs Hlt. unfold split in Hs.
  destruct (Z.ltb_spec (expr_off w e) 0) as [Hneg|Hnn]; [cbn in Hs; inversion Hs; lia|].
  destruct (Z.eqb_spec (expr_off w e) (align_off w lhs_addr)) as [E|NE]; [|cbn in Hs; inversion Hs; lia].
  cbn in Hs. apply pair_equal_spec in Hs. destruct Hs as [Hs _]. split.
  - rewrite <- Hs, E. apply align_off_aligned. exact Hw.
  - intros a Ha k. apply packet_access_aligned; [exact Hw|].
    unfold expr_off in *. rewrite voff_leaves in * by exact Hw.
    set (offs := map (align_off w) (leaves e)) in *.
    assert (forall o, In o offs -> 0 <= o <= w) as Hb.
    { intros o Ho. apply in_map_iff in Ho. destruct Ho as (x & <- & _). pose proof (align_off_range w x Hw). lia. }
    assert (In (align_off w a) offs) as Hin by (apply in_map; exact Ha).
    pose proof (align_off_range w a Hw) as Hr.
    destruct (Z.ltb_spec (combine_all w offs) w) as [Hl|Hge].
    + destruct (combine_all_sound w offs (combine_all w offs) Hw Hb eq_refl ltac:(lia) _ Hin) as [H|H]; lia.
    + (* "don't care": no array leaf at all *)
      exfalso. assert (combine_all w offs = w) as Ew.
      { assert (in_dom w (combine_all w offs)) as Hd.
        { clear -Hw Hb. induction offs as [|o t IH]; cbn [combine_all]; [right; lia|].
          apply combine_off_dom; [exact Hw|right; apply Hb; left; reflexivity|apply IH; intros; apply Hb; right; assumption]. }
        destruct Hd; lia. }
      clear -Hw Hb Hin Hr Ew. induction offs as [|o t IH]; [contradiction|].
      cbn [combine_all] in Ew. unfold combine_off in Ew.
      assert (0 <= o <= w) by (apply Hb; left; reflexivity).
      destruct (Z.eqb_spec o (combine_all w t)) as [E1|N1].
      * destruct Hin as [->|Hin]; [lia|]. apply IH; [intros; apply Hb; right; assumption|exact Hin|lia].
      * destruct (Z.eqb_spec o w) as [E2|N2].
        -- destruct Hin as [->|Hin]; [lia|]. apply IH; [intros; apply Hb; right; assumption|exact Hin|exact Ew].
        -- destruct (Z.eqb_spec (combine_all w t) w); lia.
Qed.

(* ---- value level *)
Lemma map_seq_blocks {A} (f : nat -> A) a w p :
  flat_map (fun k => map f (seq (a + w * k) w)) (seq 0 p) = map f (seq a (w * p)).
Proof.
  induction p as [|p IH].
  - rewrite Nat.mul_0_r. reflexivity.
  - rewrite seq_S, flat_map_app, IH. cbn [flat_map]. rewrite app_nil_r, <- map_app.
    replace (w * S p)%nat with (w * p + w)%nat by lia. rewrite seq_app. rewrite Nat.add_0_l. reflexivity.
Qed.
Theorem vec_row_is_scalar_row {A} (f : nat -> A) s w p t : vec_row f s w p t = map f (seq 0 (s + w * p + t)).
Proof.
  unfold vec_row. rewrite map_seq_blocks, <- !map_app. f_equal.
  rewrite (seq_app (s + w * p) t 0), (seq_app s (w * p) 0). rewrite <- app_assoc. reflexivity.
Qed.

Section ReduceProofs.
  Context {A : Type} (op : A -> A -> A) (e0 : A).
  Hypothesis op_assoc : forall a b c, op (op a b) c = op a (op b c).
  Hypothesis op_comm : forall a b, op a b = op b a.
  Hypothesis op_e0 : forall a, op e0 a = a.
  Let big (l : list A) : A := fold_right op e0 l.
  Lemma fold_left_big (g : nat -> A) l acc : fold_left (fun a i => op a (g i)) l acc = op acc (big (map g l)).
  Proof.
    revert acc. induction l as [|x l IH]; intros acc; cbn [fold_left map big fold_right].
    - rewrite op_comm, op_e0. reflexivity.
    - rewrite IH. fold (big (map g l)). rewrite op_assoc. reflexivity.
  Qed.
  Lemma big_app l1 l2 : big (l1 ++ l2) = op (big l1) (big l2).
  Proof. induction l1 as [|x l IH]; cbn [app big fold_right]; [rewrite op_e0; reflexivity|]. fold (big (l ++ l2)) (big l). rewrite IH, op_assoc. reflexivity. Qed.
  Lemma big_map_op {B} (g h : B -> A) l : big (map (fun x => op (g x) (h x)) l) = op (big (map g l)) (big (map h l)).
  Proof.
    induction l as [|x l IH]; cbn [map big fold_right]; [rewrite op_e0; reflexivity|].
    fold (big (map (fun x => op (g x) (h x)) l)) (big (map g l)) (big (map h l)). rewrite IH.
    rewrite !op_assoc. f_equal. rewrite <- !op_assoc. f_equal. apply op_comm.
  Qed.
  Lemma seq_shift_add a b w : seq (a + b) w = map (fun i => (a + i)%nat) (seq b w).
  Proof.
    revert b. induction w as [|w IH]; intros b; cbn [seq map]; [reflexivity|]. f_equal.
    replace (S (a + b)) with (a + S b)%nat by lia. apply IH.
  Qed.
  Lemma big_snoc (g : nat -> A) p : big (map g (seq 0 (S p))) = op (big (map g (seq 0 p))) (g p).
  Proof. rewrite seq_S, map_app, big_app. cbn [map big fold_right]. rewrite Nat.add_0_l. f_equal. rewrite op_comm, op_e0. reflexivity. Qed.
  (* the w lane accumulators together hold the packet body *)
  Lemma lanes_total (f : nat -> A) s w p :
    big (map (fun lane => big (map (fun k => f (s + w * k + lane)%nat) (seq 0 p))) (seq 0 w)) = big (map f (seq s (w * p))).
  Proof.
    induction p as [|p IH].
    - rewrite Nat.mul_0_r. cbn [seq map big fold_right]. induction (seq 0 w) as [|x l IHl]; cbn [map big fold_right]; [reflexivity|].
      fold (big (map (fun _ : nat => e0) l)). rewrite op_e0. exact IHl.
    - replace (w * S p)%nat with (w * p + w)%nat by lia. rewrite seq_app, map_app, big_app, <- IH.
      replace (seq (s + w * p) w) with (seq (s + w * p + 0) w) by (f_equal; lia). rewrite (seq_shift_add (s + w * p) 0 w), map_map.
      rewrite <- big_map_op. f_equal. apply map_ext. intros lane. rewrite big_snoc. reflexivity.
  Qed.
  Theorem vec_reduce_is_scalar_reduce (f : nat -> A) s w p t :
    vec_reduce op e0 f s w p t = scalar_reduce op e0 f (s + w * p + t).
  Proof.
    unfold vec_reduce, scalar_reduce, lane_total. rewrite !fold_left_big.
    rewrite !op_e0.
    assert (forall lane, fold_left (fun acc k => op acc (f (s + w * k + lane)%nat)) (seq 0 p) e0
                         = big (map (fun k => f (s + w * k + lane)%nat) (seq 0 p))) as Hl
      by (intros lane; rewrite (fold_left_big (fun k => f (s + w * k + lane)%nat)), op_e0; reflexivity).
    rewrite (map_ext _ _ Hl).
    rewrite lanes_total. rewrite map_app, big_app.
    rewrite (seq_app (s + w * p) t 0), (seq_app s (w * p) 0), !map_app, !big_app. rewrite !Nat.add_0_l.
    rewrite !op_assoc. f_equal. apply op_comm.
  Qed.
End ReduceProofs.

(* every row of an operand accepted by rows_ok starts at the alignment of the first row *)
Theorem rows_ok_row_alignment w strides base idx : 0 < w -> rows_ok w strides = true ->
  (base + dotZ idx (removelast strides)) mod w = base mod w /\ last strides 0 = 1.
Proof.
  intros Hw H. unfold rows_ok in H. apply andb_true_iff in H. destruct H as [Hl Ho].
  split; [|apply Z.eqb_eq; exact Hl]. clear Hl. rewrite forallb_forall in Ho.
  assert (dotZ idx (removelast strides) mod w = 0) as Hd.
  { revert idx. induction (removelast strides) as [|s t IH]; intros idx; destruct idx as [|i idx']; cbn [dotZ]; try apply Z.mod_0_l; try lia.
    rewrite Z.add_mod, IH by (try lia; intros x Hx; apply Ho; right; exact Hx).
    assert (s mod w = 0) as Hs by (apply Z.eqb_eq, Ho; left; reflexivity).
    rewrite Z.mul_mod, Hs, Z.mul_0_r by lia. reflexivity. }
  rewrite Z.add_mod, Hd, Z.add_0_r, Z.mod_mod by lia. reflexivity.
Qed.
