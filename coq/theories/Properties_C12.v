(* C12 — threads that each own a stack do not interfere.
   This file holds only the property theorems; each is closed by [exact] of a lemma and followed by Print Assumptions.
   Models: generated/Gen_Globals.v (tie G: the inventory of namespace-scope variables and function-local / class
   statics of the library with their access class, regenerated from adept/*.cpp and the headers on every run) and the
   private-state machine of Conc.v.  Tie H: ./check C12 runs std::thread workloads (each thread its own Stack,
   scalars, arrays, Jacobians) under ThreadSanitizer and compares every thread's results bit for bit with its solo
   run; the racy locations ThreadSanitizer reports must be within the set the access map predicts.
   What is modelled, not proved: that a thread's workload touches only its own Stack / arrays and the globals of the
   inventory (this is what ThreadSanitizer observes). *)
From Coq Require Import ZArith List String Arith.
From Adept Require Import Conc ConcProofs.
From AdeptGen Require Import Gen_Globals.
Import ListNotations.
Local Open Scope string_scope.

(* the pointer to the active stack is thread-local, and the library keeps no static variable inside functions or classes *)
Theorem C12_active_stack_pointer_is_thread_local : In ("_stack_current_thread", ThreadLocal) globals /\ function_statics = [].
Proof. split; [cbn; tauto|reflexivity]. Qed.
Print Assumptions C12_active_stack_pointer_is_thread_local.

(* every plain namespace-scope variable is one of: the documented process-wide settings (written only by set_* calls, not
   by a recording or differentiation workload) and the pointer used by ADEPT_STACK_THREAD_UNSAFE builds; the two
   bookkeeping counters of Storage, incremented by every thread that creates or destroys an array, are atomic *)
Definition settings : list string := ["array_closing_bracket"; "array_contiguous_separator"; "array_non_contiguous_separator"; "array_opening_bracket";
  "array_print_after"; "array_print_before"; "array_print_empty_after"; "array_print_empty_before"; "array_print_empty_rank"; "array_print_indent";
  "array_print_style"; "array_row_major_order"; "vector_print_after"; "vector_print_before"; "vector_separator"].
Theorem C12_access_map : forall g, In (g, Plain) globals ->
  In g settings \/ g = "_stack_current_thread_unsafe".
Proof.
  intros g H. cbn in H.
  repeat (destruct H as [H|H]; [inversion H; subst; cbn; tauto|]). contradiction.
Qed.
Print Assumptions C12_access_map.
Theorem C12_storage_counters_atomic : In ("n_storage_objects_created_", Atomic) globals /\ In ("n_storage_objects_deleted_", Atomic) globals.
Proof. split; cbn; tauto. Qed.
Print Assumptions C12_storage_counters_atomic.
(* an atomic counter counts every increment under every schedule (a plain one does not: ConcProofs.plain_counter_loses_update) *)
Theorem C12_atomic_counter_exact : forall sched st, (fst (arun sched st) + todo_total (snd (arun sched st)) = fst st + todo_total (snd st))%Z.
Proof. exact atomic_counter_exact. Qed.
Print Assumptions C12_atomic_counter_exact.

(* threads that touch only their own state: under EVERY schedule each thread has executed a prefix of its own program
   on its own state exactly as when run alone, and once it has been scheduled often enough its state is that of its
   solo run *)
Theorem C12_noninterference : forall (L Op : Type) (lstep : L -> Op -> L) sched (ts : list (pthr (L:=L) (Op:=Op))) k t,
  nth_error ts k = Some t ->
  exists t', nth_error (prun_sched lstep sched ts) k = Some t' /\
    plocal t' = fold_left lstep (firstn (count_occ Nat.eq_dec sched k) (pprog t)) (plocal t) /\
    pprog t' = skipn (count_occ Nat.eq_dec sched k) (pprog t).
Proof. intros L Op lstep sched. exact (private_noninterference lstep sched). Qed.
Print Assumptions C12_noninterference.
Theorem C12_solo_result : forall (L Op : Type) (lstep : L -> Op -> L) sched (ts : list (pthr (L:=L) (Op:=Op))) k t,
  nth_error ts k = Some t -> (List.length (pprog t) <= count_occ Nat.eq_dec sched k)%nat ->
  exists t', nth_error (prun_sched lstep sched ts) k = Some t' /\ plocal t' = solo lstep t /\ pprog t' = [].
Proof. intros L Op lstep sched ts k t. exact (private_complete lstep sched ts k t). Qed.
Print Assumptions C12_solo_result.

(* non-vacuity: two threads adding numbers to their own accumulators under an unfair schedule *)
Example C12_example :
  let ts := [mkPT [1; 2; 3]%Z 0%Z; mkPT [10; 20]%Z 5%Z] in
  map (fun t => plocal t) (prun_sched Z.add [1; 0; 0; 1; 0; 1; 1]%nat ts) = [6; 35]%Z.
Proof. vm_compute. reflexivity. Qed.
