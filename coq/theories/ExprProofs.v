(* C01 / C03 core: for every expression tree the protocol of Expr.v, run on the rule tables generated from
   the source, returns the value of the expression and pushes operations whose weighted sum is the tangent
   of the expression (dual-number evaluation), over any commutative ring with a division satisfying
   x / y = x * (1 / y). *)
From Coq Require Import ZArith List Bool Lia Ring.
From Adept Require Import Scalar ExprDefs Expr.
From AdeptGen Require Import Gen_Ops.
Import ListNotations.
Local Open Scope Z_scope.

(* ---- the generated tables use the canonical template arguments (checked by computation) *)
Lemma nodes_canonical :
  n_store_left nodes = (mkA 0, mkS 0 1 0) /\ n_store_right nodes = (mkA 1, mkS 1 1 0) /\ n_value_right nodes = mkA 1 /\
  n_un_store nodes = (mkA 0, mkS 0 0 1) /\
  n_un_rule nodes = mkRule None SL (mkA 0) (mkS 0 0 1) (Some (MDer (MVal SL (mkA 0) (mkS 0 0 1)) (MScr 0))) /\
  n_un_rule_m nodes = mkRule None SL (mkA 0) (mkS 0 0 1) (Some (MMul MW (MDer (MVal SL (mkA 0) (mkS 0 0 1)) (MScr 0)))).
Proof. repeat split; reflexivity. Qed.
(* noalias(e) forwards every call to e with unchanged array and scratch numbers: it is the identity of the protocol,
   which is why Expr.expr has no node for it *)
Lemma noalias_is_transparent : noalias_forwards = [(mkA 0, mkS 0 0 0); (mkA 0, mkS 0 0 0); (mkA 0, mkS 0 0 0); (mkA 0, mkS 0 0 0)].
Proof. reflexivity. Qed.
Definition rule_at (sd : side) (rl : rule) : Prop :=
  r_side rl = sd /\ r_a rl = match sd with SL => mkA 0 | SR => mkA 1 end /\ r_s rl = match sd with SL => mkS 0 1 0 | SR => mkS 1 1 0 end.
Lemma policies_canonical k : let p := policy_of k in
  rule_at SL (p_left p) /\ rule_at SL (p_left_m p) /\ rule_at SR (p_right p) /\ rule_at SR (p_right_m p) /\ 0 <= p_store_result p <= 2.
Proof. destruct k; cbn; unfold rule_at; cbn; repeat split; try reflexivity; lia. Qed.

Section Proofs.
Context {T : Type} (F : FOps T).
Let O := fbase F.
Hypothesis Rth : ring_theory (o0 O) (o1 O) (oadd O) (omul O) (osub O) (oneg O) (@eq T).
Hypothesis Hdiv : forall x y, odiv O x y = omul O x (odiv O (o1 O) y).
Hypothesis Hlit1 : flit F 1 1 = o1 O.
Add Ring Tring : Rth.
Declare Scope T_scope. Delimit Scope T_scope with T.
Notation "x + y" := (oadd O x y) : T_scope. Notation "x * y" := (omul O x y) : T_scope.
Notation "0" := (o0 O) : T_scope. Notation "1" := (o1 O) : T_scope.
Notation zf := (fun _ _ : T => o0 O).
Notation scratch := (@scratch T).
Notation expr := (@expr T).
Notation sem := (sem F). Notation tangent := (tangent F). Notation dot_ops := (dot_ops F).
Notation value_store := (value_store F). Notation value_stored := (value_stored F). Notation value_at := (value_at F).
Notation calc_gradient := (calc_gradient F). Notation eff_sr := (eff_sr (T:=T)).
Notation n_scratch := (n_scratch (T:=T)). Notation n_arrays := (n_arrays (T:=T)).

Notation wv := (wval F).

Lemma eff_sr_range k (l r : expr) : (0 <= eff_sr k l r <= 2)%Z.
Proof. unfold Expr.eff_sr. destruct (is_active l || is_active r); [|lia]. destruct (policies_canonical k) as (_ & _ & _ & _ & H). exact H. Qed.
Lemma n_scratch_nonneg (e : expr) : (0 <= n_scratch e)%Z.
Proof. induction e as [| | |f a IH|k l IHl r IHr]; cbn [Expr.n_scratch]; try lia. pose proof (eff_sr_range k l r). lia. Qed.
Lemma n_arrays_nonneg (e : expr) : (0 <= n_arrays e)%Z.
Proof. induction e as [| | |f a IH|k l IHl r IHr]; cbn [Expr.n_arrays]; lia. Qed.

Lemma supd_same (s : scratch) k x : supd s k x k = x.
Proof. unfold supd. rewrite Z.eqb_refl. reflexivity. Qed.
Lemma supd_other (s : scratch) k x j : j <> k -> supd s k x j = s j.
Proof. intros H. unfold supd. destruct (Z.eqb_spec j k); [contradiction|reflexivity]. Qed.

(* ---- specification-side facts *)
Lemma sem_bin k (l r : expr) : sem (XBin k l r) = bop F k (sem l) (sem r).
Proof.
  cbn [Expr.sem]. destruct (Z.eqb_spec (eff_sr k l r) 2) as [E|NE]; [|reflexivity].
  destruct k; cbn [bop_store bop fst]; try reflexivity. fold O. rewrite (Hdiv (sem l) (sem r)). reflexivity.
Qed.

(* arrays of the statement are where the canonical numbering says *)
Fixpoint arrs_ok (arrs : list (T * Z)) (e : expr) (A : Z) : Prop :=
  match e with
  | XArr _ gi v => arr_at F arrs A = (v, gi)
  | XUn _ a => arrs_ok arrs a A
  | XBin _ l r => arrs_ok arrs l A /\ arrs_ok arrs r (A + n_arrays l)
  | _ => True
  end.
Lemma arrs_ok_arrays_of (e : expr) pre post : arrs_ok (pre ++ arrays_of e ++ post) e (Z.of_nat (length pre)).
Proof.
  revert pre post. induction e as [| | |f a IH|k l IHl r IHr]; intros pre post; cbn [arrs_ok arrays_of]; try exact I.
  - unfold arr_at. rewrite Nat2Z.id, app_nth2, Nat.sub_diag by lia. reflexivity.
  - apply IH.
  - split.
    + rewrite <- app_assoc. apply IHl.
    + assert (n_arrays l = Z.of_nat (length (arrays_of l))) as Hn.
      { clear. induction l as [| | |f a IH|k l1 IH1 l2 IH2]; cbn [Expr.n_arrays arrays_of length]; try reflexivity; [exact IH|].
        rewrite app_length, Nat2Z.inj_add. lia. }
      rewrite Hn, <- Nat2Z.inj_add, <- app_length, <- app_assoc, app_assoc. apply IHr.
Qed.

Lemma value_at_sem arrs (e : expr) A : arrs_ok arrs e A -> value_at arrs e A = sem e.
Proof.
  revert A. induction e as [| | |f a IH|k l IHl r IHr]; intros A H; cbn [Expr.value_at]; try reflexivity.
  - cbn [arrs_ok] in H. rewrite H. reflexivity.
  - cbn [Expr.sem]. rewrite IH by exact H. reflexivity.
  - destruct H as [Hl Hr]. rewrite sem_bin. unfold a_of. cbn [n_value_right nodes a_nL].
    rewrite IHl by exact Hl. rewrite IHr; [reflexivity|]. replace (A + 1 * n_arrays l) with (A + n_arrays l) by lia. exact Hr.
Qed.

(* ---- the scratch vector after value_at_location_store_ *)
Fixpoint stored (e : expr) (S : Z) (scr : scratch) : Prop :=
  match e with
  | XUn f a => scr S = sem e /\ stored a (S + 1) scr
  | XBin k l r => let sr := eff_sr k l r in
      (0 < sr -> scr S = sem e) /\ (sr = 2 -> scr (S + 1) = snd (bop_store F k (sem l) (sem r))) /\
      stored l (S + sr) scr /\ stored r (S + sr + n_scratch l) scr
  | _ => True
  end.
Lemma stored_ext (e : expr) S scr scr' : (forall j, S <= j < S + n_scratch e -> scr' j = scr j) -> stored e S scr -> stored e S scr'.
Proof.
  revert S. induction e as [| | |f a IH|k l IHl r IHr]; intros S Hj H; cbn [stored] in *; try exact I.
  - cbn [Expr.n_scratch] in Hj. pose proof (n_scratch_nonneg a) as Pa. destruct H as [H1 H2]. split.
    + rewrite Hj by lia. exact H1.
    + apply IH; [|exact H2]. intros j Hr. apply Hj. lia.
  - cbn [Expr.n_scratch] in Hj. pose proof (n_scratch_nonneg l) as Pl. pose proof (n_scratch_nonneg r) as Pr. pose proof (eff_sr_range k l r) as Psr.
    destruct H as (H1 & H2 & H3 & H4). repeat split.
    + intros Hp. rewrite Hj by lia. apply H1. exact Hp.
    + intros Hp. rewrite Hj by lia. apply H2. exact Hp.
    + apply IHl; [|exact H3]. intros j Hr. apply Hj. lia.
    + apply IHr; [|exact H4]. intros j Hr. apply Hj. lia.
Qed.

Lemma store_frame arrs (e : expr) A S scr j : (j < S \/ S + n_scratch e <= j) -> snd (value_store arrs e A S scr) j = scr j.
Proof.
  revert A S scr. induction e as [| | |f a IH|k l IHl r IHr]; intros A S scr Hj; cbn [Expr.value_store snd]; try reflexivity.
  - cbn [n_un_store nodes fst snd]. unfold a_of, s_of. cbn [a_nL s_nL s_sr s_k].
    destruct (Expr.value_store F arrs a (A + 0 * 0) (S + 0 * 0 + 0 * 0 + 1) scr) as [va s1] eqn:E. cbn [snd].
    cbn [Expr.n_scratch] in Hj. pose proof (n_scratch_nonneg a) as Pa. rewrite supd_other by lia.
    change s1 with (snd (va, s1)). rewrite <- E. apply IH. lia.
  - cbn [n_store_left n_store_right nodes fst snd]. unfold a_of, s_of. cbn [a_nL s_nL s_sr s_k].
    cbn [Expr.n_scratch] in Hj. pose proof (n_scratch_nonneg l) as Pl. pose proof (n_scratch_nonneg r) as Pr. pose proof (eff_sr_range k l r) as Psr.
    set (sr := eff_sr k l r) in *.
    destruct (Expr.value_store F arrs l (A + 0 * n_arrays l) (S + 0 * n_scratch l + 1 * sr + 0) scr) as [vl s1] eqn:E1.
    destruct (Expr.value_store F arrs r (A + 1 * n_arrays l) (S + 1 * n_scratch l + 1 * sr + 0) s1) as [vr s2] eqn:E2.
    assert (s2 j = scr j) as H2.
    { change s2 with (snd (vr, s2)). rewrite <- E2, IHr by lia. change s1 with (snd (vl, s1)). rewrite <- E1. apply IHl. lia. }
    destruct (Z.eqb_spec sr 0); [exact H2|]. destruct (Z.eqb_spec sr 1); cbn [snd].
    + rewrite supd_other by lia. exact H2.
    + destruct (bop_store F k vl vr) as [x aux]. cbn [snd]. rewrite !supd_other by lia. exact H2.
Qed.

Lemma store_ok arrs (e : expr) A S scr : arrs_ok arrs e A ->
  fst (value_store arrs e A S scr) = sem e /\ stored e S (snd (value_store arrs e A S scr)).
Proof.
  revert A S scr. induction e as [| | |f a IH|k l IHl r IHr]; intros A S scr Ha; cbn [Expr.value_store fst snd stored]; try (split; [reflexivity|exact I]).
  - cbn [arrs_ok] in Ha. rewrite Ha. split; [reflexivity|exact I].
  - cbn [n_un_store nodes fst snd]. unfold a_of, s_of. cbn [a_nL s_nL s_sr s_k].
    replace (A + 0 * 0) with A by lia. replace (S + 0 * 0 + 0 * 0 + 1) with (S + 1) by lia.
    destruct (IH A (S + 1) scr Ha) as [Hv Hs].
    destruct (Expr.value_store F arrs a A (S + 1) scr) as [va s1]. cbn [fst snd] in *. subst va.
    split; [reflexivity|]. split; [apply supd_same|].
    apply (stored_ext a (S + 1) s1); [|exact Hs]. intros j Hj. apply supd_other. lia.
  - destruct Ha as [Hal Har]. cbn [n_store_left n_store_right nodes fst snd]. unfold a_of, s_of. cbn [a_nL s_nL s_sr s_k].
    pose proof (n_scratch_nonneg l) as Hnl. pose proof (n_scratch_nonneg r) as Hnr. pose proof (eff_sr_range k l r) as Hsr.
    set (sr := eff_sr k l r) in *.
    replace (A + 0 * n_arrays l) with A by lia. replace (S + 0 * n_scratch l + 1 * sr + 0) with (S + sr) by lia.
    replace (A + 1 * n_arrays l) with (A + n_arrays l) by lia. replace (S + 1 * n_scratch l + 1 * sr + 0) with (S + sr + n_scratch l) by lia.
    destruct (IHl A (S + sr) scr Hal) as [Hvl Hsl].
    destruct (Expr.value_store F arrs l A (S + sr) scr) as [vl s1] eqn:E1. cbn [fst snd] in *. subst vl.
    destruct (IHr (A + n_arrays l) (S + sr + n_scratch l) s1 Har) as [Hvr Hsr2].
    pose proof (fun j => store_frame arrs r (A + n_arrays l) (S + sr + n_scratch l) s1 j) as Hfr.
    destruct (Expr.value_store F arrs r (A + n_arrays l) (S + sr + n_scratch l) s1) as [vr s2] eqn:E2. cbn [fst snd] in *. subst vr.
    assert (stored l (S + sr) s2) as Hsl2.
    { apply (stored_ext l (S + sr) s1); [|exact Hsl]. intros j Hj. apply Hfr. lia. }
    rewrite sem_bin.
    destruct (Z.eqb_spec sr 0) as [E0|N0]; cbn [fst snd].
    + split; [reflexivity|]. repeat split; try lia; assumption.
    + destruct (Z.eqb_spec sr 1) as [E1'|N1]; cbn [fst snd].
      * split; [reflexivity|]. repeat split.
        -- intros _. apply supd_same.
        -- lia.
        -- apply (stored_ext l (S + sr) s2); [|exact Hsl2]. intros j Hj. apply supd_other. lia.
        -- apply (stored_ext r (S + sr + n_scratch l) s2); [|exact Hsr2]. intros j Hj. apply supd_other. lia.
      * assert (sr = 2) as E2' by lia.
        assert (fst (bop_store F k (sem l) (sem r)) = bop F k (sem l) (sem r)) as Hb.
        { destruct k; cbn [bop_store bop fst]; try reflexivity. fold O. rewrite (Hdiv (sem l) (sem r)). reflexivity. }
        destruct (bop_store F k (sem l) (sem r)) as [x aux] eqn:Eb. cbn [fst snd] in *. subst x.
        split; [reflexivity|]. repeat split.
        -- intros _. apply supd_same.
        -- intros _. rewrite supd_other by lia. apply supd_same.
        -- apply (stored_ext l (S + sr) s2); [|exact Hsl2]. intros j Hj. rewrite !supd_other by lia. reflexivity.
        -- apply (stored_ext r (S + sr + n_scratch l) s2); [|exact Hsr2]. intros j Hj. rewrite !supd_other by lia. reflexivity.
Qed.

Lemma stored_value arrs (e : expr) A S scr : arrs_ok arrs e A -> stored e S scr -> value_stored arrs e A S scr = sem e.
Proof.
  intros Ha Hs. destruct e as [| | |f a|k l r]; unfold Expr.value_stored; try reflexivity.
  - cbn [arrs_ok] in Ha. rewrite Ha. reflexivity.
  - destruct Hs as [H _]. exact H.
  - destruct (Z.eqb_spec (eff_sr k l r) 0) as [E|NE].
    + apply value_at_sem. exact Ha.
    + destruct Hs as [H _]. apply H. pose proof (eff_sr_range k l r). lia.
Qed.

(* ---- multiplier expressions *)
Lemma eval_m_ext w scrS scrS' vs vs' arg res der m :
  (forall k, scrS k = scrS' k) -> (forall s a i, vs s a i = vs' s a i) ->
  eval_m F w scrS vs arg res der m = eval_m F w scrS' vs' arg res der m.
Proof.
  intros H1 H2. induction m; cbn [eval_m]; try reflexivity; try (rewrite ?IHm, ?IHm1, ?IHm2; reflexivity).
  - apply H1.
  - apply H2.
Qed.

Definition a_eqb (x y : aidx) : bool := a_nL x =? a_nL y.
Definition s_eqb (x y : sidx) : bool := (s_nL x =? s_nL y) && (s_sr x =? s_sr y) && (s_k x =? s_k y).
(* value_stored_ of the children as the policy sees them: canonical template arguments give the child's value *)
Definition vs_abs (junk : side -> aidx -> sidx -> T) (vl vr : T) (s : side) (a : aidx) (i : sidx) : T :=
  match s with
  | SL => if a_eqb a (mkA 0) && s_eqb i (mkS 0 1 0) then vl else junk s a i
  | SR => if a_eqb a (mkA 1) && s_eqb i (mkS 1 1 0) then vr else junk s a i
  end.
Definition guard_pass (rl : rule) (ev : mexp -> T) : bool :=
  match r_guard rl with
  | None => true
  | Some g => let b := cmp_eval F (g_cmp g) (ev (g_l g)) (ev (g_r g)) in if g_neg g then negb b else b
  end.

(* what every policy's rules compute, given that the scratch slots hold the node's result (and auxiliary value) *)
Lemma policy_sem k vl vr (w : option T) junk junkS :
  let p := policy_of k in let sr := p_store_result p in
  let res := bop F k vl vr in let aux := snd (bop_store F k vl vr) in
  let scrS := fun j => if (j =? 0) && (0 <? sr) then res else if (j =? 1) && (sr =? 2) then aux else junkS j in
  let ev := eval_m F (wv w) scrS (vs_abs junk vl vr) (o0 O) (o0 O) zf in
  let rl := match w with Some _ => p_left_m p | None => p_left p end in
  let rr := match w with Some _ => p_right_m p | None => p_right p end in
  (if guard_pass rl ev then wv (option_map ev (r_mult rl)) = (wv w * dleft F k vl vr)%T else dleft F k vl vr = o0 O) /\
  (if guard_pass rr ev then wv (option_map ev (r_mult rr)) = (wv w * dright F k vl vr)%T else dright F k vl vr = o0 O).
Proof.
  destruct k; destruct w as [w|]; cbn; fold O; rewrite ?Hlit1, ?(Hdiv vl vr);
    try (split; ring);
    try (destruct (oltb O vr vl); cbn; fold O; split; try ring; reflexivity);
    try (destruct (oleb O vl vr); cbn; fold O; split; try ring; reflexivity).
Qed.

Lemma dot_ops_app a b u : dot_ops (a ++ b) u = (dot_ops a u + dot_ops b u)%T.
Proof.
  induction a as [|x a IH]; [cbn [app]; unfold Expr.dot_ops at 2; cbn [fold_right]; fold O; ring|].
  change (dot_ops ((x :: a) ++ b) u) with (fst x * u (snd x) + dot_ops (a ++ b) u)%T.
  change (dot_ops (x :: a) u) with (fst x * u (snd x) + dot_ops a u)%T. rewrite IH. ring.
Qed.

Lemma apply_rule_ext rl w A S nLa nLs sr scrS scrS' vs vs' der gl gr :
  (forall k, scrS k = scrS' k) -> (forall s a i, vs s a i = vs' s a i) ->
  apply_rule F rl w A S nLa nLs sr scrS vs der gl gr = apply_rule F rl w A S nLa nLs sr scrS' vs' der gl gr.
Proof.
  intros H1 H2. unfold apply_rule.
  assert (forall m, eval_m F (wv w) scrS vs (o0 (fbase F)) (o0 (fbase F)) der m
                  = eval_m F (wv w) scrS' vs' (o0 (fbase F)) (o0 (fbase F)) der m) as E
    by (intros m; apply eval_m_ext; assumption).
  destruct (r_guard rl) as [g|]; cbn zeta; rewrite ?E; destruct (r_mult rl) as [m|]; cbn [option_map]; rewrite ?E; reflexivity.
Qed.

(* ---- main lemma: the pushed operations are the tangent *)
Lemma grad_correct arrs u (e : expr) : forall A S scr w, arrs_ok arrs e A -> stored e S scr ->
  dot_ops (calc_gradient arrs e A S scr w) u = (wv w * tangent u e)%T.
Proof.
  induction e as [gi v|act gi v|v|f a IH|k l IHl r IHr]; intros A S scr w Ha Hs.
  - cbn. fold O. destruct w; cbn; ring.
  - cbn [Expr.calc_gradient Expr.tangent]. cbn [arrs_ok] in Ha. rewrite Ha. destruct act; cbn; fold O; destruct w; cbn; ring.
  - cbn. fold O. ring.
  - (* unary *)
    destruct Hs as [Hres Hsa]. cbn [arrs_ok] in Ha.
    cbn [Expr.calc_gradient Expr.tangent]. unfold apply_rule.
    destruct w as [w|]; cbn [n_un_rule n_un_rule_m nodes r_guard r_side r_a r_s r_mult option_map eval_m];
      unfold a_of, s_of; cbn [a_nL s_nL s_sr s_k];
      replace (A + 0 * 0) with A by lia; replace (S + 0 * 0 + 0 * 0 + 1) with (S + 1) by lia; replace (S + 0) with S by lia;
      rewrite (IH A (S + 1) scr _ Ha Hsa); cbn [wv];
      rewrite (stored_value arrs a A (S + 1) scr Ha Hsa), Hres; fold O; ring.
  - (* binary *)
    destruct Ha as [Hal Har]. destruct Hs as (Hres & Haux & Hsl & Hsr).
    cbn [Expr.calc_gradient Expr.tangent]. rewrite dot_ops_app.
    pose proof (policies_canonical k) as (CL & CLm & CR & CRm & Hrange). cbn zeta in *.
    set (p := policy_of k) in *. set (sr := p_store_result p) in *.
    set (vs := fun sd ai si => Expr.value_stored F arrs match sd with SL => l | SR => r end (a_of ai A (n_arrays l)) (s_of si S (n_scratch l) sr) scr).
    set (gl := fun A' S' m => Expr.calc_gradient F arrs l A' S' scr m). set (gr := fun A' S' m => Expr.calc_gradient F arrs r A' S' scr m).
    set (scrA := fun j => if (j =? 0) && (0 <? sr) then bop F k (sem l) (sem r) else if (j =? 1) && (sr =? 2) then snd (bop_store F k (sem l) (sem r)) else scr (S + j)).
    assert (is_active l || is_active r = true -> eff_sr k l r = sr) as Heff by (intros E; unfold Expr.eff_sr; rewrite E; reflexivity).
    assert (is_active l || is_active r = true -> forall j, scr (S + j) = scrA j) as HscrA.
    { intros Eact j. specialize (Heff Eact). unfold scrA. destruct (Z.eqb_spec j 0) as [->|Nj0]; cbn [andb].
      - destruct (Z.ltb_spec 0 sr) as [Hp|Hn]; [|reflexivity]. replace (S + 0) with S by lia. rewrite <- sem_bin. apply Hres. lia.
      - destruct (Z.eqb_spec j 1) as [->|Nj1]; cbn [andb]; [|reflexivity].
        destruct (Z.eqb_spec sr 2) as [E2|N2]; [|reflexivity]. apply Haux. lia. }
    assert (is_active l || is_active r = true -> forall sd ai si, vs sd ai si = vs_abs vs (sem l) (sem r) sd ai si) as HvsA.
    { intros Eact sd ai si. specialize (Heff Eact). unfold vs_abs. destruct sd.
      - destruct (a_eqb ai (mkA 0) && s_eqb si (mkS 0 1 0)) eqn:E; [|reflexivity].
        apply andb_true_iff in E. destruct E as [Ea Es]. unfold a_eqb in Ea. unfold s_eqb in Es. cbn in Ea, Es.
        apply Z.eqb_eq in Ea. apply andb_true_iff in Es. destruct Es as [Es Es3]. apply andb_true_iff in Es. destruct Es as [Es1 Es2].
        apply Z.eqb_eq in Es1, Es2, Es3. unfold vs, a_of, s_of. rewrite Ea, Es1, Es2, Es3.
        replace (A + 0 * n_arrays l) with A by lia. replace (S + 0 * n_scratch l + 1 * sr + 0) with (S + eff_sr k l r) by lia.
        apply stored_value; assumption.
      - destruct (a_eqb ai (mkA 1) && s_eqb si (mkS 1 1 0)) eqn:E; [|reflexivity].
        apply andb_true_iff in E. destruct E as [Ea Es]. unfold a_eqb in Ea. unfold s_eqb in Es. cbn in Ea, Es.
        apply Z.eqb_eq in Ea. apply andb_true_iff in Es. destruct Es as [Es Es3]. apply andb_true_iff in Es. destruct Es as [Es1 Es2].
        apply Z.eqb_eq in Es1, Es2, Es3. unfold vs, a_of, s_of. rewrite Ea, Es1, Es2, Es3.
        replace (A + 1 * n_arrays l) with (A + n_arrays l) by lia. replace (S + 1 * n_scratch l + 1 * sr + 0) with (S + eff_sr k l r + n_scratch l) by lia.
        apply stored_value; assumption. }
    pose proof (policy_sem k (sem l) (sem r) w vs (fun j => scr (S + j))) as Hpol. cbn zeta in Hpol. fold p sr scrA in Hpol.
    destruct Hpol as [HpL HpR].
    assert (dot_ops (if is_active l then apply_rule F match w with Some _ => p_left_m p | None => p_left p end w A S (n_arrays l) (n_scratch l) sr (fun j => scr (S + j)) vs zf gl gr else []) u
            = (wv w * (if is_active l then dleft F k (sem l) (sem r) * tangent u l else 0))%T) as HL.
    { destruct (Bool.bool_dec (is_active l) true) as [El|El]; [rewrite El|apply not_true_is_false in El; rewrite El; cbn; fold O; ring].
      assert (is_active l || is_active r = true) as Eact by (rewrite El; reflexivity).
      rewrite (apply_rule_ext _ w A S _ _ sr _ scrA vs (vs_abs vs (sem l) (sem r)) zf gl gr (HscrA Eact) (HvsA Eact)).
      assert (rule_at SL match w with Some _ => p_left_m p | None => p_left p end) as (Rs & Ra & Rss) by (destruct w; assumption).
      set (rl := match w with Some _ => p_left_m p | None => p_left p end) in *.
      unfold apply_rule.
      match type of HpL with (if ?c then _ else _) => match goal with |- context [if ?c' then _ else []] => change c' with c end end.
      match type of HpL with (if ?c then _ else _) => destruct c eqn:Eg end.
      - rewrite Rs, Ra, Rss. unfold a_of, s_of. cbn [a_nL s_nL s_sr s_k]. unfold gl.
        replace (A + 0 * n_arrays l) with A by lia. replace (S + 0 * n_scratch l + 1 * sr + 0) with (S + eff_sr k l r) by (rewrite (Heff Eact); lia).
        rewrite (IHl A (S + eff_sr k l r) scr _ Hal Hsl).
        transitivity ((wv w * dleft F k (sem l) (sem r)) * tangent u l)%T; [apply (f_equal (fun x => omul O x (tangent u l))); exact HpL|ring].
      - cbn [Expr.dot_ops fold_right]. fold O. rewrite HpL. ring. }
    assert (dot_ops (if is_active r then apply_rule F match w with Some _ => p_right_m p | None => p_right p end w A S (n_arrays l) (n_scratch l) sr (fun j => scr (S + j)) vs zf gl gr else []) u
            = (wv w * (if is_active r then dright F k (sem l) (sem r) * tangent u r else 0))%T) as HR.
    { destruct (Bool.bool_dec (is_active r) true) as [Er|Er]; [rewrite Er|apply not_true_is_false in Er; rewrite Er; cbn; fold O; ring].
      assert (is_active l || is_active r = true) as Eact by (rewrite Er; apply orb_true_r).
      rewrite (apply_rule_ext _ w A S _ _ sr _ scrA vs (vs_abs vs (sem l) (sem r)) zf gl gr (HscrA Eact) (HvsA Eact)).
      assert (rule_at SR match w with Some _ => p_right_m p | None => p_right p end) as (Rs & Ra & Rss) by (destruct w; assumption).
      set (rl := match w with Some _ => p_right_m p | None => p_right p end) in *.
      unfold apply_rule.
      match type of HpR with (if ?c then _ else _) => match goal with |- context [if ?c' then _ else []] => change c' with c end end.
      match type of HpR with (if ?c then _ else _) => destruct c eqn:Eg end.
      - rewrite Rs, Ra, Rss. unfold a_of, s_of. cbn [a_nL s_nL s_sr s_k]. unfold gr.
        replace (A + 1 * n_arrays l) with (A + n_arrays l) by lia.
        replace (S + 1 * n_scratch l + 1 * sr + 0) with (S + eff_sr k l r + n_scratch l) by (rewrite (Heff Eact); lia).
        rewrite (IHr (A + n_arrays l) (S + eff_sr k l r + n_scratch l) scr _ Har Hsr).
        transitivity ((wv w * dright F k (sem l) (sem r)) * tangent u r)%T; [apply (f_equal (fun x => omul O x (tangent u r))); exact HpR|ring].
      - cbn [Expr.dot_ops fold_right]. fold O. rewrite HpR. ring. }
    etransitivity; [apply (f_equal2 (oadd O)); [exact HL|exact HR]|]. fold O. ring.
Qed.

(* ---- Expression::scalar_value_and_gradient, one element of an array statement *)
Theorem value_and_gradient_correct (e : expr) u :
  fst (value_and_gradient F e) = sem e /\ dot_ops (snd (value_and_gradient F e)) u = tangent u e.
Proof.
  unfold value_and_gradient.
  pose proof (arrs_ok_arrays_of e [] []) as Ha. cbn [app length Z.of_nat] in Ha. rewrite app_nil_r in Ha.
  pose proof (store_ok (arrays_of e) e 0 0 (fun _ => o0 (fbase F)) Ha) as [Hv Hs].
  destruct (Expr.value_store F (arrays_of e) e 0 0 (fun _ => o0 (fbase F))) as [v scr] eqn:E. cbn [fst snd] in *.
  split; [exact Hv|]. rewrite (grad_correct (arrays_of e) u e 0 0 scr None Ha Hs). cbn [wval]. fold O. ring.
Qed.

(* the number of operations pushed never exceeds n_active (what check_space_static reserves) *)
Lemma pushes_le_n_active arrs (e : expr) : forall A S scr w, Z.of_nat (length (calc_gradient arrs e A S scr w)) <= n_active e.
Proof.
  induction e as [gi v|act gi v|v|f a IH|k l IHl r IHr]; intros A S scr w; cbn [Expr.calc_gradient Expr.n_active].
  - cbn. lia.
  - destruct act; cbn; lia.
  - cbn. lia.
  - unfold apply_rule. destruct w; cbn [n_un_rule n_un_rule_m nodes r_guard r_side]; apply IH.
  - rewrite app_length, Nat2Z.inj_add.
    pose proof (policies_canonical k) as (CL & CLm & CR & CRm & _). cbn zeta in *.
    assert (forall (x : expr), 0 <= Expr.n_active x) as Hnn by (induction x as [| [|] | | |]; cbn [Expr.n_active]; lia).
    assert (Z.of_nat (length (if is_active l then apply_rule F match w with Some _ => p_left_m (policy_of k) | None => p_left (policy_of k) end w A S (n_arrays l) (n_scratch l) (p_store_result (policy_of k)) (fun j => scr (S + j))
              (fun sd ai si => Expr.value_stored F arrs match sd with SL => l | SR => r end (a_of ai A (n_arrays l)) (s_of si S (n_scratch l) (p_store_result (policy_of k))) scr) zf
              (fun A' S' m => Expr.calc_gradient F arrs l A' S' scr m) (fun A' S' m => Expr.calc_gradient F arrs r A' S' scr m) else [])) <= Expr.n_active l) as HL.
    { destruct (is_active l); [|cbn; apply Hnn]. unfold apply_rule.
      assert (r_side match w with Some _ => p_left_m (policy_of k) | None => p_left (policy_of k) end = SL) as -> by (destruct w; [apply CLm|apply CL]).
      match goal with |- context [if ?c then _ else _] => destruct c end; [apply IHl|cbn; apply Hnn]. }
    assert (Z.of_nat (length (if is_active r then apply_rule F match w with Some _ => p_right_m (policy_of k) | None => p_right (policy_of k) end w A S (n_arrays l) (n_scratch l) (p_store_result (policy_of k)) (fun j => scr (S + j))
              (fun sd ai si => Expr.value_stored F arrs match sd with SL => l | SR => r end (a_of ai A (n_arrays l)) (s_of si S (n_scratch l) (p_store_result (policy_of k))) scr) zf
              (fun A' S' m => Expr.calc_gradient F arrs l A' S' scr m) (fun A' S' m => Expr.calc_gradient F arrs r A' S' scr m) else [])) <= Expr.n_active r) as HR.
    { destruct (is_active r); [|cbn; apply Hnn]. unfold apply_rule.
      assert (r_side match w with Some _ => p_right_m (policy_of k) | None => p_right (policy_of k) end = SR) as -> by (destruct w; [apply CRm|apply CR]).
      match goal with |- context [if ?c then _ else _] => destruct c end; [apply IHr|cbn; apply Hnn]. }
    apply Z.add_le_mono; [exact HL|exact HR].
Qed.
End Proofs.
