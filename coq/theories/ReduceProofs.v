(* C03 (reductions): the statements reduce_active records for sum, mean, product, maxval, minval and norm2 of an
   active array expression act on every tangent seed like the scalar loop the reduction denotes (dual-number
   evaluation), the value is that of the loop, every other gradient entry is left alone, and the operations pushed
   inside the loop fit the reservation made before it.  Over any commutative ring with x/y = x*(1/y). *)
From Coq Require Import ZArith List Bool Lia Ring Arith.
From Adept Require Import Scalar ExprDefs Expr ExprProofs Tape TapeAdjoint Program ProgramProofs ReduceDefs Reduce.
From AdeptGen Require Import Gen_Ops Gen_Reduce.
Import ListNotations.

Section ReduceProofs.
Context {T : Type} (F : FOps T).
Variables (minf pinf : T) (ofnat : nat -> T).
Let O := fbase F.
Hypothesis Rth : ring_theory (o0 O) (o1 O) (oadd O) (omul O) (osub O) (oneg O) (@eq T).
Hypothesis Hdiv : forall x y, odiv O x y = omul O x (odiv O (o1 O) y).
Hypothesis Hlit1 : flit F 1 1 = o1 O.
Add Ring TringR : Rth.
Notation "x + y" := (oadd O x y). Notation "x * y" := (omul O x y).

Lemma vgw_correct (e : expr (T:=T)) mk u :
  fst (vgw F e mk) = sem F e /\ dot_ops F (snd (vgw F e mk)) u = wval F (mk (sem F e)) * tangent F u e.
Proof.
  unfold vgw.
  pose proof (arrs_ok_arrays_of F e [] []) as Ha. cbn [app length Z.of_nat] in Ha. rewrite app_nil_r in Ha.
  pose proof (store_ok F Hdiv (arrays_of e) e 0 0 (fun _ => o0 (fbase F)) Ha) as [Hv Hs].
  destruct (value_store F (arrays_of e) e 0 0 (fun _ => o0 (fbase F))) as [v scr]. cbn [fst snd] in *.
  split; [exact Hv|]. rewrite (grad_correct F Rth Hdiv Hlit1 (arrays_of e) u e 0 0 scr (mk v) Ha Hs). rewrite Hv. reflexivity.
Qed.
Lemma vgw_indices (e : expr (T:=T)) mk : Forall (fun mi => In (snd mi) (gis e)) (snd (vgw F e mk)).
Proof.
  unfold vgw.
  pose proof (arrs_ok_arrays_of F e [] []) as Ha. cbn [app length Z.of_nat] in Ha. rewrite app_nil_r in Ha.
  destruct (value_store F (arrays_of e) e 0 0 (fun _ => o0 (fbase F))) as [v scr]. cbn [snd].
  apply calc_gradient_indices. exact Ha.
Qed.
Lemma value_at_top (e : expr (T:=T)) : value_at F (arrays_of e) e 0 = sem F e.
Proof.
  pose proof (arrs_ok_arrays_of F e [] []) as Ha. cbn [app length Z.of_nat] in Ha. rewrite app_nil_r in Ha.
  apply (value_at_sem F Hdiv). exact Ha.
Qed.

(* the tangent of an expression depends only on the seeds of its own gradient indices *)
Lemma tangent_ext (e : expr (T:=T)) u u' : (forall g, In g (gis e) -> u g = u' g) -> tangent F u e = tangent F u' e.
Proof.
  induction e as [gi v|act gi v|v|f a IH|k l IHl r IHr]; cbn [tangent gis]; intros H.
  - apply H. left. reflexivity.
  - destruct act; [apply H; left; reflexivity|reflexivity].
  - reflexivity.
  - rewrite (IH H). reflexivity.
  - rewrite (IHl (fun g Hg => H g (in_or_app _ _ _ (or_introl Hg)))), (IHr (fun g Hg => H g (in_or_app _ _ _ (or_intror Hg)))). reflexivity.
Qed.

Lemma rhs_val_app a b g : rhs_val O (a ++ b) g = rhs_val O a g + rhs_val O b g.
Proof.
  induction a as [|mi a IH]; cbn [app].
  - rewrite (rhs_val_nil O). ring.
  - rewrite !(rhs_val_cons O Rth), IH. ring.
Qed.
Lemma rhs_val_ext o g g' : (forall i, g i = g' i) -> rhs_val O o g = rhs_val O o g'.
Proof.
  intros H. induction o as [|mi o IH]; [rewrite !(rhs_val_nil O); reflexivity|].
  rewrite !(rhs_val_cons O Rth), IH, H. reflexivity.
Qed.
Lemma dot_ops_ext ops u u' : Forall (fun mi : T * Z => u (snd mi) = u' (snd mi)) ops -> dot_ops F ops u = dot_ops F ops u'.
Proof.
  induction 1 as [|mi ops Hm _ IH]; [reflexivity|]. cbn [dot_ops fold_right]. fold (dot_ops F ops u) (dot_ops F ops u').
  rewrite IH, Hm. reflexivity.
Qed.
Lemma fwd_sweep_snoc tp s g : fwd_sweep O (tp ++ [s]) g = fwd1 O s (fwd_sweep O tp g).
Proof. unfold fwd_sweep. rewrite fold_left_app. reflexivity. Qed.

Section Run.
Variables (t : nat) (u0 : nat -> T).
Let uz := fun z : Z => u0 (Z.to_nat z).
(* the total is a fresh variable: no element expression reads its gradient index *)
Definition fresh (e : expr (T:=T)) : Prop := Forall (fun g => Z.to_nat g <> t) (gis e).
Definition agree (g : nat -> T) : Prop := forall i, i <> t -> g i = u0 i.

(* operations of an element, evaluated on any seed vector that agrees with u0 away from the total *)
Lemma elem_ops (e : expr (T:=T)) mk g : fresh e -> agree g ->
  rhs_val O (conv_ops (snd (vgw F e mk))) g = wval F (mk (sem F e)) * tangent F uz e.
Proof.
  intros Hf Hg. rewrite (rhs_val_conv F Rth).
  destruct (vgw_correct e mk (fun z => g (Z.to_nat z))) as [_ Hd]. rewrite Hd. f_equal.
  apply tangent_ext. intros gi Hin. unfold uz. apply Hg.
  unfold fresh in Hf. rewrite Forall_forall in Hf. apply Hf. exact Hin.
Qed.
(* total = f(total, passive): the gradient pushed by the assignment *)
Lemma total_ops (e : expr (T:=T)) g :
  rhs_val O (conv_ops (snd (value_and_gradient F e))) g = tangent F (fun z => g (Z.to_nat z)) e.
Proof. rewrite (rhs_val_conv F Rth). apply (value_and_gradient_correct F Rth Hdiv Hlit1). Qed.

Definition xs_of (es : list (expr (T:=T))) : list (T * T) := map (fun e => (sem F e, tangent F uz e)) es.

(* invariant of policies whose operations stay pending until the finish (sum, mean, norm2) *)
Definition inv_pending (st : rstate (T:=T)) (s : T * T) : Prop :=
  r_total st = fst s /\ r_tape st = [mkStmt t []] /\ forall g, agree g -> rhs_val O (r_pending st) g = snd s.
(* invariant of policies that close a statement per element (product, maxval, minval) *)
Definition inv_closed (st : rstate (T:=T)) (s : T * T) : Prop :=
  r_total st = fst s /\ r_pending st = [] /\ forall i, fwd_sweep O (r_tape st) u0 i = upd u0 t (snd s) i.

Lemma upd_agree d : agree (upd u0 t d).
Proof. intros i Hi. unfold upd. destruct (Nat.eqb_spec i t); [contradiction|reflexivity]. Qed.
Lemma agree_of g d : (forall i, g i = upd u0 t d i) -> agree g.
Proof. intros H i Hi. rewrite H. apply upd_agree. exact Hi. Qed.
Lemma at_t g d : (forall i, g i = upd u0 t d i) -> g t = d.
Proof. intros H. rewrite H. unfold upd. rewrite Nat.eqb_refl. reflexivity. Qed.
Lemma upd_upd_pt (g : nat -> T) d d' : (forall i, g i = upd u0 t d i) -> forall i, upd g t d' i = upd u0 t d' i.
Proof. intros H i. unfold upd in *. destruct (Nat.eqb_spec i t) as [->|Hn]; [reflexivity|]. specialize (H i). destruct (Nat.eqb_spec i t); [contradiction|exact H]. Qed.

Lemma step_pending a st s e : (a = AccAdd \/ exists n d, a = AccSqSpecial2 n d) -> fresh e -> inv_pending st s ->
  inv_pending (racc_step F t a st e) (racc_spec F a s (sem F e, tangent F uz e)).
Proof.
  intros Ha Hf (Ht & Htp & Hp).
  destruct Ha as [->|(n & d & ->)]; cbn [racc_step racc_spec fst snd].
  - pose proof (vgw_correct e (fun _ => None) uz) as [Hv _].
    pose proof (fun g Hg => elem_ops e (fun _ => None) g Hf Hg) as He.
    destruct (vgw F e (fun _ => None)) as [v ops]. cbn [fst snd] in *. subst v.
    split; [cbn [r_total fst]; rewrite Ht; reflexivity|]. split; [exact Htp|].
    intros g Hg. cbn [r_pending fst snd]. rewrite rhs_val_app, (Hp g Hg), (He g Hg). cbn [wval]. fold O. ring.
  - match goal with |- context [vgw F e ?m] => set (mk := m) end.
    pose proof (vgw_correct e mk uz) as [Hv _].
    pose proof (fun g Hg => elem_ops e mk g Hf Hg) as He.
    destruct (vgw F e mk) as [v ops]. cbn [fst snd] in *. subst v. subst mk.
    split; [cbn [r_total fst]; rewrite Ht; reflexivity|]. split; [exact Htp|].
    intros g Hg. cbn [r_pending fst snd]. rewrite rhs_val_app, (Hp g Hg), (He g Hg). cbn [wval]. reflexivity.
Qed.

Lemma step_closed a st s e : (a = AccMulSpecial \/ exists c, a = AccAssignIf c) -> fresh e -> inv_closed st s ->
  inv_closed (racc_step F t a st e) (racc_spec F a s (sem F e, tangent F uz e)).
Proof.
  intros Ha Hf (Ht & Hp & Hsw).
  destruct Ha as [->|(c & ->)]; cbn [racc_step racc_spec fst snd].
  - pose proof (vgw_correct e (fun _ => Some (r_total st)) uz) as [Hv _].
    pose proof (fun g Hg => elem_ops e (fun _ => Some (r_total st)) g Hf Hg) as He.
    destruct (vgw F e (fun _ => Some (r_total st))) as [v ops]. cbn [fst snd] in *. subst v.
    unfold assign_expr, total_leaf. cbn [r_total].
    pose proof (value_and_gradient_correct F Rth Hdiv Hlit1 (XBin KMul (XAct (Z.of_nat t) (r_total st)) (XPas (sem F e)))) as Hvg.
    pose proof (total_ops (XBin KMul (XAct (Z.of_nat t) (r_total st)) (XPas (sem F e)))) as Hto.
    destruct (value_and_gradient F (XBin KMul (XAct (Z.of_nat t) (r_total st)) (XPas (sem F e)))) as [v2 ops2]. cbn [fst snd] in *.
    destruct (Hvg uz) as [Hv2 _]. unfold close. cbn [r_total r_tape r_pending].
    split; [rewrite Hv2; cbn; rewrite Ht; reflexivity|]. split; [reflexivity|].
    intros i. cbn [r_tape r_pending r_total fst snd]. rewrite fwd_sweep_snoc. unfold fwd1. cbn [lhs rhs]. rewrite Hp. cbn [app].
    set (g := fwd_sweep O (r_tape st) u0).
    rewrite (upd_upd_pt g (snd s) _ Hsw i). unfold upd. destruct (Nat.eqb i t); [|reflexivity].
    rewrite rhs_val_app, (He g (agree_of g _ Hsw)), Hto. cbn [wval tangent is_active sem]. rewrite Nat2Z.id, (at_t g _ Hsw).
    cbn [dleft dright]. rewrite Ht. fold O. ring.
  - rewrite value_at_top, Ht.
    destruct (cmp_eval F c (sem F e) (fst s)); [|split; [exact Ht|split; [exact Hp|exact Hsw]]].
    pose proof (vgw_correct e (fun _ => None) uz) as [Hv _].
    pose proof (fun g Hg => elem_ops e (fun _ => None) g Hf Hg) as He.
    destruct (vgw F e (fun _ => None)) as [v ops]. cbn [fst snd] in *. subst v.
    unfold close. cbn [r_total r_tape r_pending fst snd].
    split; [reflexivity|]. split; [reflexivity|].
    intros i. cbn [r_tape r_pending r_total fst snd]. rewrite fwd_sweep_snoc. unfold fwd1. cbn [lhs rhs]. rewrite Hp, app_nil_r. cbn [app].
    set (g := fwd_sweep O (r_tape st) u0).
    rewrite (upd_upd_pt g (snd s) _ Hsw i). unfold upd. destruct (Nat.eqb i t); [|reflexivity].
    rewrite (He g (agree_of g _ Hsw)). cbn [wval]. fold O. ring.
Qed.

Lemma fold_pending a es : (a = AccAdd \/ exists n d, a = AccSqSpecial2 n d) -> Forall fresh es -> forall st s, inv_pending st s ->
  inv_pending (fold_left (racc_step F t a) es st) (fold_left (racc_spec F a) (xs_of es) s).
Proof.
  intros Ha. induction 1 as [|e es Hf _ IH]; intros st s Hi; [exact Hi|].
  cbn [fold_left xs_of map]. apply IH. apply step_pending; assumption.
Qed.
Lemma fold_closed a es : (a = AccMulSpecial \/ exists c, a = AccAssignIf c) -> Forall fresh es -> forall st s, inv_closed st s ->
  inv_closed (fold_left (racc_step F t a) es st) (fold_left (racc_spec F a) (xs_of es) s).
Proof.
  intros Ha. induction 1 as [|e es Hf _ IH]; intros st s Hi; [exact Hi|].
  cbn [fold_left xs_of map]. apply IH. apply step_closed; assumption.
Qed.

(* the finish of a pending policy *)
Lemma finish_pending f n st s : f <> FinNone -> inv_pending st s ->
  let st' := rfin_step F ofnat t n f st in let s' := rfin_spec F ofnat n f s in
  r_total st' = fst s' /\ r_pending st' = [] /\ forall i, fwd_sweep O (r_tape st') u0 i = upd u0 t (snd s') i.
Proof.
  intros Hf (Ht & Htp & Hp).
  assert (Hclose : forall i, fwd_sweep O (r_tape (close t st (r_total st) [])) u0 i = upd u0 t (snd s) i).
  { intros i. unfold close. cbn [r_tape]. rewrite Htp, app_nil_r. cbn [app fwd_sweep fold_left]. unfold fwd1. cbn [lhs rhs].
    rewrite (upd_upd_pt (upd u0 t (rhs_val O [] u0)) _ _ (fun j => eq_refl) i).
    unfold upd. destruct (Nat.eqb i t); [|reflexivity]. apply Hp. apply agree_of with (d := rhs_val O [] u0). intros j. reflexivity. }
  destruct f; [contradiction| | |]; cbn [rfin_step rfin_spec]; cbv zeta.
  - split; [exact Ht|]. split; [reflexivity|exact Hclose].
  - unfold assign_expr, total_leaf. cbn [close r_total].
    match goal with |- context [value_and_gradient F ?x] => set (ex := x) end.
    pose proof (value_and_gradient_correct F Rth Hdiv Hlit1 ex) as Hvg.
    pose proof (total_ops ex) as Hto.
    destruct (value_and_gradient F ex) as [v2 ops2]. cbn [fst snd] in *.
    destruct (Hvg uz) as [Hv2 _]. unfold close. cbn [r_total r_tape r_pending].
    split; [rewrite Hv2; subst ex; cbn; rewrite Ht; reflexivity|]. split; [reflexivity|].
    intros i. rewrite fwd_sweep_snoc. unfold fwd1. cbn [lhs rhs app].
    set (g := fwd_sweep O (r_tape st ++ [mkStmt t (r_pending st ++ [])]) u0).
    assert (Hg : forall j, g j = upd u0 t (snd s) j) by exact Hclose.
    rewrite (upd_upd_pt g (snd s) _ Hg i). unfold upd. destruct (Nat.eqb i t); [|reflexivity].
    rewrite Hto. subst ex. cbn [tangent is_active sem snd]. rewrite Nat2Z.id, (at_t g _ Hg). cbn [dleft dright]. fold O. ring.
  - unfold assign_expr, total_leaf. cbn [close r_total].
    match goal with |- context [value_and_gradient F ?x] => set (ex := x) end.
    pose proof (value_and_gradient_correct F Rth Hdiv Hlit1 ex) as Hvg.
    pose proof (total_ops ex) as Hto.
    destruct (value_and_gradient F ex) as [v2 ops2]. cbn [fst snd] in *.
    destruct (Hvg uz) as [Hv2 _]. unfold close. cbn [r_total r_tape r_pending].
    split; [rewrite Hv2; subst ex; cbn; rewrite Ht; reflexivity|]. split; [reflexivity|].
    intros i. rewrite fwd_sweep_snoc. unfold fwd1. cbn [lhs rhs app].
    set (g := fwd_sweep O (r_tape st ++ [mkStmt t (r_pending st ++ [])]) u0).
    assert (Hg : forall j, g j = upd u0 t (snd s) j) by exact Hclose.
    rewrite (upd_upd_pt g (snd s) _ Hg i). unfold upd. destruct (Nat.eqb i t); [|reflexivity].
    rewrite Hto. subst ex. cbn [tangent is_active sem snd]. rewrite Nat2Z.id, (at_t g _ Hg), Ht. reflexivity.
Qed.

(* main theorem, any well-formed policy *)
Theorem reduce_run_correct p es : policy_wf p = true -> Forall fresh es ->
  let st := reduce_run F minf pinf ofnat t p es in let s := reduce_spec F minf pinf ofnat p (xs_of es) in
  r_total st = fst s /\ r_pending st = [] /\ forall i, fwd_sweep O (r_tape st) u0 i = upd u0 t (snd s) i.
Proof.
  intros Hwf Hfr. cbv zeta. unfold reduce_run, reduce_spec, policy_wf in *.
  assert (Hlen : length (xs_of es) = length es) by (unfold xs_of; apply map_length). rewrite Hlen.
  set (st0 := mkR (first_of F minf pinf (rp_first p)) [mkStmt t []] []).
  set (s0 := (first_of F minf pinf (rp_first p), o0 O)).
  destruct (rp_acc p) as [| |c|n d] eqn:Ea.
  - apply andb_true_iff in Hwf. destruct Hwf as [Hn Hf]. rewrite Hn.
    apply finish_pending; [intros E; rewrite E in Hf; discriminate|].
    apply fold_pending; [left; reflexivity|exact Hfr|].
    split; [reflexivity|]. split; [reflexivity|]. intros g _. apply (rhs_val_nil O).
  - assert (Hc : inv_closed (fold_left (racc_step F t AccMulSpecial) es st0) (fold_left (racc_spec F AccMulSpecial) (xs_of es) s0)).
    { apply fold_closed; [left; reflexivity|exact Hfr|]. split; [reflexivity|]. split; [reflexivity|].
      intros i. cbn. unfold fwd1. cbn [lhs rhs]. rewrite (rhs_val_nil O). reflexivity. }
    destruct (rp_fin_needed p); [|exact Hc]. cbn [negb orb] in Hwf. destruct (rp_fin p); try discriminate. exact Hc.
  - assert (Hc : inv_closed (fold_left (racc_step F t (AccAssignIf c)) es st0) (fold_left (racc_spec F (AccAssignIf c)) (xs_of es) s0)).
    { apply fold_closed; [right; exists c; reflexivity|exact Hfr|]. split; [reflexivity|]. split; [reflexivity|].
      intros i. cbn. unfold fwd1. cbn [lhs rhs]. rewrite (rhs_val_nil O). reflexivity. }
    destruct (rp_fin_needed p); [|exact Hc]. cbn [negb orb] in Hwf. destruct (rp_fin p); try discriminate. exact Hc.
  - apply andb_true_iff in Hwf. destruct Hwf as [Hn Hf]. rewrite Hn.
    apply finish_pending; [intros E; rewrite E in Hf; discriminate|].
    apply fold_pending; [right; exists n, d; reflexivity|exact Hfr|].
    split; [reflexivity|]. split; [reflexivity|]. intros g _. apply (rhs_val_nil O).
Qed.
End Run.
End ReduceProofs.

(* ---- reductions along one dimension: one reduction per strip through a temporary, then an assignment to the result *)
Section Dim.
Context {T : Type} (F : FOps T).
Variables (minf pinf : T) (ofnat : nat -> T).
Let O := fbase F.
Hypothesis Rth : ring_theory (o0 O) (o1 O) (oadd O) (omul O) (osub O) (oneg O) (@eq T).
Hypothesis Hdiv : forall x y, odiv O x y = omul O x (odiv O (o1 O) y).
Hypothesis Hlit1 : flit F 1 1 = o1 O.
Add Ring TringD : Rth.

Lemma fwd1_ext s (g g' : nat -> T) : (forall i, g i = g' i) -> forall i, fwd1 O s g i = fwd1 O s g' i.
Proof.
  intros H i. unfold fwd1, upd. destruct (Nat.eqb i (lhs s)); [|apply H].
  apply (rhs_val_ext F Rth). exact H.
Qed.
Lemma fwd_sweep_ext tp : forall (g g' : nat -> T), (forall i, g i = g' i) -> forall i, fwd_sweep O tp g i = fwd_sweep O tp g' i.
Proof.
  induction tp as [|s tp IH]; intros g g' H i; [apply H|].
  unfold fwd_sweep. cbn [fold_left]. apply IH. apply fwd1_ext. exact H.
Qed.
Lemma upd_pt (a b : nat -> T) k x y : (forall j, a j = b j) -> x = y -> forall j, upd a k x j = upd b k y j.
Proof. intros H E j. unfold upd. destruct (Nat.eqb j k); [exact E|apply H]. Qed.
Lemma fwd_sweep_app a b (g : nat -> T) : fwd_sweep O (a ++ b) g = fwd_sweep O b (fwd_sweep O a g).
Proof. unfold fwd_sweep. apply fold_left_app. Qed.
Lemma xs_of_ext (g g' : nat -> T) es : (forall e, In e es -> forall z, In z (gis e) -> g (Z.to_nat z) = g' (Z.to_nat z)) -> xs_of F g es = xs_of F g' es.
Proof.
  intros H. unfold xs_of. apply map_ext_in. intros e He. f_equal. apply (tangent_ext F). intros z Hz. apply (H e He z Hz).
Qed.

(* the seed vector after the strips: each strip sets the temporary and its result element to the tangent of its scalar loop *)
Definition dim_result (tt : nat) (p : rpolicy) (u0 : nat -> T) (strips : list (nat * list (expr (T:=T)))) : nat -> T :=
  fold_left (fun g rs => let s := snd (reduce_spec F minf pinf ofnat p (xs_of F u0 (snd rs))) in upd (upd g tt s) (fst rs) s) strips u0.

Theorem reduce_dim_correct tt p u0 strips : policy_wf p = true ->
  (forall rs, In rs strips -> Forall (fresh tt) (snd rs)) ->
  (forall rs rs', In rs strips -> In rs' strips -> Forall (fresh (fst rs)) (snd rs')) ->
  (forall i, fwd_sweep O (reduce_dim_tape F minf pinf ofnat tt p strips) u0 i = dim_result tt p u0 strips i) /\
  reduce_dim_values F minf pinf ofnat tt p strips = map (fun rs => (fst rs, fst (reduce_spec F minf pinf ofnat p (xs_of F u0 (snd rs))))) strips.
Proof.
  intros Hwf Htt Hres. split.
  - unfold dim_result, reduce_dim_tape.
    (* generalise the start vector: any g that agrees with u0 on what the elements read *)
    assert (G : forall (l : list (nat * list (expr (T:=T)))), (forall rs, In rs l -> In rs strips) -> forall g,
              (forall rs e z, In rs strips -> In e (snd rs) -> In z (gis e) -> g (Z.to_nat z) = u0 (Z.to_nat z)) ->
              forall i, fwd_sweep O (concat (map (fun rs => r_tape (reduce_run F minf pinf ofnat tt p (snd rs)) ++ [mkStmt (fst rs) [(o1 O, tt)]]) l)) g i =
                        fold_left (fun g rs => let s := snd (reduce_spec F minf pinf ofnat p (xs_of F u0 (snd rs))) in upd (upd g tt s) (fst rs) s) l g i).
    { induction l as [|rs l IH]; intros Hin g Hg i; [reflexivity|].
      cbn [map concat fold_left]. rewrite fwd_sweep_app, fwd_sweep_app.
      assert (Hrs : In rs strips) by (apply Hin; left; reflexivity).
      pose proof (reduce_run_correct F minf pinf ofnat Rth Hdiv Hlit1 tt g p (snd rs) Hwf (Htt rs Hrs)) as (_ & _ & Hsw). cbv zeta in Hsw.
      assert (Hx : xs_of F g (snd rs) = xs_of F u0 (snd rs)).
      { apply xs_of_ext. intros e He z Hz. apply (Hg rs e z Hrs He Hz). }
      rewrite Hx in Hsw.
      set (s := snd (reduce_spec F minf pinf ofnat p (xs_of F u0 (snd rs)))) in *.
      set (g1 := fwd_sweep O (r_tape (reduce_run F minf pinf ofnat tt p (snd rs))) g) in *.
      set (g2 := upd (upd g tt s) (fst rs) s).
      assert (H2 : forall j, fwd_sweep O [mkStmt (fst rs) [(o1 O, tt)]] g1 j = g2 j).
      { intros j. cbn [fwd_sweep fold_left]. unfold fwd1. cbn [lhs rhs]. unfold g2.
        apply upd_pt; [exact Hsw|].
        rewrite (rhs_val_cons O Rth), (rhs_val_nil O). cbn [fst snd]. unfold g1. rewrite Hsw. unfold upd. rewrite Nat.eqb_refl. fold O. ring. }
      etransitivity; [apply fwd_sweep_ext; exact H2|].
      apply IH; [intros rs' H'; apply Hin; right; exact H'|].
      intros rs' e z Hin' He Hz. unfold g2, upd.
      assert (N1 : Z.to_nat z <> fst rs).
      { pose proof (Hres rs rs' Hrs Hin') as Hf. rewrite Forall_forall in Hf. specialize (Hf e He). unfold fresh in Hf. rewrite Forall_forall in Hf. apply Hf. exact Hz. }
      assert (N2 : Z.to_nat z <> tt).
      { pose proof (Htt rs' Hin') as Hf. rewrite Forall_forall in Hf. specialize (Hf e He). unfold fresh in Hf. rewrite Forall_forall in Hf. apply Hf. exact Hz. }
      destruct (Nat.eqb_spec (Z.to_nat z) (fst rs)); [contradiction|]. destruct (Nat.eqb_spec (Z.to_nat z) tt); [contradiction|].
      apply (Hg rs' e z Hin' He Hz). }
    intros i. apply G; [intros rs H; exact H|]. intros; reflexivity.
  - unfold reduce_dim_values. apply map_ext_in. intros rs Hrs. f_equal.
    pose proof (reduce_run_correct F minf pinf ofnat Rth Hdiv Hlit1 tt u0 p (snd rs) Hwf (Htt rs Hrs)) as (Hv & _ & _). exact Hv.
Qed.
End Dim.

(* ---- the operations pushed inside the element loop fit the reservation (n_active + extra_element_cost) * n *)
Section Count.
Context {T : Type} (F : FOps T).
Variables (minf pinf : T).
Lemma vgw_length (e : expr (T:=T)) mk : (Z.of_nat (length (snd (vgw F e mk))) <= n_active e)%Z.
Proof.
  unfold vgw. destruct (value_store F (arrays_of e) e 0 0 (fun _ => o0 (fbase F))) as [v scr]. cbn [snd]. apply pushes_le_n_active.
Qed.
Lemma n_active_nonneg (e : expr (T:=T)) : (0 <= n_active e)%Z.
Proof. induction e as [gi v|act gi v|v|f a IH|k l IHl r IHr]; cbn [n_active]; try destruct act; lia. Qed.
Lemma conv_length (ops : list (T * Z)) : length (conv_ops ops) = length ops.
Proof. unfold conv_ops. apply map_length. Qed.
Lemma op_count_close t (st : rstate (T:=T)) v extra : op_count (close t st v extra) = (op_count st + length extra)%nat.
Proof. unfold op_count, close. cbn [r_tape r_pending]. rewrite map_app, concat_app. cbn [map concat rhs]. rewrite ?app_nil_r, !app_length. cbn [length]. lia. Qed.
Lemma step_count t a (st : rstate (T:=T)) e :
  (Z.of_nat (op_count (racc_step F t a st e)) <= Z.of_nat (op_count st) + n_active e + acc_extra a)%Z.
Proof.
  destruct a as [| |c|n d]; cbn [racc_step acc_extra].
  - pose proof (vgw_length e (fun _ => None)) as H. destruct (vgw F e (fun _ => None)) as [v ops]. cbn [snd] in H.
    unfold op_count. cbn [r_tape r_pending]. rewrite app_length, conv_length. lia.
  - match goal with |- context [vgw F e ?m] => set (mk := m) end.
    pose proof (vgw_length e mk) as H. destruct (vgw F e mk) as [v ops]. cbn [snd] in H. unfold assign_expr.
    match goal with |- context [value_and_gradient F ?x] => set (ex := x) end.
    assert (H2 : (Z.of_nat (length (snd (value_and_gradient F ex))) <= 1)%Z).
    { unfold value_and_gradient. destruct (value_store F (arrays_of ex) ex 0 0 (fun _ => o0 (fbase F))) as [v2 scr]. cbn [snd].
      etransitivity; [apply pushes_le_n_active|]. subst ex. unfold total_leaf. cbn [n_active]. lia. }
    destruct (value_and_gradient F ex) as [v2 ops2]. cbn [snd] in H2.
    rewrite op_count_close, conv_length. unfold op_count. cbn [r_tape r_pending]. rewrite app_length, conv_length. lia.
  - destruct (cmp_eval F c _ _); [|pose proof (n_active_nonneg e); lia].
    pose proof (vgw_length e (fun _ => None)) as H. destruct (vgw F e (fun _ => None)) as [v ops]. cbn [snd] in H.
    rewrite op_count_close. unfold op_count. cbn [r_tape r_pending length]. rewrite app_length, conv_length. lia.
  - match goal with |- context [vgw F e ?m] => set (mk := m) end.
    pose proof (vgw_length e mk) as H. destruct (vgw F e mk) as [v ops]. cbn [snd] in H.
    unfold op_count. cbn [r_tape r_pending]. rewrite app_length, conv_length. lia.
Qed.
Theorem loop_within_reservation t p es na : (acc_extra (rp_acc p) <= rp_extra p)%Z -> Forall (fun e : expr (T:=T) => (n_active e <= na)%Z) es ->
  (Z.of_nat (ops_in_loop F minf pinf t p es) <= reduce_reservation na (rp_extra p) (Z.of_nat (length es)))%Z.
Proof.
  intros Hx Hna. unfold ops_in_loop, reduce_reservation.
  set (st0 := mkR (first_of F minf pinf (rp_first p)) [mkStmt t []] []).
  assert (H0 : op_count st0 = 0%nat) by reflexivity.
  assert (G : forall st, (Z.of_nat (op_count (fold_left (racc_step F t (rp_acc p)) es st)) <= Z.of_nat (op_count st) + (na + rp_extra p) * Z.of_nat (length es))%Z).
  { induction Hna as [|e es He _ IH]; intros st; [cbn [fold_left length]; lia|].
    cbn [fold_left]. etransitivity; [apply IH|]. pose proof (step_count t (rp_acc p) st e). cbn [length]. nia. }
  specialize (G st0). rewrite H0 in G. cbn [Z.of_nat] in G. lia.
Qed.
End Count.

(* the generated policies are well formed *)
Lemma generated_policies_wf : forall k, policy_wf (reduce_policy k) = true.
Proof. destruct k; reflexivity. Qed.
Lemma generated_extra_cost : forall k, (acc_extra (rp_acc (reduce_policy k)) <= rp_extra (reduce_policy k))%Z.
Proof. destruct k; vm_compute; discriminate. Qed.
