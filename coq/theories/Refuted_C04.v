(* Known finding (compound assignment with a shifted overlap), machine-checked on the faithful model:
   v(1:3) += v(0:2) with v = 1..5 must give 1 3 5 7 5; the library (and the model) give 1 3 6 10 5 because
   "a op= b" is evaluated as a = noalias(a op b) and never copied through a temporary. *)
From Coq Require Import ZArith List.
From Adept Require Import View Assign.
Import ListNotations.
Local Open Scope Z_scope.
Example C04_compound_overlap_refuted :
  let v b := mkPV 0 (mkView b [3] [1]) in
  let m0 : mem := fun _ a => a + 1 in
  map (fun a => assign_op BAdd (v 1) (ELeaf (v 0)) m0 0%nat a) [0;1;2;3;4] = [1; 3; 6; 10; 5] /\
  map (fun a => assign_op_spec BAdd (v 1) (ELeaf (v 0)) m0 0%nat a) [0;1;2;3;4] = [1; 3; 5; 7; 5].
Proof. vm_compute. split; reflexivity. Qed.
