(* Strided views of adept::Array (include/adept/Array.h section 4, RangeIndex.h).
   A view is (base offset into the parent's data, extents, strides); every view-forming member
   function is a total function on such triples, exactly as the C++ computes them (no checks in
   the default build).  [admissible] collects the conditions the documentation requires of the
   arguments; [chk_*] are the checks the ADEPT_BOUNDS_CHECKING build performs. *)
From Coq Require Import ZArith List Bool.
Import ListNotations.
Local Open Scope Z_scope.

Record view := mkView { base : Z; dims : list Z; strides : list Z }.

Fixpoint lin (idx ss : list Z) : Z :=
  match idx, ss with i :: is', s :: ss' => i * s + lin is' ss' | _, _ => 0 end.
Definition addr (v : view) (idx : list Z) : Z := base v + lin idx (strides v).

(* an integer index expression: k  or  end+k  (EndIndex resolves to len-1, RangeIndex.h:77) *)
Inductive iv := IAbs (z : Z) | IEnd (z : Z).
Definition res (len : Z) (x : iv) : Z := match x with IAbs z => z | IEnd z => len - 1 + z end.
(* one argument of operator(): scalar index, or range/stride(begin,end,stride); __ = IR (IAbs 0) (IEnd 0) 1 *)
Inductive ix := IS (i : iv) | IR (b e : iv) (s : Z).
Definition all_ix : ix := IR (IAbs 0) (IEnd 0) 1.

(* Array::operator()(i0,...,ik) through update_index (Array.h:1049-1071): scalar -> offset only,
   range -> new extent (end+stride-begin)/stride with C++ truncating division, new stride s*offset *)
Fixpoint slice_go (l : list ix) (ds ss : list Z) (b : Z) : Z * list Z * list Z :=
  match l, ds, ss with
  | IS i :: l', d :: ds', s :: ss' => slice_go l' ds' ss' (b + res d i * s)
  | IR bb ee st :: l', d :: ds', s :: ss' =>
      let '(b', nd, ns) := slice_go l' ds' ss' (b + res d bb * s) in
      (b', Z.quot (res d ee + st - res d bb) st :: nd, st * s :: ns)
  | _, _, _ => (b, [], [])
  end.
Definition slice (v : view) (l : list ix) : view :=
  let '(b, nd, ns) := slice_go l (dims v) (strides v) (base v) in mkView b nd ns.

(* the parent multi-index denoted by index j of the sliced view *)
Fixpoint den_slice (l : list ix) (ds : list Z) (j : list Z) : list Z :=
  match l, ds with
  | IS i :: l', d :: ds' => res d i :: den_slice l' ds' j
  | IR bb ee st :: l', d :: ds' =>
      match j with
      | jj :: j' => res d bb + st * jj :: den_slice l' ds' j'
      | [] => res d bb :: den_slice l' ds' []
      end
  | _, _ => []
  end.

(* admissibility of one argument against an extent d: indices inside 0..d-1, stride non-zero and
   pointing from begin towards end *)
Definition adm_ix (d : Z) (x : ix) : bool :=
  match x with
  | IS i => (0 <=? res d i) && (res d i <? d)
  | IR bb ee st =>
      (0 <=? res d bb) && (res d bb <? d) && (0 <=? res d ee) && (res d ee <? d) &&
      (((0 <? st) && (res d bb <=? res d ee)) || ((st <? 0) && (res d ee <=? res d bb)))
  end.
Fixpoint adm_slice (l : list ix) (ds : list Z) : bool :=
  match l, ds with
  | x :: l', d :: ds' => adm_ix d x && adm_slice l' ds'
  | [], [] => true
  | _, _ => false
  end.
(* what ADEPT_BOUNDS_CHECKING tests (get_index_with_len on scalar indices and on both range
   end-points, RangeIndex.h:109-133, 247-250); the stride is not tested *)
Definition chk_ix (d : Z) (x : ix) : bool :=
  match x with
  | IS i => (0 <=? res d i) && (res d i <? d)
  | IR bb ee st => (0 <=? res d bb) && (res d bb <? d) && (0 <=? res d ee) && (res d ee <? d)
  end.
Fixpoint chk_slice (l : list ix) (ds : list Z) : bool :=
  match l, ds with
  | x :: l', d :: ds' => chk_ix d x && chk_slice l' ds'
  | _, _ => true
  end.
Definition slice_checked (v : view) (l : list ix) : option view :=
  if chk_slice l (dims v) then Some (slice v l) else None.   (* None = index_out_of_bounds *)

(* ---- the other view-forming members ---- *)
(* operator[](i) on rank > 1 (Array.h:1474-1510): slice dimension 0 *)
Definition index0 (v : view) (i : iv) : view :=
  match dims v, strides v with
  | d :: ds, s :: ss => mkView (base v + res d i * s) ds ss
  | _, _ => v
  end.
(* T() of a matrix (in_place_transpose): swap the two dimensions *)
Definition transpose (v : view) : view :=
  match dims v, strides v with
  | [d0; d1], [s0; s1] => mkView (base v) [d1; d0] [s1; s0]
  | _, _ => v
  end.
(* permute(idim) (Array.h:2402-2426): new dimension i is old dimension idim[i] *)
Definition permute (v : view) (p : list nat) : view :=
  mkView (base v) (map (fun k => nth k (dims v) 0) p) (map (fun k => nth k (strides v) 0) p).
(* diag_vector(offdiag) of a square matrix (Array.h:1516-1539) *)
Definition diag_vector (v : view) (k : Z) : view :=
  match dims v, strides v with
  | [d0; d1], [s0; s1] =>
      if 0 <=? k then mkView (base v + s1 * k) [Z.min d0 (d1 - k)] [s0 + s1]
      else mkView (base v - s0 * k) [Z.min (d0 + k) d1] [s0 + s1]
  | _, _ => v
  end.
(* submatrix_on_diagonal(ibegin,iend) (Array.h:1541-1560) *)
Definition submatrix_on_diagonal (v : view) (ib ie : Z) : view :=
  match dims v, strides v with
  | [d0; d1], [s0; s1] => mkView (base v + ib * (s0 + s1)) [ie - ib + 1; ie - ib + 1] [s0; s1]
  | _, _ => v
  end.
(* reshape(dims) of a vector (Array.h:2449-2465): last new dimension fastest *)
Fixpoint reshape_strides (nd : list Z) (s0 : Z) : list Z :=
  match nd with
  | [] => []
  | [d] => [s0]
  | d :: (d' :: _) as rest =>
      match reshape_strides rest s0 with
      | s' :: ss => d' * s' :: s' :: ss
      | [] => []
      end
  end.
Definition reshape (v : view) (nd : list Z) : view :=
  match strides v with
  | [s0] => mkView (base v) nd (reshape_strides nd s0)
  | _ => v
  end.
(* soft_link(): same triple, no storage pointer *)
Definition soft_link (v : view) : view := v.

(* packed row-major parent of given extents (what resize() creates without row padding) *)
Fixpoint packed_strides (ds : list Z) : list Z :=
  match ds with
  | [] => []
  | d :: rest => fold_right Z.mul 1 rest :: packed_strides rest
  end.
Definition parent (ds : list Z) : view := mkView 0 ds (packed_strides ds).

(* in-bounds multi-indices *)
Fixpoint inb (ds idx : list Z) : Prop :=
  match ds, idx with
  | d :: ds', i :: idx' => 0 <= i < d /\ inb ds' idx'
  | [], [] => True
  | _, _ => False
  end.

(* ---- a small language of view-forming operations, for compositions ---- *)
Inductive vop :=
| OSlice (l : list ix) | OIndex0 (i : iv) | OTranspose | OPermute (p : list nat)
| ODiag (k : Z) | OSubDiag (ib ie : Z) | OReshape (nd : list Z) | OSoftLink.
Definition apply_op (v : view) (o : vop) : view :=
  match o with
  | OSlice l => slice v l | OIndex0 i => index0 v i | OTranspose => transpose v
  | OPermute p => permute v p | ODiag k => diag_vector v k | OSubDiag ib ie => submatrix_on_diagonal v ib ie
  | OReshape nd => reshape v nd | OSoftLink => soft_link v
  end.
Definition apply_ops (v : view) (os : list vop) : view := fold_left apply_op os v.

(* linear index of a reshaped vector *)
Fixpoint lin_packed (nd j : list Z) : Z :=
  match nd, j with
  | d :: rest, i :: j' => i * fold_right Z.mul 1 rest + lin_packed rest j'
  | _, _ => 0
  end.
Fixpoint index_of (k : nat) (p : list nat) : nat :=
  match p with [] => O | h :: t => if Nat.eqb h k then O else S (index_of k t) end.
(* parent multi-index denoted by index j of the derived view *)
Definition den_op (v : view) (o : vop) (j : list Z) : list Z :=
  match o with
  | OSlice l => den_slice l (dims v) j
  | OIndex0 i => match dims v with d :: _ => res d i :: j | [] => j end
  | OTranspose => match j with [a; b] => [b; a] | _ => j end
  | OPermute p =>  (* old dimension k = p[i] receives j[i] *)
      map (fun k => nth (index_of k p) j 0) (seq 0 (length (dims v)))
  | ODiag k => match j with [a] => if 0 <=? k then [a; a + k] else [a - k; a] | _ => j end
  | OSubDiag ib ie => match j with [a; b] => [a + ib; b + ib] | _ => j end
  | OReshape nd => [lin_packed nd j]
  | OSoftLink => j
  end.
(* admissible arguments (the documented preconditions) *)
Definition adm_op (v : view) (o : vop) : bool :=
  match o with
  | OSlice l => adm_slice l (dims v)
  | OIndex0 i => match dims v with d :: _ :: _ => (0 <=? res d i) && (res d i <? d) | _ => false end
  | OTranspose => match dims v with [_; _] => true | _ => false end
  | OPermute p => (Nat.eqb (length p) (length (dims v))) &&
                  forallb (fun k => Nat.ltb k (length (dims v))) p &&
                  (Nat.eqb (length (nodup Nat.eq_dec p)) (length p))
  | ODiag k => match dims v with [d0; d1] => (d0 =? d1) && (- d0 <? k) && (k <? d0) | _ => false end
  | OSubDiag ib ie => match dims v with [d0; d1] => (d0 =? d1) && (0 <=? ib) && (ib <=? ie) && (ie <? d0) | _ => false end
  | OReshape nd => match dims v with [d] => (fold_right Z.mul 1 nd =? d) && forallb (fun x => 0 <? x) nd && negb (Nat.eqb (length nd) 0) | _ => false end
  | OSoftLink => true
  end.

(* compositions *)
Fixpoint adm_ops (v : view) (os : list vop) : bool :=
  match os with [] => true | o :: os' => adm_op v o && adm_ops (apply_op v o) os' end.
Fixpoint den_ops (v : view) (os : list vop) (j : list Z) : list Z :=
  match os with [] => j | o :: os' => den_op v o (den_ops (apply_op v o) os' j) end.
