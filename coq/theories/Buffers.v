(* Recording buffers of adept::internal::StackStorageOrig (include/adept/StackStorageOrig.h,
   adept/StackStorageOrig.cpp) and Stack::preallocate_* (Stack.h:726-736): capacities, the
   unchecked pushes and the self-growing pushes.  An event is one call made by recording code.
   Payloads are abstract ids, so that "what was recorded" can be compared between capacities. *)
From Coq Require Import ZArith List Bool.
Import ListNotations.
Local Open Scope Z_scope.

Record buf := mkBuf {
  n_ops : Z; cap_ops : Z;            (* n_operations_, n_allocated_operations_ *)
  n_st : Z;  cap_st : Z;             (* n_statements_, n_allocated_statements_ *)
  ops_rec : list Z;                  (* payload ids of recorded operations, oldest first *)
  st_rec : list (Z * Z)              (* (payload id, end_plus_one) of recorded statements *)
}.

Inductive ev :=
| ECheck (n : Z)                     (* check_space(n) / check_space_static<n>() *)
| EPush (id : Z)                     (* push_rhs: no capacity test *)
| EPushIdx (num stride : Z) (id : Z) (* push_rhs_indices<Num,Stride>: no capacity test *)
| ELhs (id : Z)                      (* push_lhs: grows when full *)
| ELhsRange (n : Z) (id : Z)         (* push_lhs_range(first,n,stride): grows when short *)
| EPreOps (n : Z) | EPreSt (n : Z).  (* preallocate_operations / preallocate_statements *)

(* grow_operation_stack(min) / grow_statement_stack(min): StackStorageOrig.cpp:40-82 *)
Definition grow (cap min : Z) : Z :=
  let ns := 2 * cap in if (0 <? min) && (ns <? cap + min) then ns + min else ns.

Fixpoint range_ids (n : nat) (id e : Z) : list (Z * Z) :=
  match n with O => [] | S k => (id, e) :: range_ids k (id + 1) e end.

(* one event; the boolean is "attempted store at or beyond capacity" (the store is then skipped,
   exactly as the guarded hook in StackStorageOrig.h does) *)
Definition bstep (b : buf) (e : ev) : buf * bool :=
  match e with
  | ECheck n =>
      if cap_ops b <? n_ops b + n + 1
      then (mkBuf (n_ops b) (grow (cap_ops b) n) (n_st b) (cap_st b) (ops_rec b) (st_rec b), false)
      else (b, false)
  | EPush id =>
      if cap_ops b <=? n_ops b then (b, true)
      else (mkBuf (n_ops b + 1) (cap_ops b) (n_st b) (cap_st b) (ops_rec b ++ [id]) (st_rec b), false)
  | EPushIdx num stride id =>
      if cap_ops b <=? n_ops b + (num - 1) * stride then (b, true)
      else (mkBuf (n_ops b + 1) (cap_ops b) (n_st b) (cap_st b) (ops_rec b ++ [id]) (st_rec b), false)
  | ELhs id =>
      let c := if cap_st b <=? n_st b then grow (cap_st b) 0 else cap_st b in
      if c <=? n_st b then (mkBuf (n_ops b) (cap_ops b) (n_st b) c (ops_rec b) (st_rec b), true)
      else (mkBuf (n_ops b) (cap_ops b) (n_st b + 1) c (ops_rec b) (st_rec b ++ [(id, n_ops b)]), false)
  | ELhsRange n id =>
      let c := if cap_st b <? n_st b + n then grow (cap_st b) n else cap_st b in
      if c <? n_st b + n then (mkBuf (n_ops b) (cap_ops b) (n_st b) c (ops_rec b) (st_rec b), true)
      else (mkBuf (n_ops b) (cap_ops b) (n_st b + n) c (ops_rec b)
                  (st_rec b ++ range_ids (Z.to_nat n) id (n_ops b)), false)
  | EPreOps n =>
      if cap_ops b <? n_ops b + n + 1
      then (mkBuf (n_ops b) (grow (cap_ops b) n) (n_st b) (cap_st b) (ops_rec b) (st_rec b), false)
      else (b, false)
  | EPreSt n =>
      if cap_st b <=? n_st b + n + 1
      then (mkBuf (n_ops b) (cap_ops b) (n_st b) (grow (cap_st b) n) (ops_rec b) (st_rec b), false)
      else (b, false)
  end.

(* brun a trace; count violations *)
Fixpoint brun (b : buf) (tr : list ev) : buf * Z :=
  match tr with
  | [] => (b, 0)
  | e :: t => let '(b', v) := bstep b e in let '(b'', k) := brun b' t in (b'', (if v then 1 else 0) + k)
  end.

(* Stack constructor: initialize(k) then new_recording() = clear_stack; push_lhs(-1) *)
Definition binit (k : Z) : buf := fst (bstep (mkBuf 0 k 0 k [] []) (ELhs (-1))).

(* credit discipline of recording code: a reservation of n allows n unchecked pushes *)
Fixpoint safe (c : Z) (tr : list ev) : bool :=
  match tr with
  | [] => true
  | ECheck n :: t => safe (Z.max c n) t
  | EPreOps n :: t => safe (Z.max c n) t
  | EPush _ :: t => (1 <=? c) && safe (c - 1) t
  | EPushIdx num stride _ :: t => (1 <=? num) && (1 <=? stride) && ((num - 1) * stride + 1 <=? c) && safe (c - 1) t
  | ELhsRange n _ :: t => (0 <=? n) && safe c t
  | _ :: t => safe c t
  end.

(* a recording site: reserve R, then P unchecked pushes and one push_lhs *)
Definition site_trace (R : Z) (P : nat) : list ev := ECheck R :: map EPush (map Z.of_nat (seq 0 P)) ++ [ELhs 0].
