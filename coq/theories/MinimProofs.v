(* C18 / C19: what the Levenberg / Levenberg-Marquardt drivers guarantee for EVERY cost function, gradient, Hessian, linear
   solver and norm (they are Section variables without hypotheses), every starting point, every box and every setting.
   The only facts used about the scalar type are that <= is a total pre-order and that a < b is the negation of b <= a;
   they hold for the reals and for IEEE doubles without NaN, so the theorems are not about exact arithmetic only. *)
From Coq Require Import List Bool ZArith Lia.
From Adept Require Import Scalar Minim.
Import ListNotations.
Local Open Scope Z_scope.

Section MinimProofs.
Context {T : Type} (O : Ops T).
Variable cost : list T -> T.
Variable grad : list T -> list T.
Variable hess : list T -> list (list T).
Variable solve : list (list T) -> list T -> list T.
Variable norm2 : list T -> T.
Variable isfinite : T -> bool.
Variable ofnat : nat -> T.
Hypothesis le_total : forall a b, oleb O a b = true \/ oleb O b a = true.
Hypothesis le_trans : forall a b c, oleb O a b = true -> oleb O b c = true -> oleb O a c = true.
Hypothesis lt_le : forall a b, oltb O a b = negb (oleb O b a).
(* shapes: the user's gradient has the size of the state, the solver returns a vector of the size of its right-hand side *)
Hypothesis grad_len : forall x, length (grad x) = length x.
Hypothesis solve_len : forall m g, length (solve m g) = length g.

Notation clamp1 := (clamp1 O).
Notation clamp := (clamp O).
Notation d0 := (o0 O).

Lemma le_refl a : oleb O a a = true.
Proof. destruct (le_total a a); assumption. Qed.
Lemma lt_false a b : oltb O a b = false -> oleb O b a = true.
Proof. rewrite lt_le. destruct (oleb O b a); [reflexivity|discriminate]. Qed.
Lemma lt_true a b : oltb O a b = true -> oleb O a b = true /\ oleb O b a = false.
Proof. rewrite lt_le. destruct (oleb O b a) eqn:E; [discriminate|]. intros _. split; [|reflexivity]. destruct (le_total a b) as [H|H]; [exact H|congruence]. Qed.

(* ---- the clamp *)
Lemma clamp1_in l h v : oleb O l h = true -> oleb O l (clamp1 l h v) = true /\ oleb O (clamp1 l h v) h = true.
Proof.
  intros Hlh. unfold Minim.clamp1, omax, omin.
  destruct (oltb O h v) eqn:E1.
  - destruct (oltb O l h) eqn:E2; [split; [exact Hlh|apply le_refl]|split; [apply le_refl|exact Hlh]].
  - apply lt_false in E1. destruct (oltb O l v) eqn:E2.
    + apply lt_true in E2. split; [apply E2|exact E1].
    + split; [apply le_refl|exact Hlh].
Qed.
Lemma clamp1_low l h v : oleb O l h = true -> oleb O v l = true -> oleb O (clamp1 l h v) l = true.
Proof.
  intros Hlh Hv. unfold Minim.clamp1, omax, omin.
  destruct (oltb O h v) eqn:E1.
  - apply lt_true in E1. destruct E1 as [_ E1]. rewrite (le_trans _ _ _ Hv Hlh) in E1. discriminate.
  - destruct (oltb O l v) eqn:E2; [apply lt_true in E2; destruct E2 as [_ E2]; congruence|apply le_refl].
Qed.
Lemma clamp1_high l h v : oleb O l h = true -> oleb O h v = true -> oleb O h (clamp1 l h v) = true.
Proof.
  intros Hlh Hv. unfold Minim.clamp1, omax, omin.
  destruct (oltb O h v) eqn:E1.
  - destruct (oltb O l h) eqn:E2; [apply le_refl|apply lt_false in E2; exact E2].
  - destruct (oltb O l v) eqn:E2; [exact Hv|]. apply lt_false in E2. apply (le_trans _ _ _ Hv E2).
Qed.

(* ---- lists *)
Lemma map2_length {A B C} (f : A -> B -> C) a b : length a = length b -> length (map2 f a b) = length a.
Proof. revert b. induction a as [|x a IH]; intros [|y b] H; cbn in *; try reflexivity; try discriminate. f_equal. apply IH. lia. Qed.
Lemma map3_length {A B C D} (f : A -> B -> C -> D) a b c : length a = length b -> length b = length c -> length (map3 f a b c) = length a.
Proof. revert b c. induction a as [|x a IH]; intros [|y b] [|z c] H1 H2; cbn in *; try reflexivity; try discriminate. f_equal. apply IH; lia. Qed.
Lemma map4_length {A B C D E} (f : A -> B -> C -> D -> E) a b c d : length a = length b -> length b = length c -> length c = length d -> length (map4 f a b c d) = length a.
Proof. revert b c d. induction a as [|x a IH]; intros [|y b] [|z c] [|w d] H1 H2 H3; cbn in *; try reflexivity; try discriminate. f_equal. apply IH; lia. Qed.
Lemma nth_map2 {A B C} (f : A -> B -> C) a b j da db dc : length a = length b -> (j < length a)%nat -> nth j (map2 f a b) dc = f (nth j a da) (nth j b db).
Proof. revert b j. induction a as [|x a IH]; intros [|y b] j H Hj; cbn in *; try lia. destruct j as [|j]; [reflexivity|]. apply IH; lia. Qed.
Lemma nth_map3 {A B C D} (f : A -> B -> C -> D) a b c j da db dc dd : length a = length b -> length b = length c -> (j < length a)%nat ->
  nth j (map3 f a b c) dd = f (nth j a da) (nth j b db) (nth j c dc).
Proof. revert b c j. induction a as [|x a IH]; intros [|y b] [|z c] j H1 H2 Hj; cbn in *; try lia. destruct j as [|j]; [reflexivity|]. apply IH; lia. Qed.
Lemma nth_map4 {A B C D E} (f : A -> B -> C -> D -> E) a b c d j da db dc dd de : length a = length b -> length b = length c -> length c = length d -> (j < length a)%nat ->
  nth j (map4 f a b c d) de = f (nth j a da) (nth j b db) (nth j c dc) (nth j d dd).
Proof. revert b c d j. induction a as [|x a IH]; intros [|y b] [|z c] [|w d] j H1 H2 H3 Hj; cbn in *; try lia. destruct j as [|j]; [reflexivity|]. apply IH; lia. Qed.
Lemma set_nth_length {A} i (a : A) v : length (set_nth i a v) = length v.
Proof. revert i. induction v as [|x v IH]; intros [|i]; cbn; try reflexivity. f_equal. apply IH. Qed.
Lemma nth_set_nth_eq {A} i (a : A) v d : (i < length v)%nat -> nth i (set_nth i a v) d = a.
Proof. revert i. induction v as [|x v IH]; intros [|i] H; cbn in *; try lia; [reflexivity|]. apply IH. lia. Qed.
Lemma nth_set_nth_neq {A} i j (a : A) v d : i <> j -> nth j (set_nth i a v) d = nth j v d.
Proof. revert i j. induction v as [|x v IH]; intros [|i] [|j] H; cbn; try reflexivity; try congruence. apply IH. congruence. Qed.
Lemma scatter_add_length idx d v : length (scatter_add O idx d v) = length v.
Proof. revert d v. induction idx as [|i idx IH]; intros [|di d] v; cbn; try reflexivity. rewrite IH. apply set_nth_length. Qed.
Lemma nth_scatter_add_notin idx d v j dflt : ~ In j idx -> nth j (scatter_add O idx d v) dflt = nth j v dflt.
Proof.
  revert d v. induction idx as [|i idx IH]; intros [|di d] v H; cbn; try reflexivity.
  rewrite IH by (intros H'; apply H; right; exact H'). apply nth_set_nth_neq. intros ->. apply H. left. reflexivity.
Qed.
Lemma in_find_from {A} (p : A -> bool) k v j d : In j (find_from p k v) -> (k <= j < k + length v)%nat /\ p (nth (j - k) v d) = true.
Proof.
  revert k. induction v as [|x v IH]; intros k H; cbn in *; [contradiction|].
  destruct (p x) eqn:E.
  - destruct H as [<-|H]; [split; [lia|]; replace (k - k)%nat with 0%nat by lia; exact E|].
    apply IH in H. destruct H as [H1 H2]. split; [lia|]. replace (j - k)%nat with (S (j - S k)) by lia. exact H2.
  - apply IH in H. destruct H as [H1 H2]. split; [lia|]. replace (j - k)%nat with (S (j - S k)) by lia. exact H2.
Qed.
Lemma in_find {A} (p : A -> bool) v j d : In j (find p v) -> (j < length v)%nat /\ p (nth j v d) = true.
Proof. intros H. apply (in_find_from p 0%nat v j d) in H. replace (j - 0)%nat with j in H by lia. destruct H as [H1 H2]. split; [lia|exact H2]. Qed.

(* ---- the box *)
Definition within (lo hi x : list T) : Prop :=
  length x = length lo /\ forall j, (j < length x)%nat -> oleb O (nth j lo d0) (nth j x d0) = true /\ oleb O (nth j x d0) (nth j hi d0) = true.
Definition box_ok (lo hi : list T) : Prop := length lo = length hi /\ forall j, (j < length lo)%nat -> oleb O (nth j lo d0) (nth j hi d0) = true.
Definition log_ok (lo hi : list T) (l : list (event (T:=T))) : Prop := Forall (fun e => within lo hi (ev_state e)) l.
(* a flagged variable is at the bound it is flagged for (with feasibility: on it) *)
Definition pinned_ok (lo hi x : list T) (bs : list Z) : Prop :=
  length bs = length x /\ forall j, (j < length x)%nat -> (nth j bs 0 = -1 -> oleb O (nth j x d0) (nth j lo d0) = true) /\ (nth j bs 0 = 1 -> oleb O (nth j hi d0) (nth j x d0) = true).

Lemma clamp_within lo hi x : box_ok lo hi -> length x = length lo -> within lo hi (clamp lo hi x).
Proof.
  intros [Hl Hb] Hx. unfold Minim.clamp. split; [rewrite map3_length; lia|].
  intros j Hj. rewrite map3_length in Hj by lia.
  rewrite (nth_map3 _ lo hi x j d0 d0 d0 d0) by lia. apply clamp1_in. apply Hb. exact Hj.
Qed.
Lemma set_nth_within lo hi x i v : within lo hi x -> ((i < length x)%nat -> oleb O (nth i lo d0) v = true /\ oleb O v (nth i hi d0) = true) -> within lo hi (set_nth i v x).
Proof.
  intros [Hl Hw] Hv. split; [rewrite set_nth_length; exact Hl|].
  intros j Hj. rewrite set_nth_length in Hj. destruct (Nat.eq_dec i j) as [->|Hne].
  - rewrite nth_set_nth_eq by exact Hj. apply Hv. exact Hj.
  - rewrite nth_set_nth_neq by exact Hne. apply Hw. exact Hj.
Qed.
Lemma log_ok_app lo hi a b : log_ok lo hi a -> log_ok lo hi b -> log_ok lo hi (a ++ b).
Proof. intros Ha Hb. apply Forall_app. split; assumption. Qed.

(* ================= the inner loop of the bounded version ================= *)
Notation lmb_inner := (lmb_inner O cost solve isfinite).
Definition inner_post (lo hi x : list T) (ifree : list nat) (cf : T) (log : list (event (T:=T))) (r : binner_res (T:=T)) : Prop :=
  match r with
  | BAccept nx nc d smp bt ib lg =>
      within lo hi nx /\ nc = cost nx /\ oleb O nc cf = true /\ (exists l, lg = log ++ l /\ log_ok lo hi l)
      /\ (bt <> 0 -> (nth ib ifree 0 < length x)%nat -> nth (nth ib ifree 0%nat) nx d0 = if 0 <? bt then nth (nth ib ifree 0%nat) hi d0 else nth (nth ib ifree 0%nat) lo d0)
      /\ (forall j, (j < length x)%nat -> ~ In j ifree -> (bt = 0 \/ j <> nth ib ifree 0%nat) -> nth j nx d0 = clamp1 (nth j lo d0) (nth j hi d0) (nth j x d0))
  | BStop st d smp lg => (st = MInvalidCost \/ st = MFailedToConverge) /\ exists l, lg = log ++ l /\ log_ok lo hi l
  | BFuel => True
  end.
Lemma inner_post_extend lo hi x ifree cf log e r : within lo hi (ev_state e) -> inner_post lo hi x ifree cf (log ++ [e]) r -> inner_post lo hi x ifree cf log r.
Proof.
  intros He. destruct r as [nx nc d smp bt ib lg|st d smp lg|]; cbn; [|intros [Hst [l [-> Hl]]]; split; [exact Hst|]; exists (e :: l); split; [rewrite <- app_assoc; reflexivity|constructor; assumption]|trivial].
  intros (H1 & H2 & H3 & [l [-> Hl]] & H5 & H6). refine (conj H1 (conj H2 (conj H3 (conj _ (conj H5 H6))))).
  exists (e :: l). split; [rewrite <- app_assoc; reflexivity|constructor; assumption].
Qed.
Lemma lmb_inner_spec fuel : forall s additive lo hi x ifree sub_g sub_h ds cf damping ps pm smp log,
  box_ok lo hi -> length x = length lo -> inner_post lo hi x ifree cf log (lmb_inner fuel s additive lo hi x ifree sub_g sub_h ds cf damping ps pm smp log).
Proof.
  induction fuel as [|fuel IH]; intros s additive lo hi x ifree sub_g sub_h ds cf damping ps pm smp log Hbox Hlen; [exact I|].
  cbn [Minim.lmb_inner].
  destruct (damp_diag O additive ds damping ps pm sub_h) as [[h' ps'] pm'].
  destruct (fraction O x lo hi (limit_step O s (vneg O (solve h' sub_g))) ifree) as [[frac bt] ib].
  set (sub_dx' := if bt =? 0 then limit_step O s _ else vscale O frac _).
  set (new_x0 := clamp lo hi (scatter_add O ifree sub_dx' x)).
  set (i := nth ib ifree 0%nat).
  set (new_x := if bt =? 0 then new_x0 else set_nth i (if 0 <? bt then nth i hi d0 else nth i lo d0) new_x0).
  assert (W0 : within lo hi new_x0) by (apply clamp_within; [exact Hbox|rewrite scatter_add_length; exact Hlen]).
  assert (L0 : length new_x0 = length x) by (destruct W0 as [W0 _]; lia).
  assert (W : within lo hi new_x).
  { unfold new_x. destruct (bt =? 0); [exact W0|]. apply set_nth_within; [exact W0|]. intros Hi.
    destruct Hbox as [Hl Hb]. assert (Hi' : (i < length lo)%nat) by lia. specialize (Hb i Hi').
    destruct (0 <? bt); split; try apply le_refl; exact Hb. }
  match goal with |- inner_post _ _ _ _ _ _ (if ?c then _ else _) => destruct c eqn:Hc end.
  - destruct (raise_damping O s damping) as [d'|].
    + apply (inner_post_extend lo hi x ifree cf log (EvCost new_x)); [exact W|]. apply IH; assumption.
    + cbn. split; [destruct (negb _); [left|right]; reflexivity|]. exists [EvCost new_x]. split; [reflexivity|]. constructor; [exact W|constructor].
  - cbn. apply orb_false_iff in Hc. destruct Hc as [Hc _]. apply orb_false_iff in Hc. destruct Hc as [Hc _].
    refine (conj W (conj eq_refl (conj (lt_false _ _ Hc) (conj _ (conj _ _))))).
    + exists [EvCost new_x]. split; [reflexivity|]. constructor; [exact W|constructor].
    + intros Hbt Hi. unfold new_x. destruct (Z.eqb_spec bt 0) as [E|_]; [contradiction|]. fold i. apply nth_set_nth_eq. fold i in Hi. lia.
    + intros j Hj Hnot Hor. assert (E0 : nth j new_x0 d0 = clamp1 (nth j lo d0) (nth j hi d0) (nth j x d0)).
      { unfold new_x0, Minim.clamp. destruct Hbox as [Hl Hb].
        rewrite (nth_map3 _ lo hi _ j d0 d0 d0 d0) by (try rewrite scatter_add_length; lia). rewrite nth_scatter_add_notin by exact Hnot. reflexivity. }
      unfold new_x. destruct (Z.eqb_spec bt 0) as [E|E]; [exact E0|]. destruct Hor as [Hor|Hor]; [contradiction|]. rewrite nth_set_nth_neq by (fold i in Hor; congruence). exact E0.
Qed.

(* ================= which dimensions are in play ================= *)
Notation in_play := (in_play O solve norm2).
Notation gnorm_free := (gnorm_free O norm2).
Lemma releasable_zero g : releasable O 0 g = false.
Proof. reflexivity. Qed.
Lemma can_release_release1 bs g : can_release O (release1 O bs g) g = false.
Proof.
  unfold can_release, release1. revert g. induction bs as [|b bs IH]; intros [|gi g]; cbn; try reflexivity.
  rewrite IH. destruct (releasable O b gi) eqn:E; [rewrite releasable_zero|rewrite E]; reflexivity.
Qed.
Lemma can_release_nobound bs g : count_bound bs <= 0 -> can_release O bs g = false.
Proof.
  unfold can_release, count_bound. revert g. induction bs as [|b bs IH]; intros [|gi g] H; cbn in *; try reflexivity.
  destruct (Z.eqb_spec b 0) as [->|Hb]; cbn in H; [|lia]. rewrite IH by exact H. reflexivity.
Qed.
Lemma release_pointwise2 bs g dx j : length bs = length g -> length g = length dx -> (j < length bs)%nat ->
  nth j (release2 O bs g dx) 0 = nth j bs 0 \/ nth j (release2 O bs g dx) 0 = 0.
Proof.
  intros H1 H2 Hj. unfold release2. rewrite (nth_map3 _ bs g dx j 0 d0 d0 0) by lia.
  destruct (_ && _ && _); [right; reflexivity|]. destruct (_ && _ && _); [right|left]; reflexivity.
Qed.
Lemma release_pointwise1 bs g j : length bs = length g -> (j < length bs)%nat -> nth j (release1 O bs g) 0 = nth j bs 0 \/ nth j (release1 O bs g) 0 = 0.
Proof. intros H1 Hj. unfold release1. rewrite (nth_map2 _ bs g j 0 d0 0) by lia. destruct (releasable _ _ _); [right|left]; reflexivity. Qed.
Lemma in_play_spec s additive held bs nbound g h ds damping bs' ifree gn : length bs = length g ->
  in_play s additive held bs nbound g h ds damping = (bs', ifree, gn) ->
  ifree = find (fun b => b =? 0) bs' /\ gn = gnorm_free ifree g /\ (oleb O gn (thr s) = true -> can_release O bs' g = false)
  /\ length bs' = length bs /\ (forall j, (j < length bs)%nat -> nth j bs' 0 = nth j bs 0 \/ nth j bs' 0 = 0).
Proof.
  intros Hlen. unfold Minim.in_play.
  set (bs1 := if 0 <? nbound then _ else bs).
  assert (L1 : length bs1 = length bs).
  { unfold bs1. destruct (0 <? nbound); [|reflexivity].
    assert (Lr : forall dx, length dx = length g -> length (release2 O bs g dx) = length bs) by (intros dx Hdx; unfold release2; rewrite map3_length; [reflexivity|exact Hlen|lia]).
    destruct held; [rewrite set_nth_length|]; apply Lr; unfold vneg; rewrite map_length, solve_len; reflexivity. }
  assert (P1 : forall j, (j < length bs)%nat -> nth j bs1 0 = nth j bs 0 \/ nth j bs1 0 = 0).
  { intros j Hj. unfold bs1. destruct (0 <? nbound); [|left; reflexivity].
    assert (Hdx : length g = length (vneg O (solve (if additive then map_diag O (fun v => oadd O v (omul O damping ds)) h else map_diag O (fun v => omul O v (oadd O (o1 O) damping)) h) g)))
      by (unfold vneg; rewrite map_length, solve_len; reflexivity).
    destruct held as [i|]; [|apply release_pointwise2; [exact Hlen|exact Hdx|exact Hj]].
    destruct (Nat.eq_dec i j) as [->|Hne].
    - left. apply nth_set_nth_eq. unfold release2. rewrite map3_length; [exact Hj|exact Hlen|exact Hdx].
    - rewrite nth_set_nth_neq by exact Hne. apply release_pointwise2; [exact Hlen|exact Hdx|exact Hj]. }
  destruct ((0 <? count_bound bs1) && oleb O (gnorm_free (find (fun b => b =? 0) bs1) g) (thr s) && can_release O bs1 g) eqn:Hc; intros E; inversion E; subst; clear E.
  - refine (conj eq_refl (conj eq_refl (conj (fun _ => can_release_release1 bs1 g) (conj _ _)))).
    + unfold release1. rewrite map2_length by lia. exact L1.
    + intros j Hj. destruct (release_pointwise1 bs1 g j ltac:(lia) ltac:(lia)) as [H|H]; [rewrite H; apply P1; exact Hj|right; exact H].
  - refine (conj eq_refl (conj eq_refl (conj _ (conj L1 P1)))). intros Hs. rewrite Hs in Hc.
    destruct (0 <? count_bound bs1) eqn:Hn; cbn in Hc; [exact Hc|]. apply can_release_nobound. apply Z.ltb_ge in Hn. exact Hn.
Qed.

(* ================= the outer loop of the bounded version ================= *)
Notation lmb_outer := (lmb_outer O cost grad hess solve norm2 isfinite ofnat).
Notation refresh := (refresh cost).
Lemma refresh_spec lo hi s utd x cf lg c lg' : within lo hi x -> cf = cost x -> refresh s utd x cf lg = (c, lg') ->
  c = cost x /\ exists l, lg' = lg ++ l /\ log_ok lo hi l.
Proof.
  intros W Hcf. unfold Minim.refresh. destruct (utd <? ensure s); [destruct (0 <? ensure s)|]; intros E; inversion E; subst; split; try reflexivity.
  - exists [EvCostGradHess x]. split; [reflexivity|constructor; [exact W|constructor]].
  - exists [EvCost x]. split; [reflexivity|constructor; [exact W|constructor]].
  - exists []. split; [rewrite app_nil_r; reflexivity|constructor].
Qed.

Definition sound (s : settings (T:=T)) (lo hi : list T) (r : result (T:=T)) : Prop :=
  oleb O (gnorm_free (find (fun b => b =? 0) (r_bs r)) (r_grad r)) (thr s) = true
  /\ can_release O (r_bs r) (r_grad r) = false
  /\ pinned_ok lo hi (r_x r) (r_bs r)
  /\ r_grad r = grad (r_x r).
Definition outer_post (s : settings (T:=T)) (lo hi : list T) (it : Z) (log : list (event (T:=T))) (r : result (T:=T)) : Prop :=
  (exists l, r_log r = log ++ l /\ log_ok lo hi l)
  /\ within lo hi (r_x r)
  /\ (r_status r <> MOutOfFuel -> r_cost r = cost (r_x r) /\ oleb O (r_cost r) (r_start_cost r) = true)
  /\ (r_status r = MSuccess -> sound s lo hi r)
  /\ (it <= r_iter r /\ (it < max_it s -> r_iter r <= max_it s)).

Lemma pinned_release lo hi x bs bs' : pinned_ok lo hi x bs -> length bs' = length bs -> (forall j, (j < length bs)%nat -> nth j bs' 0 = nth j bs 0 \/ nth j bs' 0 = 0) -> pinned_ok lo hi x bs'.
Proof.
  intros [Hl Hp] Hl' Hpt. split; [lia|]. intros j Hj. destruct (Hpt j ltac:(lia)) as [E|E]; rewrite E; [apply Hp; exact Hj|split; discriminate].
Qed.

Lemma pinned_accept lo hi x bs1 ifree nx bt ib :
  box_ok lo hi -> within lo hi x -> within lo hi nx -> pinned_ok lo hi x bs1 -> ifree = find (fun b => b =? 0) bs1 ->
  (bt <> 0 -> (nth ib ifree 0 < length x)%nat -> nth (nth ib ifree 0%nat) nx d0 = if 0 <? bt then nth (nth ib ifree 0%nat) hi d0 else nth (nth ib ifree 0%nat) lo d0) ->
  (forall j, (j < length x)%nat -> ~ In j ifree -> (bt = 0 \/ j <> nth ib ifree 0%nat) -> nth j nx d0 = clamp1 (nth j lo d0) (nth j hi d0) (nth j x d0)) ->
  pinned_ok lo hi nx (flag_at_bounds O lo hi nx (if bt =? 0 then bs1 else set_nth (nth ib ifree 0%nat) bt bs1)).
Proof.
  intros [Hbl Hb] [Wl W] [Wnl Wn] [Pl P] Hifree Hsnap Hkeep.
  set (i := nth ib ifree 0%nat) in *. set (bs' := if bt =? 0 then bs1 else set_nth i bt bs1).
  assert (Lb : length bs' = length x) by (unfold bs'; destruct (bt =? 0); [|rewrite set_nth_length]; exact Pl).
  unfold flag_at_bounds. split; [rewrite map4_length; lia|].
  intros j Hj. rewrite (nth_map4 _ lo hi nx bs' j d0 d0 d0 0 0) by lia. unfold flag1.
  destruct (oleb O (nth j nx d0) (nth j lo d0)) eqn:E1; [split; [intros _; reflexivity|discriminate]|].
  destruct (oleb O (nth j hi d0) (nth j nx d0)) eqn:E2; [split; [discriminate|intros _; reflexivity]|].
  (* the old flag is kept: it must still be truthful for the new state *)
  assert (Hj' : (j < length x)%nat) by lia.
  assert (Hlh : oleb O (nth j lo d0) (nth j hi d0) = true) by (apply Hb; lia).
  destruct (Z.eqb_spec bt 0) as [Ebt|Ebt].
  - (* no snap *) unfold bs'. destruct (Z.eqb_spec bt 0); [|contradiction].
    assert (Hnot : nth j bs1 0 <> 0 -> nth j nx d0 = clamp1 (nth j lo d0) (nth j hi d0) (nth j x d0)).
    { intros Hne. apply Hkeep; [exact Hj'| |left; exact Ebt]. rewrite Hifree. intros Hin. apply (in_find _ _ _ 0) in Hin. destruct Hin as [_ Hin]. apply Z.eqb_eq in Hin. contradiction. }
    split; intros Hb1.
    + rewrite Hnot in E1 by lia. rewrite clamp1_low in E1; [discriminate|exact Hlh|apply P; assumption].
    + rewrite Hnot in E2 by lia. rewrite clamp1_high in E2; [discriminate|exact Hlh|apply P; assumption].
  - unfold bs'. destruct (Z.eqb_spec bt 0); [contradiction|].
    destruct (Nat.eq_dec i j) as [Eij|Eij].
    + subst j. rewrite nth_set_nth_eq by lia. specialize (Hsnap Ebt Hj'). split; intros Hb1; subst bt; cbn in Hsnap.
      * rewrite Hsnap, le_refl in E1. discriminate.
      * rewrite Hsnap, le_refl in E2. discriminate.
    + rewrite nth_set_nth_neq by exact Eij.
      assert (Hnot : nth j bs1 0 <> 0 -> nth j nx d0 = clamp1 (nth j lo d0) (nth j hi d0) (nth j x d0)).
      { intros Hne. apply Hkeep; [exact Hj'| |right; congruence]. rewrite Hifree. intros Hin. apply (in_find _ _ _ 0) in Hin. destruct Hin as [_ Hin]. apply Z.eqb_eq in Hin. contradiction. }
      split; intros Hb1.
      * rewrite Hnot in E1 by lia. rewrite clamp1_low in E1; [discriminate|exact Hlh|apply P; assumption].
      * rewrite Hnot in E2 by lia. rewrite clamp1_high in E2; [discriminate|exact Hlh|apply P; assumption].
Qed.

Lemma stop_post s lo hi it log x st gn bs' lg utd start1 smp l0 :
  within lo hi x -> lg = log ++ l0 -> log_ok lo hi l0 -> oleb O (cost x) start1 = true ->
  (st = MSuccess -> sound s lo hi (mkResult st x (cost x) start1 gn it smp bs' (grad x) lg)) ->
  outer_post s lo hi it log (let '(c, lg') := refresh s utd x (cost x) lg in mkResult st x c start1 gn it smp bs' (grad x) lg').
Proof.
  intros W Hlg Hl0 Hst Hsound. destruct (refresh s utd x (cost x) lg) as [c lg'] eqn:E.
  destruct (refresh_spec lo hi s utd x (cost x) lg c lg' W eq_refl E) as [-> [l [-> Hl]]].
  unfold outer_post; cbn. refine (conj _ (conj W (conj (fun _ => conj eq_refl Hst) (conj _ (conj (Z.le_refl _) (fun H => Z.lt_le_incl _ _ H)))))).
  - exists (l0 ++ l). split; [rewrite Hlg, app_assoc; reflexivity|apply log_ok_app; assumption].
  - intros E1. specialize (Hsound E1). unfold sound in *; cbn in *. exact Hsound.
Qed.

Lemma lmb_outer_spec fo : forall fi s additive lo hi x held bs nbound damping it samples start_cost gn log,
  box_ok lo hi -> within lo hi x -> pinned_ok lo hi x bs -> 0 <= it -> (it <> 0 -> oleb O (cost x) start_cost = true) ->
  outer_post s lo hi it log (lmb_outer fo fi s additive lo hi x held bs nbound damping it samples start_cost gn log).
Proof.
  induction fo as [|fo IH]; intros fi s additive lo hi x held bs nbound damping it samples start_cost gn log Hbox W P Hit Hstart.
  - cbn. unfold outer_post; cbn. refine (conj _ (conj W (conj _ (conj _ (conj (Z.le_refl _) (fun H => Z.lt_le_incl _ _ H)))))).
    + exists []. split; [rewrite app_nil_r; reflexivity|constructor].
    + intros H; contradiction H; reflexivity.
    + discriminate.
  - cbn [Minim.lmb_outer].
    set (start1 := if it =? 0 then cost x else start_cost).
    assert (Hs1 : oleb O (cost x) start1 = true) by (unfold start1; destruct (Z.eqb_spec it 0); [apply le_refl|apply Hstart; assumption]).
    assert (Wx : log_ok lo hi [EvCostGradHess x]) by (constructor; [exact W|constructor]).
    destruct (negb (isfinite (cost x))).
    { apply (stop_post s lo hi it log x MInvalidCost gn bs _ 2 start1 _ [EvCostGradHess x]); try assumption; try reflexivity. discriminate. }
    destruct (existsb (fun v => negb (isfinite v)) (grad x)).
    { apply (stop_post s lo hi it log x MInvalidGradient gn bs _ 2 start1 _ [EvCostGradHess x]); try assumption; try reflexivity. discriminate. }
    destruct (in_play s additive held bs nbound (grad x) (hess x) (mean O ofnat (diag O (hess x))) damping) as [[bs1 ifree] gn1] eqn:Hip.
    assert (Lbs : length bs = length (grad x)) by (destruct P as [Pl _]; rewrite grad_len; exact Pl).
    destruct (in_play_spec _ _ _ _ _ _ _ _ _ _ _ _ Lbs Hip) as (Hifree & Hgn & Hcan & Lbs1 & Hpt).
    assert (P1 : pinned_ok lo hi x bs1) by (apply (pinned_release lo hi x bs bs1); assumption).
    assert (Wx2 : log_ok lo hi [EvCostGradHess x; EvProgress it x (cost x) gn1]) by (constructor; [exact W|constructor; [exact W|constructor]]).
    destruct (oleb O gn1 (thr s)) eqn:Hconv.
    { apply (stop_post s lo hi it log x MSuccess gn1 bs1 _ 2 start1 _ [EvCostGradHess x; EvProgress it x (cost x) gn1]); try assumption.
      - rewrite <- app_assoc. reflexivity.
      - intros _. unfold sound; cbn [r_bs r_grad r_x]. refine (conj _ (conj (Hcan eq_refl) (conj P1 eq_refl))). rewrite Hgn, Hifree in Hconv. exact Hconv. }
    pose proof (lmb_inner_spec fi s additive lo hi x ifree (select d0 ifree (grad x)) (submatrix O ifree (hess x)) (mean O ofnat (diag O (hess x))) (cost x) damping (o1 O) d0 (samples + 1)
                  ((log ++ [EvCostGradHess x]) ++ [EvProgress it x (cost x) gn1]) Hbox (proj1 W)) as Hin.
    destruct (lmb_inner fi s additive lo hi x ifree _ _ _ (cost x) damping (o1 O) d0 (samples + 1) _) as [nx nc d smp bt ib lg|st d smp lg|].
    + (* accepted step *)
      cbn in Hin. destruct Hin as (Wn & Hnc & Hle & [l [Hlg Hl]] & Hsnap & Hkeep).
      assert (Hn1 : oleb O (cost nx) start1 = true) by (rewrite <- Hnc; apply (le_trans _ _ _ Hle Hs1)).
      destruct (zge (it + 1) (max_it s)) eqn:Hmax.
      * destruct (refresh s (-1) nx nc lg) as [c lg'] eqn:E.
        destruct (refresh_spec lo hi s (-1) nx nc lg c lg' Wn Hnc E) as [-> [l' [-> Hl']]].
        unfold outer_post; cbn. refine (conj _ (conj Wn (conj (fun _ => conj eq_refl Hn1) (conj _ (conj _ _))))).
        -- exists (([EvCostGradHess x; EvProgress it x (cost x) gn1] ++ l) ++ l'). split; [rewrite Hlg, <- !app_assoc; reflexivity|].
           apply log_ok_app; [apply log_ok_app|]; assumption.
        -- discriminate.
        -- lia.
        -- intros; lia.
      * unfold zge in Hmax. apply Z.leb_gt in Hmax.
        assert (Hrec := IH fi s additive lo hi nx (if bt =? 0 then None else Some (nth ib ifree 0%nat)) (flag_at_bounds O lo hi nx (if bt =? 0 then bs1 else set_nth (nth ib ifree 0%nat) bt bs1)) (count_bound bs1) (lower_damping O s d) (it + 1) smp start1 gn1 lg
                  Hbox Wn (pinned_accept lo hi x bs1 ifree nx bt ib Hbox W Wn P1 Hifree Hsnap Hkeep) ltac:(lia) (fun _ => Hn1)).
        destruct Hrec as ([l' [Hl1 Hl2]] & R2 & R3 & R4 & R5 & R6).
        unfold outer_post. refine (conj _ (conj R2 (conj R3 (conj R4 (conj _ _))))).
        -- exists (([EvCostGradHess x; EvProgress it x (cost x) gn1] ++ l) ++ l'). split; [rewrite Hl1, Hlg, <- !app_assoc; reflexivity|].
           apply log_ok_app; [apply log_ok_app|]; assumption.
        -- lia.
        -- intros _. apply R6. lia.
    + (* the inner loop gave up *)
      cbn in Hin. destruct Hin as [Hst [l [Hlg Hl]]].
      apply (stop_post s lo hi it log x st gn1 bs1 lg (-1) start1 smp ([EvCostGradHess x; EvProgress it x (cost x) gn1] ++ l)); try assumption.
      * rewrite Hlg, <- !app_assoc. reflexivity.
      * apply log_ok_app; assumption.
      * intros E; destruct Hst; congruence.
    + (* the inner loop ran out of fuel *)
      unfold outer_post; cbn. refine (conj _ (conj W (conj (fun _ => conj eq_refl Hs1) (conj _ (conj (Z.le_refl _) (fun H => Z.lt_le_incl _ _ H)))))).
      * exists [EvCostGradHess x; EvProgress it x (cost x) gn1]. split; [rewrite <- app_assoc; reflexivity|exact Wx2].
      * discriminate.
Qed.

Lemma lmb_inner_stop_status fuel : forall s additive lo hi x ifree sub_g sub_h ds cf damping ps pm smp log st d smp' lg,
  lmb_inner fuel s additive lo hi x ifree sub_g sub_h ds cf damping ps pm smp log = BStop st d smp' lg -> st = MInvalidCost \/ st = MFailedToConverge.
Proof.
  induction fuel as [|fuel IH]; intros s additive lo hi x ifree sub_g sub_h ds cf damping ps pm smp log st d smp' lg; [discriminate|].
  cbn [Minim.lmb_inner]. destruct (damp_diag _ _ _ _ _ _ _) as [[h' ps'] pm']. destruct (fraction _ _ _ _ _ _) as [[frac bt] ib].
  match goal with |- (if ?c then _ else _) = _ -> _ => destruct c end; [|discriminate].
  destruct (raise_damping O s damping); [apply IH|]. intros E. inversion E. destruct (negb _); [left|right]; reflexivity.
Qed.
(* the reported starting cost is the cost at the first state evaluated; with enough outer fuel the outer loop never runs out *)
Lemma lmb_outer_start fo : forall fi s additive lo hi x held bs nbound damping it samples start_cost gn log, 0 <= it ->
  r_start_cost (lmb_outer fo fi s additive lo hi x held bs nbound damping it samples start_cost gn log) = match fo with 0%nat => start_cost | S _ => if it =? 0 then cost x else start_cost end.
Proof.
  induction fo as [|fo IH]; intros fi s additive lo hi x held bs nbound damping it samples start_cost gn log Hit; [reflexivity|].
  cbn [Minim.lmb_outer]. set (start1 := if it =? 0 then cost x else start_cost).
  destruct (negb (isfinite (cost x))); [destruct (Minim.refresh _ _ _ _ _ _); reflexivity|].
  destruct (existsb _ (grad x)); [destruct (Minim.refresh _ _ _ _ _ _); reflexivity|].
  destruct (in_play _ _ _ _ _ _ _ _ _) as [[bs1 ifree] gn1].
  destruct (oleb O gn1 (thr s)); [destruct (Minim.refresh _ _ _ _ _ _); reflexivity|].
  destruct (lmb_inner _ _ _ _ _ _ _ _ _ _ _ _ _ _ _ _) as [nx nc d smp bt ib lg|st d smp lg|]; [|destruct (Minim.refresh _ _ _ _ _ _); reflexivity|reflexivity].
  destruct (zge (it + 1) (max_it s)); [destruct (Minim.refresh _ _ _ _ _ _); reflexivity|].
  rewrite IH by lia. destruct fo; [reflexivity|]. destruct (Z.eqb_spec (it + 1) 0); [lia|reflexivity].
Qed.
Lemma lmb_outer_fuel fo : forall fi s additive lo hi x held bs nbound damping it samples start_cost gn log,
  0 <= it -> it < max_it s -> (Z.to_nat (max_it s - it) <= fo)%nat -> 
  r_status (lmb_outer fo fi s additive lo hi x held bs nbound damping it samples start_cost gn log) <> MOutOfFuel.
Proof.
  induction fo as [|fo IH]; intros fi s additive lo hi x held bs nbound damping it samples start_cost gn log Hit Hmax Hfuel; [lia|].
  cbn [Minim.lmb_outer].
  destruct (negb (isfinite (cost x))); [destruct (Minim.refresh _ _ _ _ _ _); discriminate|].
  destruct (existsb _ (grad x)); [destruct (Minim.refresh _ _ _ _ _ _); discriminate|].
  destruct (in_play _ _ _ _ _ _ _ _ _) as [[bs1 ifree] gn1].
  destruct (oleb O gn1 (thr s)); [destruct (Minim.refresh _ _ _ _ _ _); discriminate|].
  destruct (lmb_inner _ _ _ _ _ _ _ _ _ _ _ _ _ _ _ _) as [nx nc d smp bt ib lg|st d smp lg|] eqn:Ein; [| |discriminate].
  - destruct (zge (it + 1) (max_it s)) eqn:Hz; [destruct (Minim.refresh _ _ _ _ _ _); discriminate|].
    unfold zge in Hz. apply Z.leb_gt in Hz. apply IH; lia.
  - destruct (Minim.refresh _ _ _ _ _ _). cbn. apply lmb_inner_stop_status in Ein. destruct Ein; congruence.
Qed.

(* ================= the bounded entry point ================= *)
Notation lm_bounded := (lm_bounded O cost grad hess solve norm2 isfinite ofnat).
Lemma valid_bounds_box lo hi x : valid_bounds O lo hi x = true -> box_ok lo hi /\ length x = length lo.
Proof.
  unfold valid_bounds. intros H. apply andb_true_iff in H. destruct H as [H H3]. apply andb_true_iff in H. destruct H as [H1 H2].
  apply Nat.eqb_eq in H2. apply Nat.eqb_eq in H3. apply negb_true_iff in H1.
  split; [|lia]. split; [lia|]. intros j Hj.
  destruct (le_total (nth j lo d0) (nth j hi d0)) as [E|E]; [exact E|].
  assert (Hex : existsb (fun p : T * T => oleb O (snd p) (fst p)) (combine lo hi) = true).
  { apply existsb_exists. exists (nth j (combine lo hi) (d0, d0)). split.
    - apply nth_In. rewrite combine_length. lia.
    - rewrite combine_nth by lia. exact E. }
  congruence.
Qed.
Lemma initial_pinned lo hi x : box_ok lo hi -> length x = length lo -> pinned_ok lo hi (clamp lo hi x) (initial_bs O lo hi x).
Proof.
  intros [Hl Hb] Hx. unfold initial_bs, flag_at_bounds, Minim.clamp.
  assert (Lc : length (map3 (Minim.clamp1 O) lo hi x) = length x) by (rewrite map3_length; lia).
  split; [rewrite map4_length; rewrite ?map_length; lia|].
  intros j Hj. rewrite Lc in Hj.
  rewrite (nth_map4 _ lo hi x (map (fun _ => 0) x) j d0 d0 d0 0 0) by (rewrite ?map_length; lia).
  rewrite (nth_map3 _ lo hi x j d0 d0 d0 d0) by lia.
  assert (Hlh : oleb O (nth j lo d0) (nth j hi d0) = true) by (apply Hb; lia).
  assert (Hz : nth j (map (fun _ : T => 0) x) 0 = 0) by (clear; revert j; induction x as [|a x IH]; intros [|j]; cbn; try reflexivity; apply IH).
  unfold flag1. rewrite Hz.
  destruct (oleb O (nth j x d0) (nth j lo d0)) eqn:E1; [split; [intros _; apply clamp1_low; assumption|discriminate]|].
  destruct (oleb O (nth j hi d0) (nth j x d0)) eqn:E2; [split; [discriminate|intros _; apply clamp1_high; assumption]|].
  split; discriminate.
Qed.
Theorem lm_bounded_spec fo fi s additive lo hi x m1 inf : valid_bounds O lo hi x = true ->
  outer_post s lo hi 0 [] (lm_bounded fo fi s additive lo hi x m1 inf).
Proof.
  intros Hv. unfold Minim.lm_bounded. rewrite Hv. cbn [negb]. destruct (valid_bounds_box lo hi x Hv) as [Hbox Hlen].
  apply lmb_outer_spec; [exact Hbox|apply clamp_within; assumption|apply initial_pinned; assumption|lia|intros H; contradiction H; reflexivity].
Qed.

(* ---- the statements used by Properties_C18.v / Properties_C19.v *)
Theorem bounded_feasible fo fi s additive lo hi x m1 inf : valid_bounds O lo hi x = true ->
  let r := lm_bounded fo fi s additive lo hi x m1 inf in
  (forall e, In e (r_log r) -> within lo hi (ev_state e)) /\ within lo hi (r_x r).
Proof.
  intros Hv r. destruct (lm_bounded_spec fo fi s additive lo hi x m1 inf Hv) as ([l [Hl1 Hl2]] & R2 & _). fold r in Hl1, R2.
  split; [|exact R2]. intros e He. rewrite Hl1 in He. cbn in He. unfold log_ok in Hl2. rewrite Forall_forall in Hl2. apply Hl2. exact He.
Qed.
Theorem bounded_reported_cost fo fi s additive lo hi x m1 inf : valid_bounds O lo hi x = true ->
  let r := lm_bounded fo fi s additive lo hi x m1 inf in
  r_status r <> MOutOfFuel -> r_cost r = cost (r_x r) /\ oleb O (r_cost r) (r_start_cost r) = true.
Proof. intros Hv r. destruct (lm_bounded_spec fo fi s additive lo hi x m1 inf Hv) as (_ & _ & R3 & _). exact R3. Qed.
Theorem bounded_start_cost fo fi s additive lo hi x m1 inf : valid_bounds O lo hi x = true ->
  r_start_cost (lm_bounded (S fo) fi s additive lo hi x m1 inf) = cost (clamp lo hi x).
Proof. intros Hv. unfold Minim.lm_bounded. rewrite Hv. cbn [negb]. rewrite lmb_outer_start by lia. reflexivity. Qed.
Theorem bounded_converged_sound fo fi s additive lo hi x m1 inf : valid_bounds O lo hi x = true ->
  let r := lm_bounded fo fi s additive lo hi x m1 inf in r_status r = MSuccess -> sound s lo hi r.
Proof. intros Hv r. destruct (lm_bounded_spec fo fi s additive lo hi x m1 inf Hv) as (_ & _ & _ & R4 & _). exact R4. Qed.
Theorem bounded_iterations fo fi s additive lo hi x m1 inf : valid_bounds O lo hi x = true -> 0 < max_it s ->
  0 <= r_iter (lm_bounded fo fi s additive lo hi x m1 inf) <= max_it s.
Proof. intros Hv Hm. destruct (lm_bounded_spec fo fi s additive lo hi x m1 inf Hv) as (_ & _ & _ & _ & R5 & R6). split; [exact R5|apply R6; exact Hm]. Qed.
Theorem bounded_outer_fuel fo fi s additive lo hi x m1 inf : valid_bounds O lo hi x = true -> 0 < max_it s -> (Z.to_nat (max_it s) <= fo)%nat ->
  r_status (lm_bounded fo fi s additive lo hi x m1 inf) <> MOutOfFuel.
Proof. intros Hv Hm Hf. unfold Minim.lm_bounded. rewrite Hv. cbn [negb]. apply lmb_outer_fuel; [lia|exact Hm|]. replace (max_it s - 0) with (max_it s) by lia. exact Hf. Qed.
Theorem bounded_invalid_bounds fo fi s additive lo hi x m1 inf : valid_bounds O lo hi x = false ->
  let r := lm_bounded fo fi s additive lo hi x m1 inf in r_status r = MInvalidBounds /\ r_log r = [] /\ r_x r = x.
Proof. intros Hv. unfold Minim.lm_bounded. rewrite Hv. cbn. repeat split. Qed.
Theorem bounded_nonfinite_cost fo fi s additive lo hi x m1 inf : valid_bounds O lo hi x = true -> isfinite (cost (clamp lo hi x)) = false ->
  let r := lm_bounded (S fo) fi s additive lo hi x m1 inf in r_status r = MInvalidCost /\ r_x r = clamp lo hi x.
Proof. intros Hv Hf. unfold Minim.lm_bounded. rewrite Hv. cbn [negb Minim.lmb_outer]. rewrite Hf. cbn [negb]. destruct (Minim.refresh _ _ _ _ _ _). split; reflexivity. Qed.
Theorem bounded_nonfinite_gradient fo fi s additive lo hi x m1 inf : valid_bounds O lo hi x = true -> isfinite (cost (clamp lo hi x)) = true ->
  existsb (fun v => negb (isfinite v)) (grad (clamp lo hi x)) = true ->
  let r := lm_bounded (S fo) fi s additive lo hi x m1 inf in r_status r = MInvalidGradient /\ r_x r = clamp lo hi x.
Proof. intros Hv Hf Hg. unfold Minim.lm_bounded. rewrite Hv. cbn [negb Minim.lmb_outer]. rewrite Hf, Hg. cbn [negb]. destruct (Minim.refresh _ _ _ _ _ _). split; reflexivity. Qed.

(* ================= the unbounded version ================= *)
Notation lm_inner := (lm_inner O cost solve isfinite).
Notation lm_outer := (lm_outer O cost grad hess solve norm2 isfinite ofnat).
Lemma lm_inner_spec fuel : forall s additive x g h ds cf damping ps pm smp log,
  match lm_inner fuel s additive x g h ds cf damping ps pm smp log with
  | IAccept nx nc d smp' lg => nc = cost nx /\ oleb O nc cf = true
  | IStop st d smp' lg => st = MInvalidCost \/ st = MFailedToConverge
  | IFuel => True end.
Proof.
  induction fuel as [|fuel IH]; intros s additive x g h ds cf damping ps pm smp log; [exact I|].
  cbn [Minim.lm_inner]. destruct (damp_diag _ _ _ _ _ _ _) as [[h' ps'] pm'].
  match goal with |- match (if ?c then _ else _) with _ => _ end => destruct c eqn:Hc end.
  - destruct (raise_damping O s damping); [apply IH|]. destruct (negb _); [left|right]; reflexivity.
  - apply orb_false_iff in Hc. destruct Hc as [Hc _]. split; [reflexivity|]. destruct (le_total (cost (vadd O x (limit_step O s (vneg O (solve h' g))))) cf) as [E|E]; [exact E|congruence].
Qed.
Definition outer_post_u (s : settings (T:=T)) (it : Z) (r : result (T:=T)) : Prop :=
  (r_status r <> MOutOfFuel -> r_cost r = cost (r_x r) /\ oleb O (r_cost r) (r_start_cost r) = true)
  /\ (r_status r = MSuccess -> oleb O (norm2 (grad (r_x r))) (thr s) = true)
  /\ (it <= r_iter r /\ (it < max_it s -> r_iter r <= max_it s)).
Lemma refresh_cost s utd x cf lg : cf = cost x -> fst (refresh s utd x cf lg) = cost x.
Proof. intros ->. unfold Minim.refresh. destruct (utd <? ensure s); [destruct (0 <? ensure s)|]; reflexivity. Qed.
Lemma lm_outer_spec fo : forall fi s additive x damping it samples start_cost gn log,
  0 <= it -> (it <> 0 -> oleb O (cost x) start_cost = true) ->
  outer_post_u s it (lm_outer fo fi s additive x damping it samples start_cost gn log).
Proof.
  induction fo as [|fo IH]; intros fi s additive x damping it samples start_cost gn log Hit Hstart.
  - cbn. unfold outer_post_u; cbn. refine (conj _ (conj _ (conj (Z.le_refl _) (fun H => Z.lt_le_incl _ _ H)))); [intros H; contradiction H; reflexivity|discriminate].
  - cbn [Minim.lm_outer].
    set (start1 := if it =? 0 then cost x else start_cost).
    assert (Hs1 : oleb O (cost x) start1 = true) by (unfold start1; destruct (Z.eqb_spec it 0); [apply le_refl|apply Hstart; assumption]).
    assert (Hstop : forall st gn' lg utd, (st = MSuccess -> oleb O (norm2 (grad x)) (thr s) = true) ->
              outer_post_u s it (let '(c, lg') := refresh s utd x (cost x) lg in mkResult st x c start1 gn' it (samples + 1) [] (grad x) lg')).
    { intros st gn' lg utd Hsucc. pose proof (refresh_cost s utd x (cost x) lg eq_refl) as Hc. destruct (refresh s utd x (cost x) lg) as [c lg']. cbn in Hc. subst c.
      unfold outer_post_u; cbn. refine (conj (fun _ => conj eq_refl Hs1) (conj Hsucc (conj (Z.le_refl _) (fun H => Z.lt_le_incl _ _ H)))). }
    destruct (negb (isfinite (cost x))); [apply Hstop; discriminate|].
    destruct (existsb _ (grad x)); [apply Hstop; discriminate|].
    destruct (Bool.bool_dec (oleb O (norm2 (grad x)) (thr s)) true) as [Hconv|Hconv]; [rewrite Hconv; apply Hstop; intros _; exact Hconv|]. apply not_true_is_false in Hconv. rewrite Hconv.
    pose proof (lm_inner_spec fi s additive x (grad x) (hess x) (mean O ofnat (diag O (hess x))) (cost x) damping (o1 O) d0 (samples + 1)
                  ((log ++ [EvCostGradHess x]) ++ [EvProgress it x (cost x) (norm2 (grad x))])) as Hin.
    destruct (lm_inner _ _ _ _ _ _ _ _ _ _ _ _ _) as [nx nc d smp lg|st d smp lg|].
    + destruct Hin as [Hnc Hle].
      assert (Hn1 : oleb O (cost nx) start1 = true) by (rewrite <- Hnc; apply (le_trans _ _ _ Hle Hs1)).
      destruct (zge (it + 1) (max_it s)) eqn:Hmax.
      * pose proof (refresh_cost s (-1) nx nc lg Hnc) as Hc. destruct (refresh s (-1) nx nc lg) as [c lg']. cbn in Hc. subst c.
        unfold outer_post_u; cbn. refine (conj (fun _ => conj eq_refl Hn1) (conj _ (conj _ _))); [discriminate|lia|intros; lia].
      * unfold zge in Hmax. apply Z.leb_gt in Hmax.
        destruct (IH fi s additive nx (lower_damping O s d) (it + 1) smp start1 (norm2 (grad x)) lg ltac:(lia) (fun _ => Hn1)) as (R1 & R2 & R3 & R4).
        unfold outer_post_u. refine (conj R1 (conj R2 (conj _ _))); [lia|intros _; apply R4; lia].
    + pose proof (refresh_cost s (-1) x (cost x) lg eq_refl) as Hc. destruct (refresh s (-1) x (cost x) lg) as [c lg']. cbn in Hc. subst c.
      unfold outer_post_u; cbn. refine (conj (fun _ => conj eq_refl Hs1) (conj _ (conj (Z.le_refl _) (fun H => Z.lt_le_incl _ _ H)))). intros E. destruct Hin; congruence.
    + unfold outer_post_u; cbn. refine (conj (fun _ => conj eq_refl Hs1) (conj _ (conj (Z.le_refl _) (fun H => Z.lt_le_incl _ _ H)))). discriminate.
Qed.
Theorem lm_unbounded_spec fo fi s additive x m1 : outer_post_u s 0 (lm_unbounded O cost grad hess solve norm2 isfinite ofnat fo fi s additive x m1).
Proof. unfold Minim.lm_unbounded. apply lm_outer_spec; [lia|intros H; contradiction H; reflexivity]. Qed.

(* ================= SUCCESS is a first-order point of the box-constrained problem ================= *)
Lemma can_release_false_nth bs g j : length bs = length g -> (j < length bs)%nat -> can_release O bs g = false -> releasable O (nth j bs 0) (nth j g d0) = false.
Proof.
  unfold can_release. revert g j. induction bs as [|b bs IH]; intros [|gi g] j Hl Hj H; cbn in *; try lia.
  apply orb_false_iff in H. destruct H as [H1 H2]. destruct j as [|j]; [exact H1|]. apply IH; [lia|lia|exact H2].
Qed.
Theorem success_first_order fo fi s additive lo hi x m1 inf : valid_bounds O lo hi x = true ->
  let r := lm_bounded fo fi s additive lo hi x m1 inf in
  r_status r = MSuccess ->
  let g := grad (r_x r) in
  within lo hi (r_x r)
  /\ oleb O (gnorm_free (find (fun b => b =? 0) (r_bs r)) g) (thr s) = true
  /\ forall j, (j < length (r_x r))%nat ->
       (nth j (r_bs r) 0 = -1 -> oleb O (nth j (r_x r) d0) (nth j lo d0) = true /\ oltb O (nth j g d0) d0 = false)
    /\ (nth j (r_bs r) 0 = 1 -> oleb O (nth j hi d0) (nth j (r_x r) d0) = true /\ oltb O d0 (nth j g d0) = false).
Proof.
  intros Hv r Hs g. destruct (lm_bounded_spec fo fi s additive lo hi x m1 inf Hv) as (_ & R2 & _ & R4 & _). fold r in R2, R4.
  destruct (R4 Hs) as (S1 & S2 & [Pl P] & S4). fold g in S4. rewrite S4 in S1, S2.
  refine (conj R2 (conj S1 _)). intros j Hj.
  assert (Hr : releasable O (nth j (r_bs r) 0) (nth j g d0) = false) by (apply can_release_false_nth; [unfold g; rewrite grad_len; exact Pl|lia|exact S2]).
  unfold releasable in Hr. apply orb_false_iff in Hr. destruct Hr as [Hr1 Hr2].
  split; intros Hb; rewrite Hb in *; cbn in Hr1, Hr2; (split; [apply P; assumption|assumption]).
Qed.
End MinimProofs.
