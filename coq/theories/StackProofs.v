(* C10 / C11 (tie G): the gradient-list bookkeeping of adept::Stack, as translated from Stack.cpp / Stack.h (Gen_Stack.v),
   keeps the recorded buffer length equal to the true one, never touches the buffer beyond its true length, raises
   exactly the exception kinds of the model Protocol.v, and updates the counters as Protocol.v does. *)
From Coq Require Import ZArith List Bool Lia.
From Adept Require Import StackDefs.
From AdeptGen Require Import Gen_Stack.
Import ListNotations.
Local Open Scope Z_scope.

Definition nocall : bk -> (bk -> bk) -> bk := fun x k => k x.
Definition call_initialize (s : bk) (k : bk -> bk) : bk := execl 0 0 nocall nocall stk_initialize_gradients s k.
Definition call_extend (s : bk) (k : bk -> bk) : bk := execl 0 0 nocall nocall stk_extend_gradients s k.
Definition do_initialize (s : bk) : bk := call_initialize s (fun x => x).
Definition do_extend (s : bk) : bk := call_extend s (fun x => x).
Definition do_set (pstart pend : Z) (s : bk) : bk := run pstart pend call_initialize call_extend stk_set_gradients s.
Definition do_get (pstart pend : Z) (s : bk) : bk := run pstart pend call_initialize call_extend stk_get_gradients s.
Definition do_get_strided (pstart pend : Z) (s : bk) : bk := run pstart pend call_initialize call_extend stk_get_gradients_strided s.
Definition do_adjoint (s : bk) : bk := run 0 0 call_initialize call_extend stk_compute_adjoint s.
Definition do_tangent (s : bk) : bk := run 0 0 call_initialize call_extend stk_compute_tangent_linear s.
Definition do_clear_gradients (s : bk) : bk := run 0 0 nocall nocall stk_clear_gradients s.
Definition do_new_recording (s : bk) : bk := run 0 0 nocall nocall stk_new_recording s.

(* the representation invariant of the gradient list *)
Definition good (s : bk) : Prop :=
  b_len s = b_alloc s /\ 0 <= b_max s /\ 0 <= b_alloc s /\ 0 <= b_init s /\ (b_flag s = true -> b_init s <= b_alloc s) /\
  b_err s = None /\ b_tmp s = None /\ b_oob s = false /\ (b_have s = false -> b_len s = 0).

Ltac ev := cbv -[Z.add Z.sub Z.ltb Z.leb Z.max Z.le Z.lt Z.ge Z.gt range_oob].
Ltac cases := repeat match goal with |- context [if ?c then _ else _] => let E := fresh "E" in destruct c eqn:E; ev end.
Ltac z2p := repeat match goal with
  | H : (_ <? _) = true |- _ => apply Z.ltb_lt in H
  | H : (_ <? _) = false |- _ => apply Z.ltb_ge in H
  end.
Ltac fin := unfold range_oob; ev; z2p; repeat split; try reflexivity; try assumption; try lia; try (intros; lia); try discriminate;
  try (apply andb_false_iff; right; apply orb_false_iff; split; apply Z.ltb_ge; lia);
  try (apply andb_false_iff; left; apply Z.ltb_ge; lia);
  try (repeat match goal with |- context [Z.ltb ?a ?b] => destruct (Z.ltb_spec a b) end; first [reflexivity | lia | discriminate | (exfalso; lia)]).
Ltac open s := destruct s as [mx al ini ig fl len hv tmp err oob lg]; unfold good;
  cbn [b_len b_alloc b_max b_init b_flag b_err b_tmp b_oob b_have b_igrad b_log];
  intros (H1 & H2 & H3 & H4 & H5 & H6 & H7 & H8 & H9); subst.

Lemma range_oob_ok a b len : 0 <= a -> b <= len -> range_oob a b len = false.
Proof. intros Ha Hb. unfold range_oob. apply andb_false_iff. right. apply orb_false_iff. split; apply Z.ltb_ge; lia. Qed.

(* the callees never throw: calling them is running them and continuing *)
Lemma call_initialize_k s k : call_initialize s k = k (do_initialize s).
Proof. destruct s as [mx al ini ig fl len hv tmp err oob lg]. unfold do_initialize, call_initialize, stk_initialize_gradients, nocall. ev. cases; reflexivity. Qed.
Lemma call_extend_k s k : call_extend s k = k (do_extend s).
Proof. destruct s as [mx al ini ig fl len hv tmp err oob lg]. unfold do_extend, call_extend, stk_extend_gradients, nocall. ev. cases; reflexivity. Qed.

Theorem initialize_spec s : good s ->
  let r := do_initialize s in
  good r /\ b_flag r = true /\ b_init r = b_max s /\ b_max r = b_max s /\ b_igrad r = b_igrad s /\
  b_alloc r = Z.max (b_alloc s) (b_max s) /\
  b_log r = (if 0 <? b_max s then [EvZero 0 (b_max s)] else []) ++ b_log s.
Proof.
  open s. unfold do_initialize, call_initialize, stk_initialize_gradients, nocall. ev.
  destruct (0 <? mx) eqn:E1; [destruct (al <? mx) eqn:E2; [destruct hv eqn:E3|]|]; ev; fin.
Qed.

Theorem extend_spec s : good s -> b_flag s = true ->
  let r := do_extend s in
  good r /\ b_flag r = true /\ b_init r = b_init s /\ b_max r = b_max s /\ b_igrad r = b_igrad s /\
  b_alloc r = (if b_init s <? b_max s then Z.max (b_alloc s) (b_max s) else b_alloc s) /\
  b_log r = (if b_init s <? b_max s then [EvZero (b_init s) (b_max s)] else []) ++ b_log s.
Proof.
  intros Hg Hf. revert Hg. open s. cbn in Hf. subst fl. specialize (H5 eq_refl).
  unfold do_extend, call_extend, stk_extend_gradients, nocall. ev.
  destruct (ini <? mx) eqn:E1; [destruct (al <? mx) eqn:E2; [destruct hv eqn:E3|]|]; ev; fin.
Qed.

(* after the extension that precedes every sweep the buffer covers every gradient index in use *)
Corollary extend_covers s : good s -> b_flag s = true -> b_max s <= b_len (do_extend s).
Proof.
  intros Hg Hf. destruct (extend_spec s Hg Hf) as ((Hl & _ & _ & _ & Hi & _) & Hfl & Ei & Em & _ & Ea & _).
  rewrite Hl, Ea. destruct Hg as (_ & _ & _ & _ & H5 & _). specialize (H5 Hf).
  destruct (b_init s <? b_max s) eqn:E; z2p; lia.
Qed.

(* set_gradient(s) on [pstart, pend): initialises first when needed; gradient_out_of_range exactly when the range reaches
   beyond what the initialisation covered; otherwise the store stays inside the buffer *)
Theorem set_gradients_spec s pstart pend : good s -> 0 <= pstart ->
  let r := do_set pstart pend s in
  let s1 := if b_flag s then s else do_initialize s in
  b_oob r = false /\ b_len r = b_alloc r /\ b_flag r = true /\ b_init r = b_init s1 /\ b_alloc r = b_alloc s1 /\ b_max r = b_max s /\
  b_err r = (if b_init s1 <? pend then Some XRange else None) /\
  (b_err r = None -> b_log r = EvAccess pstart pend :: b_log s1).
Proof.
  intros Hg Hp. cbv zeta.
  assert (H1 : good (if b_flag s then s else do_initialize s) /\ b_flag (if b_flag s then s else do_initialize s) = true /\ b_max (if b_flag s then s else do_initialize s) = b_max s).
  { destruct (b_flag s) eqn:Ef; [repeat split; try assumption; apply Hg|]. destruct (initialize_spec s Hg) as (G & F & _ & M & _). repeat split; try assumption; apply G. }
  unfold do_set, run, stk_set_gradients. cbn [execl exec ceval negb].
  assert (Es : forall k, (if negb (b_flag s) then call_initialize s k else k s) = k (if b_flag s then s else do_initialize s)).
  { intros k. destruct (b_flag s); cbn; [reflexivity|apply call_initialize_k]. }
  rewrite Es. set (s1 := if b_flag s then s else do_initialize s) in *.
  destruct H1 as ((L1 & M1 & A1 & I1 & F1 & E1 & T1 & O1 & V1) & Fl1 & Mx1).
  destruct s1 as [mx al ini ig fl len hv tmp err oob lg]. cbn [b_len b_alloc b_max b_init b_flag b_err b_tmp b_oob b_have b_igrad b_log] in *. subst. specialize (F1 eq_refl).
  ev. destruct (ini <? pend) eqn:E; ev; fin.
Qed.

Theorem get_gradients_spec s pstart pend : good s -> 0 <= pstart ->
  let r := do_get pstart pend s in
  b_oob r = false /\ b_flag r = b_flag s /\ b_init r = b_init s /\ b_alloc r = b_alloc s /\ b_max r = b_max s /\
  b_err r = (if b_flag s then (if b_init s <? pend then Some XRange else None) else Some XNotInit) /\
  do_get_strided pstart pend s = r.
Proof.
  intros Hg Hp. revert Hg. open s.
  unfold do_get, do_get_strided, run, stk_get_gradients, stk_get_gradients_strided. ev.
  destruct fl; ev; [specialize (H5 eq_refl); destruct (ini <? pend) eqn:E; ev|]; fin.
Qed.

(* the two sweeps: gradients_not_initialized without a seed; otherwise the list is extended first and the sweep, which
   touches every index below max_gradient_, stays inside the buffer *)
Theorem sweeps_spec s : good s ->
  let r := do_adjoint s in let r' := do_tangent s in
  b_oob r = false /\ b_oob r' = false /\
  b_err r = (if b_flag s then None else Some XNotInit) /\ b_err r' = b_err r /\
  (b_flag s = true -> b_log r = EvCall CSweepRev :: b_log (do_extend s) /\ b_log r' = EvCall CSweepFwd :: b_log (do_extend s) /\
                      b_init r = b_init s /\ b_max r = b_max s /\ b_len r = b_alloc r /\ b_alloc r = b_alloc (do_extend s) /\ b_flag r = true).
Proof.
  intros Hg. cbv zeta. unfold do_adjoint, do_tangent, run, stk_compute_adjoint, stk_compute_tangent_linear. cbn [execl exec ceval].
  destruct (b_flag s) eqn:Ef.
  - rewrite !call_extend_k.
    destruct (extend_spec s Hg Ef) as ((L & M & A & I & F & E & T & O & V) & Fl & Ei & Em & _ & _ & _).
    pose proof (extend_covers s Hg Ef) as Hc.
    destruct (do_extend s) as [mx al ini ig fl len hv tmp err oob lg]. cbn [b_len b_alloc b_max b_init b_flag b_err b_tmp b_oob b_have b_igrad b_log] in *. subst.
    set (mx0 := b_max s) in *. set (in0 := b_init s) in *. clearbody mx0 in0.
    ev. rewrite !range_oob_ok by lia. ev. repeat split; try reflexivity; try assumption; intros; repeat split; try reflexivity; try assumption.
  - destruct Hg as (_ & _ & _ & _ & _ & _ & _ & O & _). cbn [upd_rest b_oob b_err b_flag b_log b_init b_max b_len b_alloc]. repeat split; try exact O; intros; discriminate.
Qed.

Theorem new_recording_spec s : good s -> 0 <= b_igrad s + 1 ->
  let r := do_new_recording s in
  good r /\ b_flag r = false /\ b_max r = b_igrad s + 1 /\ b_init r = b_init s /\ b_alloc r = b_alloc s /\
  b_log r = [EvNull; EvCall CClearGrad; EvCall CClearDep; EvCall CClearIndep; EvCall CClearStack] ++ b_log s.
Proof.
  intros Hg Hp. revert Hg. open s. cbn in Hp.
  unfold do_new_recording, run, stk_new_recording, nocall.
  ev.
  repeat split; try reflexivity; try assumption; try lia; try (intros; discriminate).
Qed.
Theorem clear_gradients_spec s : good s -> let r := do_clear_gradients s in
  good r /\ b_flag r = false /\ b_max r = b_max s /\ b_init r = b_init s /\ b_alloc r = b_alloc s.
Proof. open s. unfold do_clear_gradients, run, stk_clear_gradients, nocall. ev. fin. Qed.
