(* C16 — solve and inv satisfy their defining equations.
   This file holds only the property theorems; each is closed by [exact] of a lemma of SolveProofs.v and followed by
   Print Assumptions.
   Models: generated/Gen_Lapack.v (tie G: the expressions passed as n, nrhs, lda, ldb, the triangle letter per
   orientation, and the argument the cpplapack wrappers forward as ldb, translated from solve.cpp / inv.cpp /
   cpplapack.h on every run) and Solve.v (the working copies).  LAPACK is an oracle: each theorem takes the routine as
   a Section variable and its documented contract as hypothesis (recorded in the trusted base).  Tie H: ./check C16
   solves and inverts systems in a LAPACK build for every operand layout and checks residuals, unmodified arguments and
   the two exceptions.
   _partial: floating-point error ("within the bound implied by the condition number") is measured by the check, not
   proved; inv of a symmetric matrix (mirror step) and the ?sysv fall-back to ?gesv are tested only. *)
From Coq Require Import ZArith List.
From Adept Require Import Scalar Solve SolveProofs.
From AdeptGen Require Import Gen_Lapack.
Import ListNotations.
Local Open Scope Z_scope.

Section Oracle.
Context {T : Type} (O : Ops T).
Variable gesv : Z -> Z -> (Z -> T) -> Z -> (Z -> T) -> Z -> (Z -> T).
Hypothesis gesv_spec : forall n nrhs a lda b ldb, 0 < n -> n <= lda -> n <= ldb ->
  forall i j, 0 <= i < n -> 0 <= j < nrhs ->
  zsumS O n (fun k => omul O (a (cm lda i k)) (gesv n nrhs a lda b ldb (cm ldb k j))) = b (cm ldb i j).
(* general A, matrix right-hand side: for every n >= 1, every number p of right-hand sides, every logical A and B *)
Theorem C16_solve_matrix_rhs_partial : forall (s : shapes) (A B : Z -> Z -> T) i j, 0 < sn s -> 0 <= i < sn s -> 0 <= j < sp s ->
  zsumS O (sn s) (fun k => omul O (A i k) (adept_solve gesv gesv_matrix_rhs cpplapack_gesv_passes_as_ldb s A B k j)) = B i j.
Proof. exact (solve_matrix_rhs O gesv gesv_spec). Qed.
Theorem C16_solve_vector_rhs_partial : forall (s : shapes) (A B : Z -> Z -> T) i, 0 < sn s -> sp s = 1 -> 0 <= i < sn s ->
  zsumS O (sn s) (fun k => omul O (A i k) (adept_solve gesv gesv_vector_rhs cpplapack_gesv_passes_as_ldb s A B k 0)) = B i 0.
Proof. exact (solve_vector_rhs O gesv gesv_spec). Qed.

Variable sysv : triangle -> Z -> Z -> (Z -> T) -> Z -> (Z -> T) -> Z -> (Z -> T).
Hypothesis sysv_spec : forall t n nrhs a lda b ldb, 0 < n -> n <= lda -> n <= ldb ->
  forall i j, 0 <= i < n -> 0 <= j < nrhs ->
  zsumS O n (fun k => omul O (tri_read t a lda i k) (sysv t n nrhs a lda b ldb (cm ldb k j))) = b (cm ldb i j).
(* symmetric A in either storage orientation: the triangle LAPACK is told to read is the one the SymmMatrix copy holds *)
Theorem C16_solve_symmetric_partial : forall (lower_rows : bool) (s : shapes) (A B : Z -> Z -> T) (junk : Z -> T) i j,
  0 < sn s -> (forall x y, A x y = A y x) -> 0 <= i < sn s -> 0 <= j < sp s ->
  zsumS O (sn s) (fun k => omul O (A i k) (adept_solve_symm sysv lower_rows sysv_matrix_rhs s A B junk k j)) = B i j.
Proof. exact (solve_symmetric_matrix_rhs O sysv sysv_spec). Qed.

Variable getri : Z -> (Z -> T) -> Z -> (Z -> T).
Hypothesis getri_spec : forall n a lda, 0 < n -> n <= lda -> forall i j, 0 <= i < n -> 0 <= j < n ->
  zsumS O n (fun k => omul O (a (cm lda i k)) (getri n a lda (cm lda k j))) = (if i =? j then o1 O else o0 O).
Theorem C16_inv_partial : forall (s : shapes) (A : Z -> Z -> T) i j, 0 < sn s -> 0 <= i < sn s -> 0 <= j < sn s ->
  zsumS O (sn s) (fun k => omul O (A i k) (adept_inv getri s A k j)) = (if i =? j then o1 O else o0 O).
Proof. exact (inv_right_identity O getri getri_spec). Qed.
End Oracle.
Print Assumptions C16_solve_matrix_rhs_partial.
Print Assumptions C16_solve_vector_rhs_partial.
Print Assumptions C16_solve_symmetric_partial.
Print Assumptions C16_inv_partial.

(* non-vacuity of the hypotheses: a 1 x 1 "LAPACK" over the integers (x = b / a) meets the ?gesv contract on a = 1 *)
Example C16_example : forall b : Z -> Z,
  zsumS ZOps 1 (fun k => Z.mul 1 ((fun _ => b 0) (cm 1 k 0))) = b (cm 1 0 0).
Proof. intros b. vm_compute. destruct (b 0%Z); reflexivity. Qed.
