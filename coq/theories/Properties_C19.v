(* C19 — each algorithm finds the box-constrained minimum of a convex quadratic.
   This file holds only the property theorems; each is closed by [exact] of a lemma of MinimProofs.v and followed by
   Print Assumptions.
   Model: Minim.v (Levenberg / Levenberg-Marquardt, hand-written; tie H: ./check C19 compares the extracted model with the
   implementation on every Levenberg run, and compares the point returned by all five algorithms with the exact
   solution of the box-constrained quadratic programme, computed over the rationals by enumeration of the active sets).
   _partial: what is proved is the soundness half: a SUCCESS of the Levenberg family is a first-order point of the
   box-constrained problem to the requested tolerance, for any cost function (so in particular for the convex
   quadratic, whose first-order point is unique), and completeness in the simplest case (C19_newton_one_step_partial:
   unbounded Levenberg-Marquardt on a quadratic reaches the stationary point in one iteration, over the reals).  That
   SUCCESS is reached in general, within a number of iterations proportional to the size, is a convergence-rate statement about damped Newton steps and inexact line searches in floating point; it
   is explored by the check (budget 20n+50 on random strictly convex quadratics of condition number below ~10, solution
   on faces and vertices, starts inside / on faces / outside, steps that meet several faces at once) and not proved.
   Conjugate gradient and L-BFGS are not in Minim.v. *)
From Coq Require Import ZArith List Bool Reals.
From Adept Require Import Scalar Minim MinimProofs RealOps MinimNewton.
Import ListNotations.
Local Open Scope Z_scope.

Section AnyProblem.
Context {T : Type} (O : Ops T).
Variable cost : list T -> T.
Variable grad : list T -> list T.
Variable hess : list T -> list (list T).
Variable solve : list (list T) -> list T -> list T.
Variable norm2 : list T -> T.
Variable isfinite : T -> bool.
Variable ofnat : nat -> T.
Hypothesis le_total : forall a b, oleb O a b = true \/ oleb O b a = true.
Hypothesis le_trans : forall a b c, oleb O a b = true -> oleb O b c = true -> oleb O a c = true.
Hypothesis lt_le : forall a b, oltb O a b = negb (oleb O b a).
Hypothesis grad_len : forall x, length (grad x) = length x.
Hypothesis solve_len : forall m g, length (solve m g) = length g.
Notation run_bounded := (lm_bounded O cost grad hess solve norm2 isfinite ofnat).

(* SUCCESS => the returned x is in the box; the gradient norm over the variables not flagged is within the tolerance; a
   variable flagged at its lower bound is at (or below, hence with feasibility: on) that bound and its gradient
   component is not negative; symmetrically at the upper bound: the first-order conditions *)
Theorem C19_success_is_first_order_point_partial : forall fo fi s additive lo hi x m1 inf, valid_bounds O lo hi x = true ->
  let r := run_bounded fo fi s additive lo hi x m1 inf in
  r_status r = MSuccess ->
  let g := grad (r_x r) in
  within O lo hi (r_x r)
  /\ oleb O (gnorm_free O norm2 (find (fun b => b =? 0) (r_bs r)) g) (thr s) = true
  /\ forall j, (j < length (r_x r))%nat ->
       (nth j (r_bs r) 0 = -1 -> oleb O (nth j (r_x r) (o0 O)) (nth j lo (o0 O)) = true /\ oltb O (nth j g (o0 O)) (o0 O) = false)
    /\ (nth j (r_bs r) 0 = 1 -> oleb O (nth j hi (o0 O)) (nth j (r_x r) (o0 O)) = true /\ oltb O (o0 O) (nth j g (o0 O)) = false).
Proof. exact (success_first_order O cost grad hess solve norm2 isfinite ofnat le_total le_trans lt_le grad_len solve_len). Qed.
(* the iteration count never exceeds the configured maximum, whatever the problem *)
Theorem C19_iterations_bounded_partial : forall fo fi s additive lo hi x m1 inf, valid_bounds O lo hi x = true -> 0 < max_it s ->
  0 <= r_iter (run_bounded fo fi s additive lo hi x m1 inf) <= max_it s.
Proof. exact (bounded_iterations O cost grad hess solve norm2 isfinite ofnat le_total le_trans lt_le grad_len solve_len). Qed.
End AnyProblem.
Print Assumptions C19_success_is_first_order_point_partial.
Print Assumptions C19_iterations_bounded_partial.

(* completeness in the simplest case, over the reals: quadratic cost 0.5 x'Hx - b'x (any square H for which the solver is
   exact), exact gradient Hx - b and Hessian H, zero starting damping, no maximum step: the first trial point is the Newton
   point, its gradient is exactly zero, and - if that point lowers the cost, as it does for a convex quadratic away from its
   minimum (hypothesis) - unbounded Levenberg-Marquardt reports SUCCESS after one iteration, for every dimension n *)
Theorem C19_newton_one_step_partial : forall (H : list (list R)) (b : list R) (n : nat),
  length H = n -> (forall row, In row H -> length row = n) -> length b = n ->
  forall cost solve norm2 isfinite ofnat,
  (forall g, length g = n -> matvec H (solve H g) = g /\ length (solve H g) = n) -> norm2 (zeros n) = 0%R -> (forall v, isfinite v = true) ->
  forall (s : settings (T:=R)) x m1 fo fi,
  length x = n -> d_start s = 0%R -> ~ (0 < max_step s)%R -> (0 <= thr s)%R -> 1 < max_it s ->
  ~ (norm2 (qgrad H b x) <= thr s)%R ->
  (cost (map2 Rplus x (map Ropp (solve H (qgrad H b x)))) < cost x)%R ->
  let r := lm_unbounded RO cost (qgrad H b) (qhess H) solve norm2 isfinite ofnat (S (S fo)) (S fi) s false x m1 in
  r_status r = MSuccess /\ r_iter r = 1 /\ qgrad H b (r_x r) = zeros n /\ r_x r = map2 Rplus x (map Ropp (solve H (qgrad H b x))).
Proof. exact lm_newton_one_step. Qed.
Print Assumptions C19_newton_one_step_partial.

(* a run of the model inside Coq (a test, not a proof): f(x,y) = (x-6)^2 + (y-1)^2 over the integers on [0,4] x [0,4] from
   the origin with the additive damping; the run ends with SUCCESS at (4,1): x flagged at its upper bound, where the
   gradient component is negative, y free with zero gradient *)
Example C19_example :
  let cost := fun x : list Z => (nth 0 x 0 - 6) * (nth 0 x 0 - 6) + (nth 1 x 0 - 1) * (nth 1 x 0 - 1) in
  let grad := fun x : list Z => [2 * (nth 0 x 0 - 6); 2 * (nth 1 x 0 - 1)] in
  let hess := fun _ : list Z => [[2; 0]; [0; 2]] in
  let solve := fun (m : list (list Z)) (g : list Z) => map (fun p => fst p / nth (snd p) (nth (snd p) m []) 1) (combine g (seq 0 (length g))) in
  let s := mkSettings 40 (-1) 0 (-1) 0 100 2 5 0 1 in
  let r := lm_bounded ZOps cost grad hess solve (fun g => fold_left Z.add (map Z.abs g) 0) (fun _ => true) Z.of_nat 50 12 s true [0; 0] [4; 4] [0; 0] (-1) 1000000 in
  r_status r = MSuccess /\ r_x r = [4; 1] /\ r_bs r = [1; 0].
Proof. vm_compute. repeat split. Qed.
