(* C01: for every program over active scalars, the recorded tape's forward sweep computes the tangents of the
   dual-number evaluation of the same program, the values are those of the plain program, and the reverse sweep
   seeded at an output gives, for every input, the tangent of that output in the direction of that input. *)
From Coq Require Import ZArith List Bool Lia Ring Arith.
From Adept Require Import Scalar ExprDefs Expr ExprProofs Tape TapeAdjoint Program.
From AdeptGen Require Import Gen_Ops.
Import ListNotations.

Section ProgramProofs.
Context {T : Type} (F : FOps T).
Let O := fbase F.
Hypothesis Rth : ring_theory (o0 O) (o1 O) (oadd O) (omul O) (osub O) (oneg O) (@eq T).
Hypothesis Hdiv : forall x y, odiv O x y = omul O x (odiv O (o1 O) y).
Hypothesis Hlit1 : flit F 1 1 = o1 O.
Hypothesis eqb_true : forall a b, oeqb O a b = true -> a = b.
Add Ring Tring2 : Rth.

Lemma rhs_val_conv ops g : rhs_val O (conv_ops ops) g = dot_ops F ops (fun z => g (Z.to_nat z)).
Proof.
  induction ops as [|mi ops IH]; [apply (rhs_val_nil O)|].
  cbn [conv_ops map]. rewrite (rhs_val_cons O Rth). fold (conv_ops ops). rewrite IH. reflexivity.
Qed.

Lemma exec_snoc p s vals0 : exec F (p ++ [s]) vals0 = exec1 F (exec F p vals0) s.
Proof. unfold exec. rewrite fold_left_app. reflexivity. Qed.
Lemma dexec_snoc p s vals0 u0 : dexec F (p ++ [s]) vals0 u0 = dexec1 F (dexec F p vals0 u0) s.
Proof. unfold dexec. rewrite fold_left_app. reflexivity. Qed.

Theorem exec_forward p vals0 u0 :
  fst (exec F p vals0) = fst (dexec F p vals0 u0) /\
  fwd_sweep O (snd (exec F p vals0)) u0 = snd (dexec F p vals0 u0).
Proof.
  induction p as [|s p IH] using rev_ind; [split; reflexivity|].
  rewrite exec_snoc, dexec_snoc. destruct IH as [Hv Ht].
  destruct (exec F p vals0) as [vals tp]. destruct (dexec F p vals0 u0) as [dv dt]. cbn [fst snd] in *. subst dv.
  destruct s as [x c|x e|x c]; cbn [exec1 dexec1 fst snd].
  - split; [reflexivity|]. unfold fwd_sweep. rewrite fold_left_app. cbn [fold_left]. fold (fwd_sweep O tp u0). rewrite Ht.
    unfold fwd1. cbn [lhs rhs]. rewrite (rhs_val_nil O). reflexivity.
  - pose proof (value_and_gradient_correct F Rth Hdiv Hlit1 (instantiate vals e)) as Hvg.
    destruct (value_and_gradient F (instantiate vals e)) as [v ops]. cbn [fst snd] in *.
    destruct (Hvg (fun z => dt (Z.to_nat z))) as [Hval Hdot]. split; [rewrite Hval; reflexivity|].
    unfold fwd_sweep. rewrite fold_left_app. cbn [fold_left]. fold (fwd_sweep O tp u0). rewrite Ht.
    unfold fwd1. cbn [lhs rhs]. rewrite rhs_val_conv, Hdot. reflexivity.
  - split; [reflexivity|exact Ht].
Qed.

(* gradient indices pushed are those of the active leaves *)
Fixpoint gis (e : expr (T:=T)) : list Z :=
  match e with XAct gi _ => [gi] | XArr act gi _ => if act then [gi] else [] | XPas _ => [] | XUn _ a => gis a | XBin _ l r => gis l ++ gis r end.
Lemma calc_gradient_indices arrs (e : expr) : forall A S scr w, arrs_ok F arrs e A ->
  Forall (fun mi => In (snd mi) (gis e)) (calc_gradient F arrs e A S scr w).
Proof.
  induction e as [gi v|act gi v|v|f a IH|k l IHl r IHr]; intros A S scr w Ha; cbn [calc_gradient gis].
  - constructor; [left; reflexivity|constructor].
  - cbn [arrs_ok] in Ha. rewrite Ha. destruct act; [constructor; [left; reflexivity|constructor]|constructor].
  - constructor.
  - cbn [arrs_ok] in Ha. unfold apply_rule. destruct w; cbn [n_un_rule n_un_rule_m nodes r_guard r_side r_a]; apply IH;
      unfold a_of; cbn [a_nL]; replace (A + 0 * 0)%Z with A by lia; exact Ha.
  - destruct Ha as [Hal Har]. pose proof (policies_canonical k) as (CL & CLm & CR & CRm & _). cbn zeta in *.
    apply Forall_app. split.
    + destruct (is_active l); [|constructor]. unfold apply_rule.
      assert (rule_at SL match w with Some _ => p_left_m (policy_of k) | None => p_left (policy_of k) end) as (Rs & Ra & _) by (destruct w; assumption).
      rewrite Rs, Ra. match goal with |- context [if ?c then _ else _] => destruct c end; [|constructor].
      unfold a_of. cbn [a_nL]. replace (A + 0 * n_arrays l)%Z with A by lia.
      eapply Forall_impl; [|apply IHl; exact Hal]. intros mi Hin. apply in_or_app. left. exact Hin.
    + destruct (is_active r); [|constructor]. unfold apply_rule.
      assert (rule_at SR match w with Some _ => p_right_m (policy_of k) | None => p_right (policy_of k) end) as (Rs & Ra & _) by (destruct w; assumption).
      rewrite Rs, Ra. match goal with |- context [if ?c then _ else _] => destruct c end; [|constructor].
      unfold a_of. cbn [a_nL]. replace (A + 1 * n_arrays l)%Z with (A + n_arrays l)%Z by lia.
      eapply Forall_impl; [|apply IHr; exact Har]. intros mi Hin. apply in_or_app. right. exact Hin.
Qed.

Lemma gis_instantiate n vals e : vars_below n e = true -> Forall (fun z => (Z.to_nat z < n)%nat) (gis (instantiate vals e)).
Proof.
  induction e as [x|c|f a IH|k l IHl r IHr]; cbn [vars_below instantiate gis]; intros H.
  - constructor; [|constructor]. rewrite Nat2Z.id. apply Nat.ltb_lt. exact H.
  - constructor.
  - apply IH. exact H.
  - apply andb_true_iff in H. destruct H as [Hl Hr]. apply Forall_app. split; [apply IHl|apply IHr]; assumption.
Qed.

Lemma exec_wf n p vals0 : forallb (stmt_below n) p = true -> Forall (wf_stmt n) (snd (exec F p vals0)).
Proof.
  induction p as [|s p IH] using rev_ind; intros H; [constructor|].
  rewrite forallb_app in H. apply andb_true_iff in H. destruct H as [Hp Hs]. cbn [forallb] in Hs. rewrite andb_true_r in Hs.
  rewrite exec_snoc. specialize (IH Hp). destruct (exec F p vals0) as [vals tp]. cbn [snd] in *.
  destruct s as [x c|x e|x c]; cbn [exec1 stmt_below] in *.
  - cbn [snd]. apply Forall_app. split; [exact IH|]. constructor; [|constructor]. split; [apply Nat.ltb_lt; exact Hs|constructor].
  - apply andb_true_iff in Hs. destruct Hs as [Hx He].
    unfold value_and_gradient.
    pose proof (arrs_ok_arrays_of F (instantiate vals e) [] []) as Ha. cbn [app length Z.of_nat] in Ha. rewrite app_nil_r in Ha.
    destruct (value_store F (arrays_of (instantiate vals e)) (instantiate vals e) 0 0 (fun _ => o0 (fbase F))) as [v scr]. cbn [snd].
    apply Forall_app. split; [exact IH|]. constructor; [|constructor]. split; [apply Nat.ltb_lt; exact Hx|]. cbn [rhs].
    unfold conv_ops. apply Forall_map. cbn [snd].
    pose proof (calc_gradient_indices (arrays_of (instantiate vals e)) (instantiate vals e) 0 0 scr None Ha) as Hi.
    pose proof (gis_instantiate n vals e He) as Hg. rewrite Forall_forall in Hg.
    eapply Forall_impl; [|exact Hi]. intros mi Hin. apply Hg. exact Hin.
  - cbn [snd]. exact IH.
Qed.

(* reverse mode: seeding output y with 1, the adjoint found at input x is the tangent of y when x is seeded with 1 *)
Theorem reverse_is_tangent n p vals0 y x : forallb (stmt_below n) p = true -> (y < n)%nat -> (x < n)%nat ->
  rev_sweep O (snd (exec F p vals0)) (unit_vec O y) x = snd (dexec F p vals0 (unit_vec O x)) y.
Proof.
  intros Hp Hy Hx.
  rewrite (reverse_entry_eq_forward_entry O Rth eqb_true n _ y x (exec_wf n p vals0 Hp) Hy Hx).
  destruct (exec_forward p vals0 (unit_vec O x)) as [_ Ht]. rewrite Ht. reflexivity.
Qed.
End ProgramProofs.
