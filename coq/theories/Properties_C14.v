(* C14 — shared array data can be linked / sliced concurrently when built thread-safe.
   This file holds only the property theorems; each is closed by [exact] of a lemma and followed by Print Assumptions.
   Models: generated/Gen_Globals.v (tie G: the micro-steps of Storage::add_link / remove_link and the declared type of
   n_links_ with and without ADEPT_STORAGE_THREAD_SAFE, regenerated on every run) and the reference-count machine of
   Conc.v: any number of threads, each an arbitrary sequence of link / unlink operations it is entitled to (it holds a
   view to copy or to destroy), under an arbitrary schedule of micro-steps.  Tie H: ./check C14 runs such workloads under
   ThreadSanitizer in a -DADEPT_STORAGE_THREAD_SAFE build (and through soft links in the default build) and checks
   n_storage_objects() after join.
   Modelled, not proved: std::atomic<int> read-modify-write is one indivisible step. *)
From Coq Require Import ZArith List.
From Adept Require Import Conc ConcProofs.
From AdeptGen Require Import Gen_Globals.
Import ListNotations.
Local Open Scope Z_scope.

(* what the source does: add_link is one atomic increment; remove_link checks for zero, then decrements atomically and
   decides on the VALUE RETURNED by that decrement; n_links_ is std::atomic in the thread-safe build *)
Theorem C14_protocol_steps : add_link_steps = ADD /\ remove_link_steps = REM /\ n_links_access_thread_safe = Atomic.
Proof. repeat split; reflexivity. Qed.
Print Assumptions C14_protocol_steps.

(* for EVERY number of threads, EVERY entitled program and EVERY interleaving of micro-steps: no step ever touches the
   Storage after it was deleted and no check fails; it is deleted at most once; it has been deleted exactly when no
   holder is left; until then the count equals the number of holders *)
Theorem C14_freed_exactly_once : forall l sched, Forall (fun t => 0 <= held t /\ pend t = []) l -> 0 < sum_held l ->
  let st := rrun add_link_steps remove_link_steps sched (rinit l) in
  bad st = 0 /\ (freed st = 0 \/ freed st = 1) /\ (freed st = 1 <-> sum_held (thrs st) = 0) /\ (freed st = 0 -> links st = sum_held (thrs st)).
Proof. exact refcount_every_interleaving. Qed.
Print Assumptions C14_freed_exactly_once.

(* soft links: a thread that only works through soft links performs no step on the count, in either build *)
Theorem C14_soft_links_touch_nothing : forall add rem l sched, Forall (fun t => prog t = [] /\ pend t = []) l -> rrun add rem sched (rinit l) = rinit l.
Proof. exact no_operations_no_steps. Qed.
Print Assumptions C14_soft_links_touch_nothing.

(* non-vacuity: the owner and two workers; worker 1 copies and destroys, worker 2 destroys its view, the owner destroys last *)
Example C14_example :
  let l := [mkThr [LRemove] [] 1; mkThr [LAdd; LRemove; LRemove] [] 1; mkThr [LRemove] [] 1] in
  let st := rrun ADD REM [1; 2; 1; 2; 1; 0; 1; 1; 0]%nat (rinit l) in
  freed st = 1 /\ bad st = 0 /\ links st = 0 /\
  freed (rrun ADD REM [1; 2; 1; 2; 1; 0; 1; 1]%nat (rinit l)) = 0.
Proof. vm_compute. repeat split. Qed.
