(* C03 — array-statement derivatives match those of the equivalent scalar loops.
   This file holds only the property theorems; each is closed by [exact] of a lemma and followed by Print Assumptions.
   Models: generated/Gen_Ops.v (tie G, shared with C01: template arguments MyArrayNum / MyScratchNum, multiplier
   expressions, the forwarding of noalias), Expr.v with array-element leaves (value and gradient index found at
   loc[array number]), ArrayStmt.v (hand model of the element loop of an active array assignment; tie H: ./check C03
   compares the Jacobian of generated element-wise statements with the extracted model).
   Reductions to a scalar: Gen_Reduce.v (tie G: tools/gen_reduce.py recognises first_value / accumulate_active /
   finish_active / active_finish_needed / extra_element_cost of the six policy classes, the three
   next_value_and_gradient variants and the skeleton of reduce_active), Reduce.v (the statements recorded and the
   scalar loop they denote).
   _partial: integer-vector indexing, where / either_or, spread, outer_product, dot_product, fixed-size
   targets and rank > 1 traversal are not in the model; for those the check compares every array statement of its
   catalogue directly with the scalar program it denotes (full Jacobians), which is a test, not a theorem. *)
From Coq Require Import ZArith List Ring_theory.
From Adept Require Import Scalar ExprDefs Expr ExprProofs Tape TapeAdjoint Program ProgramProofs ArrayStmt ArrayStmtProofs ReduceDefs Reduce ReduceProofs.
From AdeptGen Require Import Gen_Ops Gen_Reduce.
Import ListNotations.

Section AnyRing.
Context {T : Type} (F : FOps T).
Let O := fbase F.
Hypothesis Rth : ring_theory (o0 O) (o1 O) (oadd O) (omul O) (osub O) (oneg O) (@eq T).
Hypothesis Hdiv : forall x y, odiv O x y = omul O x (odiv O (o1 O) y).
Hypothesis Hlit1 : flit F 1 1 = o1 O.
Hypothesis eqb_true : forall a b, oeqb O a b = true -> a = b.

(* one element: an expression whose leaves are elements of arrays (any number of arrays, active or passive, nested
   anywhere in the tree) yields the value and the tangent of the scalar expression it denotes *)
Theorem C03_element_partial : forall vals u (e : aexp (T:=T)) i,
  fst (value_and_gradient F (ainst vals e i)) = sem F (instantiate vals (to_scalar e i)) /\
  dot_ops F (snd (value_and_gradient F (ainst vals e i))) u = tangent F u (instantiate vals (to_scalar e i)).
Proof. exact (element_correct F Rth Hdiv Hlit1). Qed.

(* the whole statement target(0..n-1) = e, for views of any stride: values and the action of the recorded tape on
   every seed are those of the scalar program  for i: target[i] = e[i] *)
Theorem C03_elementwise_statement_partial : forall tb ts n (e : aexp (T:=T)) vals0 u0,
  fst (aexec F tb ts n e vals0) = fst (dexec F (denoted tb ts n e) vals0 u0) /\
  fwd_sweep O (snd (aexec F tb ts n e vals0)) u0 = snd (dexec F (denoted tb ts n e) vals0 u0).
Proof. exact (aexec_forward F Rth Hdiv Hlit1). Qed.

(* reverse mode over the statement's tape: every output element w.r.t. every input element *)
Theorem C03_reverse_partial : forall N tb ts n (e : aexp (T:=T)) vals0 y x,
  Forall (wf_stmt N) (snd (aexec F tb ts n e vals0)) -> (y < N)%nat -> (x < N)%nat ->
  rev_sweep O (snd (aexec F tb ts n e vals0)) (unit_vec O y) x = snd (dexec F (denoted tb ts n e) vals0 (unit_vec O x)) y.
Proof. exact (areverse F Rth Hdiv Hlit1 eqb_true). Qed.

(* sum, mean, product, maxval, minval, norm2 of an active array expression (elements es, any number, any expression
   trees) into an active scalar with gradient index t that no element reads: the value is that of the scalar loop,
   the forward sweep of the recorded statements changes the seed vector at t only, to the tangent of the scalar loop
   (dual-number evaluation: total += x; total *= x; if (x > total) total = x; total += x*x ... sqrt; /n), and no
   operation is left pending.  minf / pinf / ofnat: -inf, +inf and the element count as scalars. *)
Theorem C03_reductions : forall (minf pinf : T) (ofnat : nat -> T) t u0 k (es : list (expr (T:=T))),
  Forall (fresh t) es ->
  let st := reduce_active F minf pinf ofnat t k es in
  let s := reduce_spec F minf pinf ofnat (reduce_policy k) (xs_of F u0 es) in
  r_total st = fst s /\ r_pending st = [] /\ forall i, fwd_sweep O (r_tape st) u0 i = upd u0 t (snd s) i.
Proof.
  intros minf pinf ofnat t u0 k es Hf.
  exact (reduce_run_correct F minf pinf ofnat Rth Hdiv Hlit1 t u0 (reduce_policy k) es (generated_policies_wf k) Hf).
Qed.

(* the same reductions along one dimension of an active array (reduce_dimension): for every strip (result index r,
   elements es) the temporary `total` (index tt) is reduced and assigned to the result element.  The forward sweep of
   everything recorded sets, strip after strip, tt and r to the tangent of that strip's scalar loop and nothing else;
   the values stored are those of the loops.  No element may read tt or a result index (the result is resized first) *)
Theorem C03_reductions_along_a_dimension : forall (minf pinf : T) (ofnat : nat -> T) tt u0 k (strips : list (nat * list (expr (T:=T)))),
  (forall rs, In rs strips -> Forall (fresh tt) (snd rs)) ->
  (forall rs rs', In rs strips -> In rs' strips -> Forall (fresh (fst rs)) (snd rs')) ->
  (forall i, fwd_sweep O (reduce_dim_tape F minf pinf ofnat tt (reduce_policy k) strips) u0 i = dim_result F minf pinf ofnat tt (reduce_policy k) u0 strips i) /\
  reduce_dim_values F minf pinf ofnat tt (reduce_policy k) strips =
    map (fun rs => (fst rs, fst (reduce_spec F minf pinf ofnat (reduce_policy k) (xs_of F u0 (snd rs))))) strips.
Proof.
  intros minf pinf ofnat tt u0 k strips H1 H2.
  exact (reduce_dim_correct F minf pinf ofnat Rth Hdiv Hlit1 tt (reduce_policy k) u0 strips (generated_policies_wf k) H1 H2).
Qed.
End AnyRing.
Print Assumptions C03_element_partial.
Print Assumptions C03_elementwise_statement_partial.
Print Assumptions C03_reverse_partial.

Print Assumptions C03_reductions.
Print Assumptions C03_reductions_along_a_dimension.

(* the generated reduction policies: operations left pending by the accumulation are closed by a finish that is
   actually called (active_finish_needed), and extra_element_cost covers what the accumulation pushes beyond the
   element's own operations; with that, the operations pushed inside the element loop fit the single reservation
   (n_active + extra_element_cost) * n that reduce_active makes before it (shared with C09) *)
Theorem C03_reduction_policies : forall k,
  policy_wf (reduce_policy k) = true /\ (acc_extra (rp_acc (reduce_policy k)) <= rp_extra (reduce_policy k))%Z.
Proof. intros k. exact (conj (generated_policies_wf k) (generated_extra_cost k)). Qed.
Print Assumptions C03_reduction_policies.
Theorem C03_reduction_reservation : forall (T : Type) (F : FOps T) (minf pinf : T) t k (es : list (expr (T:=T))) na,
  Forall (fun e : expr (T:=T) => (n_active e <= na)%Z) es ->
  (Z.of_nat (ops_in_loop F minf pinf t (reduce_policy k) es) <= reduce_reservation na (rp_extra (reduce_policy k)) (Z.of_nat (length es)))%Z.
Proof. intros T F minf pinf t k es na. exact (loop_within_reservation F minf pinf t (reduce_policy k) es na (generated_extra_cost k)). Qed.
Print Assumptions C03_reduction_reservation.

(* the array-number arithmetic of every policy is the canonical one (a slip such as MyArrayNum for
   MyArrayNum+L::n_arrays breaks this), and noalias forwards unchanged numbers *)
Theorem C03_array_numbers : (forall k, let p := policy_of k in
  rule_at SL (p_left p) /\ rule_at SL (p_left_m p) /\ rule_at SR (p_right p) /\ rule_at SR (p_right_m p) /\ (0 <= p_store_result p <= 2)%Z) /\
  noalias_forwards = [(mkA 0, mkS 0 0 0); (mkA 0, mkS 0 0 0); (mkA 0, mkS 0 0 0); (mkA 0, mkS 0 0 0)].
Proof. split; [exact policies_canonical|exact noalias_is_transparent]. Qed.
Print Assumptions C03_array_numbers.

(* non-vacuity: T = X * (Y * Z) over the integers with X at 0.., Y at 3.., Z at 6.., T at 9..: Jacobian entry dT1/dY1 = X1*Z1 *)
Definition ZF3 : FOps Z := mkFOps Z ZOps (fun _ x => x) (fun _ x _ => x) (fun n d => Z.div n d).
Example C03_example :
  let e := ABin KMul (AArr (LAct 0 1)) (ABin KMul (AArr (LAct 3 1)) (AArr (LAct 6 1))) in
  let vals0 := fun i : nat => Z.of_nat (i + 2) in
  fst (aexec ZF3 9 1 3 e vals0) 10%nat = (3 * (6 * 9))%Z /\
  rev_sweep ZOps (snd (aexec ZF3 9 1 3 e vals0)) (unit_vec ZOps 10) 4%nat = (3 * 9)%Z /\
  rev_sweep ZOps (snd (aexec ZF3 9 1 3 e vals0)) (unit_vec ZOps 10) 1%nat = (6 * 9)%Z /\
  rev_sweep ZOps (snd (aexec ZF3 9 1 3 e vals0)) (unit_vec ZOps 10) 5%nat = 0%Z.
Proof. vm_compute. repeat split. Qed.

(* non-vacuity for the reductions, over the integers: elements x0*x1, x1, x2+x0 at (2,3,5) into variable 7, seeds (1,10,100):
   sum = 6+3+7 with tangent (3*1+2*10) + 10 + (100+1); product = 6*3*7 with tangent by the product rule *)
Example C03_example_reductions :
  let es := [XBin KMul (XAct 0%Z 2%Z) (XAct 1%Z 3%Z); XAct 1%Z 3%Z; XBin KAdd (XAct 2%Z 5%Z) (XAct 0%Z 2%Z)] in
  let u0 := fun i : nat => match i with O => 1 | S O => 10 | S (S O) => 100 | _ => 55 end%Z in
  Forall (fresh 7) es /\
  r_total (reduce_active ZF3 (-1000)%Z 1000%Z Z.of_nat 7 RSum es) = 16%Z /\
  fwd_sweep ZOps (r_tape (reduce_active ZF3 (-1000)%Z 1000%Z Z.of_nat 7 RSum es)) u0 7%nat = 134%Z /\
  r_total (reduce_active ZF3 (-1000)%Z 1000%Z Z.of_nat 7 RProduct es) = 126%Z /\
  fwd_sweep ZOps (r_tape (reduce_active ZF3 (-1000)%Z 1000%Z Z.of_nat 7 RProduct es)) u0 7%nat = (23 * 3 * 7 + 6 * 10 * 7 + 6 * 3 * 101)%Z /\
  r_total (reduce_active ZF3 (-1000)%Z 1000%Z Z.of_nat 7 RMaxVal es) = 7%Z /\
  fwd_sweep ZOps (r_tape (reduce_active ZF3 (-1000)%Z 1000%Z Z.of_nat 7 RMaxVal es)) u0 7%nat = 101%Z /\
  fwd_sweep ZOps (r_tape (reduce_active ZF3 (-1000)%Z 1000%Z Z.of_nat 7 RMaxVal es)) u0 3%nat = 55%Z.
Proof. vm_compute. repeat split; repeat constructor; discriminate. Qed.
