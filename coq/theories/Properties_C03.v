(* C03 — array-statement derivatives match those of the equivalent scalar loops.
   This file holds only the property theorems; each is closed by [exact] of a lemma and followed by Print Assumptions.
   Models: generated/Gen_Ops.v (tie G, shared with C01: template arguments MyArrayNum / MyScratchNum, multiplier
   expressions, the forwarding of noalias), Expr.v with array-element leaves (value and gradient index found at
   loc[array number]), ArrayStmt.v (hand model of the element loop of an active array assignment; tie H: ./check C03
   compares the Jacobian of generated element-wise statements with the extracted model).
   _partial: reductions, integer-vector indexing, where / either_or, spread, outer_product, dot_product, fixed-size
   targets and rank > 1 traversal are not in the model; for those the check compares every array statement of its
   catalogue directly with the scalar program it denotes (full Jacobians), which is a test, not a theorem. *)
From Coq Require Import ZArith List Ring_theory.
From Adept Require Import Scalar ExprDefs Expr ExprProofs Tape TapeAdjoint Program ProgramProofs ArrayStmt ArrayStmtProofs.
From AdeptGen Require Import Gen_Ops.
Import ListNotations.

Section AnyRing.
Context {T : Type} (F : FOps T).
Let O := fbase F.
Hypothesis Rth : ring_theory (o0 O) (o1 O) (oadd O) (omul O) (osub O) (oneg O) (@eq T).
Hypothesis Hdiv : forall x y, odiv O x y = omul O x (odiv O (o1 O) y).
Hypothesis Hlit1 : flit F 1 1 = o1 O.
Hypothesis eqb_true : forall a b, oeqb O a b = true -> a = b.

(* one element: an expression whose leaves are elements of arrays (any number of arrays, active or passive, nested
   anywhere in the tree) yields the value and the tangent of the scalar expression it denotes *)
Theorem C03_element_partial : forall vals u (e : aexp (T:=T)) i,
  fst (value_and_gradient F (ainst vals e i)) = sem F (instantiate vals (to_scalar e i)) /\
  dot_ops F (snd (value_and_gradient F (ainst vals e i))) u = tangent F u (instantiate vals (to_scalar e i)).
Proof. exact (element_correct F Rth Hdiv Hlit1). Qed.

(* the whole statement target(0..n-1) = e, for views of any stride: values and the action of the recorded tape on
   every seed are those of the scalar program  for i: target[i] = e[i] *)
Theorem C03_elementwise_statement_partial : forall tb ts n (e : aexp (T:=T)) vals0 u0,
  fst (aexec F tb ts n e vals0) = fst (dexec F (denoted tb ts n e) vals0 u0) /\
  fwd_sweep O (snd (aexec F tb ts n e vals0)) u0 = snd (dexec F (denoted tb ts n e) vals0 u0).
Proof. exact (aexec_forward F Rth Hdiv Hlit1). Qed.

(* reverse mode over the statement's tape: every output element w.r.t. every input element *)
Theorem C03_reverse_partial : forall N tb ts n (e : aexp (T:=T)) vals0 y x,
  Forall (wf_stmt N) (snd (aexec F tb ts n e vals0)) -> (y < N)%nat -> (x < N)%nat ->
  rev_sweep O (snd (aexec F tb ts n e vals0)) (unit_vec O y) x = snd (dexec F (denoted tb ts n e) vals0 (unit_vec O x)) y.
Proof. exact (areverse F Rth Hdiv Hlit1 eqb_true). Qed.
End AnyRing.
Print Assumptions C03_element_partial.
Print Assumptions C03_elementwise_statement_partial.
Print Assumptions C03_reverse_partial.

(* the array-number arithmetic of every policy is the canonical one (a slip such as MyArrayNum for
   MyArrayNum+L::n_arrays breaks this), and noalias forwards unchanged numbers *)
Theorem C03_array_numbers : (forall k, let p := policy_of k in
  rule_at SL (p_left p) /\ rule_at SL (p_left_m p) /\ rule_at SR (p_right p) /\ rule_at SR (p_right_m p) /\ (0 <= p_store_result p <= 2)%Z) /\
  noalias_forwards = [(mkA 0, mkS 0 0 0); (mkA 0, mkS 0 0 0); (mkA 0, mkS 0 0 0); (mkA 0, mkS 0 0 0)].
Proof. split; [exact policies_canonical|exact noalias_is_transparent]. Qed.
Print Assumptions C03_array_numbers.

(* non-vacuity: T = X * (Y * Z) over the integers with X at 0.., Y at 3.., Z at 6.., T at 9..: Jacobian entry dT1/dY1 = X1*Z1 *)
Definition ZF3 : FOps Z := mkFOps Z ZOps (fun _ x => x) (fun _ x _ => x) (fun n d => Z.div n d).
Example C03_example :
  let e := ABin KMul (AArr (LAct 0 1)) (ABin KMul (AArr (LAct 3 1)) (AArr (LAct 6 1))) in
  let vals0 := fun i : nat => Z.of_nat (i + 2) in
  fst (aexec ZF3 9 1 3 e vals0) 10%nat = (3 * (6 * 9))%Z /\
  rev_sweep ZOps (snd (aexec ZF3 9 1 3 e vals0)) (unit_vec ZOps 10) 4%nat = (3 * 9)%Z /\
  rev_sweep ZOps (snd (aexec ZF3 9 1 3 e vals0)) (unit_vec ZOps 10) 1%nat = (6 * 9)%Z /\
  rev_sweep ZOps (snd (aexec ZF3 9 1 3 e vals0)) (unit_vec ZOps 10) 5%nat = 0%Z.
Proof. vm_compute. repeat split. Qed.
