(* C20 — interpolation reproduces the piecewise-linear / nearest interpolant.
   Model Interp.v (include/adept/interp.h), theorems over the real numbers (InterpProofs.v).
   [chord t ya yb] is the row  ya + t (yb - ya).
   Tie G for interp2d / interp3d: interp_get_indices_weights is TRANSLATED from interp.h on every run (Gen_Interp.v: ordering
   test, in-range tests, search loops, weights of the three cases and both extrapolation policies, as expression trees) and
   proved equal to the hand model's index_weight for every scheme, policy, coordinate vector with at least two knots and
   query, over ANY scalar type (interp2d / interp3d reject shorter vectors with size_mismatch). *)
From Coq Require Import List Arith Reals.
From Adept Require Import Scalar Interp InterpProofs InterpDefs InterpGenProofs.
From AdeptGen Require Import Gen_Interp.
Import ListNotations.
Local Open Scope R_scope.

(* the binary search ends on two consecutive knots that bracket the query (both orders) *)
Theorem C20_bracket_increasing : forall x q, increasing x -> forall fuel jmin jmax,
  (jmin < jmax < length x)%nat -> (jmax - jmin <= fuel)%nat -> xs ROps x jmin < q <= xs ROps x jmax ->
  let '(a, b) := bisect ROps fuel true x q jmin jmax in
  b = S a /\ (jmin <= a)%nat /\ (b <= jmax)%nat /\ xs ROps x a < q <= xs ROps x b.
Proof. exact bisect_up. Qed.
Print Assumptions C20_bracket_increasing.
Theorem C20_bracket_decreasing : forall x q, decreasing x -> forall fuel jmin jmax,
  (jmin < jmax < length x)%nat -> (jmax - jmin <= fuel)%nat -> xs ROps x jmax <= q < xs ROps x jmin ->
  let '(a, b) := bisect ROps fuel false x q jmin jmax in
  b = S a /\ (jmin <= a)%nat /\ (b <= jmax)%nat /\ xs ROps x b <= q < xs ROps x a.
Proof. exact bisect_down. Qed.
Print Assumptions C20_bracket_decreasing.

(* inside the range: the chord of the bracketing interval, i.e. the piecewise-linear interpolant; any
   number of trailing dimensions (a row per knot) *)
Theorem C20_linear_inside : forall rc p x y c q, increasing x -> (2 <= length x)%nat ->
  xs ROps x 0 < q < xs ROps x (length x - 1) ->
  exists a, (S a < length x)%nat /\ xs ROps x a < q <= xs ROps x (S a) /\
    interp1_query ROps rc Linear p x y c q = chord ((q - xs ROps x a) / (xs ROps x (S a) - xs ROps x a)) (ys y a) (ys y (S a)).
Proof. exact interp1_inside_up. Qed.
Print Assumptions C20_linear_inside.
Theorem C20_linear_inside_decreasing : forall rc p x y c q, decreasing x -> (2 <= length x)%nat ->
  xs ROps x (length x - 1) < q < xs ROps x 0 ->
  exists a, (S a < length x)%nat /\ xs ROps x (S a) <= q < xs ROps x a /\
    interp1_query ROps rc Linear p x y c q = chord ((q - xs ROps x a) / (xs ROps x (S a) - xs ROps x a)) (ys y a) (ys y (S a)).
Proof. exact interp1_inside_down. Qed.
Print Assumptions C20_linear_inside_decreasing.

(* at every knot - first, interior, last - and for every extrapolation policy: the data value itself *)
Theorem C20_at_knots : forall rc p x y c k, increasing x -> (2 <= length x)%nat -> length x = length y -> rect y ->
  (k < length x)%nat -> interp1_query ROps rc Linear p x y c (xs ROps x k) = ys y k.
Proof. exact interp1_at_knot_up. Qed.
Print Assumptions C20_at_knots.

(* outside the range: linear continuation / clamped end value / the constant *)
Theorem C20_extrapolate_left : forall rc p x y c q, increasing x -> (2 <= length x)%nat -> q < xs ROps x 0 ->
  interp1_query ROps rc Linear p x y c q =
  match p with
  | PLinear => chord ((q - xs ROps x 0) / (xs ROps x 1 - xs ROps x 0)) (ys y 0) (ys y 1)
  | PClamp => ys y 0
  | PConstant => const_row y c
  end.
Proof. exact interp1_left_up. Qed.
Print Assumptions C20_extrapolate_left.
Theorem C20_extrapolate_right : forall rc p x y c q, increasing x -> (2 <= length x)%nat -> xs ROps x (length x - 1) < q ->
  interp1_query ROps rc Linear p x y c q =
  match p with
  | PLinear => chord ((q - xs ROps x (length x - 2)) / (xs ROps x (length x - 1) - xs ROps x (length x - 2)))
                     (ys y (length x - 2)) (ys y (length x - 1))
  | PClamp => ys y (length x - 1)
  | PConstant => const_row y c
  end.
Proof. exact interp1_right_up. Qed.
Print Assumptions C20_extrapolate_right.

(* interp2d / interp3d: the index/weight pair of each dimension brackets the query, the weight lies in
   [0,1], and  w*ya + (1-w)*yb  is the same chord, so the result is the tensor-product interpolant *)
Theorem C20_weights : forall p x q, increasing x -> (2 <= length x)%nat -> xs ROps x 0 <= q <= xs ROps x (length x - 1) ->
  let '(j, w, v) := index_weight ROps Linear p x q in
  v = true /\ (j + 2 <= length x)%nat /\ xs ROps x j <= q <= xs ROps x (S j) /\ 0 <= w <= 1 /\
  w = (xs ROps x (S j) - q) / (xs ROps x (S j) - xs ROps x j).
Proof. exact index_weight_inside_up. Qed.
Print Assumptions C20_weights.
Theorem C20_weight_is_chord : forall (xa xb q : R) (ya yb : row (T:=R)), xa <> xb ->
  row_add ROps (row_scale ROps ((xb - q) / (xb - xa)) ya) (row_scale ROps (one_minus ROps ((xb - q) / (xb - xa))) yb)
  = chord ((q - xa) / (xb - xa)) ya yb.
Proof. exact weight_chord. Qed.
Print Assumptions C20_weight_is_chord.

(* option words: scheme in the upper bits, policy in the low four; NEAREST+LINEAR and unknown codes rejected *)
Example C20_options :
  decode 0 = Ok (Linear, PLinear) /\ decode 16 = Ok (Nearest, PClamp) /\ decode 17 = ArrayException /\
  decode 3 = Ok (Linear, PConstant) /\ decode 4 = ArrayException /\ decode 32 = ArrayException /\ decode 18 = Ok (Nearest, PClamp).
Proof. vm_compute. repeat split. Qed.

(* tie G: the translated interp_get_indices_weights is the model's [index_weight] (which interp2d_query / interp3d_query use) *)
Theorem C20_generated_indices_weights : forall (T : Type) (Op : Ops T) s p (x : list T) q, (2 <= length x)%nat ->
  iw_eval Op iw_table s p x q = index_weight Op s p x q.
Proof. exact @generated_index_weight. Qed.
Print Assumptions C20_generated_indices_weights.
