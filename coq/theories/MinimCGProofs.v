(* C18: what the line search and the conjugate-gradient drivers guarantee for EVERY cost function and gradient (Section
   variables without hypotheses), start, box and setting.  As in MinimProofs.v the scalars are only assumed totally
   pre-ordered.  [inbox lo hi x] is "every component of x lies between the corresponding bounds" (the condition [within] of
   MinimProofs.v without its clause on the length, which the truncating list operations of the model make irrelevant). *)
From Coq Require Import List Bool ZArith Lia.
From Adept Require Import Scalar Minim MinimProofs MinimCG.
Import ListNotations.
Local Open Scope Z_scope.

Section MinimCGProofs.
Context {T : Type} (O : Ops T).
Variable cost : list T -> T.
Variable grad : list T -> list T.
Variable norm2 : list T -> T.
Variable osqrt : T -> T.
Variable isfinite : T -> bool.
Hypothesis le_total : forall a b, oleb O a b = true \/ oleb O b a = true.
Hypothesis le_trans : forall a b c, oleb O a b = true -> oleb O b c = true -> oleb O a c = true.
Hypothesis lt_le : forall a b, oltb O a b = negb (oleb O b a).

Notation le_refl := (le_refl O le_total).
Lemma lt_irrefl a : oltb O a a = false.
Proof. rewrite lt_le, le_refl. reflexivity. Qed.

(* ---- the box, list-wise *)
Inductive inbox : list T -> list T -> list T -> Prop :=
| inbox_nil lo hi : inbox lo hi []
| inbox_cons l h v lo hi x : oleb O l v = true -> oleb O v h = true -> inbox lo hi x -> inbox (l :: lo) (h :: hi) (v :: x).
Definition box_le (lo hi : list T) : Prop := Forall2 (fun l h => oleb O l h = true) lo hi.
Lemma inbox_clamp lo hi t : box_le lo hi -> inbox lo hi (clamp O lo hi t).
Proof.
  intros Hb. revert t. induction Hb as [|l h lo hi Hlh Hb IH]; intros t; [destruct t; constructor|].
  destruct t as [|v t]; [constructor|]. cbn. destruct (clamp1_in O le_total lt_le l h v Hlh) as [H1 H2]. constructor; [exact H1|exact H2|apply IH].
Qed.
Lemma inbox_set_nth_hi lo hi x i : box_le lo hi -> inbox lo hi x -> inbox lo hi (set_nth i (nth i hi (o0 O)) x).
Proof.
  intros Hb Hx. revert i. induction Hx as [lo hi|l h v lo hi x H1 H2 Hx IH]; intros i; [destruct i; cbn; apply inbox_nil|].
  inversion Hb as [|? ? ? ? Hlh Hb']; subst. destruct i as [|i]; cbn.
  - constructor; [exact Hlh|apply le_refl|exact Hx].
  - constructor; [exact H1|exact H2|apply IH; exact Hb'].
Qed.
Lemma inbox_set_nth_lo lo hi x i : box_le lo hi -> inbox lo hi x -> inbox lo hi (set_nth i (nth i lo (o0 O)) x).
Proof.
  intros Hb Hx. revert i. induction Hx as [lo hi|l h v lo hi x H1 H2 Hx IH]; intros i; [destruct i; cbn; apply inbox_nil|].
  inversion Hb as [|? ? ? ? Hlh Hb']; subst. destruct i as [|i]; cbn.
  - constructor; [apply le_refl|exact Hlh|exact Hx].
  - constructor; [exact H1|exact H2|apply IH; exact Hb'].
Qed.

Lemma inbox_snap_all lo hi k x bs : box_le lo hi -> inbox lo hi x -> inbox lo hi (fst (fst (fst (snap_all O k lo hi x bs)))).
Proof.
  intros Hbox Hx. revert bs. induction Hx as [lo hi|l h v lo hi x H1 H2 Hx IH]; intros bs; [cbn [snap_all fst]; apply inbox_nil|].
  inversion Hbox as [|? ? ? ? Hlh Hb']; subst. destruct bs as [|b bs]; [cbn [snap_all fst]; constructor; assumption|].
  cbn [snap_all]. specialize (IH Hb' bs). destruct (snap_all O k lo hi x bs) as [[[xs bss] ah] ac]. cbn in IH.
  unfold snap1. destruct (b =? 0); [|cbn; constructor; assumption].
  destruct (oleb O (osub O h v) _); [destruct (oeqb O v h); cbn; constructor; try assumption; apply le_refl|].
  destruct (oleb O (osub O v l) _); [destruct (oeqb O v l)|]; cbn; constructor; try assumption; apply le_refl.
Qed.
Lemma snap_all_unchanged lo hi k x bs : snd (snap_all O k lo hi x bs) = false -> fst (fst (fst (snap_all O k lo hi x bs))) = x.
Proof.
  revert lo hi bs. induction x as [|v x IH]; intros lo hi bs; [reflexivity|].
  destruct lo as [|l lo], hi as [|h hi], bs as [|b bs]; try reflexivity.
  cbn [snap_all]. specialize (IH lo hi bs). destruct (snap_all O k lo hi x bs) as [[[xs bss] ah] ac]. cbn in IH.
  unfold snap1. destruct (b =? 0); [|cbn; intros H; rewrite IH by exact H; reflexivity].
  destruct (oleb O (osub O h v) _).
  { destruct (oeqb O v h); cbn; [intros H; rewrite IH by exact H; reflexivity|discriminate]. }
  destruct (oleb O (osub O v l) _); [destruct (oeqb O v l)|]; cbn; try discriminate; intros H; rewrite IH by exact H; reflexivity.
Qed.

(* ================= the line search ================= *)
Section LS.
Variables (s : cgsettings (T:=T)) (k : consts (T:=T)) (bnd : option (list T * list T)) (x dir : list T) (step0 curv bound_step cost_fn0 : T).
Variable good : list T -> Prop.
Hypothesis good_x : good x.
Hypothesis good_pt : forall ds ss, good (point O bnd x dir ds ss).
Hypothesis cost0 : cost_fn0 = cost x.
Notation ds := (odiv O (o1 O) (norm2 dir)).
Notation gcheck := (gradient_check O cost grad isfinite s bnd x dir).
Notation pt := (point O bnd x dir ds).

Lemma gc_spec final ss grad0 cv : forall gc tx, gcheck final ss grad0 ds cost_fn0 cv = (gc, tx) ->
  tx = pt ss /\ gc_cf gc = cost tx /\ gc_gradient gc = grad tx
  /\ (gc_status gc = MSuccess -> gc_x gc = tx /\ gc_cost_fn gc = cost tx)
  /\ (gc_status gc <> MSuccess -> gc_x gc = x /\ gc_cost_fn gc = cost_fn0).
Proof.
  intros gc tx. unfold gradient_check.
  destruct (negb (isfinite _)); [|destruct (any_nonfinite _ _); [|destruct (_ && _)]]; intros E; inversion E; subst; cbn;
    (split; [reflexivity|split; [reflexivity|split; [reflexivity|split; [intros Hs; try discriminate Hs; split; reflexivity|intros Hn; try (contradiction Hn; reflexivity); split; reflexivity]]]]).
Qed.

Definition inv (st : ls_st (T:=T)) : Prop :=
  Forall good (l_log st)
  /\ ((l_ss1 st = o0 O /\ l_cf1 st = cost_fn0) \/ l_cf1 st = cost (pt (l_ss1 st)))
  /\ (l_cf2 st = cost (pt (l_ss2 st)) \/ l_cf2 st = l_cf1 st).
Definition strong (st : ls_st (T:=T)) : Prop := l_cf2 st = cost (pt (l_ss2 st)).
(* what every exit of the line search guarantees: only good states were evaluated, the state left in x is good, and the
   cost left in cost_function_ is the cost of that state *)
Definition post (o : ls_out (T:=T)) : Prop := Forall good (ls_log o) /\ good (ls_x o) /\ ls_cost_fn o = cost (ls_x o).

Lemma moved_cf1 st : inv st -> oltb O (o0 O) (l_ss1 st) = true -> l_cf1 st = cost (pt (l_ss1 st)).
Proof. intros (_ & [[E _]|E] & _) H; [rewrite E, lt_irrefl in H; discriminate|exact E]. Qed.

Lemma bracket_spec itr : forall grad0 st, inv st ->
  match bracket O cost grad norm2 isfinite s k bnd x dir step0 curv bound_step cost_fn0 itr grad0 st with
  | BrDone o => post o | BrBracket itr' st' => inv st' /\ (itr' <> 0%nat -> strong st') end.
Proof.
  induction itr as [|itr IH]; intros grad0 st Hinv; [split; [exact Hinv|intros H; contradiction H; reflexivity]|].
  cbn [bracket]. destruct (gcheck step0 (l_ss2 st) grad0 ds cost_fn0 curv) as [gc tx] eqn:Egc.
  destruct (gc_spec _ _ _ _ _ _ Egc) as (Htx & Hcf & Hgr & Hs & Hn).
  assert (Hlog : Forall good (l_log st ++ [tx])) by (apply Forall_app; split; [apply Hinv|constructor; [rewrite Htx; apply good_pt|constructor]]).
  destruct (gc_status gc) eqn:Est;
    try (destruct (oltb O (o0 O) (l_ss1 st)) eqn:E1; unfold post; cbn; [exact (conj Hlog (conj (good_pt _ _) (moved_cf1 st Hinv E1)))|exact (conj Hlog (conj good_x cost0))]).
  - (* Wolfe conditions met *)
    destruct (Hs eq_refl) as [Hx Hc]. unfold post; cbn. rewrite Hx, Hc. refine (conj Hlog (conj _ eq_refl)). rewrite Htx. apply good_pt.
  - (* not yet converged *)
    assert (E2 : gc_cf gc = cost (pt (l_ss2 st))) by (rewrite Hcf, Htx; reflexivity).
    destruct (oltb O (o0 O) (gc_gd gc) || oleb O (l_cf1 st) (gc_cf gc)).
    + split; [|intros _; exact E2]. unfold inv; cbn. exact (conj Hlog (conj (proj1 (proj2 Hinv)) (or_introl E2))).
    + destruct (l_at_bound st).
      * unfold post; cbn. exact (conj Hlog (conj (good_pt _ _) E2)).
      * destruct (is_bound_step O bound_step && _); apply IH; unfold inv; cbn; exact (conj Hlog (conj (or_intror E2) (or_intror eq_refl))).
Qed.

Lemma refine_spec itr : forall grad0 st, inv st -> (itr <> 0%nat -> strong st) ->
  post (refine O cost grad norm2 osqrt isfinite s k bnd x dir step0 curv cost_fn0 itr grad0 cost_fn0 st).
Proof.
  induction itr as [|itr IH]; intros grad0 st Hinv Hstrong.
  - cbn [refine]. destruct Hinv as (Hlog & H1 & H2).
    destruct (oltb O (l_cf2 st) (l_cf1 st)) eqn:E21.
    + unfold post; cbn. refine (conj Hlog (conj (good_pt _ _) _)). destruct H2 as [H2|H2]; [exact H2|rewrite H2, lt_irrefl in E21; discriminate].
    + destruct (oltb O (l_cf1 st) cost_fn0) eqn:E10; unfold post; cbn.
      * refine (conj Hlog (conj (good_pt _ _) _)). destruct H1 as [[_ H1]|H1]; [rewrite H1, lt_irrefl in E10; discriminate|exact H1].
      * exact (conj Hlog (conj good_x cost0)).
  - specialize (Hstrong ltac:(discriminate)). cbn [refine]. destruct (oleb O (l_ss2 st) (l_ss1 st)).
    { destruct Hinv as (Hlog & H1 & H2). destruct (oltb O (l_cf1 st) cost_fn0) eqn:E10; unfold post; cbn.
      - refine (conj Hlog (conj (good_pt _ _) _)). destruct H1 as [[_ H1]|H1]; [rewrite H1, lt_irrefl in E10; discriminate|exact H1].
      - exact (conj Hlog (conj good_x cost0)). }
    match goal with |- context [gcheck step0 ?e grad0 ds cost_fn0 curv] => set (ss3 := e) end.
    destruct (gcheck step0 ss3 grad0 ds cost_fn0 curv) as [gc tx] eqn:Egc.
    destruct (gc_spec _ _ _ _ _ _ Egc) as (Htx & Hcf & Hgr & Hs & Hn).
    destruct Hinv as (Hlog0 & H1 & H2).
    assert (Hlog : Forall good (l_log st ++ [tx])) by (apply Forall_app; split; [exact Hlog0|constructor; [rewrite Htx; apply good_pt|constructor]]).
    destruct (gc_status gc) eqn:Est;
      try (destruct (oltb O (o0 O) (l_ss1 st)) eqn:E1; unfold post; cbn; [exact (conj Hlog (conj (good_pt _ _) (moved_cf1 st (conj Hlog0 (conj H1 H2)) E1)))|exact (conj Hlog (conj good_x cost0))]).
    + destruct (Hs eq_refl) as [Hx Hc]. unfold post; cbn. rewrite Hx, Hc. refine (conj Hlog (conj _ eq_refl)). rewrite Htx. apply good_pt.
    + assert (E3 : gc_cf gc = cost (pt ss3)) by (rewrite Hcf, Htx; reflexivity).
      destruct (oltb O (o0 O) (gc_gd gc)); [|destruct (oltb O (gc_cf gc) (l_cf1 st))]; apply IH; unfold inv, strong; cbn; try (intros _; first [exact E3|exact Hstrong]).
      * exact (conj Hlog (conj H1 (or_introl E3))).
      * exact (conj Hlog (conj (or_intror E3) (or_introl Hstrong))).
      * exact (conj Hlog (conj H1 (or_introl E3))).
Qed.

Theorem line_search_spec gradient utd samples log : Forall good log ->
  post (line_search O cost grad norm2 osqrt isfinite s k bnd x dir step0 curv bound_step cost_fn0 gradient utd samples log).
Proof.
  intros Hlog. unfold line_search. destruct (oleb O (o0 O) _); [exact (conj Hlog (conj good_x cost0))|].
  destruct (is_bound_step O bound_step && _);
  (match goal with |- context [bracket _ _ _ _ _ _ _ _ _ _ _ _ _ _ _ ?g0 ?st0] => pose proof (bracket_spec (g_max_ls s) g0 st0) as Hb end;
   match type of Hb with ?P -> _ => assert (Hi : P) by (unfold inv; cbn; exact (conj Hlog (conj (or_introl (conj eq_refl eq_refl)) (or_intror eq_refl)))) end;
   specialize (Hb Hi); destruct (bracket _ _ _ _ _ _ _ _ _ _ _ _ _ _ _ _ _) as [o|itr st]; [exact Hb|destruct Hb as [Hb1 Hb2]; apply refine_spec; assumption]).
Qed.
End LS.

Lemma combine_box_le lo hi : length lo = length hi -> existsb (fun p : T * T => oleb O (snd p) (fst p)) (combine lo hi) = false -> box_le lo hi.
Proof.
  revert hi. induction lo as [|l lo IH]; intros [|h hi] Hlen Hex; cbn in *; try discriminate; [constructor|].
  apply orb_false_iff in Hex. destruct Hex as [E1 E2]. constructor; [destruct (le_total l h) as [E|E]; [exact E|congruence]|apply IH; [lia|exact E2]].
Qed.
Lemma valid_bounds_box_le lo hi x : valid_bounds O lo hi x = true -> box_le lo hi.
Proof.
  unfold valid_bounds. intros H. apply andb_true_iff in H. destruct H as [H H3]. apply andb_true_iff in H. destruct H as [H1 H2].
  apply Nat.eqb_eq in H2. apply Nat.eqb_eq in H3. apply negb_true_iff in H1. apply combine_box_le; [lia|exact H1].
Qed.

(* ================= the bounded conjugate-gradient driver ================= *)
Variables lo hi : list T.
Hypothesis Hbox : box_le lo hi.
(* ASSUMPTION of the model (as SInvokeFree in MinimFlow.v): when no component of the direction points to a finite bound
   (no nearest bound is found), the line search without bounds cannot leave the box *)
Hypothesis free_ok : forall k ds x dir, inbox lo hi x -> snd (fst (nearest_bound O k ds x lo hi dir 0 (cbig k, -1, 0))) < 0 ->
  forall ds' ss, inbox lo hi (point O None x dir ds' ss).
Notation ev_ok := (Forall (fun e : event (T:=T) => inbox lo hi (ev_state e))).

Definition cinv (q : cg_state (T:=T)) : Prop :=
  inbox lo hi (q_x q) /\ ev_ok (q_log q) /\ 0 <= q_it q /\ (1 <= q_utd q -> q_cost q = cost (q_x q)).
Definition cpost (s : cgsettings (T:=T)) (it0 : Z) (r : result (T:=T)) : Prop :=
  ev_ok (r_log r) /\ inbox lo hi (r_x r) /\ (r_status r <> MOutOfFuel -> r_cost r = cost (r_x r))
  /\ (it0 <= r_iter r /\ (it0 < g_max_it s -> r_iter r <= g_max_it s)).

Lemma finish_post s st q it0 : inbox lo hi (q_x q) -> ev_ok (q_log q) -> q_cost q = cost (q_x q) ->
  it0 <= q_it q -> (it0 < g_max_it s -> q_it q <= g_max_it s) -> cpost s it0 (cg_finish cost s st q).
Proof.
  intros Hx Hl Hc Hi1 Hi2. unfold cg_finish, cg_refresh.
  destruct (q_utd q <? g_ensure s); [destruct (0 <? g_ensure s)|]; unfold cpost; cbn;
    (refine (conj _ (conj Hx (conj (fun _ => _) (conj Hi1 Hi2)))); [try (apply Forall_app; split; [exact Hl|constructor; [exact Hx|constructor]]); exact Hl|first [reflexivity|exact Hc]]).
Qed.

Lemma ev_states_ok l : Forall (inbox lo hi) l -> ev_ok (ev_states l).
Proof. intros H. unfold ev_states. induction H; cbn; constructor; assumption. Qed.

Definition step_post (s : cgsettings (T:=T)) (it : Z) (r : result (T:=T) + cg_state (T:=T)) : Prop :=
  match r with inl r => cpost s it r | inr q' => cinv q' /\ q_it q' = it + 1 /\ q_it q' < g_max_it s end.

Lemma after_ls_spec s k q2 bs1 g dir last_restart inear itype log1 gn o :
  post (inbox lo hi) o -> ev_ok log1 -> 0 <= q_it q2 ->
  step_post s (q_it q2) (cg_after_ls O cost s k lo hi q2 bs1 g dir last_restart inear itype log1 gn o).
Proof.
  intros (Ho1 & Ho2 & Ho3) Hl1 Hit. unfold cg_after_ls.
  set (reached := match ls_status o with MBoundReached => true | _ => false end).
  set (i := Z.to_nat inear).
  set (xb := if 0 <? itype then nth i hi (o0 O) else nth i lo (o0 O)).
  set (changed := reached && negb (oeqb O (nth i (ls_x o) (o0 O)) xb)).
  set (x3 := if changed then set_nth i xb (ls_x o) else ls_x o).
  assert (Hx3 : inbox lo hi x3).
  { unfold x3. destruct changed; [|exact Ho2]. unfold xb. destruct (0 <? itype); [apply inbox_set_nth_hi|apply inbox_set_nth_lo]; assumption. }
  set (bs3 := if reached then set_nth i itype bs1 else bs1).
  pose proof (inbox_snap_all lo hi k x3 bs3 Hbox Hx3) as Hx4.
  pose proof (snap_all_unchanged lo hi k x3 bs3) as Hun.
  destruct (snap_all O k lo hi x3 bs3) as [[[x4 bs4] anyhit] anychg]. cbn [fst snd] in Hx4, Hun.
  set (placed := changed || anychg).
  set (cost4 := if placed then cost x4 else ls_cost_fn o).
  assert (Hc4 : cost4 = cost x4).
  { unfold cost4, placed. destruct changed eqn:Ech; cbn [orb]; [reflexivity|]. destruct anychg; [reflexivity|]. rewrite (Hun eq_refl). unfold x3. exact Ho3. }
  set (log2 := log1 ++ ev_states (ls_log o)).
  assert (Hl2 : ev_ok log2) by (apply Forall_app; split; [exact Hl1|apply ev_states_ok; exact Ho1]).
  set (log3 := if placed then log2 ++ [EvCost x4] else log2).
  assert (Hl3 : ev_ok log3) by (unfold log3; destruct placed; [apply Forall_app; split; [exact Hl2|constructor; [exact Hx4|constructor]]|exact Hl2]).
  match goal with |- step_post _ _ (let '(status, restart5) := ?p in _) => destruct p as [status restart5] end.
  set (it' := q_it q2 + 1).
  match goal with |- step_post _ _ (match ?st' with MNotYetConverged => inr ?q3 | _ => _ end) => set (q3' := q3); set (stf := st') end.
  assert (Hfin : forall st'', cpost s (q_it q2) (cg_finish cost s st'' q3')).
  { intros st''. apply finish_post; cbn; try assumption; unfold it'; lia. }
  destruct stf eqn:Est'; cbn [step_post]; try apply Hfin.
  unfold stf in Est'. destruct status; try discriminate Est'. destruct (g_max_it s <=? it') eqn:Emax; try discriminate Est'. apply Z.leb_gt in Emax.
    refine (conj _ (conj eq_refl Emax)). unfold cinv; cbn. refine (conj Hx4 (conj Hl3 (conj _ (fun _ => Hc4)))). unfold it'. lia.
Qed.

Lemma search_spec s k fr nx q2 bs1 g cf gn restart1 log1 : inbox lo hi (q_x q2) -> cf = cost (q_x q2) -> ev_ok log1 -> 0 <= q_it q2 ->
  step_post s (q_it q2) (cg_search O cost grad norm2 osqrt isfinite s k fr lo hi nx q2 bs1 g cf gn restart1 log1).
Proof.
  intros Hx Hcf Hl1 Hit. unfold cg_search.
  match goal with |- context [nearest_bound O k (norm2 ?d) (q_x q2) lo hi _ 0 _] => set (dir := d) end.
  destruct (nearest_bound O k (norm2 dir) (q_x q2) lo hi dir 0 (cbig k, -1, 0)) as [[bstep inear] itype] eqn:Enb.
  apply after_ls_spec; [|exact Hl1|exact Hit].
  destruct (Z.leb_spec 0 inear) as [Ei|Ei].
  - apply (line_search_spec s k (Some (lo, hi)) (q_x q2) dir (q_step q2) (g_curv s) bstep cf (inbox lo hi));
      [exact Hx|intros ds' ss; cbn; apply inbox_clamp; exact Hbox|exact Hcf|constructor].
  - apply (line_search_spec s k None (q_x q2) dir (q_step q2) (g_curv s) (oneg O (o1 O)) cf (inbox lo hi));
      [exact Hx|intros ds' ss; apply (free_ok k (norm2 dir)); [exact Hx|rewrite Enb; cbn; exact Ei]|exact Hcf|constructor].
Qed.

Lemma step_spec s k fr nx q : cinv q -> step_post s (q_it q) (cg_step O cost grad norm2 osqrt isfinite s k fr lo hi nx q).
Proof.
  intros (Hx & Hl & Hit & Hc). unfold cg_step.
  set (need := q_utd q <? 1).
  set (cf := if need then cost (q_x q) else q_cost q).
  assert (Hcf : cf = cost (q_x q)).
  { unfold cf, need. destruct (Z.ltb_spec (q_utd q) 1) as [_|E]; [reflexivity|apply Hc; exact E]. }
  set (g0 := if need then grad (q_x q) else q_gradient q).
  set (q1 := if need then _ else q).
  assert (H1 : q_x q1 = q_x q /\ ev_ok (q_log q1) /\ q_it q1 = q_it q /\ (need = true -> q_cost q1 = cf)).
  { unfold q1. destruct need; cbn; [|repeat split; try assumption; discriminate].
    repeat split; try reflexivity. apply Forall_app. split; [exact Hl|constructor; [exact Hx|constructor]]. }
  destruct H1 as (H1x & H1l & H1i & H1c).
  destruct (need && negb (isfinite cf)) eqn:Ea.
  { apply andb_true_iff in Ea. destruct Ea as [Ea _]. cbn [step_post]. apply finish_post; rewrite ?H1x, ?H1i; try assumption; try lia.
    rewrite (H1c Ea). exact Hcf. }
  destruct (need && any_nonfinite isfinite g0) eqn:Eb.
  { apply andb_true_iff in Eb. destruct Eb as [Eb _]. cbn [step_post]. apply finish_post; rewrite ?H1x, ?H1i; try assumption; try lia.
    rewrite (H1c Eb). exact Hcf. }
  set (rel := can_release O (q_bs q1) g0).
  set (bs1 := if rel then release1 O (q_bs q1) g0 else q_bs q1).
  set (g := zero_bound O bs1 g0).
  set (gn := if 0 <? Z.of_nat (length bs1) - count_bound bs1 then norm2 g else o0 O).
  set (log1 := q_log q1 ++ [EvProgress (q_it q1) (q_x q1) cf gn]).
  assert (Hl1 : ev_ok log1) by (apply Forall_app; split; [exact H1l|constructor; [cbn; rewrite H1x; exact Hx|constructor]]).
  destruct (oleb O gn (g_thr s)).
  { cbn [step_post]. apply finish_post; cbn; rewrite ?H1x, ?H1i; try assumption; try lia. }
  match goal with |- step_post _ _ (cg_search _ _ _ _ _ _ _ _ _ _ _ _ ?q2 _ _ _ _ _ _) => set (q2' := q2) end.
  assert (E2 : q_it q2' = q_it q) by (cbn; exact H1i). rewrite <- E2.
  apply search_spec; cbn; rewrite ?H1x, ?H1i; assumption.
Qed.

Lemma cgb_loop_spec fuel : forall s k fr nx q, cinv q ->
  cpost s (q_it q) (cgb_loop O cost grad norm2 osqrt isfinite fuel s k fr lo hi nx q).
Proof.
  induction fuel as [|fuel IH]; intros s k fr nx q Hq.
  - destruct Hq as (Hx & Hl & Hit & Hc). cbn. unfold cpost, cg_result; cbn.
    refine (conj Hl (conj Hx (conj _ (conj (Z.le_refl _) (fun H => Z.lt_le_incl _ _ H))))). intros H; contradiction H; reflexivity.
  - cbn [cgb_loop]. pose proof (step_spec s k fr nx q Hq) as Hs.
    destruct (cg_step O cost grad norm2 osqrt isfinite s k fr lo hi nx q) as [r|q']; [exact Hs|].
    destruct Hs as (Hq' & Ei & Em). destruct (IH s k fr nx q' Hq') as (R1 & R2 & R3 & R4 & R5).
    unfold cpost. refine (conj R1 (conj R2 (conj R3 (conj _ _)))); [lia|intros _; apply R5; exact Em].
Qed.

Theorem cg_bounded_spec fuel s k fr x m1 inf : valid_bounds O lo hi x = true ->
  let r := cg_bounded O cost grad norm2 osqrt isfinite fuel s k fr lo hi x m1 inf in
  ev_ok (r_log r) /\ inbox lo hi (r_x r) /\ (r_status r <> MOutOfFuel -> r_cost r = cost (r_x r)) /\ (0 < g_max_it s -> 0 <= r_iter r <= g_max_it s).
Proof.
  intros Hv r. unfold r, cg_bounded. rewrite Hv. cbn [negb].
  match goal with |- context [cgb_loop _ _ _ _ _ _ fuel s k fr lo hi ?nx ?q0] => pose proof (cgb_loop_spec fuel s k fr nx q0) as H end.
  cbn [q_it] in H. destruct H as (R1 & R2 & R3 & R4 & R5).
  - unfold cinv; cbn. refine (conj (inbox_clamp lo hi x Hbox) (conj (Forall_nil _) (conj (Z.le_refl 0) _))). intros E; lia.
  - refine (conj R1 (conj R2 (conj R3 _))). intros Hm. split; [exact R4|apply R5; exact Hm].
Qed.
Theorem cg_bounded_invalid fuel s k fr x m1 inf : valid_bounds O lo hi x = false ->
  let r := cg_bounded O cost grad norm2 osqrt isfinite fuel s k fr lo hi x m1 inf in r_status r = MInvalidBounds /\ r_log r = [] /\ r_x r = x.
Proof. intros Hv. unfold cg_bounded. rewrite Hv. cbn. repeat split. Qed.

(* ================= the unbounded conjugate-gradient driver: reported cost and iteration count ================= *)
Definition uinv (q : cg_state (T:=T)) : Prop := 0 <= q_it q /\ (1 <= q_utd q -> q_cost q = cost (q_x q)).
Definition upost (s : cgsettings (T:=T)) (it0 : Z) (r : result (T:=T)) : Prop :=
  (r_status r <> MOutOfFuel -> r_cost r = cost (r_x r)) /\ (it0 <= r_iter r /\ (it0 < g_max_it s -> r_iter r <= g_max_it s)).
Definition ustep_post (s : cgsettings (T:=T)) (it : Z) (r : result (T:=T) + cg_state (T:=T)) : Prop :=
  match r with inl r => upost s it r | inr q' => uinv q' /\ q_it q' = it + 1 /\ q_it q' < g_max_it s end.
Lemma ufinish_post s st q it0 : q_cost q = cost (q_x q) -> it0 <= q_it q -> (it0 < g_max_it s -> q_it q <= g_max_it s) -> upost s it0 (cg_finish cost s st q).
Proof.
  intros Hc Hi1 Hi2. unfold cg_finish, cg_refresh.
  destruct (q_utd q <? g_ensure s); [destruct (0 <? g_ensure s)|]; unfold upost; cbn; (refine (conj (fun _ => _) (conj Hi1 Hi2)); first [reflexivity|exact Hc]).
Qed.
Lemma cgu_step_spec s k fr nx q : uinv q -> ustep_post s (q_it q) (cgu_step O cost grad norm2 osqrt isfinite s k fr nx q).
Proof.
  intros (Hit & Hc). unfold cgu_step.
  set (need := q_utd q <? 1).
  set (cf := if need then cost (q_x q) else q_cost q).
  assert (Hcf : cf = cost (q_x q)).
  { unfold cf, need. destruct (Z.ltb_spec (q_utd q) 1) as [_|E]; [reflexivity|apply Hc; exact E]. }
  set (g := if need then grad (q_x q) else q_gradient q).
  set (start := if q_it q =? 0 then cf else q_start q).
  destruct (negb (isfinite cf)); [cbn [ustep_post]; apply ufinish_post; cbn; [exact Hcf|lia|lia]|].
  destruct (any_nonfinite isfinite g); [cbn [ustep_post]; apply ufinish_post; cbn; [exact Hcf|lia|lia]|].
  destruct (oleb O (norm2 g) (g_thr s)); [cbn [ustep_post]; apply ufinish_post; cbn; [exact Hcf|lia|lia]|].
  cbn [q_x q_it q_step q_utd q_samples q_last_restart q_start q_prev q_dir q_restart].
  match goal with |- context [line_search O cost grad norm2 osqrt isfinite s k None (q_x q) ?d] => set (dir := d) end.
  set (o := line_search O cost grad norm2 osqrt isfinite s k None (q_x q) dir (q_step q) (g_curv s) (oneg O (o1 O)) cf g 1 _ []).
  assert (Ho : post (fun _ : list T => True) o).
  { apply (line_search_spec s k None (q_x q) dir (q_step q) (g_curv s) (oneg O (o1 O)) cf (fun _ => True)); [exact I|intros; exact I|exact Hcf|constructor]. }
  destruct Ho as (_ & _ & Ho3).
  match goal with |- ustep_post _ _ (let '(status, restart5) := ?p in _) => destruct p as [status restart5] end.
  set (it' := q_it q + 1).
  match goal with |- ustep_post _ _ (match ?st' with MNotYetConverged => inr ?q3 | _ => _ end) => set (q3' := q3); set (stf := st') end.
  assert (Hfin : forall st'', upost s (q_it q) (cg_finish cost s st'' q3')).
  { intros st''. apply ufinish_post; cbn; [exact Ho3|unfold it'; lia|unfold it'; lia]. }
  destruct stf eqn:Est'; cbn [ustep_post]; try apply Hfin.
  unfold stf in Est'. destruct status; try discriminate Est'. destruct (g_max_it s <=? it') eqn:Emax; try discriminate Est'. apply Z.leb_gt in Emax.
  refine (conj _ (conj eq_refl Emax)). unfold uinv; cbn. split; [unfold it'; lia|intros _; exact Ho3].
Qed.
Theorem cg_unbounded_spec fuel s k fr x m1 inf :
  let r := cg_unbounded O cost grad norm2 osqrt isfinite fuel s k fr x m1 inf in
  (r_status r <> MOutOfFuel -> r_cost r = cost (r_x r)) /\ (0 < g_max_it s -> 0 <= r_iter r <= g_max_it s).
Proof.
  intros r. unfold r, cg_unbounded.
  match goal with |- context [cgu_loop _ _ _ _ _ _ fuel s k fr ?nx ?q0] => set (nx0 := nx); set (q00 := q0) end.
  assert (H : forall fuel' q, uinv q -> upost s (q_it q) (cgu_loop O cost grad norm2 osqrt isfinite fuel' s k fr nx0 q)).
  { intros fuel'. induction fuel' as [|fuel' IH]; intros q Hq.
    - destruct Hq as (Hit & Hc). cbn. unfold upost, cg_result; cbn. refine (conj _ (conj (Z.le_refl _) (fun H => Z.lt_le_incl _ _ H))). intros H; contradiction H; reflexivity.
    - cbn [cgu_loop]. pose proof (cgu_step_spec s k fr nx0 q Hq) as Hs.
      destruct (cgu_step O cost grad norm2 osqrt isfinite s k fr nx0 q) as [r1|q']; [exact Hs|].
      destruct Hs as (Hq' & Ei & Em). destruct (IH q' Hq') as (R3 & R4 & R5).
      unfold upost. refine (conj R3 (conj _ _)); [lia|intros _; apply R5; exact Em]. }
  destruct (H fuel q00) as (R3 & R4 & R5); [unfold uinv, q00; cbn; split; [lia|intros E; lia]|].
  cbn [q_it q00] in R4, R5. split; [exact R3|intros Hm; split; [exact R4|apply R5; exact Hm]].
Qed.
End MinimCGProofs.
