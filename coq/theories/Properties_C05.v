(* C05 — vectorized evaluation equals scalar evaluation on every instruction set.
   This file holds only the property theorems; each is closed by [exact] of a lemma of VecSplitProofs.v or
   FastexpProofs.v and followed by Print Assumptions.
   Models: VecSplit.v (hand model of the prologue / packet body / epilogue split and of the alignment
   negotiation; tie H: ./check C05 compares its counts with the guarded hook counters of every statement of the
   sweep, in each instruction-set build) and generated/Gen_Fastexp.v (tie G: translated from quick_e.h on every
   run).  Modelled, not verified: a packet operation is the lane-wise IEEE operation (the intrinsics of
   quick_e.h); that part is observed by the sweep (bitwise comparison with scalar evaluation). *)
From Coq Require Import ZArith List Reals.
From Adept Require Import VecSplit VecSplitProofs FastexpProofs.
From AdeptGen Require Import Gen_Vecguard.
From AdeptGen Require Import Gen_Fastexp.
Import ListNotations.

Section Z.
Local Open Scope Z_scope.
(* every index of a row is handled by exactly one of the three loops, for every packet width w, every row
   length n >= 2w and every accepted offset *)
Theorem C05_three_loops_cover_each_element_once : forall w n off i, 0 < w -> 2 * w <= n -> 0 <= off < w -> 0 <= i < n ->
  let '(s, e) := split w n off off in
  (0 <= i < s /\ ~ (s <= i < e) /\ ~ (e <= i)) \/
  (s <= i < e /\ exists k lane, 0 <= k < (e - s) / w /\ 0 <= lane < w /\ i = s + w * k + lane) \/
  (e <= i < n /\ ~ (i < s)).
Proof. exact split_covers. Qed.
Print Assumptions C05_three_loops_cover_each_element_once.

Theorem C05_split_shape : forall w n off, 0 < w -> 2 * w <= n -> 0 <= off < w ->
  let '(s, e) := split w n off off in s = off /\ s <= e <= n /\ (e - s) mod w = 0 /\ n - e < w /\ 0 <= n - e.
Proof. exact split_partition. Qed.
Print Assumptions C05_split_shape.

(* whenever the packet body is not empty, the target and every array operand of the expression are accessed at
   packet-aligned addresses in every packet of the body, whatever the shape of the expression tree *)
Theorem C05_packet_accesses_aligned : forall w e lhs_addr n s en, 0 < w -> 2 * w <= n ->
  split w n (expr_off w e) (align_off w lhs_addr) = (s, en) -> s < en ->
  (lhs_addr + s) mod w = 0 /\ forall a, In a (leaves e) -> forall k, (a + s + w * k) mod w = 0.
Proof. exact accepted_offset_aligns_every_leaf. Qed.
Print Assumptions C05_packet_accesses_aligned.

(* clash of offsets or disagreement with the target: everything is scalar *)
Theorem C05_fallback_is_scalar : forall w n r l, (r < 0 \/ r <> l) -> split w n r l = (0, 0).
Proof. exact split_fallback. Qed.
Print Assumptions C05_fallback_is_scalar.

Theorem C05_counters : forall w n off, 0 < w -> 2 * w <= n -> 0 <= off < w ->
  let '(h, p, t) := counts w n (split w n off off) in h + w * p + t = n /\ 0 <= h < w /\ 0 <= t < w /\ 1 <= p.
Proof. exact counts_total. Qed.
Print Assumptions C05_counters.
End Z.

(* value level: with lane-wise packet operations the three loops produce, element by element and in the same
   order, what the scalar loop produces *)
Theorem C05_vector_row_equals_scalar_row : forall (A : Type) (f : nat -> A) s w p t,
  vec_row f s w p t = map f (seq 0 (s + w * p + t)).
Proof. exact @vec_row_is_scalar_row. Qed.
Print Assumptions C05_vector_row_equals_scalar_row.

(* reductions: scalar accumulator for prologue and epilogue, w lane accumulators for the body, combined at the
   end: equal to the scalar reduction in any commutative monoid, i.e. re-association is the only difference.
   _partial: the rounding bound of re-associated floating-point accumulation itself is not proved here (the
   check compares against the standard bound 2 gamma_n sum|x_i|) *)
Theorem C05_reduction_differs_by_reassociation_only_partial : forall (A : Type) (op : A -> A -> A) (e0 : A),
  (forall a b c, op (op a b) c = op a (op b c)) -> (forall a b, op a b = op b a) -> (forall a, op e0 a = a) ->
  forall f s w p t, vec_reduce op e0 f s w p t = scalar_reduce op e0 f (s + w * p + t).
Proof. exact @vec_reduce_is_scalar_reduce. Qed.
Print Assumptions C05_reduction_differs_by_reassociation_only_partial.

Local Open Scope R_scope.
(* fastexp: method error of the algorithm of quick_e.h (argument reduction with the stored constants, stored
   polynomial coefficients, scaling by 2^n) in exact arithmetic.  _partial: the rounding errors of the
   floating-point operations are not part of the statement; the 2 ulp claim is observed by the sweep *)
Theorem C05_fastexp_double_method_error_partial : forall x0 n, (-1100 <= n <= 1100)%Z ->
  Rabs (FE_d.round_arg x0 - IZR n) <= 1/2 + 1/1099511627776 ->
  Rabs (FE_d.result x0 n - exp x0) <= 1/36028797018963968 * exp x0.
Proof. exact fastexp_double_method_error. Qed.
Print Assumptions C05_fastexp_double_method_error_partial.
Theorem C05_fastexp_float_method_error_partial : forall x0 n, (-130 <= n <= 130)%Z ->
  Rabs (FE_f.round_arg x0 - IZR n) <= 1/2 + 1/65536 ->
  Rabs (FE_f.result x0 n - exp x0) <= 1/33554432 * exp x0.
Proof. exact fastexp_float_method_error. Qed.
Print Assumptions C05_fastexp_float_method_error_partial.
(* the hypothesis is met by every argument inside the range test of the code *)
Theorem C05_fastexp_hypothesis_met : forall x0,
  (FE_d.c_min_x <= x0 <= FE_d.c_max_x -> exists n : Z, (-1100 <= n <= 1100)%Z /\ Rabs (FE_d.round_arg x0 - IZR n) <= 1/2 + 1/1099511627776) /\
  (FE_f.c_min_x <= x0 <= FE_f.c_max_x -> exists n : Z, (-130 <= n <= 130)%Z /\ Rabs (FE_f.round_arg x0 - IZR n) <= 1/2 + 1/65536).
Proof. intros x0. split; [exact (in_range_double x0)|exact (in_range_float x0)]. Qed.
Print Assumptions C05_fastexp_hypothesis_met.

(* non-vacuity *)
Example C05_example :
  split 4 19 3 3 = (3, 19)%Z /\ counts 4 19 (split 4 19 3 3) = (3, 4, 0)%Z /\
  stmt_counts 4 1 19 5 true (VBin (VArr 9 true) (VBin VScal (VArr 13 true))) = (3, 4, 0)%Z /\
  stmt_counts 4 1 19 5 true (VBin (VArr 9 true) (VArr 14 true)) = (0, 0, 19)%Z /\
  vec_row (fun i => i * i)%nat 1 2 2 1 = [0; 1; 4; 9; 16; 25]%nat.
Proof. vm_compute. repeat split. Qed.

(* tie G for the guard of the vectorized reduction (reduce.h), TRANSLATED on every run: it compares the LAST extent (the
   row length) with twice the packet size, which is the model's [eligible]; and that is what makes the scalar head loop -
   which runs to the alignment offset without looking at the row length - stay inside the row, with room for a packet *)
Local Open Scope Z_scope.
Theorem C05_generated_reduction_guard : forall w n (contig : bool) off,
  reduce_guard_dim = GLast /\ reduce_guard_factor = 2 /\
  (0 < w -> 0 <= off < w -> eligible w n contig = andb (reduce_guard_factor * w <=? n) contig /\
            (eligible w n contig = true -> off <= n /\ off + w <= n)).
Proof.
  intros w n contig off. split; [reflexivity|]. split; [reflexivity|].
  intros Hw Ho. unfold eligible, reduce_guard_factor. split; [reflexivity|].
  intros H. apply Bool.andb_true_iff in H. destruct H as [H _]. apply Z.leb_le in H. split; Lia.lia.
Qed.
Print Assumptions C05_generated_reduction_guard.
