(* Programs over active scalars (Active.h): which differential statement each C++ statement records, and the
   specification beside it: the same program on dual numbers.  A variable is its gradient index (that live
   objects own distinct indices is C08). *)
From Coq Require Import ZArith List Bool.
From Adept Require Import Scalar ExprDefs Expr Tape.
Import ListNotations.

Section Program.
Context {T : Type} (F : FOps T).
Let O := fbase F.

Inductive pexpr := PVar (x : nat) | PConst (c : T) | PUn (f : fname) (a : pexpr) | PBin (k : bkind) (l r : pexpr).
Inductive pstmt :=
| PSetP (x : nat) (c : T)          (* adouble x = c;  x = c;          -> push_lhs only (Active.h:84-100, 184-200) *)
| PSetE (x : nat) (e : pexpr)      (* adouble x = e;  x = e;  x(y);  x op= e (unpacked as x = x op e)  (Active.h:131-165, 204-290) *)
| PAddP (x : nat) (c : T)          (* x += c;  x -= c  with passive c: only the value changes (Active.h:293-304) *)
.
Fixpoint instantiate (vals : nat -> T) (e : pexpr) : expr (T:=T) :=
  match e with
  | PVar x => XAct (Z.of_nat x) (vals x)
  | PConst c => XPas c
  | PUn f a => XUn f (instantiate vals a)
  | PBin k l r => XBin k (instantiate vals l) (instantiate vals r)
  end.
Definition conv_ops (ops : list (T * Z)) : list (T * nat) := map (fun mi => (fst mi, Z.to_nat (snd mi))) ops.

Definition exec1 (st : (nat -> T) * tape (T:=T)) (s : pstmt) : (nat -> T) * tape :=
  let '(vals, tp) := st in
  match s with
  | PSetP x c => (upd vals x c, tp ++ [mkStmt x []])
  | PSetE x e => let '(v, ops) := value_and_gradient F (instantiate vals e) in (upd vals x v, tp ++ [mkStmt x (conv_ops ops)])
  | PAddP x c => (upd vals x (oadd O (vals x) c), tp)
  end.
Definition exec (p : list pstmt) (vals0 : nat -> T) : (nat -> T) * tape := fold_left exec1 p (vals0, []).

(* specification: value and tangent of every variable *)
Definition dexec1 (st : (nat -> T) * (nat -> T)) (s : pstmt) : (nat -> T) * (nat -> T) :=
  let '(vals, tans) := st in
  match s with
  | PSetP x c => (upd vals x c, upd tans x (o0 O))
  | PSetE x e => let ex := instantiate vals e in
                 (upd vals x (sem F ex), upd tans x (tangent F (fun z => tans (Z.to_nat z)) ex))
  | PAddP x c => (upd vals x (oadd O (vals x) c), tans)
  end.
Definition dexec (p : list pstmt) (vals0 tans0 : nat -> T) : (nat -> T) * (nat -> T) := fold_left dexec1 p (vals0, tans0).

Fixpoint vars_below (n : nat) (e : pexpr) : bool :=
  match e with PVar x => Nat.ltb x n | PConst _ => true | PUn _ a => vars_below n a | PBin _ l r => vars_below n l && vars_below n r end.
Definition stmt_below (n : nat) (s : pstmt) : bool :=
  match s with PSetP x _ => Nat.ltb x n | PSetE x e => Nat.ltb x n && vars_below n e | PAddP x _ => Nat.ltb x n end.
End Program.
