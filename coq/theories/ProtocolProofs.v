(* C10: passes over one recording leave no residue; new_recording forgets everything; paused sections record
   nothing; hand-made dependence statements act as the linear statements they describe. *)
From Coq Require Import List Arith Bool Lia Ring.
From Adept Require Import Scalar Tape TapeAdjoint Protocol.
Import ListNotations.
Local Arguments Nat.ltb : simpl never.

Section ProtocolProofs.
Context {T : Type} (O : Ops T).
Hypothesis Rth : ring_theory (o0 O) (o1 O) (oadd O) (omul O) (osub O) (oneg O) (@eq T).
Hypothesis eqb_true : forall a b, oeqb O a b = true -> a = b.
Add Ring TringP : Rth.
Notation pstate := (@pstate T). Notation pop := (@pop T). Notation wf_stmt := (@wf_stmt T).
Notation pstep := (pstep O). Notation prun := (prun O).

Definition agree (n : nat) (g g' : nat -> T) : Prop := forall i, i < n -> g i = g' i.
Lemma agree_refl n g : agree n g g. Proof. intros i _. reflexivity. Qed.
Lemma agree_upd n g g' j x : agree n g g' -> agree n (upd g j x) (upd g' j x).
Proof. intros H i Hi. unfold upd. destruct (Nat.eqb i j); [reflexivity|apply H; exact Hi]. Qed.

Lemma rhs_val_agree n o g g' : Forall (fun mi => snd mi < n) o -> agree n g g' -> rhs_val O o g = rhs_val O o g'.
Proof.
  intros Hw Ha. unfold rhs_val. generalize (o0 O). induction o as [|mi o IH]; intros a; cbn [fold_left]; [reflexivity|].
  inversion Hw as [|? ? H1 H2]; subst. rewrite (Ha _ H1). apply IH. exact H2.
Qed.
Lemma fwd1_agree n s g g' : wf_stmt n s -> agree n g g' -> agree n (fwd1 O s g) (fwd1 O s g').
Proof. intros [Hl Ho] Ha. unfold fwd1. rewrite (rhs_val_agree n _ g g' Ho Ha). apply agree_upd. exact Ha. Qed.
Lemma fwd_agree n t : forall g g', Forall (wf_stmt n) t -> agree n g g' -> agree n (fwd_sweep O t g) (fwd_sweep O t g').
Proof.
  induction t as [|s t IH]; intros g g' Hw Ha; [exact Ha|]. inversion Hw as [|? ? H1 H2]; subst.
  cbn [fwd_sweep fold_left]. apply IH; [exact H2|]. apply fwd1_agree; assumption.
Qed.
Lemma scatter_agree n a o : forall g g', agree n g g' -> agree n (scatter O a o g) (scatter O a o g').
Proof.
  induction o as [|mi o IH]; intros g g' Ha; [exact Ha|]. cbn [scatter fold_left].
  apply IH. intros i Hi. unfold upd. destruct (Nat.eqb i (snd mi)) eqn:E; [|apply Ha; exact Hi].
  apply Nat.eqb_eq in E. subst i. rewrite (Ha _ Hi). reflexivity.
Qed.
Lemma rev1_agree n s g g' : wf_stmt n s -> agree n g g' -> agree n (rev1 O s g) (rev1 O s g').
Proof.
  intros [Hl _] Ha. unfold rev1. rewrite (Ha _ Hl). destruct (oeqb O (g' (lhs s)) (o0 O)).
  - apply agree_upd. exact Ha.
  - apply scatter_agree. apply agree_upd. exact Ha.
Qed.
Lemma rev_agree n t : forall g g', Forall (wf_stmt n) t -> agree n g g' -> agree n (rev_sweep O t g) (rev_sweep O t g').
Proof.
  induction t as [|s t IH]; intros g g' Hw Ha; [exact Ha|]. inversion Hw as [|? ? H1 H2]; subst.
  cbn [rev_sweep fold_right]. apply rev1_agree; [exact H1|]. apply IH; assumption.
Qed.

(* ---- invariant: every recorded index is below max_gradient *)
Definition PInv (st : pstate) : Prop := Forall (wf_stmt (ngrad st)) (tp st).
Lemma stmt_lt_wf n s : stmt_lt n s = true -> wf_stmt n s.
Proof.
  unfold stmt_lt. intros H. apply andb_true_iff in H. destruct H as [H1 H2]. split; [apply Nat.ltb_lt; exact H1|].
  rewrite forallb_forall in H2. apply Forall_forall. intros mi Hin. apply Nat.ltb_lt, H2. exact Hin.
Qed.
Lemma wf_mono n m s : n <= m -> wf_stmt n s -> wf_stmt m s.
Proof. intros Hn [H1 H2]. split; [lia|]. eapply Forall_impl; [|exact H2]. cbn. intros mi H. lia. Qed.
Lemma append_last_wf n t l ops t' : Forall (wf_stmt n) t -> Forall (fun mi => snd mi < n) ops -> append_last t l ops = Some t' -> Forall (wf_stmt n) t'.
Proof.
  revert t'. induction t as [|s t IH]; intros t' Hw Ho H; [discriminate|].
  inversion Hw as [|? ? H1 H2]; subst. cbn [append_last] in H. destruct t as [|s2 t2].
  - destruct (Nat.eqb_spec (lhs s) l) as [E|NE]; [|discriminate]. inversion H; subst. constructor; [|constructor].
    destruct H1 as [Hl Hr]. split; [exact Hl|]. cbn [rhs]. apply Forall_app. split; assumption.
  - destruct (append_last (s2 :: t2) l ops) as [t''|] eqn:E; [|discriminate]. inversion H; subst. constructor; [exact H1|]. apply IH; [exact H2|exact Ho|reflexivity].
Qed.
Lemma drop_zeros_lt n ops : Forall (fun mi : T * nat => snd mi < n) ops -> Forall (fun mi => snd mi < n) (drop_zeros O ops).
Proof. intros H. unfold drop_zeros. apply Forall_forall. intros mi Hin. apply filter_In in Hin. rewrite Forall_forall in H. apply H, Hin. Qed.
Lemma pstep_inv st o : PInv st -> PInv (pstep st o).
Proof.
  intros H. unfold PInv in *. destruct o; cbn [pstep]; try exact H.
  - destruct (recording st && stmt_lt (ngrad st) s) eqn:E; [|exact H]. apply andb_true_iff in E. cbn. apply Forall_app. split; [exact H|].
    constructor; [apply stmt_lt_wf, E|constructor].
  - destruct (recording st); [|exact H]. cbn. eapply Forall_impl; [|exact H]. intros s. apply wf_mono. lia.
  - cbn. constructor.
  - destruct (init st); [destruct (Nat.ltb i (ninit st))|cbn [initialize ninit]; destruct (Nat.ltb i (ngrad st))]; cbn; exact H.
  - destruct (init st); cbn; exact H.
  - destruct (init st); cbn; exact H.
  - destruct (recording st && stmt_lt (ngrad st) _) eqn:E; [|exact H]. apply andb_true_iff in E. cbn. apply Forall_app. split; [exact H|].
    constructor; [apply stmt_lt_wf, E|constructor].
  - destruct (recording st && forallb _ ops) eqn:E; [|exact H]. apply andb_true_iff in E. destruct E as [_ E].
    destruct (append_last (tp st) l (drop_zeros O ops)) as [t|] eqn:Ea; cbn; [|exact H].
    apply (append_last_wf _ _ _ _ _ H) in Ea; [exact Ea|]. apply drop_zeros_lt. rewrite forallb_forall in E. apply Forall_forall. intros mi Hin. apply Nat.ltb_lt, E, Hin.
Qed.
Lemma prun_inv ops : forall st, PInv st -> PInv (prun ops st).
Proof. induction ops as [|o ops IH]; intros st H; [exact H|]. cbn. apply IH, pstep_inv, H. Qed.

(* ---- replay: a pass after clear_gradients and seeds depends on the tape and the seeds only *)
Lemma seeds_run seeds : forall (st : pstate) g, init st = true -> ninit st = ngrad st -> agree (ngrad st) (buf st) g ->
  let st' := prun (map (fun ix => OSeed (fst ix) (snd ix)) seeds) st in
  init st' = true /\ ngrad st' = ngrad st /\ ninit st' = ngrad st /\ tp st' = tp st /\ indep st' = indep st /\ dep st' = dep st /\ recording st' = recording st /\
  agree (ngrad st) (buf st') (fold_left (fun g ix => if Nat.ltb (fst ix) (ngrad st) then upd g (fst ix) (snd ix) else g) seeds g).
Proof.
  induction seeds as [|[i x] seeds IH]; intros st g Hi Hni Ha; cbn [map prun fold_left].
  - repeat split; try reflexivity; assumption.
  - cbn [pstep fst snd]. rewrite Hi, Hni. destruct (Nat.ltb i (ngrad st)) eqn:E.
    + match goal with |- context [fold_left (Protocol.pstep O) _ ?s] => set (s1 := s) end.
      assert (init s1 = true /\ ngrad s1 = ngrad st /\ ninit s1 = ngrad st) as (Hi1 & Hn1 & Hni1) by (repeat split; try reflexivity; exact Hni).
      assert (agree (ngrad s1) (buf s1) (upd g i x)) as Ha1 by (rewrite Hn1; cbn; apply agree_upd, Ha).
      assert (ninit s1 = ngrad s1) as Hq by (rewrite Hni1, Hn1; reflexivity).
      destruct (IH s1 (upd g i x) Hi1 Hq Ha1) as (A & B & C' & D & E' & F & G & H). fold (prun (map (fun ix => OSeed (fst ix) (snd ix)) seeds) s1).
      rewrite Hn1 in *. repeat split; try assumption.
    + match goal with |- context [fold_left (Protocol.pstep O) _ ?s] => set (s1 := s) end.
      assert (init s1 = true /\ ngrad s1 = ngrad st /\ ninit s1 = ngrad st) as (Hi1 & Hn1 & Hni1) by (repeat split; try reflexivity; assumption).
      assert (agree (ngrad s1) (buf s1) g) as Ha1 by (rewrite Hn1; exact Ha).
      assert (ninit s1 = ngrad s1) as Hq by (rewrite Hni1, Hn1; reflexivity).
      destruct (IH s1 g Hi1 Hq Ha1) as (A & B & C' & D & E' & F & G & H). fold (prun (map (fun ix => OSeed (fst ix) (snd ix)) seeds) s1).
      rewrite Hn1 in *. repeat split; try assumption.
Qed.

Definition pass_ops (seeds : list (nat * T)) (pass : pop) : list pop :=
  OClearGradients :: map (fun ix => OSeed (fst ix) (snd ix)) seeds ++ [pass].

Lemma extend_agree (st : pstate) n : ninit st = ngrad st -> agree n (buf (extend O st)) (buf st).
Proof.
  intros H i _. cbn [extend buf]. rewrite H. destruct (Nat.leb_spec (ngrad st) i); destruct (Nat.ltb_spec i (ngrad st)); cbn; try reflexivity. lia.
Qed.
Theorem replay st i0 x0 seeds : PInv st ->
  let n := ngrad st in let sv := seedvec O n ((i0, x0) :: seeds) in
  agree n (buf (prun (pass_ops ((i0, x0) :: seeds) OForward) st)) (fwd_sweep O (tp st) sv) /\
  agree n (buf (prun (pass_ops ((i0, x0) :: seeds) OReverse) st)) (rev_sweep O (tp st) sv) /\
  tp (prun (pass_ops ((i0, x0) :: seeds) OForward) st) = tp st /\ tp (prun (pass_ops ((i0, x0) :: seeds) OReverse) st) = tp st.
Proof.
  intros Hinv n sv.
  set (st0 := pstep st OClearGradients).
  set (st1 := pstep st0 (OSeed i0 x0)).
  assert (init st1 = true /\ ngrad st1 = n /\ ninit st1 = n /\ tp st1 = tp st /\
          agree n (buf st1) (if Nat.ltb i0 n then upd (fun _ => o0 O) i0 x0 else (fun _ => o0 O))) as (Hi & Hn & Hni & Ht & Ha).
  { unfold st1, st0. cbn [pstep init initialize ngrad ninit]. fold n. destruct (Nat.ltb i0 n) eqn:E; cbn; repeat split; try reflexivity.
    - apply agree_upd. intros i Hi. apply Nat.ltb_lt in Hi. rewrite Hi. reflexivity.
    - intros i Hi. apply Nat.ltb_lt in Hi. rewrite Hi. reflexivity. }
  assert (forall pass, prun (pass_ops ((i0, x0) :: seeds) pass) st = pstep (prun (map (fun ix => OSeed (fst ix) (snd ix)) seeds) st1) pass) as Hrun.
  { intros pass. unfold pass_ops, prun. cbn [map fold_left fst snd]. rewrite fold_left_app. reflexivity. }
  rewrite <- Hn in Ha. assert (ninit st1 = ngrad st1) as Hq by (rewrite Hni, Hn; reflexivity).
  destruct (seeds_run seeds st1 _ Hi Hq Ha) as (A & B & B' & C' & _ & _ & _ & G). rewrite Hn in *.
  set (st2 := prun (map (fun ix => OSeed (fst ix) (snd ix)) seeds) st1) in *.
  assert (agree n (buf st2) sv) as Hsv.
  { unfold sv, seedvec. cbn [fold_left fst snd]. exact G. }
  assert (agree n (buf (extend O st2)) sv) as Hsv2.
  { assert (ninit st2 = ngrad st2) as Hq2 by (rewrite B', B; reflexivity).
    intros i Hi'. rewrite (extend_agree st2 n Hq2 i Hi'). apply Hsv. exact Hi'. }
  rewrite !Hrun. cbn [pstep]. rewrite A. cbn [buf tp extend]. rewrite C', Ht.
  repeat split; try reflexivity.
  - apply fwd_agree; [exact Hinv|exact Hsv2].
  - apply rev_agree; [exact Hinv|exact Hsv2].
Qed.

(* ---- observational equivalence: states that differ only in stale buffer contents, allocation and error counts *)
Definition sim (a b : pstate) : Prop :=
  tp a = tp b /\ init a = init b /\ ngrad a = ngrad b /\ indep a = indep b /\ dep a = dep b /\ recording a = recording b /\
  (init a = true -> ninit a = ninit b /\ agree (ngrad a) (buf a) (buf b)).
(* the documented protocol: active objects are not created between seeding and clear_gradients *)
Definition respects (st : pstate) (o : pop) : Prop := match o with ORegister _ => init st = false | _ => True end.
Lemma sim_seed a b i x : sim a b -> sim (pstep a (OSeed i x)) (pstep b (OSeed i x)).
Proof.
  intros (Ht & Hi & Hn & Hx & Hd & Hr & Hb). cbn [pstep]. rewrite <- Hi. destruct (init a) eqn:Ei.
  - destruct (Hb eq_refl) as [Hni Hag]. rewrite <- Hni. destruct (Nat.ltb i (ninit a)) eqn:E.
    + unfold sim; cbn. repeat split; try assumption; try congruence. apply agree_upd, Hag.
    + unfold sim, add_err; cbn. repeat split; try assumption; try congruence.
  - cbn [initialize ninit]. rewrite <- Hn. destruct (Nat.ltb i (ngrad a)) eqn:E.
    + unfold sim; cbn. rewrite <- ?Hn. repeat split; try assumption; try congruence. apply agree_upd. intros j Hj. apply Nat.ltb_lt in Hj. rewrite Hj. reflexivity.
    + unfold sim, add_err; cbn. rewrite <- ?Hn. repeat split; try assumption; try congruence. intros j Hj. apply Nat.ltb_lt in Hj. rewrite Hj. reflexivity.
Qed.
Lemma extend_sim_agree a b : ngrad a = ngrad b -> ninit a = ninit b -> agree (ngrad a) (buf a) (buf b) ->
  agree (ngrad a) (buf (extend O a)) (buf (extend O b)).
Proof.
  intros Hn Hni Hag j Hj. cbn [extend buf]. rewrite <- Hn, <- Hni.
  destruct (Nat.leb (ninit a) j && Nat.ltb j (ngrad a)); [reflexivity|apply Hag; exact Hj].
Qed.
Lemma sim_step a b o : PInv a -> respects a o -> sim a b -> sim (pstep a o) (pstep b o).
Proof.
  intros Hinv Hresp Hs. assert (Hs' := Hs). destruct Hs as (Ht & Hi & Hn & Hx & Hd & Hr & Hb).
  destruct o; try (apply sim_seed; exact Hs'); unfold sim; cbn [pstep]; rewrite <- ?Ht, <- ?Hi, <- ?Hn, <- ?Hx, <- ?Hd, <- ?Hr.
  - destruct (recording a && stmt_lt (ngrad a) s) eqn:Er; cbn; rewrite <- ?Ht; repeat split; try assumption; try reflexivity; try congruence; try (apply Hb; assumption).
  - cbn in Hresp. destruct (recording a) eqn:Er; cbn; repeat split; try assumption; try reflexivity; try congruence; try (apply Hb; assumption).
    all: try (intros Hia; rewrite Hresp in Hia; discriminate).
  - cbn. repeat split; try reflexivity; try assumption; try congruence.
  - destruct (init a) eqn:Ei; cbn; rewrite <- ?Ht, <- ?Hn; repeat split; try assumption; try reflexivity; try congruence; try (apply Hb; reflexivity).
    destruct (Hb eq_refl) as [Hni Hag]. apply (fwd_agree (ngrad a) (tp a) _ _ Hinv). intros j Hj. cbn beta. rewrite <- Hni.
    destruct (Nat.leb (ninit a) j && Nat.ltb j (ngrad a)); [reflexivity|apply Hag; exact Hj].
  - destruct (init a) eqn:Ei; cbn; rewrite <- ?Ht, <- ?Hn; repeat split; try assumption; try reflexivity; try congruence; try (apply Hb; reflexivity).
    destruct (Hb eq_refl) as [Hni Hag]. apply (rev_agree (ngrad a) (tp a) _ _ Hinv). intros j Hj. cbn beta. rewrite <- Hni.
    destruct (Nat.leb (ninit a) j && Nat.ltb j (ngrad a)); [reflexivity|apply Hag; exact Hj].
  - cbn. repeat split; try assumption; try reflexivity; try congruence.
  - cbn. rewrite Hx. repeat split; try assumption; try reflexivity; try congruence; try (apply Hb; assumption).
  - cbn. rewrite Hd. repeat split; try assumption; try reflexivity; try congruence; try (apply Hb; assumption).
  - cbn. repeat split; try assumption; try reflexivity; try congruence; try (apply Hb; assumption).
  - cbn. repeat split; try assumption; try reflexivity; try congruence; try (apply Hb; assumption).
  - cbn. repeat split; try assumption; try reflexivity; try congruence; try (apply Hb; assumption).
  - cbn. repeat split; try assumption; try reflexivity; try congruence; try (apply Hb; assumption).
  - destruct (recording a && stmt_lt (ngrad a) _) eqn:Er; cbn; rewrite <- ?Ht; repeat split; try assumption; try reflexivity; try congruence; try (apply Hb; assumption).
  - destruct (recording a && forallb _ ops) eqn:Er; [|repeat split; try assumption; try reflexivity; try congruence; try (apply Hb; assumption)].
    destruct (append_last (tp a) l (drop_zeros O ops)); cbn; repeat split; try assumption; try reflexivity; try congruence; try (apply Hb; assumption).
Qed.

Fixpoint respects_all (st : pstate) (ops : list pop) : Prop :=
  match ops with [] => True | o :: r => respects st o /\ respects_all (pstep st o) r end.
Lemma sim_run ops : forall a b, PInv a -> respects_all a ops -> sim a b -> sim (prun ops a) (prun ops b).
Proof.
  induction ops as [|o ops IH]; intros a b Hinv Hr Hs; [exact Hs|]. destruct Hr as [Hr1 Hr2]. cbn.
  apply IH; [apply pstep_inv, Hinv|exact Hr2|apply sim_step; assumption].
Qed.
Definition NInv (st : pstate) : Prop := init st = true -> ninit st <= ngrad st.
Lemma pstep_ninv st o : NInv st -> NInv (pstep st o).
Proof.
  unfold NInv. intros H. destruct o; cbn [pstep]; try exact H.
  - destruct (recording st && stmt_lt (ngrad st) s); cbn; exact H.
  - destruct (recording st); cbn; [|exact H]. intros Hi. specialize (H Hi). lia.
  - cbn. intros Hf; discriminate.
  - destruct (init st) eqn:Ei; [destruct (Nat.ltb i (ninit st))|cbn [initialize ninit]; destruct (Nat.ltb i (ngrad st))]; cbn; intros _; try (apply H; reflexivity); lia.
  - destruct (init st) eqn:Ei; cbn; intros Hi; [apply H; reflexivity|congruence].
  - destruct (init st) eqn:Ei; cbn; intros Hi; [apply H; reflexivity|congruence].
  - cbn. intros Hf; discriminate.
  - destruct (recording st && stmt_lt (ngrad st) _); cbn; exact H.
  - destruct (recording st && forallb _ ops); [|exact H]. destruct (append_last (tp st) l (drop_zeros O ops)); cbn; exact H.
Qed.
Lemma prun_ninv ops : forall st, NInv st -> NInv (prun ops st).
Proof. induction ops as [|o ops IH]; intros st H; [exact H|]. cbn. apply IH, pstep_ninv, H. Qed.

Lemma sim_obs a b : NInv a -> sim a b -> (forall i, obs_gradient a i = obs_gradient b i) /\ obs_jacobian O a = obs_jacobian O b /\ obs_counts a = obs_counts b.
Proof.
  intros Hni (Ht & Hi & Hn & Hx & Hd & Hr & Hb). repeat split.
  - intros i. unfold obs_gradient. rewrite <- Hi. destruct (init a) eqn:Ei; [|reflexivity]. cbn.
    destruct (Hb eq_refl) as [Hq Hag]. rewrite <- Hq. destruct (Nat.ltb_spec i (ninit a)) as [Hl|Hg]; [|reflexivity].
    rewrite (Hag i) by (specialize (Hni Ei); lia). reflexivity.
  - unfold obs_jacobian. rewrite Ht, Hx, Hd. reflexivity.
  - unfold obs_counts. rewrite Ht. reflexivity.
Qed.

(* new_recording: whatever happened before, everything observable afterwards depends only on what executes afterwards *)
Theorem new_recording_forgets a b ig ops : recording a = recording b ->
  respects_all (pstep a (ONewRecording ig)) ops ->
  let a' := prun ops (pstep a (ONewRecording ig)) in let b' := prun ops (pstep b (ONewRecording ig)) in
  (forall i, obs_gradient a' i = obs_gradient b' i) /\ obs_jacobian O a' = obs_jacobian O b' /\ obs_counts a' = obs_counts b'.
Proof.
  intros Hrec Hresp. apply sim_obs.
  - apply prun_ninv. unfold NInv. cbn. intros H; discriminate.
  - apply sim_run; [cbn; constructor|exact Hresp|].
    unfold sim. cbn. split; [reflexivity|]. split; [reflexivity|]. split; [reflexivity|]. split; [reflexivity|]. split; [reflexivity|]. split; [exact Hrec|]. intros H; discriminate.
Qed.
(* ... and is empty: no statement, no seed, no variable list *)
Theorem new_recording_state st ig : let s := pstep st (ONewRecording ig) in
  tp s = [] /\ init s = false /\ indep s = [] /\ dep s = [] /\ ngrad s = S ig.
Proof. cbn. repeat split; reflexivity. Qed.

(* the Jacobian never depends on, nor disturbs, the working gradients *)
Theorem jacobian_private st : obs_jacobian O st = map (fun j => map (fun i => fwd_sweep O (tp st) (unit_vec O j) i) (dep st)) (indep st).
Proof. reflexivity. Qed.

(* paused: nothing is recorded, nothing registered *)
Theorem paused_records_nothing st : recording st = false ->
  (forall s, pstep st (ORecord s) = st) /\ (forall k, pstep st (ORegister k) = st) /\
  (forall l ops, pstep st (OAddDep l ops) = st) /\ (forall l ops, pstep st (OAppendDep l ops) = st).
Proof. intros H. repeat split; intros; cbn [pstep]; rewrite H; reflexivity. Qed.

(* a hand-made dependence acts as the linear statement it describes: dropping zero multipliers changes nothing *)
Lemma rhs_val_drop_zeros ops g : rhs_val O (drop_zeros O ops) g = rhs_val O ops g.
Proof.
  induction ops as [|mi ops IH]; [reflexivity|]. cbn [drop_zeros filter]. rewrite (rhs_val_cons O Rth mi ops).
  destruct (oeqb O (fst mi) (o0 O)) eqn:E; cbn [negb].
  - fold (drop_zeros O ops). rewrite IH. apply eqb_true in E. rewrite E. ring.
  - fold (drop_zeros O ops). rewrite (rhs_val_cons O Rth), IH. reflexivity.
Qed.
Theorem add_dependence_is_linear_statement st l ops g : recording st = true -> stmt_lt (ngrad st) (mkStmt l (drop_zeros O ops)) = true ->
  exists s, tp (pstep st (OAddDep l ops)) = tp st ++ [s] /\ fwd1 O s g = upd g l (rhs_val O ops g).
Proof.
  intros Hr Hl. exists (mkStmt l (drop_zeros O ops)). cbn [pstep]. rewrite Hr, Hl. cbn. split; [reflexivity|].
  unfold fwd1. cbn [lhs rhs]. rewrite rhs_val_drop_zeros. reflexivity.
Qed.

(* ---- C11: misuse of the protocol never reaches beyond the gradient list, raises the documented kind, and leaves
   the state usable *)
Definition CapInv (st : pstate) : Prop := oob st = 0 /\ (init st = true -> ninit st <= nalloc st).
Lemma pstep_cap st o : CapInv st -> CapInv (pstep st o).
Proof.
  unfold CapInv. intros [H0 H]. destruct o; cbn [pstep]; try (split; assumption).
  - destruct (recording st && stmt_lt (ngrad st) s); cbn; split; assumption.
  - destruct (recording st); cbn; split; assumption.
  - cbn. split; [exact H0|intros Hf; discriminate].
  - destruct (init st) eqn:Ei.
    + destruct (Nat.ltb_spec i (ninit st)) as [Hl|Hg]; cbn; [|split; [exact H0|intros _; apply H; reflexivity]].
      specialize (H eq_refl). destruct (Nat.ltb_spec i (nalloc st)); [|lia]. split; [exact H0|intros _; exact H].
    + cbn [initialize ninit]. destruct (Nat.ltb_spec i (ngrad st)) as [Hl|Hg]; cbn.
      * destruct (Nat.ltb_spec i (Nat.max (nalloc st) (ngrad st))); [|lia]. split; [exact H0|intros _; lia].
      * split; [exact H0|intros _; lia].
  - destruct (init st) eqn:Ei; cbn; [|split; [exact H0|intros Hf; congruence]].
    unfold sweep_oob. cbn. destruct (Nat.leb_spec (ngrad st) (Nat.max (nalloc st) (ngrad st))); [|lia]. specialize (H eq_refl). split; [exact H0|intros _; lia].
  - destruct (init st) eqn:Ei; cbn; [|split; [exact H0|intros Hf; congruence]].
    unfold sweep_oob. cbn. destruct (Nat.leb_spec (ngrad st) (Nat.max (nalloc st) (ngrad st))); [|lia]. specialize (H eq_refl). split; [exact H0|intros _; lia].
  - cbn. split; [exact H0|intros Hf; discriminate].
  - destruct (recording st && stmt_lt (ngrad st) _); cbn; split; assumption.
  - destruct (recording st && forallb _ ops); [|split; assumption]. destruct (append_last (tp st) l (drop_zeros O ops)); cbn; split; assumption.
Qed.
Theorem no_out_of_bounds ops : oob (prun ops (pinit O)) = 0.
Proof.
  assert (forall l st, CapInv st -> CapInv (prun l st)) as Hrun.
  { induction l as [|o l IH]; intros st H; [exact H|]. cbn. apply IH, pstep_cap, H. }
  apply (Hrun ops (pinit O)). unfold CapInv. cbn. split; [reflexivity|intros Hf; discriminate].
Qed.
Theorem misuse_kinds (st : pstate) :
  (init st = false -> pstep st OForward = add_err st ENotInit /\ pstep st OReverse = add_err st ENotInit /\ forall i, obs_gradient_error st i = Some ENotInit) /\
  (init st = true -> forall i x, ninit st <= i -> pstep st (OSeed i x) = add_err st ERange /\ obs_gradient_error st i = Some ERange) /\
  (recording st = true -> forall l ops, forallb (fun mi => Nat.ltb (snd mi) (ngrad st)) ops = true -> append_last (tp st) l (drop_zeros O ops) = None ->
     pstep st (OAppendDep l ops) = add_err st EWrongGradient).
Proof.
  split; [|split].
  - intros H. split; [|split].
    + cbn [pstep]. rewrite H. reflexivity.
    + cbn [pstep]. rewrite H. reflexivity.
    + intros i. unfold obs_gradient_error. rewrite H. reflexivity.
  - intros H i x Hi. split.
    + cbn [pstep]. rewrite H. destruct (Nat.ltb_spec i (ninit st)); [lia|reflexivity].
    + unfold obs_gradient_error. rewrite H. cbn. destruct (Nat.ltb_spec i (ninit st)); [lia|reflexivity].
  - intros H l ops H0 H1. cbn [pstep]. rewrite H, H0, H1. reflexivity.
Qed.
(* an exception changes nothing but the list of exceptions, so every invariant and the replay theorem still apply *)
Theorem misuse_recoverable st k : tp (add_err st k) = tp st /\ buf (add_err st k) = buf st /\ init (add_err st k) = init st /\ ngrad (add_err st k) = ngrad st /\
  ninit (add_err st k) = ninit st /\ indep (add_err st k) = indep st /\ dep (add_err st k) = dep st /\ recording (add_err st k) = recording st /\
  (PInv st -> PInv (add_err st k)).
Proof. repeat split. intros H. exact H. Qed.
(* objects created after the gradients were initialised have indices at or beyond the initialised length *)
Theorem late_objects_out_of_range st k : NInv st -> init st = true -> recording st = true ->
  ninit (pstep st (ORegister k)) <= ngrad st /\ ngrad (pstep st (ORegister k)) = Nat.max (ngrad st) k.
Proof. intros H Hi Hr. cbn [pstep]. rewrite Hr. cbn. split; [apply H, Hi|reflexivity]. Qed.
End ProtocolProofs.

