(* Life cycle of array data: adept::Storage (Storage.h) and the constructors / assignment / link /
   resize / clear / destructor of adept::Array (Array.h sections 1-5).  Rank-1 contiguous arrays and
   views suffice: what matters is which Storage object (if any) an array refers to and which cells
   it addresses.  Values are integers. *)
From Coq Require Import ZArith List Bool Arith.
Import ListNotations.
Local Open Scope Z_scope.

Record sto := mkSto { links : Z; freed : bool; cells : list Z }.
(* where an array's data lives *)
Inductive place := PNone | PSto (s : nat) | PExt (k : nat).
(* an array object: [owns] = it holds a Storage pointer (and therefore one link); a soft link or an
   array built on user memory addresses data without owning a link *)
Record arr := mkArr { live : bool; owns : bool; plc : place; off : nat; len : nat }.
Definition dead_arr : arr := mkArr false false PNone 0 0.
Definition empty_arr : arr := mkArr true false PNone 0 0.

Record state := mkState {
  stos : list sto; bufs : list (list Z); arrs : list arr;
  created : Z; deleted : Z;
  faults : Z        (* counts: link operation on a freed storage, free of a freed storage (never happens: theorem) *)
}.

Fixpoint set_nth {A} (k : nat) (x : A) (l : list A) : list A :=
  match l, k with [], _ => [] | _ :: t, O => x :: t | h :: t, S k' => h :: set_nth k' x t end.
Definition get_arr (st : state) (i : nat) : arr := nth i (arrs st) dead_arr.
Definition get_sto (st : state) (s : nat) : sto := nth s (stos st) (mkSto 0 true []).
Definition put_arr (st : state) (i : nat) (a : arr) : state :=
  mkState (stos st) (bufs st) (set_nth i a (arrs st)) (created st) (deleted st) (faults st).

(* Storage::add_link / remove_link (deletes itself when the count reaches zero) *)
Definition add_link (st : state) (s : nat) : state :=
  let o := get_sto st s in
  mkState (set_nth s (mkSto (links o + 1) (freed o) (cells o)) (stos st)) (bufs st) (arrs st) (created st) (deleted st)
          (if freed o then faults st + 1 else faults st).
Definition remove_link (st : state) (s : nat) : state :=
  let o := get_sto st s in
  if freed o then mkState (stos st) (bufs st) (arrs st) (created st) (deleted st) (faults st + 1)
  else if links o - 1 =? 0
       then mkState (set_nth s (mkSto 0 true (cells o)) (stos st)) (bufs st) (arrs st) (created st) (deleted st + 1) (faults st)
       else mkState (set_nth s (mkSto (links o - 1) false (cells o)) (stos st)) (bufs st) (arrs st) (created st) (deleted st) (faults st).
(* new Storage(n): one link *)
Definition new_sto (st : state) (n : nat) (v : Z) : state * nat :=
  (mkState (stos st ++ [mkSto 1 false (repeat v n)]) (bufs st) (arrs st) (created st + 1) (deleted st) (faults st), length (stos st)).

(* a Storage object that is created and deleted within one operation (a temporary's data) *)
Definition temp_cycle (st : state) : state :=
  mkState (stos st ++ [mkSto 0 true []]) (bufs st) (arrs st) (created st + 1) (deleted st + 1) (faults st).

(* release whatever the array object holds (destructor / clear / first step of resize and link) *)
Definition release (st : state) (i : nat) : state :=
  let a := get_arr st i in
  match plc a with PSto s => if live a && owns a then remove_link st s else st | _ => st end.

(* reading / writing cell j of an array *)
Definition read_cells (st : state) (a : arr) : list Z :=
  match plc a with
  | PSto s => firstn (len a) (skipn (off a) (cells (get_sto st s)))
  | PExt k => firstn (len a) (skipn (off a) (nth k (bufs st) []))
  | PNone => []
  end.
Fixpoint write_at (l : list Z) (k : nat) (vs : list Z) : list Z :=
  match vs with [] => l | v :: vs' => write_at (set_nth k v l) (S k) vs' end.
Definition write_cells (st : state) (a : arr) (vs : list Z) : state :=
  match plc a with
  | PSto s => let o := get_sto st s in
      mkState (set_nth s (mkSto (links o) (freed o) (write_at (cells o) (off a) vs)) (stos st)) (bufs st) (arrs st) (created st) (deleted st) (faults st)
  | PExt k => mkState (stos st) (set_nth k (write_at (nth k (bufs st) []) (off a) vs) (bufs st)) (arrs st) (created st) (deleted st) (faults st)
  | PNone => st
  end.

Inductive aop :=
| ANew (i n : nat) (v : Z)          (* slot i (unused) := Vector(n) filled with v                     [sized constructor]   *)
| AEmpty (i : nat)                  (* slot i (unused) := Vector()                                     [default constructor] *)
| ACopy (i j : nat)                 (* slot i (unused) := Vector(a[j])                                 [copy constructor: shares] *)
| ASlice (i j b n : nat)            (* slot i (unused) := a[j](range(b,b+n-1))                         [view constructor: shares] *)
| ASoft (i j : nat)                 (* slot i (unused) := a[j].soft_link()                             [no Storage pointer] *)
| AExt (i k : nat)                  (* slot i (unused) := Vector(buf_k, dims)                          [user memory] *)
| ALink (i j : nat)                 (* a[i].link(a[j])  /  a[i] >>= a[j]                                *)
| AAssign (i j : nat)               (* a[i] = a[j]                                                      [copy assignment] *)
| AMoveOwn (i n : nat) (v : Z)      (* a[i] = Vector(n) filled with v                                   [move: temporary owning its data] *)
| AMoveExt (i k : nat)              (* a[i] = Vector(buf_k, dims)                                       [move: temporary on user memory] *)
| AMoveSlice (i j b n : nat)        (* a[i] = a[j](range(b,b+n-1))                                      [move: temporary sharing data] *)
| AResize (i n : nat) | AClear (i : nat) | ADestroy (i : nat)
| AWrite (i k : nat) (v : Z).

(* element-wise copy into an existing, equally sized target (Array::operator=(Expression) copies through a
   temporary when the two sides overlap, so reading all values first is exact) *)
Definition copy_into (st : state) (i : nat) (vals : list Z) : state :=
  let a := get_arr st i in
  match plc a with
  | PNone =>      (* empty target: resize, then copy *)
      if Nat.eqb (length vals) 0 then st
      else let '(st1, s) := new_sto st (length vals) 0 in
           write_cells (put_arr st1 i (mkArr true true (PSto s) 0 (length vals))) (mkArr true true (PSto s) 0 (length vals)) vals
  | _ => if Nat.eqb (len a) (length vals) then write_cells st a vals else st   (* size_mismatch: nothing happens *)
  end.

Definition unused (st : state) (i : nat) : bool := negb (live (get_arr st i)) && Nat.ltb i (length (arrs st)).
Definition usable (st : state) (j : nat) : bool := live (get_arr st j).

Definition sstep (st : state) (o : aop) : state :=
  match o with
  | ANew i n v => if unused st i && negb (Nat.eqb n 0) then
        let '(st1, s) := new_sto st n v in put_arr st1 i (mkArr true true (PSto s) 0 n) else st
  | AEmpty i => if unused st i then put_arr st i empty_arr else st
  | ACopy i j => if unused st i && usable st j then
        let a := get_arr st j in
        let st1 := match plc a with PSto s => if owns a then add_link st s else st | _ => st end in
        put_arr st1 i (mkArr true (owns a) (plc a) (off a) (len a)) else st
  | ASlice i j b n => if unused st i && usable st j && Nat.leb (b + n) (len (get_arr st j)) && negb (Nat.eqb n 0) then
        let a := get_arr st j in
        let st1 := match plc a with PSto s => if owns a then add_link st s else st | _ => st end in
        put_arr st1 i (mkArr true (owns a) (plc a) (off a + b) n) else st
  | ASoft i j => if unused st i && usable st j then
        let a := get_arr st j in put_arr st i (mkArr true false (plc a) (off a) (len a)) else st
  | AExt i k => if unused st i && Nat.ltb k (length (bufs st)) then
        put_arr st i (mkArr true false (PExt k) 0 (length (nth k (bufs st) []))) else st
  | ALink i j => if usable st i && usable st j && negb (Nat.eqb i j) then
        let a := get_arr st j in
        match plc a with
        | PNone => st                            (* empty_array exception *)
        | _ => let st1 := release st i in
               let st2 := match plc a with PSto s => if owns a then add_link st1 s else st1 | _ => st1 end in
               put_arr st2 i (mkArr true (owns a) (plc a) (off a) (len a))
        end else st
  | AAssign i j => if usable st i && usable st j then copy_into st i (read_cells st (get_arr st j)) else st
  | AMoveOwn i n v => if usable st i && negb (Nat.eqb n 0) then
        (* the temporary Vector(n) owns a fresh Storage with one link.  The C++ constructs it first, then swaps
           or copies, then destroys it; the net effect per case is written directly (Storage ids are not observable) *)
        let a := get_arr st i in
        let sole := match plc a with PSto t => owns a && (links (get_sto st t) =? 1) | _ => false end in
        let is_empty := match plc a with PNone => true | _ => false end in
        if (is_empty || sole) && (is_empty || Nat.eqb (len a) n)
        then (* swap: a[i] takes the temporary's data; the temporary dies holding a[i]'s old data *)
             let st1 := release st i in
             let '(st2, s) := new_sto st1 n v in put_arr st2 i (mkArr true true (PSto s) 0 n)
        else if is_empty || sole then temp_cycle st          (* size_mismatch thrown; temporary created and destroyed *)
        else temp_cycle (copy_into st i (repeat v n))        (* element-wise copy; temporary created and destroyed *)
        else st
  | AMoveExt i k => if usable st i && Nat.ltb k (length (bufs st)) then copy_into st i (nth k (bufs st) []) else st
  | AMoveSlice i j b n => if usable st i && usable st j && Nat.leb (b + n) (len (get_arr st j)) && negb (Nat.eqb n 0) then
        let a := get_arr st j in
        copy_into st i (read_cells st (mkArr true (owns a) (plc a) (off a + b) n)) else st
  | AResize i n => if usable st i then
        let st1 := release st i in
        if Nat.eqb n 0 then put_arr st1 i empty_arr
        else let '(st2, s) := new_sto st1 n 0 in put_arr st2 i (mkArr true true (PSto s) 0 n) else st
  | AClear i => if usable st i then put_arr (release st i) i empty_arr else st
  | ADestroy i => if usable st i then put_arr (release st i) i dead_arr else st
  | AWrite i k v => if usable st i && Nat.ltb k (len (get_arr st i)) then
        let a := get_arr st i in write_cells st (mkArr true (owns a) (plc a) (off a + k) 1) [v] else st
  end.

Definition sinit (nslots : nat) (buffers : list (list Z)) : state :=
  mkState [] buffers (repeat dead_arr nslots) 0 0 0.
Definition srun (nslots : nat) (buffers : list (list Z)) (ops : list aop) : state :=
  fold_left sstep ops (sinit nslots buffers).
