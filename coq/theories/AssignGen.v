(* Array::data_range and Array::is_aliased_ (and FixedArray's) as tools/gen_alias.py reads them from the source on
   every run, re-assembled and proved to be the model's [data_range] and the leaf case of [is_aliased] (Assign.v). *)
From Coq Require Import ZArith List Bool Lia ZifyBool.
From Adept Require Import View Assign AssignProofs.
From AdeptGen Require Import Gen_Alias.
Import ListNotations.
Local Open Scope Z_scope.

Fixpoint gen_range_go (ds ss : list Z) (lo hi : Z) : Z * Z :=
  match ds, ss with
  | d :: ds', s :: ss' => if dr_up d s then gen_range_go ds' ss' lo (dr_up_hi hi d s) else gen_range_go ds' ss' (dr_down_lo lo d s) hi
  | _, _ => (lo, hi)
  end.
Definition gen_data_range (v : view) : Z * Z := gen_range_go (dims v) (strides v) (dr_begin0 (base v)) (dr_end0 (base v)).
(* Array::is_aliased_(mem1, mem2) of a view whose memory is parent [par]; the expression-level test hands over the
   target's data_range as (mem1, mem2) and only arrays of the same parent can share addresses *)
Definition gen_leaf_aliased (v : pview) (p : nat) (mem1 mem2 : Z) : bool :=
  Nat.eqb (par v) p && (let '(b, t) := gen_data_range (vw v) in al_test b t mem1 mem2).

(* proved from what the two branches compute, not from their syntax: a sign test that differs from the model's only
   where both branches add the same amount (stride 0) still passes *)
Lemma gen_range_step_eq : forall d s lo hi,
  (if dr_up d s then (lo, dr_up_hi hi d s) else (dr_down_lo lo d s, hi)) =
  (if 0 <=? s then (lo, hi + (d - 1) * s) else (lo + (d - 1) * s, hi)).
Proof.
  intros d s lo hi. unfold dr_up_hi, dr_down_lo.
  destruct (dr_up d s) eqn:E1; destruct (Z.leb_spec 0 s) as [H|H]; try reflexivity; unfold dr_up in E1;
    assert (Hs : s = 0) by lia; subst s; rewrite !Z.mul_0_r, !Z.add_0_r; reflexivity.
Qed.
Lemma gen_range_go_eq : forall ds ss lo hi, gen_range_go ds ss lo hi = range_go ds ss lo hi.
Proof.
  induction ds as [|d ds IH]; intros ss lo hi; [reflexivity|].
  destruct ss as [|s ss]; [reflexivity|]. cbn [gen_range_go range_go].
  pose proof (gen_range_step_eq d s lo hi) as H.
  destruct (dr_up d s); destruct (0 <=? s); inversion H; rewrite IH; congruence.
Qed.
Lemma gen_data_range_eq : forall v, gen_data_range v = data_range v.
Proof. intros v. unfold gen_data_range, data_range, dr_begin0, dr_end0. apply gen_range_go_eq. Qed.
Lemma gen_leaf_aliased_eq : forall v p lo hi, gen_leaf_aliased v p lo hi = is_aliased (ELeaf v) p lo hi.
Proof.
  intros v p lo hi. unfold gen_leaf_aliased. cbn [is_aliased]. rewrite gen_data_range_eq.
  destruct (data_range (vw v)) as [b t]. unfold al_test. f_equal. f_equal. rewrite Z.geb_leb. reflexivity.
Qed.

(* FixedArray: data_ .. data_ + length_ - 1, and the same overlap test *)
Lemma gen_fixed_range : forall base len, fdr_begin base len = base /\ fdr_end base len = base + len - 1.
Proof. intros. split; reflexivity. Qed.
Lemma gen_fixed_test : forall b t m1 m2, fal_test b t m1 m2 = al_test b t m1 m2.
Proof. intros. reflexivity. Qed.

(* the overlap test is exact on ranges: it answers false only when the two ranges share no address *)
Lemma al_test_false_disjoint : forall b t m1 m2 a, al_test b t m1 m2 = false -> b <= a <= t -> m1 <= a <= m2 -> False.
Proof.
  intros b t m1 m2 a H Ha Hm. unfold al_test in H. apply andb_false_iff in H.
  destruct H as [H|H]; [apply Z.leb_gt in H|rewrite Z.geb_leb in H; apply Z.leb_gt in H]; lia.
Qed.
