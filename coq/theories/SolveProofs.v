(* C16: given LAPACK's documented behaviour, what solve and inv return satisfies the defining equations for the LOGICAL
   operands, for every size and every number of right-hand sides: the arguments n, nrhs, lda, ldb and the triangle
   letter that the translator reads from the sources are the right ones for the working copies. *)
From Coq Require Import ZArith List Bool Lia.
From Adept Require Import Scalar Solve.
From AdeptGen Require Import Gen_Lapack.
Import ListNotations.
Local Open Scope Z_scope.

Section SolveProofs.
Context {T : Type} (O : Ops T).
Notation zsumS := (zsumS O).

Lemma fold_extS (f g : Z -> T) l a : (forall q, In q l -> f (Z.of_nat q) = g (Z.of_nat q)) ->
  fold_left (fun a q => oadd O a (f (Z.of_nat q))) l a = fold_left (fun a q => oadd O a (g (Z.of_nat q))) l a.
Proof. revert a. induction l as [|x l IH]; intros a H; [reflexivity|]. cbn. rewrite (H x) by (left; reflexivity). apply IH. intros q Hq. apply H. right. exact Hq. Qed.
Lemma zsumS_ext n f g : (forall q, 0 <= q < n -> f q = g q) -> zsumS n f = zsumS n g.
Proof. intros H. unfold Solve.zsumS. apply fold_extS. intros q Hq. apply in_seq in Hq. apply H. lia. Qed.
Lemma copy_cm_at ld (M : Z -> Z -> T) i j : 0 <= i < ld -> copy_cm ld M (cm ld i j) = M i j.
Proof.
  intros H. unfold copy_cm, cm. rewrite Z.mod_add by lia. rewrite Z.mod_small by lia. rewrite Z.div_add by lia. rewrite Z.div_small by lia. reflexivity.
Qed.

(* ---- LAPACK as an oracle *)
Variable gesv : Z -> Z -> (Z -> T) -> Z -> (Z -> T) -> Z -> (Z -> T).
Hypothesis gesv_spec : forall n nrhs a lda b ldb, 0 < n -> n <= lda -> n <= ldb ->
  forall i j, 0 <= i < n -> 0 <= j < nrhs ->
  zsumS n (fun k => omul O (a (cm lda i k)) (gesv n nrhs a lda b ldb (cm ldb k j))) = b (cm ldb i j).

Theorem solve_matrix_rhs (s : shapes) (A B : Z -> Z -> T) i j : 0 < sn s -> 0 <= i < sn s -> 0 <= j < sp s ->
  zsumS (sn s) (fun k => omul O (A i k) (adept_solve gesv gesv_matrix_rhs cpplapack_gesv_passes_as_ldb s A B k j)) = B i j.
Proof.
  intros Hn Hi Hj. unfold adept_solve. cbn [gesv_matrix_rhs cpplapack_gesv_passes_as_ldb l_n l_nrhs l_lda l_ldb eval_arg].
  rewrite <- (copy_cm_at (sn s) B i j) by lia.
  rewrite <- (gesv_spec (sn s) (sp s) (copy_cm (sn s) A) (sn s) (copy_cm (sn s) B) (sn s) Hn ltac:(lia) ltac:(lia) i j Hi Hj).
  apply zsumS_ext. intros k Hk. rewrite copy_cm_at by lia. reflexivity.
Qed.
Theorem solve_vector_rhs (s : shapes) (A B : Z -> Z -> T) i : 0 < sn s -> sp s = 1 -> 0 <= i < sn s ->
  zsumS (sn s) (fun k => omul O (A i k) (adept_solve gesv gesv_vector_rhs cpplapack_gesv_passes_as_ldb s A B k 0)) = B i 0.
Proof.
  intros Hn Hp Hi. unfold adept_solve. cbn [gesv_vector_rhs cpplapack_gesv_passes_as_ldb l_n l_nrhs l_lda l_ldb eval_arg].
  rewrite <- (copy_cm_at (sn s) B i 0) by lia.
  rewrite <- (gesv_spec (sn s) 1 (copy_cm (sn s) A) (sn s) (copy_cm (sn s) B) (sn s) Hn ltac:(lia) ltac:(lia) i 0 Hi ltac:(lia)).
  apply zsumS_ext. intros k Hk. rewrite copy_cm_at by lia. reflexivity.
Qed.

(* ---- symmetric systems: the SymmMatrix copy stores element (i,j), i >= j (orientation ROW_LOWER_COL_UPPER), at i*n + j,
   which LAPACK, reading column-major, sees as position (j,i) of the UPPER triangle (and symmetrically for the other
   orientation); the oracle reads only the triangle it is told *)
Definition symm_copy (lower_rows : bool) (n : Z) (A : Z -> Z -> T) (junk : Z -> T) : Z -> T :=
  fun a => let r := a mod n in let c := a / n in
           if lower_rows then (if r <=? c then A c r else junk a) else (if c <=? r then A c r else junk a).
Definition tri_read (t : triangle) (a : Z -> T) (ld i k : Z) : T :=
  match t with Upper => if i <=? k then a (cm ld i k) else a (cm ld k i) | Lower => if k <=? i then a (cm ld i k) else a (cm ld k i) end.
Variable sysv : triangle -> Z -> Z -> (Z -> T) -> Z -> (Z -> T) -> Z -> (Z -> T).
Hypothesis sysv_spec : forall t n nrhs a lda b ldb, 0 < n -> n <= lda -> n <= ldb ->
  forall i j, 0 <= i < n -> 0 <= j < nrhs ->
  zsumS n (fun k => omul O (tri_read t a lda i k) (sysv t n nrhs a lda b ldb (cm ldb k j))) = b (cm ldb i j).
Definition adept_solve_symm (lower_rows : bool) (c : lcall) (s : shapes) (A B : Z -> Z -> T) (junk : Z -> T) : Z -> Z -> T :=
  let t := if lower_rows then uplo_row_lower_col_upper else uplo_row_upper_col_lower in
  let x := sysv t (eval_arg s (l_n c)) (eval_arg s (l_nrhs c)) (symm_copy lower_rows (sn s) A junk) (eval_arg s (l_lda c)) (copy_cm (sn s) B) (eval_arg s (l_ldb c)) in
  fun i j => x (cm (sn s) i j).
Lemma symm_copy_read (lower_rows : bool) n (A : Z -> Z -> T) (junk : Z -> T) i k : 0 <= i < n -> 0 <= k < n -> (forall x y, A x y = A y x) ->
  tri_read (if lower_rows then uplo_row_lower_col_upper else uplo_row_upper_col_lower) (symm_copy lower_rows n A junk) n i k = A i k.
Proof.
  intros Hi Hk Hs. unfold tri_read, symm_copy, cm. destruct lower_rows; cbn [uplo_row_lower_col_upper uplo_row_upper_col_lower].
  - destruct (Z.leb_spec i k).
    + rewrite Z.mod_add, Z.mod_small, Z.div_add, Z.div_small by lia. replace (0 + k) with k by lia. destruct (Z.leb_spec i k); [apply Hs|lia].
    + rewrite Z.mod_add, Z.mod_small, Z.div_add, Z.div_small by lia. replace (0 + i) with i by lia. destruct (Z.leb_spec k i); [reflexivity|lia].
  - destruct (Z.leb_spec k i).
    + rewrite Z.mod_add, Z.mod_small, Z.div_add, Z.div_small by lia. replace (0 + k) with k by lia. destruct (Z.leb_spec k i); [apply Hs|lia].
    + rewrite Z.mod_add, Z.mod_small, Z.div_add, Z.div_small by lia. replace (0 + i) with i by lia. destruct (Z.leb_spec i k); [reflexivity|lia].
Qed.
Theorem solve_symmetric_matrix_rhs (lower_rows : bool) (s : shapes) (A B : Z -> Z -> T) (junk : Z -> T) i j : 0 < sn s -> (forall x y, A x y = A y x) -> 0 <= i < sn s -> 0 <= j < sp s ->
  zsumS (sn s) (fun k => omul O (A i k) (adept_solve_symm lower_rows sysv_matrix_rhs s A B junk k j)) = B i j.
Proof.
  intros Hn Hs Hi Hj. unfold adept_solve_symm. cbn [sysv_matrix_rhs l_n l_nrhs l_lda l_ldb eval_arg].
  rewrite <- (copy_cm_at (sn s) B i j) by lia.
  rewrite <- (sysv_spec (if lower_rows then uplo_row_lower_col_upper else uplo_row_upper_col_lower) (sn s) (sp s) (symm_copy lower_rows (sn s) A junk) (sn s) (copy_cm (sn s) B) (sn s) Hn ltac:(lia) ltac:(lia) i j Hi Hj).
  apply zsumS_ext. intros k Hk. rewrite symm_copy_read by (try lia; exact Hs). reflexivity.
Qed.

(* ---- inverse: ?getrf + ?getri return, in place, a matrix whose product with the input is the identity *)
Variable getri : Z -> (Z -> T) -> Z -> (Z -> T).
Hypothesis getri_spec : forall n a lda, 0 < n -> n <= lda -> forall i j, 0 <= i < n -> 0 <= j < n ->
  zsumS n (fun k => omul O (a (cm lda i k)) (getri n a lda (cm lda k j))) = (if i =? j then o1 O else o0 O).
Definition adept_inv (s : shapes) (A : Z -> Z -> T) : Z -> Z -> T :=
  let x := getri (eval_arg s (l_n getri_call)) (copy_cm (sn s) A) (eval_arg s (l_lda getri_call)) in fun i j => x (cm (sn s) i j).
Theorem inv_right_identity (s : shapes) (A : Z -> Z -> T) i j : 0 < sn s -> 0 <= i < sn s -> 0 <= j < sn s ->
  zsumS (sn s) (fun k => omul O (A i k) (adept_inv s A k j)) = (if i =? j then o1 O else o0 O).
Proof.
  intros Hn Hi Hj. unfold adept_inv. cbn [getri_call l_n l_lda eval_arg].
  rewrite <- (getri_spec (sn s) (copy_cm (sn s) A) (sn s) Hn ltac:(lia) i j Hi Hj).
  apply zsumS_ext. intros k Hk. rewrite copy_cm_at by lia. reflexivity.
Qed.
End SolveProofs.
