(* C18 / C19: control skeleton of the line search (adept/line_search.cpp) and of the conjugate-gradient drivers, unbounded
   and bounded (adept/minimize_conjugate_gradient.cpp), over the abstract scalar type, written statement by statement
   from the source.  The user's cost function and gradient, the norm, sqrt and the finiteness test are Section variables
   without hypotheses; every call-back is logged.  The line search runs on its own iteration counter (as in the code);
   the main loop runs on fuel. *)
From Coq Require Import List Bool ZArith Lia.
From Adept Require Import Scalar Minim.
Import ListNotations.
Local Open Scope Z_scope.

Section MinimCG.
Context {T : Type} (O : Ops T).
Variable cost : list T -> T.
Variable grad : list T -> list T.
Variable norm2 : list T -> T.
Variable osqrt : T -> T.
Variable isfinite : T -> bool.

(* numeric constants of the code, supplied by the driver: 1.1 10 5 2 3 0.95 0.05, DBL_MAX, 4*epsilon *)
Record consts := mkConsts { c1_1 : T; c10 : T; c5 : T; c2 : T; c3 : T; c0_95 : T; c0_05 : T; cbig : T; ceps4 : T }.
Record cgsettings := mkCg { g_max_it : Z; g_max_step : T; g_thr : T; g_ensure : Z; g_max_ls : nat; g_armijo : T; g_curv : T }.

Notation vadd := (vadd O). Notation vscale := (vscale O). Notation vneg := (vneg O). Notation clamp := (clamp O).
Notation omax := (omax O). Notation omin := (omin O). Notation oabs := (oabs O).
Definition dot (a b : list T) : T := fold_left (oadd O) (map2 (omul O) a b) (o0 O).
Definition vsub (a b : list T) : list T := map2 (osub O) a b.
Definition any_nonfinite (g : list T) : bool := existsb (fun v => negb (isfinite v)) g.

(* x + (ss * dir_scaling) * direction, clamped when bounds are given *)
Definition point (bnd : option (list T * list T)) (x dir : list T) (ds ss : T) : list T :=
  let t := vadd x (vscale (omul O ss ds) dir) in
  match bnd with Some (lo, hi) => clamp lo hi t | None => t end.

(* ---- line_search_gradient_check *)
Record gc_out := mkGc { gc_status : mstatus; gc_x : list T; gc_cf : T; gc_gd : T; gc_gradient : list T; gc_final_step : T; gc_cost_fn : T; gc_utd : Z }.
Definition gradient_check (s : cgsettings) (bnd : option (list T * list T)) (x dir : list T) (final_step : T) (ss grad0 ds cost_fn curv : T) : gc_out * list T :=
  let tx := point bnd x dir ds ss in
  let cf := cost tx in let g := grad tx in
  if negb (isfinite cf) then (mkGc MInvalidCost x cf (o0 O) g final_step cost_fn (-1), tx)
  else if any_nonfinite g then (mkGc MInvalidGradient x cf (o0 O) g final_step cost_fn (-1), tx)
  else
    let gd := omul O (dot dir g) ds in
    if oleb O cf (oadd O cost_fn (omul O (omul O (g_armijo s) ss) grad0)) && oleb O (oabs gd) (omul O (oneg O curv) grad0)
    then (mkGc MSuccess tx cf gd g ss cf 1, tx)
    else (mkGc MNotYetConverged x cf gd g final_step cost_fn (-1), tx).

(* ---- line_search *)
Record ls_out := mkLs { ls_status : mstatus; ls_x : list T; ls_step : T; ls_gradient : list T; ls_utd : Z; ls_cost_fn : T; ls_samples : Z; ls_log : list (list T) }.
(* the state carried by both loops *)
Record ls_st := mkLst { l_ss1 : T; l_cf1 : T; l_grad1 : T; l_ss2 : T; l_cf2 : T; l_grad2 : T; l_at_bound : bool;
                        l_gradient : list T; l_utd : Z; l_samples : Z; l_log : list (list T) }.
Section LineSearch.
Variables (s : cgsettings) (k : consts) (bnd : option (list T * list T)) (x dir : list T) (step0 curv bound_step : T) (cost_fn0 : T).
Let ds := odiv O (o1 O) (norm2 dir).
Definition ls_grad0 (gradient : list T) : T := omul O (dot dir gradient) ds.
Definition is_bound_step : bool := oltb O (o0 O) bound_step.
Definition cap_step (ss_prev new_step : T) : T :=
  if oltb O (o0 O) (g_max_step s) && oltb O (g_max_step s) (osub O new_step ss_prev) then oadd O ss_prev (g_max_step s) else new_step.
(* x moved to the point of step ss (the error paths and the ends of the search) *)
Definition moved (ss : T) : list T := point bnd x dir ds ss.

Inductive br_res := BrDone (o : ls_out) | BrBracket (itr : nat) (st : ls_st).
Fixpoint bracket (itr : nat) (grad0 : T) (st : ls_st) : br_res :=
  match itr with 0%nat => BrBracket 0%nat st | S itr' =>
    let '(gc, tx) := gradient_check s bnd x dir step0 (l_ss2 st) grad0 ds cost_fn0 curv in
    let smp := l_samples st + 1 in let lg := l_log st ++ [tx] in
    match gc_status gc with
    | MSuccess => BrDone (mkLs (if l_at_bound st then MBoundReached else MSuccess) (gc_x gc) (gc_final_step gc) (gc_gradient gc) 1 (gc_cost_fn gc) smp lg)
    | MNotYetConverged =>
      let cf2 := gc_cf gc in let grad2 := gc_gd gc in
      if oltb O (o0 O) grad2 || oleb O (l_cf1 st) cf2 then
        BrBracket itr (mkLst (l_ss1 st) (l_cf1 st) (l_grad1 st) (l_ss2 st) cf2 grad2 (l_at_bound st) (gc_gradient gc) (-1) smp lg)
      else if l_at_bound st then
        BrDone (mkLs MBoundReached (moved (l_ss2 st)) (l_ss2 st) (gc_gradient gc) 1 cf2 smp lg)
      else
        let ss1 := l_ss1 st in let ss2 := l_ss2 st in let cf1 := l_cf1 st in
        let d12 := osub O ss1 ss2 in
        let new_step :=
          if oltb O (oadd O cf2 (omul O grad2 d12)) cf1 then
            let curvature := odiv O (omul O (c2 k) (osub O (osub O cf1 cf2) (omul O grad2 d12))) (omul O d12 d12) in
            let ns := osub O ss2 (odiv O grad2 curvature) in
            let ns := omax (oadd O ss1 (omul O (c1_1 k) (osub O ss2 ss1))) (omin ns (oadd O ss1 (omul O (c10 k) (osub O ss2 ss1)))) in
            cap_step ss2 ns
          else cap_step ss2 (oadd O ss2 (omul O (c5 k) (osub O ss2 ss1))) in
        let '(ss2', atb) := if is_bound_step && oleb O bound_step new_step then (bound_step, true) else (new_step, l_at_bound st) in
        bracket itr' grad0 (mkLst ss2 cf2 grad2 ss2' cf2 grad2 atb (gc_gradient gc) (-1) smp lg)
    | st' =>
      (* cost function or gradient not finite: revert to the previous step *)
      let ss1 := l_ss1 st in
      if oltb O (o0 O) ss1 then BrDone (mkLs st' (moved ss1) ss1 (gc_gradient gc) 0 (l_cf1 st) smp lg)
      else BrDone (mkLs st' x ss1 (gc_gradient gc) 0 cost_fn0 smp lg)
    end
  end.

Fixpoint refine (itr : nat) (grad0 cf0 : T) (st : ls_st) : ls_out :=
  match itr with
  | 0%nat =>
    (* maximum iterations reached: has the cost function been reduced at all? *)
    if oltb O (l_cf2 st) (l_cf1 st) then mkLs MSuccess (moved (l_ss2 st)) (l_ss2 st) (l_gradient st) (-1) (l_cf2 st) (l_samples st) (l_log st)
    else if oltb O (l_cf1 st) cf0 then mkLs MSuccess (moved (l_ss1 st)) (l_ss1 st) (l_gradient st) (-1) (l_cf1 st) (l_samples st) (l_log st)
    else mkLs MFailedToConverge x step0 (l_gradient st) (-1) cost_fn0 (l_samples st) (l_log st)
  | S itr' =>
    let ss1 := l_ss1 st in let ss2 := l_ss2 st in let cf1 := l_cf1 st in let cf2 := l_cf2 st in let grad1 := l_grad1 st in let grad2 := l_grad2 st in
    if oleb O ss2 ss1 then
      if oltb O cf1 cf0 then mkLs MSuccess (moved ss1) ss1 (l_gradient st) (l_utd st) cf1 (l_samples st) (l_log st)
      else mkLs MFailedToConverge x step0 (l_gradient st) (l_utd st) cost_fn0 (l_samples st) (l_log st)
    else
      let step_diff := osub O ss2 ss1 in
      let theta := oadd O (oadd O (odiv O (omul O (osub O cf1 cf2) (c3 k)) step_diff) grad1) grad2 in
      let max_grad := omax (oabs theta) (omax (oabs grad1) (oabs grad2)) in
      let scaled_theta := odiv O theta max_grad in
      let gamma := omul O max_grad (osqrt (osub O (omul O scaled_theta scaled_theta) (omul O (odiv O grad1 max_grad) (odiv O grad2 max_grad)))) in
      let ss3 := oadd O ss1 (omul O (odiv O (oadd O (osub O gamma grad1) theta) (osub O (oadd O (omul O (c2 k) gamma) grad2) grad1)) step_diff) in
      let ss3 := omax (oadd O (omul O (c0_95 k) ss1) (omul O (c0_05 k) ss2)) (omin (oadd O (omul O (c0_05 k) ss1) (omul O (c0_95 k) ss2)) ss3) in
      let '(gc, tx) := gradient_check s bnd x dir step0 ss3 grad0 ds cost_fn0 curv in
      let smp := l_samples st + 1 in let lg := l_log st ++ [tx] in
      match gc_status gc with
      | MSuccess => mkLs MSuccess (gc_x gc) (gc_final_step gc) (gc_gradient gc) 1 (gc_cost_fn gc) smp lg
      | MNotYetConverged =>
        let cf3 := gc_cf gc in let grad3 := gc_gd gc in
        if oltb O (o0 O) grad3 then refine itr' grad0 cf0 (mkLst ss1 cf1 grad1 ss3 cf3 grad3 (l_at_bound st) (gc_gradient gc) (-1) smp lg)
        else if oltb O cf3 cf1 then refine itr' grad0 cf0 (mkLst ss3 cf3 grad3 ss2 cf2 grad2 (l_at_bound st) (gc_gradient gc) (-1) smp lg)
        else refine itr' grad0 cf0 (mkLst ss1 cf1 grad1 ss3 cf3 grad3 (l_at_bound st) (gc_gradient gc) (-1) smp lg)
      | st' =>
        if oltb O (o0 O) ss1 then mkLs st' (moved ss1) ss1 (gc_gradient gc) 0 cf1 smp lg
        else mkLs st' x ss1 (gc_gradient gc) 0 cost_fn0 smp lg
      end
  end.

Definition line_search (gradient : list T) (utd samples : Z) (log : list (list T)) : ls_out :=
  let grad0 := ls_grad0 gradient in
  if oleb O (o0 O) grad0 then mkLs MDirectionUphill x step0 gradient utd cost_fn0 samples log
  else
    let ss2 := if oltb O (o0 O) (g_max_step s) && oltb O (g_max_step s) step0 then g_max_step s else step0 in
    let '(ss2, atb) := if is_bound_step && oleb O bound_step ss2 then (bound_step, true) else (ss2, false) in
    match bracket (g_max_ls s) grad0 (mkLst (o0 O) cost_fn0 grad0 ss2 cost_fn0 grad0 atb gradient utd samples log) with
    | BrDone o => o
    | BrBracket itr st => refine itr grad0 cost_fn0 st
    end.
End LineSearch.

(* ================= conjugate gradient, bounded ================= *)
Record cg_state := mkCgs { q_x : list T; q_gradient : list T; q_prev : list T; q_dir : list T; q_bs : list Z; q_utd : Z; q_step : T;
                           q_restart : bool; q_last_restart : Z; q_it : Z; q_samples : Z; q_cost : T; q_start : T; q_gn : T; q_log : list (event (T:=T)) }.
Definition ev_states (l : list (list T)) : list (event (T:=T)) := map (fun x => EvCostGradHess x) l.

(* distance to the nearest bound along the direction *)
Fixpoint nearest_bound (k : consts) (ds : T) (x lo hi dir : list T) (ix : Z) (acc : T * Z * Z) : T * Z * Z :=
  match x, lo, hi, dir with
  | xv :: x', l :: lo', h :: hi', d :: dir' =>
    let '(bstep, inear, itype) := acc in
    let acc' :=
      if oltb O (o0 O) d && oltb O h (cbig k) then
        let loc := odiv O (omul O ds (osub O h xv)) d in if oleb O loc bstep then (loc, ix, 1) else acc
      else if oltb O d (o0 O) && oltb O (oneg O (cbig k)) l then
        let loc := odiv O (omul O ds (osub O l xv)) d in if oleb O loc bstep then (loc, ix, -1) else acc
      else acc in
    nearest_bound k ds x' lo' hi' dir' (ix + 1) acc'
  | _, _, _, _ => acc
  end.
(* a free variable within rounding error of a bound is placed on it *)
Definition snap1 (k : consts) (l h v : T) (b : Z) : T * Z * bool * bool :=
  (* new value (assigned only if it differs: "if (x(ix) != x_bound) x(ix) = x_bound"), new flag, flagged, value changed *)
  if b =? 0 then
    let tol := omul O (ceps4 k) (omax (o1 O) (oabs v)) in
    if oleb O (osub O h v) tol then (if oeqb O v h then v else h, 1, true, negb (oeqb O v h))
    else if oleb O (osub O v l) tol then (if oeqb O v l then v else l, -1, true, negb (oeqb O v l))
    else (v, b, false, false)
  else (v, b, false, false).
Fixpoint snap_all (k : consts) (lo hi x : list T) (bs : list Z) {struct x} : list T * list Z * bool * bool :=
  (* new x, new flags, some variable was flagged, some value changed *)
  match x with
  | [] => ([], bs, false, false)
  | v :: x' =>
    match lo, hi, bs with
    | l :: lo', h :: hi', b :: bs' =>
      let '(v', b', hit, chg) := snap1 k l h v b in
      let '(xs, bss, anyhit, anychg) := snap_all k lo' hi' x' bs' in
      (v' :: xs, b' :: bss, hit || anyhit, chg || anychg)
    | _, _, _ => (x, bs, false, false)
    end
  end.
Definition zero_bound (bs : list Z) (g : list T) : list T := map2 (fun b gi => if b =? 0 then gi else o0 O) bs g.
Definition cg_refresh (s : cgsettings) (utd : Z) (x : list T) (cost_fn : T) (log : list (event (T:=T))) : T * list (event (T:=T)) :=
  if utd <? g_ensure s then
    if 0 <? g_ensure s then (cost x, log ++ [EvCostGradHess x]) else (cost x, log ++ [EvCost x])
  else (cost_fn, log).
Definition cg_result (st : mstatus) (q : cg_state) (c : T) (log : list (event (T:=T))) : result (T:=T) :=
  mkResult st (q_x q) c (q_start q) (q_gn q) (q_it q) (q_samples q) (q_bs q) (q_gradient q) log.
Definition cg_finish (s : cgsettings) (st : mstatus) (q : cg_state) : result (T:=T) :=
  let '(c, lg) := cg_refresh s (q_utd q) (q_x q) (q_cost q) (q_log q) in cg_result st q c lg.

(* one iteration of the main loop in three stages (so that each can be reasoned about with its inputs as variables);
   inl = the loop ends with this result, inr = state for the next iteration *)
(* stage 3: what happens after the line search returned o *)
Definition cg_after_ls (s : cgsettings) (k : consts) (lo hi : list T) (q2 : cg_state) (bs1 : list Z) (g dir : list T) (last_restart inear itype : Z)
           (log1 : list (event (T:=T))) (gn : T) (o : ls_out) : result (T:=T) + cg_state :=
  let log2 := log1 ++ ev_states (ls_log o) in
  (* a bound was reached: flag it and place the variable exactly on it *)
  let reached := match ls_status o with MBoundReached => true | _ => false end in
  let i := Z.to_nat inear in
  let xb := if 0 <? itype then nth i hi (o0 O) else nth i lo (o0 O) in
  let changed := reached && negb (oeqb O (nth i (ls_x o) (o0 O)) xb) in
  let x3 := if changed then set_nth i xb (ls_x o) else ls_x o in
  let bs3 := if reached then set_nth i itype bs1 else bs1 in
  let ls_st := if reached then MSuccess else ls_status o in
  (* variables within rounding error of a bound *)
  let '(x4, bs4, anyhit, anychg) := snap_all k lo hi x3 bs3 in
  (* the state is no longer the one at which the line search evaluated the cost function: evaluate it again *)
  let placed := changed || anychg in
  let cost4 := if placed then cost x4 else ls_cost_fn o in
  let utd4 := if placed then 0 else ls_utd o in
  let samples4 := if placed then ls_samples o + 1 else ls_samples o in
  let log3 := if placed then log2 ++ [EvCost x4] else log2 in
  let restart4 := reached || anyhit in
  let '(status, restart5) :=
    match ls_st with
    | MSuccess => (MNotYetConverged, restart4)
    | _ => if negb (last_restart =? q_it q2) then (MNotYetConverged, true) else (ls_st, restart4)
    end in
  let it' := q_it q2 + 1 in
  let status' := match status with MNotYetConverged => if g_max_it s <=? it' then MMaxIterations else MNotYetConverged | _ => status end in
  let q3 := mkCgs x4 (ls_gradient o) g dir bs4 utd4 (omul O (ls_step o) (c2 k)) restart5 last_restart it' samples4 cost4 (q_start q2) gn log3 in
  match status' with
  | MNotYetConverged => inr q3
  | _ => inl (cg_finish s status' q3)
  end.
(* stage 2: search direction, distance to the nearest bound, line search *)
Definition cg_search (s : cgsettings) (k : consts) (fr : bool) (lo hi : list T) (nx : Z) (q2 : cg_state) (bs1 : list Z) (g : list T) (cf gn : T)
           (restart1 : bool) (log1 : list (event (T:=T))) : result (T:=T) + cg_state :=
  let restart2 := restart1 || (nx <? q_it q2 - q_last_restart q2) in
  let beta := if fr then odiv O (dot g g) (dot (q_prev q2) (q_prev q2))
              else omax (odiv O (fold_left (oadd O) (map2 (omul O) g (vsub g (q_prev q2))) (o0 O)) (dot (q_prev q2) (q_prev q2))) (o0 O) in
  let dir := if restart2 then vneg g else vsub (vscale beta (q_dir q2)) g in
  let last_restart := if restart2 then q_it q2 else if oleb O beta (o0 O) then q_it q2 else q_last_restart q2 in
  let ds := norm2 dir in
  let '(bstep, inear, itype) := nearest_bound k ds (q_x q2) lo hi dir 0 (cbig k, -1, 0) in
  let o := if 0 <=? inear
           then line_search s k (Some (lo, hi)) (q_x q2) dir (q_step q2) (g_curv s) bstep cf g (q_utd q2) (q_samples q2) []
           else line_search s k None (q_x q2) dir (q_step q2) (g_curv s) (oneg O (o1 O)) cf g (q_utd q2) (q_samples q2) [] in
  cg_after_ls s k lo hi q2 bs1 g dir last_restart inear itype log1 gn o.
(* stage 1: cost function and gradient at x (unless the line search left them up to date), release of bound variables,
   convergence test *)
Definition cg_step (s : cgsettings) (k : consts) (fr : bool) (lo hi : list T) (nx : Z) (q : cg_state) : result (T:=T) + cg_state :=
  let need := q_utd q <? 1 in
  let cf := if need then cost (q_x q) else q_cost q in
  let g0 := if need then grad (q_x q) else q_gradient q in
  let q1 := if need then mkCgs (q_x q) g0 (q_prev q) (q_dir q) (q_bs q) 1 (q_step q) (q_restart q) (q_last_restart q) (q_it q) (q_samples q + 1) cf
                               (if q_it q =? 0 then cf else q_start q) (q_gn q) (q_log q ++ [EvCostGradHess (q_x q)])
            else q in
  if need && negb (isfinite cf) then inl (cg_finish s MInvalidCost q1)
  else if need && any_nonfinite g0 then inl (cg_finish s MInvalidGradient q1)
  else
    (* release variables whose bound is not consistent with the gradient *)
    let rel := can_release O (q_bs q1) g0 in
    let bs1 := if rel then release1 O (q_bs q1) g0 else q_bs q1 in
    let restart1 := q_restart q1 || rel in
    let nfree := Z.of_nat (length bs1) - count_bound bs1 in
    let g := zero_bound bs1 g0 in
    let gn := if 0 <? nfree then norm2 g else o0 O in
    let log1 := q_log q1 ++ [EvProgress (q_it q1) (q_x q1) cf gn] in
    let q2 := mkCgs (q_x q1) g (q_prev q1) (q_dir q1) bs1 (q_utd q1) (q_step q1) restart1 (q_last_restart q1) (q_it q1) (q_samples q1) cf (q_start q1) gn log1 in
    if oleb O gn (g_thr s) then inl (cg_finish s MSuccess q2)
    else cg_search s k fr lo hi nx q2 bs1 g cf gn restart1 log1.
Fixpoint cgb_loop (fuel : nat) (s : cgsettings) (k : consts) (fr : bool) (lo hi : list T) (nx : Z) (q : cg_state) : result (T:=T) :=
  match fuel with 0%nat => cg_result MOutOfFuel q (q_cost q) (q_log q) | S fuel' =>
    match cg_step s k fr lo hi nx q with
    | inl r => r
    | inr q' => cgb_loop fuel' s k fr lo hi nx q'
    end
  end.

Definition cg_bounded (fuel : nat) (s : cgsettings) (k : consts) (fr : bool) (lo hi x : list T) (minus_one inf : T) : result (T:=T) :=
  if negb (valid_bounds O lo hi x) then mkResult MInvalidBounds x inf (o0 O) minus_one 0 0 [] [] []
  else
    let bs := initial_bs O lo hi x in
    let step := if oltb O (o0 O) (g_max_step s) then g_max_step s else o1 O in
    cgb_loop fuel s k fr lo hi (Z.of_nat (length x))
             (mkCgs (clamp lo hi x) [] [] [] bs (-1) step true 0 0 0 inf (o0 O) minus_one []).

(* ================= conjugate gradient, unbounded ================= *)
Definition cgu_step (s : cgsettings) (k : consts) (fr : bool) (nx : Z) (q : cg_state) : result (T:=T) + cg_state :=
  let need := q_utd q <? 1 in
  let cf := if need then cost (q_x q) else q_cost q in
  let g := if need then grad (q_x q) else q_gradient q in
  let start := if q_it q =? 0 then cf else q_start q in
  let q1 := mkCgs (q_x q) g (q_prev q) (q_dir q) [] 1 (q_step q) (q_restart q) (q_last_restart q) (q_it q) (if need then q_samples q + 1 else q_samples q) cf start (q_gn q)
                  (if need then q_log q ++ [EvCostGradHess (q_x q)] else q_log q) in
  if negb (isfinite cf) then inl (cg_finish s MInvalidCost q1)
  else if any_nonfinite g then inl (cg_finish s MInvalidGradient q1)
  else
    let gn := norm2 g in
    let log1 := q_log q1 ++ [EvProgress (q_it q1) (q_x q1) cf gn] in
    let q2 := mkCgs (q_x q1) g (q_prev q1) (q_dir q1) [] 1 (q_step q1) (q_restart q1) (q_last_restart q1) (q_it q1) (q_samples q1) cf start gn log1 in
    if oleb O gn (g_thr s) then inl (cg_finish s MSuccess q2)
    else
      let restart2 := q_restart q2 || (nx <? q_it q2 - q_last_restart q2) in
      let beta := if fr then odiv O (dot g g) (dot (q_prev q2) (q_prev q2))
                  else omax (odiv O (fold_left (oadd O) (map2 (omul O) g (vsub g (q_prev q2))) (o0 O)) (dot (q_prev q2) (q_prev q2))) (o0 O) in
      let dir := if restart2 then vneg g else vsub (vscale beta (q_dir q2)) g in
      let last_restart := if restart2 then q_it q2 else if oleb O beta (o0 O) then q_it q2 else q_last_restart q2 in
      let o := line_search s k None (q_x q2) dir (q_step q2) (g_curv s) (oneg O (o1 O)) cf g 1 (q_samples q2) [] in
      let log2 := log1 ++ ev_states (ls_log o) in
      let '(status, restart5) :=
        match ls_status o with
        | MSuccess => (MNotYetConverged, false)
        | st => if negb (last_restart =? q_it q2) then (MNotYetConverged, true) else (st, false)
        end in
      let it' := q_it q2 + 1 in
      let status' := match status with MNotYetConverged => if g_max_it s <=? it' then MMaxIterations else MNotYetConverged | _ => status end in
      let q3 := mkCgs (ls_x o) (ls_gradient o) g dir [] (ls_utd o) (omul O (ls_step o) (c2 k)) restart5 last_restart it' (ls_samples o) (ls_cost_fn o) start gn log2 in
      match status' with
      | MNotYetConverged => inr q3
      | _ => inl (cg_finish s status' q3)
      end.
Fixpoint cgu_loop (fuel : nat) (s : cgsettings) (k : consts) (fr : bool) (nx : Z) (q : cg_state) : result (T:=T) :=
  match fuel with 0%nat => cg_result MOutOfFuel q (q_cost q) (q_log q) | S fuel' =>
    match cgu_step s k fr nx q with
    | inl r => r
    | inr q' => cgu_loop fuel' s k fr nx q'
    end
  end.
Definition cg_unbounded (fuel : nat) (s : cgsettings) (k : consts) (fr : bool) (x : list T) (minus_one inf : T) : result (T:=T) :=
  let step := if oltb O (o0 O) (g_max_step s) then g_max_step s else o1 O in
  cgu_loop fuel s k fr (Z.of_nat (length x)) (mkCgs x [] [] [] [] (-1) step true 0 0 0 inf (o0 O) minus_one []).
End MinimCG.
