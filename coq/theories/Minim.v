(* C18 / C19: control skeleton of the Levenberg / Levenberg-Marquardt minimizers, unbounded and bounded
   (adept/minimize_levenberg_marquardt.cpp), over an abstract scalar type.  The user's cost function, gradient and
   Hessian, the linear solver (LAPACK), the Euclidean norm and the finiteness test are Section variables: nothing is
   assumed about them.  Every call-back is logged.  Loops run on fuel; OutOfFuel is a distinct status. *)
From Coq Require Import List Bool ZArith Lia.
From Adept Require Import Scalar.
Import ListNotations.
Local Open Scope Z_scope.

Inductive mstatus := MSuccess | MEmptyState | MMaxIterations | MFailedToConverge | MDirectionUphill | MBoundReached
                   | MInvalidCost | MInvalidGradient | MInvalidBounds | MNotYetConverged | MOutOfFuel | MInnerOutOfFuel.
Definition status_code (s : mstatus) : Z :=
  match s with MSuccess => 0 | MEmptyState => 1 | MMaxIterations => 2 | MFailedToConverge => 3 | MDirectionUphill => 4 | MBoundReached => 5
             | MInvalidCost => 6 | MInvalidGradient => 7 | MInvalidBounds => 8 | MNotYetConverged => 10 | MOutOfFuel => 99 | MInnerOutOfFuel => 98 end.

Section Minim.
Context {T : Type} (O : Ops T).
Variable cost : list T -> T.
Variable grad : list T -> list T.
Variable hess : list T -> list (list T).
Variable solve : list (list T) -> list T -> list T.
Variable norm2 : list T -> T.
Variable isfinite : T -> bool.
Variable ofnat : nat -> T.

Inductive event := EvCost (x : list T) | EvCostGradHess (x : list T) | EvProgress (it : Z) (x : list T) (c gn : T).
Definition ev_state (e : event) : list T := match e with EvCost x => x | EvCostGradHess x => x | EvProgress _ x _ _ => x end.

Record settings := mkSettings { max_it : Z; max_step : T; thr : T; ensure : Z;
                                d_min : T; d_max : T; d_mult : T; d_div : T; d_start : T; d_restart : T }.
Record result := mkResult { r_status : mstatus; r_x : list T; r_cost : T; r_start_cost : T; r_gnorm : T; r_iter : Z; r_samples : Z;
                            r_bs : list Z; r_grad : list T; r_log : list event }.

(* ---- vectors *)
Definition omax (a b : T) : T := if oltb O a b then b else a.       (* std::max(a,b): (a < b) ? b : a *)
Definition omin (a b : T) : T := if oltb O b a then b else a.       (* std::min(a,b): (b < a) ? b : a *)
Definition oabs (a : T) : T := if oltb O a (o0 O) then oneg O a else a.
Fixpoint map2 {A B C} (f : A -> B -> C) (a : list A) (b : list B) : list C :=
  match a, b with x :: a', y :: b' => f x y :: map2 f a' b' | _, _ => [] end.
Fixpoint map3 {A B C D} (f : A -> B -> C -> D) (a : list A) (b : list B) (c : list C) : list D :=
  match a, b, c with x :: a', y :: b', z :: c' => f x y z :: map3 f a' b' c' | _, _, _ => [] end.
Definition vadd := map2 (oadd O).
Definition veqb (a b : list T) : bool := forallb (fun p => p) (map2 (oeqb O) a b).      (* all(a == b) *)
Definition vneg := map (oneg O).
Definition vscale (c : T) := map (fun v => omul O v c).
Definition clamp1 (l h v : T) : T := omax l (omin v h).                 (* max(min_x, min(x, max_x)) *)
Definition clamp (lo hi x : list T) : list T := map3 clamp1 lo hi x.
Definition select {A} (d : A) (idx : list nat) (v : list A) : list A := map (fun i => nth i v d) idx.
Fixpoint set_nth {A} (i : nat) (a : A) (v : list A) : list A :=
  match v with [] => [] | x :: v' => match i with 0%nat => a :: v' | S i' => x :: set_nth i' a v' end end.
(* v(idx) += d *)
Fixpoint scatter_add (idx : list nat) (d : list T) (v : list T) : list T :=
  match idx, d with i :: idx', di :: d' => scatter_add idx' d' (set_nth i (oadd O (nth i v (o0 O)) di) v) | _, _ => v end.
Fixpoint find_from {A} (p : A -> bool) (i : nat) (v : list A) : list nat :=
  match v with [] => [] | x :: v' => if p x then i :: find_from p (S i) v' else find_from p (S i) v' end.
Definition find {A} (p : A -> bool) (v : list A) : list nat := find_from p 0%nat v.
Definition vsum (v : list T) : T := fold_left (oadd O) v (o0 O).
(* maxval / minval / minloc as adept/reduce.h: first strict extremum; the empty case is never reached *)
Definition maxval (v : list T) : T := match v with [] => o0 O | a :: v' => fold_left omax v' a end.
Definition minval (v : list T) : T := match v with [] => o0 O | a :: v' => fold_left omin v' a end.
Fixpoint minloc_from (i : nat) (best : T) (bi : nat) (v : list T) : nat :=
  match v with [] => bi | a :: v' => if oltb O a best then minloc_from (S i) a i v' else minloc_from (S i) best bi v' end.
Definition minloc (v : list T) : nat := match v with [] => 0%nat | a :: v' => minloc_from 1 a 0%nat v' end.

(* ---- matrices (rows) *)
Fixpoint diag_from (i : nat) (m : list (list T)) : list T := match m with [] => [] | r :: m' => nth i r (o0 O) :: diag_from (S i) m' end.
Definition diag (m : list (list T)) := diag_from 0%nat m.
Fixpoint map_diag_from (f : T -> T) (i : nat) (m : list (list T)) : list (list T) :=
  match m with [] => [] | r :: m' => set_nth i (f (nth i r (o0 O))) r :: map_diag_from f (S i) m' end.
Definition map_diag f m := map_diag_from f 0%nat m.
Definition submatrix (idx : list nat) (m : list (list T)) : list (list T) := map (fun i => select (o0 O) idx (nth i m [])) idx.
Definition mean (v : list T) : T := odiv O (vsum v) (ofnat (length v)).

Definition two : T := oadd O (o1 O) (o1 O).
Definition zge (a b : Z) := b <=? a.

(* ---- the damping update common to both versions: None = "can get no further" *)
Definition raise_damping (s : settings) (damping : T) : option T :=
  if oleb O damping (o0 O) then Some (d_restart s)
  else if oltb O damping (d_max s) then Some (omul O damping (d_mult s))
  else None.
Definition lower_damping (s : settings) (damping : T) : T :=
  if oltb O (d_min s) damping then odiv O damping (d_div s) else o0 O.
Definition limit_step (s : settings) (dx : list T) : list T :=
  if oltb O (o0 O) (max_step s) then
    let m := maxval (map oabs dx) in
    if oltb O (max_step s) m then vscale (odiv O (max_step s) m) dx else dx
  else dx.
(* one modification of the diagonal with the current damping; returns the matrix and the new "previous" values *)
Definition damp_diag (additive : bool) (diag_scaling damping prev_scal prev_mod : T) (h : list (list T)) : list (list T) * T * T :=
  if additive then
    (map_diag (fun v => oadd O v (osub O (omul O damping diag_scaling) prev_mod)) h, prev_scal, omul O damping diag_scaling)
  else
    (map_diag (fun v => omul O v (odiv O (oadd O (o1 O) damping) prev_scal)) h, oadd O (o1 O) damping, prev_mod).

(* ================= unbounded ================= *)
Inductive inner_res := IAccept (new_x : list T) (new_cost : T) (damping : T) (samples : Z) (log : list event)
                     | IStop (st : mstatus) (damping : T) (samples : Z) (log : list event)
                     | IFuel.
Fixpoint lm_inner (fuel : nat) (s : settings) (additive : bool) (x g : list T) (h : list (list T)) (diag_scaling cost_fn : T)
         (damping prev_scal prev_mod : T) (samples : Z) (log : list event) : inner_res :=
  match fuel with 0%nat => IFuel | S fuel' =>
    let '(h', ps, pm) := damp_diag additive diag_scaling damping prev_scal prev_mod h in
    let dx := limit_step s (vneg (solve h' g)) in
    let new_x := vadd x dx in
    let new_cost := cost new_x in
    let log' := log ++ [EvCost new_x] in
    let samples' := samples + 1 in
    let invalid := negb (isfinite new_cost) in
    if oleb O cost_fn new_cost || invalid then
      match raise_damping s damping with
      | Some d' => lm_inner fuel' s additive x g h' diag_scaling cost_fn d' ps pm samples' log'
      | None => IStop (if invalid then MInvalidCost else MFailedToConverge) damping samples' log'
      end
    else IAccept new_x new_cost damping samples' log'
  end.

Definition refresh (s : settings) (up_to_date : Z) (x : list T) (cost_fn : T) (log : list event) : T * list event :=
  if up_to_date <? ensure s then
    if 0 <? ensure s then (cost x, log ++ [EvCostGradHess x]) else (cost x, log ++ [EvCost x])
  else (cost_fn, log).

Fixpoint lm_outer (fo fi : nat) (s : settings) (additive : bool) (x : list T) (damping : T) (it samples : Z) (start_cost gn : T) (log : list event) : result :=
  match fo with 0%nat => mkResult MOutOfFuel x (o0 O) start_cost gn it samples [] [] log | S fo' =>
    let cf := cost x in let g := grad x in let h := hess x in
    let log1 := log ++ [EvCostGradHess x] in
    let diag_scaling := mean (diag h) in
    let samples1 := samples + 1 in
    let start_cost1 := if it =? 0 then cf else start_cost in
    let stop st gn' lg (utd : Z) := let '(c, lg') := refresh s utd x cf lg in mkResult st x c start_cost1 gn' it samples1 [] g lg' in
    if negb (isfinite cf) then stop MInvalidCost gn log1 2
    else if existsb (fun v => negb (isfinite v)) g then stop MInvalidGradient gn log1 2
    else
      let gn1 := norm2 g in
      let log2 := log1 ++ [EvProgress it x cf gn1] in
      if oleb O gn1 (thr s) then stop MSuccess gn1 log2 2
      else
        match lm_inner fi s additive x g h diag_scaling cf damping (o1 O) (o0 O) samples1 log2 with
        | IFuel => mkResult MInnerOutOfFuel x cf start_cost1 gn1 it samples1 [] g log2
        | IStop st d smp lg => let '(c, lg') := refresh s (-1) x cf lg in mkResult st x c start_cost1 gn1 it smp [] g lg'
        | IAccept nx nc d smp lg =>
          let it' := it + 1 in
          let d' := lower_damping s d in
          if zge it' (max_it s) then
            let '(c, lg') := refresh s (-1) nx nc lg in mkResult MMaxIterations nx c start_cost1 gn1 it' smp [] g lg'
          else lm_outer fo' fi s additive nx d' it' smp start_cost1 gn1 lg
        end
  end.
Definition lm_unbounded (fo fi : nat) (s : settings) (additive : bool) (x : list T) (minus_one : T) : result :=
  lm_outer fo fi s additive x (d_start s) 0 0 (o0 O) minus_one [].

(* ================= bounded ================= *)
Definition release2 (bs : list Z) (g dx : list T) : list Z :=
  map3 (fun b gi di => if (b =? -1) && oltb O gi (o0 O) && oltb O (o0 O) di then 0
                       else if (b =? 1) && oltb O (o0 O) gi && oltb O di (o0 O) then 0 else b) bs g dx.
Definition releasable (b : Z) (gi : T) : bool := ((b =? -1) && oltb O gi (o0 O)) || ((b =? 1) && oltb O (o0 O) gi).
Definition release1 (bs : list Z) (g : list T) : list Z := map2 (fun b gi => if releasable b gi then 0 else b) bs g.
Definition can_release (bs : list Z) (g : list T) : bool := existsb (fun p => p) (map2 releasable bs g).
Definition count_bound (bs : list Z) : Z := Z.of_nat (length (filter (fun b => negb (b =? 0)) bs)).
Fixpoint map4 {A B C D E} (f : A -> B -> C -> D -> E) (a : list A) (b : list B) (c : list C) (d : list D) : list E :=
  match a, b, c, d with x :: a', y :: b', z :: c', w :: d' => f x y z w :: map4 f a' b' c' d' | _, _, _, _ => [] end.
(* bound_status.where(x >= max_x) = 1; bound_status.where(x <= min_x) = -1; *)
Definition flag1 (l h v : T) (b : Z) : Z := if oleb O v l then -1 else if oleb O h v then 1 else b.
Definition flag_at_bounds (lo hi x : list T) (bs : list Z) : list Z := map4 flag1 lo hi x bs.
Definition gnorm_free (ifree : list nat) (g : list T) : T := match ifree with [] => o0 O | _ => norm2 (select (o0 O) ifree g) end.

(* the choice of the step fraction and of the variable that meets its bound first *)
Definition fraction (x lo hi sub_dx : list T) (ifree : list nat) : T * Z * nat :=
  let xf := select (o0 O) ifree x in let lof := select (o0 O) ifree lo in let hif := select (o0 O) ifree hi in
  let trial := vadd xf sub_dx in
  let new_min := find (fun p => oleb O (fst p) (snd p)) (combine trial lof) in
  let new_max := find (fun p => oleb O (snd p) (fst p)) (combine trial hif) in
  let min_frac := map (fun k => odiv O (oneg O (osub O (nth k xf (o0 O)) (nth k lof (o0 O)))) (nth k sub_dx (o0 O))) new_min in
  let max_frac := map (fun k => odiv O (osub O (nth k hif (o0 O)) (nth k xf (o0 O))) (nth k sub_dx (o0 O))) new_max in
  let mmin := match new_min with [] => two | _ => minval min_frac end in
  let imin := match new_min with [] => 0%nat | _ => nth (minloc min_frac) new_min 0%nat end in
  let mmax := match new_max with [] => two | _ => minval max_frac end in
  let imax := match new_max with [] => 0%nat | _ => nth (minloc max_frac) new_max 0%nat end in
  if oleb O mmin (o1 O) || oleb O mmax (o1 O) then
    if oltb O mmin mmax then (mmin, -1, imin) else (mmax, 1, imax)
  else (o1 O, 0, 0%nat).

Inductive binner_res := BAccept (new_x : list T) (new_cost : T) (damping : T) (samples : Z) (bound_type : Z) (ibound : nat) (log : list event)
                      | BStop (st : mstatus) (damping : T) (samples : Z) (log : list event)
                      | BFuel.
Fixpoint lmb_inner (fuel : nat) (s : settings) (additive : bool) (lo hi x : list T) (ifree : list nat) (sub_g : list T) (sub_h : list (list T))
         (diag_scaling cost_fn damping prev_scal prev_mod : T) (samples : Z) (log : list event) : binner_res :=
  match fuel with 0%nat => BFuel | S fuel' =>
    let '(h', ps, pm) := damp_diag additive diag_scaling damping prev_scal prev_mod sub_h in
    let sub_dx := limit_step s (vneg (solve h' sub_g)) in
    let '(frac, bound_type, ibound) := fraction x lo hi sub_dx ifree in
    let sub_dx' := if bound_type =? 0 then sub_dx else vscale frac sub_dx in
    let new_x0 := clamp lo hi (scatter_add ifree sub_dx' x) in
    let ib := nth ibound ifree 0%nat in
    let new_x := if bound_type =? 0 then new_x0 else set_nth ib (if 0 <? bound_type then nth ib hi (o0 O) else nth ib lo (o0 O)) new_x0 in
    let new_cost := cost new_x in
    let log' := log ++ [EvCost new_x] in
    let samples' := samples + 1 in
    let invalid := negb (isfinite new_cost) in
    if oltb O cost_fn new_cost || (oeqb O new_cost cost_fn && ((bound_type =? 0) || veqb new_x x)) || invalid then
      match raise_damping s damping with
      | Some d' => lmb_inner fuel' s additive lo hi x ifree sub_g h' diag_scaling cost_fn d' ps pm samples' log'
      | None => BStop (if invalid then MInvalidCost else MFailedToConverge) damping samples' log'
      end
    else BAccept new_x new_cost damping samples' bound_type ibound log'
  end.

(* which dimensions are in play: the two-condition release, then, if that leaves the free dimensions converged while the
   cost can still be reduced from a bound, the release on the sign of the gradient alone *)
Definition in_play (s : settings) (additive : bool) (held : option nat) (bs : list Z) (nbound : Z) (g : list T) (h : list (list T)) (diag_scaling damping : T)
  : list Z * list nat * T :=
  let bs1 := if 0 <? nbound then
               let mh := if additive then map_diag (fun v => oadd O v (omul O damping diag_scaling)) h
                         else map_diag (fun v => omul O v (oadd O (o1 O) damping)) h in
               let rel := release2 bs g (vneg (solve mh g)) in
               (* a variable that met its bound in the last step is not released straight away *)
               match held with Some i => set_nth i (nth i bs 0) rel | None => rel end
             else bs in
  let ifree1 := find (fun b => b =? 0) bs1 in
  let gn1 := gnorm_free ifree1 g in
  if (0 <? count_bound bs1) && oleb O gn1 (thr s) && can_release bs1 g then
    let bs2 := release1 bs1 g in
    let ifree2 := find (fun b => b =? 0) bs2 in
    (bs2, ifree2, gnorm_free ifree2 g)
  else (bs1, ifree1, gn1).

Fixpoint lmb_outer (fo fi : nat) (s : settings) (additive : bool) (lo hi x : list T) (held : option nat) (bs : list Z) (nbound : Z) (damping : T) (it samples : Z)
         (start_cost gn : T) (log : list event) : result :=
  match fo with 0%nat => mkResult MOutOfFuel x (o0 O) start_cost gn it samples bs [] log | S fo' =>
    let cf := cost x in let g := grad x in let h := hess x in
    let log1 := log ++ [EvCostGradHess x] in
    let diag_scaling := mean (diag h) in
    let samples1 := samples + 1 in
    let start_cost1 := if it =? 0 then cf else start_cost in
    let stop st gn' bs' lg (utd : Z) := let '(c, lg') := refresh s utd x cf lg in mkResult st x c start_cost1 gn' it samples1 bs' g lg' in
    if negb (isfinite cf) then stop MInvalidCost gn bs log1 2
    else if existsb (fun v => negb (isfinite v)) g then stop MInvalidGradient gn bs log1 2
    else
      let '(bs1, ifree, gn1) := in_play s additive held bs nbound g h diag_scaling damping in
      let nbound1 := count_bound bs1 in
      let log2 := log1 ++ [EvProgress it x cf gn1] in
      if oleb O gn1 (thr s) then stop MSuccess gn1 bs1 log2 2
      else
        match lmb_inner fi s additive lo hi x ifree (select (o0 O) ifree g) (submatrix ifree h) diag_scaling cf damping (o1 O) (o0 O) samples1 log2 with
        | BFuel => mkResult MInnerOutOfFuel x cf start_cost1 gn1 it samples1 bs1 g log2
        | BStop st d smp lg => let '(c, lg') := refresh s (-1) x cf lg in mkResult st x c start_cost1 gn1 it smp bs1 g lg'
        | BAccept nx nc d smp bt ib lg =>
          let it' := it + 1 in
          let nx' := nx in
          let bs2 := flag_at_bounds lo hi nx (if bt =? 0 then bs1 else set_nth (nth ib ifree 0%nat) bt bs1) in
          let d' := lower_damping s d in
          if zge it' (max_it s) then
            let '(c, lg') := refresh s (-1) nx' nc lg in mkResult MMaxIterations nx' c start_cost1 gn1 it' smp bs2 g lg'
          else lmb_outer fo' fi s additive lo hi nx' (if bt =? 0 then None else Some (nth ib ifree 0%nat)) bs2 nbound1 d' it' smp start_cost1 gn1 lg
        end
  end.

Definition initial_bs (lo hi x : list T) : list Z := flag_at_bounds lo hi x (map (fun _ => 0) x).
Definition valid_bounds (lo hi x : list T) : bool :=
  negb (existsb (fun p => oleb O (snd p) (fst p)) (combine lo hi)) && (length lo =? length x)%nat && (length hi =? length x)%nat.
Definition lm_bounded (fo fi : nat) (s : settings) (additive : bool) (lo hi x : list T) (minus_one inf : T) : result :=
  if negb (valid_bounds lo hi x) then mkResult MInvalidBounds x inf (o0 O) minus_one 0 0 [] [] []
  else
    let bs := initial_bs lo hi x in
    lmb_outer fo fi s additive lo hi (clamp lo hi x) None bs (count_bound bs) (d_start s) 0 0 (o0 O) minus_one [].
End Minim.
