(* The register paths and the top-of-stack unregister paths of the gap-list allocator, re-assembled from the
   arithmetic, comparisons and field updates that tools/gen_gaplist.py reads from Stack.h / Stack.cpp on every
   run (Gen_Gaplist.v), and proved equal to the hand model GapList.v for EVERY state and argument.  The control
   skeleton (which list operation in which branch) is the template the translator matches the source against. *)
From Coq Require Import ZArith List Bool Lia.
From Adept Require Import GapList.
From AdeptGen Require Import Gen_Gaplist.
Import ListNotations.
Local Open Scope Z_scope.

Definition gen_max (cnd : Z -> Z -> bool) (val : Z -> Z -> Z) (i m : Z) : Z := if cnd i m then val i m else m.

(* Stack::register_gradient() *)
Definition gen_register1 (s : st) : st * Z :=
  match gaps s with
  | [] => let i := r1_top (ig s) in
          (mk i (gen_max r1_max_cond r1_max_val i (mg s)) (r1_count (nreg s)) [] (cur s), r1_top_ret i)
  | (a,b) :: rest =>
      let a' := r1_shrink a b in
      if r1_closed a' b
      then (mk (ig s) (mg s) (r1_count (nreg s)) rest (cur_after_erase 0 (cur s)), r1_gap_ret a b)
      else (mk (ig s) (mg s) (r1_count (nreg s)) ((a',b) :: rest) (cur s), r1_gap_ret a b)
  end.

(* Stack::do_register_gradients(n): the loop over the gap list *)
Inductive fit := Shrink | Fill.
Fixpoint gen_scan (n : Z) (k : nat) (l : list gap) : option (nat * gap * fit) :=
  match l with
  | [] => None
  | (a,b) :: t =>
      let len := rn_len a b in
      if rn_shrink_cond len n then Some (k, (a,b), Shrink)
      else if rn_fill_cond len n then Some (k, (a,b), Fill)
      else gen_scan n (S k) t
  end.
Definition gen_registerN (s : st) (n : Z) : st * Z :=
  match gen_scan n 0%nat (gaps s) with
  | Some (k, (a,b), Shrink) =>
      (mk (ig s) (mg s) (rn_count (nreg s) n) (set_nth k (rn_shrink a b n, b) (gaps s)) (cur s), rn_shrink_ret a b n)
  | Some (k, (a,b), Fill) =>
      (mk (ig s) (mg s) (rn_count (nreg s) n) (remove_nth k (gaps s)) (cur_after_erase k (cur s)), rn_fill_ret a b n)
  | None =>
      let i := rn_top (ig s) n in
      (mk i (gen_max rn_max_cond rn_max_val i (mg s)) (rn_count (nreg s) n) (gaps s) (cur s), rn_top_ret i n)
  end.

(* the top-of-stack branch of unregister_gradient / unregister_gradients; None = the not-at-top branch is taken *)
Definition gen_unregister_top (cnt : Z -> Z) (at_top : Z -> Z -> bool) (pop : Z -> Z)
           (reach : Z -> Z -> Z -> bool) (fall : Z -> Z -> Z -> Z) (s : st) (idx : Z) : option st :=
  if at_top idx (ig s) then
    let i := pop (ig s) in
    Some match rev (gaps s) with
         | (a,b) :: _ =>
             if reach i a b
             then mk (fall i a b) (mg s) (cnt (nreg s)) (removelast (gaps s))
                     (cur_after_erase (Nat.pred (length (gaps s))) (cur s))
             else mk i (mg s) (cnt (nreg s)) (gaps s) (cur s)
         | [] => mk i (mg s) (cnt (nreg s)) (gaps s) (cur s)
         end
  else None.
Definition gen_unregister1_top := gen_unregister_top u1_count u1_at_top u1_pop u1_reach u1_fall.
Definition gen_unregisterN_top (n : Z) :=
  gen_unregister_top (fun r => un_count r n) (fun i g => un_at_top i g n) (fun g => un_pop g n) un_reach un_fall.

(* the model's view of the same branch *)
Definition model_unregister_top (s : st) (idx n : Z) : option st :=
  if Z.eqb (idx + n) (ig s) then Some (unregisterN s idx n) else None.

(* ------------------------------------------------------------------------------------------------------- *)
Lemma gen_register1_eq : forall s, gen_register1 s = register1 s.
Proof.
  intros s. unfold gen_register1, register1, gen_max, bump_max, r1_top, r1_max_cond, r1_max_val, r1_count,
    r1_top_ret, r1_shrink, r1_closed, r1_gap_ret.
  destruct (gaps s) as [|[a b] rest].
  - replace (ig s + 1 - 1) with (ig s) by lia.
    destruct (Z.gtb_spec (ig s + 1) (mg s)) as [H|H]; destruct (Z.ltb_spec (mg s) (ig s + 1)) as [H'|H']; try lia; reflexivity.
  - destruct (Z.gtb_spec (a + 1) b) as [H|H]; destruct (Z.ltb_spec b (a + 1)) as [H'|H']; try lia; reflexivity.
Qed.

Lemma gen_scan_find_fit : forall n l k,
  match gen_scan n k l, find_fit n k l with
  | Some (k1, g1, f), Some (k2, g2) =>
      k1 = k2 /\ g1 = g2 /\ (f = Shrink <-> Z.ltb n (snd g2 + 1 - fst g2) = true)
  | None, None => True
  | _, _ => False
  end.
Proof.
  intros n l. induction l as [|[a b] t IH]; intros k; cbn [gen_scan find_fit]; [exact I|].
  unfold rn_len, rn_shrink_cond, rn_fill_cond.
  destruct (Z.gtb_spec (b + 1 - a) n) as [H1|H1].
  - destruct (Z.leb_spec n (b + 1 - a)) as [H2|H2]; [|lia].
    split; [reflexivity|]. split; [reflexivity|]. cbn [fst snd]. split; intros _; [apply Z.ltb_lt; lia|reflexivity].
  - destruct (Z.eqb_spec (b + 1 - a) n) as [H3|H3].
    + destruct (Z.leb_spec n (b + 1 - a)) as [H2|H2]; [|lia].
      split; [reflexivity|]. split; [reflexivity|]. cbn [fst snd]. split; [discriminate|].
      intros H. apply Z.ltb_lt in H. lia.
    + destruct (Z.leb_spec n (b + 1 - a)) as [H2|H2]; [lia|]. apply IH.
Qed.

Lemma gen_registerN_eq : forall s n, gen_registerN s n = registerN s n.
Proof.
  intros s n. unfold gen_registerN, registerN.
  pose proof (gen_scan_find_fit n (gaps s) 0%nat) as H.
  destruct (gen_scan n 0%nat (gaps s)) as [[[k1 [a1 b1]] f]|]; destruct (find_fit n 0%nat (gaps s)) as [[k2 [a2 b2]]|];
    try contradiction.
  - destruct H as [-> [E Hf]]. inversion E; subst a2 b2. cbn [fst snd] in Hf.
    unfold rn_count, rn_shrink, rn_shrink_ret, rn_fill_ret.
    destruct f.
    + rewrite (proj1 Hf eq_refl). reflexivity.
    + destruct (Z.ltb n (b1 + 1 - a1)) eqn:E1; [discriminate (proj2 Hf eq_refl)|reflexivity].
  - unfold gen_max, bump_max, rn_top, rn_max_cond, rn_max_val, rn_count, rn_top_ret.
    replace (ig s + n - n) with (ig s) by lia.
    destruct (Z.gtb_spec (ig s + n) (mg s)) as [H1|H1]; destruct (Z.ltb_spec (mg s) (ig s + n)) as [H2|H2]; try lia; reflexivity.
Qed.

Lemma gen_unregisterN_top_eq : forall s idx n, gen_unregisterN_top n s idx = model_unregister_top s idx n.
Proof.
  intros s idx n. unfold gen_unregisterN_top, gen_unregister_top, model_unregister_top, unregisterN,
    un_count, un_at_top, un_pop, un_reach, un_fall.
  destruct (Z.eqb (idx + n) (ig s)); [|reflexivity].
  destruct (rev (gaps s)) as [|[a b] r]; reflexivity.
Qed.

Lemma gen_unregister1_top_eq : forall s idx, gen_unregister1_top s idx = model_unregister_top s idx 1.
Proof.
  intros s idx. unfold gen_unregister1_top, gen_unregister_top, model_unregister_top, unregisterN,
    u1_count, u1_at_top, u1_pop, u1_reach, u1_fall.
  destruct (Z.eqb (idx + 1) (ig s)); [|reflexivity].
  destruct (rev (gaps s)) as [|[a b] r]; reflexivity.
Qed.
