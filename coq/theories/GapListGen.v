(* The register paths and the top-of-stack unregister paths of the gap-list allocator, re-assembled from the
   arithmetic, comparisons and field updates that tools/gen_gaplist.py reads from Stack.h / Stack.cpp on every
   run (Gen_Gaplist.v), and proved equal to the hand model GapList.v for EVERY state and argument.  The control
   skeleton (which list operation in which branch) is the template the translator matches the source against. *)
From Coq Require Import ZArith List Bool Lia ZifyBool.
From Adept Require Import GapList.
From AdeptGen Require Import Gen_Gaplist.
Import ListNotations.
Local Open Scope Z_scope.

Definition gen_max (cnd : Z -> Z -> bool) (val : Z -> Z -> Z) (i m : Z) : Z := if cnd i m then val i m else m.

(* Stack::register_gradient() *)
Definition gen_register1 (s : st) : st * Z :=
  match gaps s with
  | [] => let i := r1_top (ig s) in
          (mk i (gen_max r1_max_cond r1_max_val i (mg s)) (r1_count (nreg s)) [] (cur s), r1_top_ret i)
  | (a,b) :: rest =>
      let a' := r1_shrink a b in
      if r1_closed a' b
      then (mk (ig s) (mg s) (r1_count (nreg s)) rest (cur_after_erase 0 (cur s)), r1_gap_ret a b)
      else (mk (ig s) (mg s) (r1_count (nreg s)) ((a',b) :: rest) (cur s), r1_gap_ret a b)
  end.

(* Stack::do_register_gradients(n): the loop over the gap list *)
Inductive fit := Shrink | Fill.
Fixpoint gen_scan (n : Z) (k : nat) (l : list gap) : option (nat * gap * fit) :=
  match l with
  | [] => None
  | (a,b) :: t =>
      let len := rn_len a b in
      if rn_shrink_cond len n then Some (k, (a,b), Shrink)
      else if rn_fill_cond len n then Some (k, (a,b), Fill)
      else gen_scan n (S k) t
  end.
Definition gen_registerN (s : st) (n : Z) : st * Z :=
  match gen_scan n 0%nat (gaps s) with
  | Some (k, (a,b), Shrink) =>
      (mk (ig s) (mg s) (rn_count (nreg s) n) (set_nth k (rn_shrink a b n, b) (gaps s)) (cur s), rn_shrink_ret a b n)
  | Some (k, (a,b), Fill) =>
      (mk (ig s) (mg s) (rn_count (nreg s) n) (remove_nth k (gaps s)) (cur_after_erase k (cur s)), rn_fill_ret a b n)
  | None =>
      let i := rn_top (ig s) n in
      (mk i (gen_max rn_max_cond rn_max_val i (mg s)) (rn_count (nreg s) n) (gaps s) (cur s), rn_top_ret i n)
  end.

(* the top-of-stack branch of unregister_gradient / unregister_gradients; None = the not-at-top branch is taken *)
Definition gen_unregister_top (cnt : Z -> Z) (at_top : Z -> Z -> bool) (pop : Z -> Z)
           (reach : Z -> Z -> Z -> bool) (fall : Z -> Z -> Z -> Z) (s : st) (idx : Z) : option st :=
  if at_top idx (ig s) then
    let i := pop (ig s) in
    Some match rev (gaps s) with
         | (a,b) :: _ =>
             if reach i a b
             then mk (fall i a b) (mg s) (cnt (nreg s)) (removelast (gaps s))
                     (cur_after_erase (Nat.pred (length (gaps s))) (cur s))
             else mk i (mg s) (cnt (nreg s)) (gaps s) (cur s)
         | [] => mk i (mg s) (cnt (nreg s)) (gaps s) (cur s)
         end
  else None.
Definition gen_unregister1_top := gen_unregister_top u1_count u1_at_top u1_pop u1_reach u1_fall.
Definition gen_unregisterN_top (n : Z) :=
  gen_unregister_top (fun r => un_count r n) (fun i g => un_at_top i g n) (fun g => un_pop g n) un_reach un_fall.

(* the model's view of the same branch *)
Definition model_unregister_top (s : st) (idx n : Z) : option st :=
  if Z.eqb (idx + n) (ig s) then Some (unregisterN s idx n) else None.

(* ------------------------------------------------------------------------------------------------------- *)
(* the update of max_gradient_: judged by its value (the larger of the two), not by the shape of the test *)
Lemma gen_max_is_bump : forall (cnd : Z -> Z -> bool) (val : Z -> Z -> Z) (i m : Z), (if cnd i m then val i m else m) = Z.max i m ->
  gen_max cnd val i m = (if m <? i then i else m).
Proof. intros cnd val i m H. unfold gen_max. rewrite H. destruct (Z.ltb_spec m i); lia. Qed.
Ltac max_value := match goal with |- (if ?c then _ else _) = _ => destruct c eqn:? end; lia.

Lemma gen_register1_eq : forall s, gen_register1 s = register1 s.
Proof.
  intros s. unfold gen_register1, register1, bump_max, r1_top, r1_count,
    r1_top_ret, r1_shrink, r1_closed, r1_gap_ret.
  destruct (gaps s) as [|[a b] rest].
  - replace (ig s + 1 - 1) with (ig s) by lia.
    rewrite gen_max_is_bump by (unfold r1_max_cond, r1_max_val; max_value). reflexivity.
  - destruct (Z.gtb_spec (a + 1) b) as [H|H]; destruct (Z.ltb_spec b (a + 1)) as [H'|H']; try lia; reflexivity.
Qed.

Lemma gen_scan_find_fit : forall n l k,
  match gen_scan n k l, find_fit n k l with
  | Some (k1, g1, f), Some (k2, g2) =>
      k1 = k2 /\ g1 = g2 /\ (f = Shrink <-> Z.ltb n (snd g2 + 1 - fst g2) = true)
  | None, None => True
  | _, _ => False
  end.
Proof.
  intros n l. induction l as [|[a b] t IH]; intros k; cbn [gen_scan find_fit]; [exact I|].
  unfold rn_len, rn_shrink_cond, rn_fill_cond.
  destruct (Z.gtb_spec (b + 1 - a) n) as [H1|H1].
  - destruct (Z.leb_spec n (b + 1 - a)) as [H2|H2]; [|lia].
    split; [reflexivity|]. split; [reflexivity|]. cbn [fst snd]. split; intros _; [apply Z.ltb_lt; lia|reflexivity].
  - destruct (Z.eqb_spec (b + 1 - a) n) as [H3|H3].
    + destruct (Z.leb_spec n (b + 1 - a)) as [H2|H2]; [|lia].
      split; [reflexivity|]. split; [reflexivity|]. cbn [fst snd]. split; [discriminate|].
      intros H. apply Z.ltb_lt in H. lia.
    + destruct (Z.leb_spec n (b + 1 - a)) as [H2|H2]; [lia|]. apply IH.
Qed.

Lemma gen_registerN_eq : forall s n, gen_registerN s n = registerN s n.
Proof.
  intros s n. unfold gen_registerN, registerN.
  pose proof (gen_scan_find_fit n (gaps s) 0%nat) as H.
  destruct (gen_scan n 0%nat (gaps s)) as [[[k1 [a1 b1]] f]|]; destruct (find_fit n 0%nat (gaps s)) as [[k2 [a2 b2]]|];
    try contradiction.
  - destruct H as [-> [E Hf]]. inversion E; subst a2 b2. cbn [fst snd] in Hf.
    unfold rn_count, rn_shrink, rn_shrink_ret, rn_fill_ret.
    destruct f.
    + rewrite (proj1 Hf eq_refl). reflexivity.
    + destruct (Z.ltb n (b1 + 1 - a1)) eqn:E1; [discriminate (proj2 Hf eq_refl)|reflexivity].
  - unfold bump_max, rn_top, rn_count, rn_top_ret.
    replace (ig s + n - n) with (ig s) by lia.
    rewrite gen_max_is_bump by (unfold rn_max_cond, rn_max_val; max_value). reflexivity.
Qed.

Lemma gen_unregisterN_top_eq : forall s idx n, gen_unregisterN_top n s idx = model_unregister_top s idx n.
Proof.
  intros s idx n. unfold gen_unregisterN_top, gen_unregister_top, model_unregister_top, unregisterN,
    un_count, un_at_top, un_pop, un_reach, un_fall.
  destruct (Z.eqb (idx + n) (ig s)); [|reflexivity].
  destruct (rev (gaps s)) as [|[a b] r]; reflexivity.
Qed.

Lemma gen_unregister1_top_eq : forall s idx, gen_unregister1_top s idx = model_unregister_top s idx 1.
Proof.
  intros s idx. unfold gen_unregister1_top, gen_unregister_top, model_unregister_top, unregisterN,
    u1_count, u1_at_top, u1_pop, u1_reach, u1_fall.
  destruct (Z.eqb (idx + 1) (ig s)); [|reflexivity].
  destruct (rev (gaps s)) as [|[a b] r]; reflexivity.
Qed.

(* ------------------------------------------------------------------------------------------------------- *)
(* The not-at-top path: unregister_gradient_not_top(idx) and the else branch of unregister_gradients(idx,n). *)
Record ntf := {
  cb_c : Z -> Z -> Z -> bool; cb_u : Z -> Z -> Z; ct_c : Z -> Z -> Z -> bool; ct_u : Z -> Z -> Z;
  s_le : Z -> Z -> Z -> bool; sb_c : Z -> Z -> Z -> bool; sb_u : Z -> Z -> Z; st_c : Z -> Z -> Z -> bool; st_u : Z -> Z -> Z;
  ng_a : Z -> Z; ng_b : Z -> Z; pg_a : Z -> Z; pg_b : Z -> Z;
  mb_c : Z -> Z -> Z -> Z -> bool; mb_u : Z -> Z -> Z -> Z -> Z; mt_c : Z -> Z -> Z -> Z -> bool; mt_u : Z -> Z -> Z -> Z -> Z }.

Definition F1 : ntf := {|
  cb_c := x1_cb_c; cb_u := x1_cb_u; ct_c := x1_ct_c; ct_u := x1_ct_u; s_le := x1_s_le; sb_c := x1_sb_c; sb_u := x1_sb_u;
  st_c := x1_st_c; st_u := x1_st_u; ng_a := x1_ng_a; ng_b := x1_ng_b; pg_a := x1_pg_a; pg_b := x1_pg_b;
  mb_c := x1_mb_c; mb_u := x1_mb_u; mt_c := x1_mt_c; mt_u := x1_mt_u |}.
Definition FN (n : Z) : ntf := {|
  cb_c := fun i a b => xn_cb_c i a b n; cb_u := fun a b => xn_cb_u a b n; ct_c := fun i a b => xn_ct_c i a b n;
  ct_u := fun a b => xn_ct_u a b n; s_le := fun i a b => xn_s_le i a b n; sb_c := fun i a b => xn_sb_c i a b n;
  sb_u := fun a b => xn_sb_u a b n; st_c := fun i a b => xn_st_c i a b n; st_u := fun a b => xn_st_u a b n;
  ng_a := fun i => xn_ng_a i n; ng_b := fun i => xn_ng_b i n; pg_a := fun i => xn_pg_a i n; pg_b := fun i => xn_pg_b i n;
  mb_c := xn_mb_c; mb_u := xn_mb_u; mt_c := xn_mt_c; mt_u := xn_mt_u |}.

Section NotTop.
Variable F : ntf.

Fixpoint gen_search (idx : Z) (k : nat) (l : list gap) : option (nat * status) :=
  match l with
  | [] => None
  | (a,b) :: t =>
      if s_le F idx a b
      then Some (k, if sb_c F idx a b then AtBase else if st_c F idx a b then AtTop else NewGap)
      else gen_search idx (S k) t
  end.

Definition gen_place (s : st) (idx : Z) : nat * status * list gap :=
  let try_cur :=
    match cur s with
    | Some k => match nth_error (gaps s) k with
                | Some (a,b) =>
                    if cb_c F idx a b then Some (k, AtBase, set_nth k (cb_u F a b, b) (gaps s))
                    else if ct_c F idx a b then Some (k, AtTop, set_nth k (a, ct_u F a b) (gaps s))
                    else None
                | None => None end
    | None => None end in
  match try_cur with
  | Some r => r
  | None =>
      match gen_search idx 0%nat (gaps s) with
      | Some (k, AtBase) => match nth_error (gaps s) k with
                            | Some (a,b) => (k, AtBase, set_nth k (sb_u F a b, b) (gaps s))
                            | None => (k, NotFound, gaps s) end
      | Some (k, AtTop) => match nth_error (gaps s) k with
                           | Some (a,b) => (k, AtTop, set_nth k (a, st_u F a b) (gaps s))
                           | None => (k, NotFound, gaps s) end
      | Some (k, _) => (k, NewGap, insert_nth k (ng_a F idx, ng_b F idx) (gaps s))
      | None => (length (gaps s), NewGap, gaps s ++ [(pg_a F idx, pg_b F idx)])
      end
  end.

Definition gen_merge (k : nat) (stt : status) (g : list gap) : list gap * nat :=
  match stt with
  | AtBase =>
      match k with O => (g,k)
      | S k' => match nth_error g k', nth_error g k with
                | Some (pa,pb), Some (a,b) =>
                    if mb_c F pa pb a b then (remove_nth k' (set_nth k (mb_u F pa pb a b, b) g), k') else (g,k)
                | _,_ => (g,k) end
      end
  | AtTop =>
      match nth_error g k, nth_error g (S k) with
      | Some (a,b), Some (na,nb) =>
          if mt_c F na nb a b then (remove_nth (S k) (set_nth k (a, mt_u F na nb a b) g), k) else (g,k)
      | _,_ => (g,k) end
  | _ => (g,k)
  end.

Definition gen_unregister_rest (s : st) (idx cnt : Z) : st :=
  let '(k, stt, g) := gen_place s idx in
  let '(g', k') := gen_merge k stt g in
  mk (ig s) (mg s) cnt g' (Some k').

(* what the model does in those places *)
Variable n : Z.
Definition agrees : Prop :=
  (forall i a b, cb_c F i a b = (i =? a - n)) /\ (forall a b, cb_u F a b = a - n) /\
  (forall i a b, ct_c F i a b = (i =? b + 1)) /\ (forall a b, ct_u F a b = b + n) /\
  (forall i a b, s_le F i a b = (i <=? b + 1)) /\
  (forall i a b, sb_c F i a b = (i =? a - n)) /\ (forall a b, sb_u F a b = a - n) /\
  (forall i a b, st_c F i a b = (i =? b + 1)) /\ (forall a b, st_u F a b = b + n) /\
  (forall i, ng_a F i = i) /\ (forall i, ng_b F i = i + n - 1) /\ (forall i, pg_a F i = i) /\ (forall i, pg_b F i = i + n - 1) /\
  (forall pa pb a b, mb_c F pa pb a b = (pb =? a - 1)) /\ (forall pa pb a b, mb_u F pa pb a b = pa) /\
  (forall na nb a b, mt_c F na nb a b = (na =? b + 1)) /\ (forall na nb a b, mt_u F na nb a b = nb).

Hypothesis Hag : agrees.

Lemma gen_search_eq : forall idx l k, gen_search idx k l = search idx n k l.
Proof.
  destruct Hag as (_ & _ & _ & _ & Hle & Hb & _ & Ht & _).
  intros idx l. induction l as [|[a b] t IH]; intros k; cbn [gen_search search]; [reflexivity|].
  rewrite Hle, Hb, Ht, IH. reflexivity.
Qed.

Lemma gen_place_eq : forall s idx, gen_place s idx = place s idx n.
Proof.
  destruct Hag as (H1 & H2 & H3 & H4 & _ & _ & H7 & _ & H9 & H10 & H11 & H12 & H13 & _).
  intros s idx. unfold gen_place, place. rewrite gen_search_eq.
  assert (E : match cur s with
    | Some k => match nth_error (gaps s) k with
                | Some (a,b) =>
                    if cb_c F idx a b then Some (k, AtBase, set_nth k (cb_u F a b, b) (gaps s))
                    else if ct_c F idx a b then Some (k, AtTop, set_nth k (a, ct_u F a b) (gaps s))
                    else None
                | None => None end
    | None => None end =
    match cur s with
    | Some k => match nth_error (gaps s) k with
                | Some (a,b) =>
                    if Z.eqb idx (a - n) then Some (k, AtBase, set_nth k (a-n,b) (gaps s))
                    else if Z.eqb idx (b+1) then Some (k, AtTop, set_nth k (a,b+n) (gaps s))
                    else None
                | None => None end
    | None => None end).
  { destruct (cur s) as [k|]; [|reflexivity]. destruct (nth_error (gaps s) k) as [[a b]|]; [|reflexivity].
    rewrite H1, H2, H3, H4. reflexivity. }
  rewrite E. clear E.
  match goal with |- match ?x with _ => _ end = _ => destruct x as [r|] end; [reflexivity|].
  destruct (search idx n 0%nat (gaps s)) as [[k stt]|].
  - destruct stt.
    + destruct (nth_error (gaps s) k) as [[a b]|]; [rewrite H7|]; reflexivity.
    + destruct (nth_error (gaps s) k) as [[a b]|]; [rewrite H9|]; reflexivity.
    + rewrite H10, H11. reflexivity.
    + rewrite H10, H11. reflexivity.
  - rewrite H12, H13. reflexivity.
Qed.

Lemma gen_merge_eq : forall k stt g, gen_merge k stt g = merge k stt g.
Proof.
  destruct Hag as (_ & _ & _ & _ & _ & _ & _ & _ & _ & _ & _ & _ & _ & H14 & H15 & H16 & H17).
  intros k stt g. unfold gen_merge, merge. destruct stt; try reflexivity.
  - destruct k as [|k']; [reflexivity|].
    destruct (nth_error g k') as [[pa pb]|]; [|reflexivity].
    destruct (nth_error g (S k')) as [[a b]|]; [|reflexivity].
    rewrite H14, H15. reflexivity.
  - destruct (nth_error g k) as [[a b]|]; [|reflexivity].
    destruct (nth_error g (S k)) as [[na nb]|]; [|reflexivity].
    rewrite H16, H17. reflexivity.
Qed.

Lemma gen_unregister_rest_eq : forall s idx,
  Z.eqb (idx + n) (ig s) = false -> gen_unregister_rest s idx (nreg s - n) = unregisterN s idx n.
Proof.
  intros s idx Hne. unfold gen_unregister_rest, unregisterN. rewrite Hne, gen_place_eq.
  destruct (place s idx n) as [[k stt] g]. rewrite gen_merge_eq. reflexivity.
Qed.
End NotTop.

Lemma FN_agrees : forall n, agrees (FN n) n.
Proof. intros n. unfold agrees. repeat split; intros; reflexivity. Qed.
Lemma F1_agrees : agrees F1 1.
Proof.
  unfold agrees. repeat split; intros; cbn [F1 cb_c cb_u ct_c ct_u s_le sb_c sb_u st_c st_u ng_a ng_b pg_a pg_b mb_c mb_u mt_c mt_u];
    unfold x1_cb_c, x1_cb_u, x1_ct_c, x1_ct_u, x1_s_le, x1_sb_c, x1_sb_u, x1_st_c, x1_st_u, x1_ng_a, x1_ng_b, x1_pg_a, x1_pg_b,
      x1_mb_c, x1_mb_u, x1_mt_c, x1_mt_u; try reflexivity; lia.
Qed.

(* the two whole functions as the source has them *)
Definition gen_unregister1 (s : st) (idx : Z) : st :=
  match gen_unregister1_top s idx with
  | Some r => r
  | None => gen_unregister_rest F1 s idx (u1_count (nreg s))
  end.
Definition gen_unregisterN (s : st) (idx n : Z) : st :=
  match gen_unregisterN_top n s idx with
  | Some r => r
  | None => gen_unregister_rest (FN n) s idx (un_count (nreg s) n)
  end.

Lemma gen_unregisterN_eq : forall s idx n, gen_unregisterN s idx n = unregisterN s idx n.
Proof.
  intros s idx n. unfold gen_unregisterN. rewrite gen_unregisterN_top_eq. unfold model_unregister_top.
  destruct (Z.eqb (idx + n) (ig s)) eqn:E; [reflexivity|].
  unfold un_count. apply gen_unregister_rest_eq; [apply FN_agrees|exact E].
Qed.
Lemma gen_unregister1_eq : forall s idx, gen_unregister1 s idx = unregisterN s idx 1.
Proof.
  intros s idx. unfold gen_unregister1. rewrite gen_unregister1_top_eq. unfold model_unregister_top.
  destruct (Z.eqb (idx + 1) (ig s)) eqn:E; [reflexivity|].
  unfold u1_count. apply gen_unregister_rest_eq; [apply F1_agrees|exact E].
Qed.

(* histories run with the functions read from the source *)
Definition gen_step (sL : st * blocks) (o : op) : st * blocks :=
  let '(s, L) := sL in
  match o with
  | OReg1 => let '(s', r) := gen_register1 s in (s', (r, 1) :: L)
  | ORegN n => if Z.leb 1 n then let '(s', r) := gen_registerN s n in (s', (r, n) :: L) else sL
  | OUnreg k => match nth_error L k with
                | Some (idx, n) => (if Z.eqb n 1 then gen_unregister1 s idx else gen_unregisterN s idx n, remove_nth k L)
                | None => sL end
  | ONewRec => (new_recording s, L)
  end.
Definition gen_run (ops : list op) : st * blocks := fold_left gen_step ops (init, []).

Lemma gen_step_eq : forall sL o, gen_step sL o = step sL o.
Proof.
  intros [s L] o. destruct o as [|n|k|]; cbn [gen_step step].
  - rewrite gen_register1_eq. reflexivity.
  - rewrite gen_registerN_eq. reflexivity.
  - destruct (nth_error L k) as [[idx n]|]; [|reflexivity].
    destruct (Z.eqb_spec n 1) as [->|_]; [rewrite gen_unregister1_eq|rewrite gen_unregisterN_eq]; reflexivity.
  - reflexivity.
Qed.
Lemma gen_run_eq : forall ops, gen_run ops = run ops.
Proof.
  intros ops. unfold gen_run, run. generalize (init, @nil (Z * Z)).
  induction ops as [|o ops IH]; intros sL; cbn [fold_left]; [reflexivity|].
  rewrite gen_step_eq. apply IH.
Qed.
