(* What tools/gen_active.py emits (Gen_Active.v): one row per constructor / assignment / compound-assignment overload of
   Active<T> and ActiveReference<T>: what the body records (recognised token by token) and what it reserves; and the
   correspondence each row must have with the statement kinds of Program.v:
     passive right-hand side            -> PSetP  (push_lhs only)
     active scalar / expression         -> PSetE  (scalar_value_and_gradient, push_lhs; reservation covers the pushes)
     x op= e                            -> PSetE x (x op e)  with the SAME op
     x += c, x -= c (passive c)         -> PAddP  (value only)       x *= c, x /= c -> PSetE x (x op c) *)
From Coq Require Import List Bool.
From Adept Require Import ExprDefs.
Import ListNotations.

Inductive ovop := OCtor | OAssign | OCompound (k : bkind).
Inductive ovparam := PPassive | PActive | PExpression | PElement.
Inductive ovkind := KNothing | KPassiveCtor | KPassive | KDelegate | KElementCopy | KExpr | KActive | KCompound (k : bkind) | KValueOnly (k : bkind).
Inductive ovres := RNone | ROne | RNActive.
Record overload := mkOv { ov_op : ovop; ov_param : ovparam; ov_kind : ovkind; ov_res : ovres }.

Definition bkind_eqb (a b : bkind) : bool :=
  match a, b with KAdd, KAdd | KSub, KSub | KMul, KMul | KDiv, KDiv | KPow, KPow | KAtan2, KAtan2 | KMax, KMax | KMin, KMin => true | _, _ => false end.
(* [reference]: ActiveReference - its constructors only bind to an existing element and record nothing *)
Definition overload_ok (reference : bool) (o : overload) : bool :=
  match ov_op o, ov_param o, ov_kind o, ov_res o with
  | OCtor, PPassive, KPassiveCtor, RNone => negb reference
  | OCtor, PElement, KElementCopy, RNone => negb reference
  | OCtor, PActive, KDelegate, RNone => negb reference
  | OCtor, PExpression, KExpr, RNActive => negb reference
  | OCtor, (PActive | PElement), KNothing, RNone => reference
  | OAssign, PPassive, KPassive, RNone => true
  | OAssign, PActive, KActive, ROne => true
  | OAssign, PExpression, KExpr, RNActive => true
  | OCompound k, PExpression, KCompound k', RNone => bkind_eqb k k'
  | OCompound k, PPassive, KValueOnly k', RNone => bkind_eqb k k' && (bkind_eqb k KAdd || bkind_eqb k KSub)
  | OCompound k, PPassive, KCompound k', RNone => bkind_eqb k k' && (bkind_eqb k KMul || bkind_eqb k KDiv)
  | _, _, _, _ => false
  end.
Definition has_overload (l : list overload) (op : ovop) (p : ovparam) : bool :=
  existsb (fun o => match ov_op o, op with OCtor, OCtor | OAssign, OAssign => true | OCompound a, OCompound b => bkind_eqb a b | _, _ => false end &&
                    match ov_param o, p with PPassive, PPassive | PActive, PActive | PExpression, PExpression | PElement, PElement => true | _, _ => false end) l.
Definition overloads_complete (l : list overload) : bool :=
  forallb (fun p => has_overload l OAssign p) [PPassive; PActive; PExpression] &&
  forallb (fun k => has_overload l (OCompound k) PPassive && has_overload l (OCompound k) PExpression) [KAdd; KSub; KMul; KDiv].
