(* C10 — a recording can be replayed, re-seeded, paused and restarted without residue.
   This file holds only the property theorems; each is closed by [exact] of a lemma of ProtocolProofs.v and
   followed by Print Assumptions.
   Model: Protocol.v (hand model of the recording life cycle; tie H: ./check C10 runs random protocol histories on a
   pausable build of the real Stack against the extracted model, every observation compared).  The sweeps are those
   of Tape.v (C02).  That every recording site of the library is a no-op while paused is not a statement about this
   model: the check executes every statement kind of its catalogue while paused and compares statement / operation
   counts, values and later gradients (partial: a sweep of the catalogue, not a theorem). *)
From Coq Require Import List Arith Ring_theory ZArith.
From Adept Require Import Scalar Tape TapeAdjoint Protocol ProtocolProofs StackDefs StackProofs ProtocolStack.
From AdeptGen Require Import Gen_Stack.
Import ListNotations.

Section AnyRing.
Context {T : Type} (O : Ops T).
Hypothesis Rth : ring_theory (o0 O) (o1 O) (oadd O) (omul O) (osub O) (oneg O) (@eq T).
Hypothesis eqb_true : forall a b, oeqb O a b = true -> a = b.

(* every reachable state keeps the recorded indices below max_gradient (what makes the zeroed prefix sufficient) *)
Theorem C10_indices_below_max_gradient : forall ops, PInv (prun O ops (pinit O)).
Proof. intros ops. apply prun_inv. constructor. Qed.

(* replay: from ANY state (whatever passes, seeds, stale buffer contents and allocation came before), clear_gradients
   followed by seeds and a tangent or adjoint pass gives, on every gradient index, exactly the sweep of the tape over
   the seed vector built on zeros - i.e. the result on a fresh identical recording; the tape is untouched *)
Theorem C10_replay : forall st i0 x0 seeds, PInv st ->
  let n := ngrad st in let sv := seedvec O n ((i0, x0) :: seeds) in
  agree n (buf (prun O (pass_ops ((i0, x0) :: seeds) OForward) st)) (fwd_sweep O (tp st) sv) /\
  agree n (buf (prun O (pass_ops ((i0, x0) :: seeds) OReverse) st)) (rev_sweep O (tp st) sv) /\
  tp (prun O (pass_ops ((i0, x0) :: seeds) OForward) st) = tp st /\ tp (prun O (pass_ops ((i0, x0) :: seeds) OReverse) st) = tp st.
Proof. exact (replay O). Qed.

(* the Jacobian is a function of the tape and the two variable lists only *)
Theorem C10_jacobian_private : forall st,
  obs_jacobian O st = map (fun j => map (fun i => fwd_sweep O (tp st) (unit_vec O j) i) (dep st)) (indep st).
Proof. exact (jacobian_private O). Qed.

(* new_recording: empty tape, no seeds, no lists; and every later observation (gradients, Jacobians, counts) is the
   same whatever the state was before, for any continuation that respects the protocol (no active object is created
   between seeding and clear_gradients) *)
Theorem C10_new_recording_state : forall st ig, let s := pstep O st (ONewRecording ig) in
  tp s = [] /\ init s = false /\ indep s = [] /\ dep s = [] /\ ngrad s = S ig.
Proof. exact (new_recording_state O). Qed.
Theorem C10_new_recording_forgets : forall a b ig ops, recording a = recording b ->
  respects_all O (pstep O a (ONewRecording ig)) ops ->
  let a' := prun O ops (pstep O a (ONewRecording ig)) in let b' := prun O ops (pstep O b (ONewRecording ig)) in
  (forall i, obs_gradient a' i = obs_gradient b' i) /\ obs_jacobian O a' = obs_jacobian O b' /\ obs_counts a' = obs_counts b'.
Proof. exact (new_recording_forgets O). Qed.

(* paused: statements, registrations and hand-made dependences leave the state unchanged *)
Theorem C10_paused_records_nothing : forall st, recording st = false ->
  (forall s, pstep O st (ORecord s) = st) /\ (forall k, pstep O st (ORegister k) = st) /\
  (forall l ops, pstep O st (OAddDep l ops) = st) /\ (forall l ops, pstep O st (OAppendDep l ops) = st).
Proof. exact (paused_records_nothing O). Qed.

(* add_derivative_dependence appends exactly the linear statement it describes (zero multipliers dropped) *)
Theorem C10_dependence_is_linear_statement : forall st l ops g, recording st = true -> stmt_lt (ngrad st) (mkStmt l (drop_zeros O ops)) = true ->
  exists s, tp (pstep O st (OAddDep l ops)) = tp st ++ [s] /\ fwd1 O s g = upd g l (rhs_val O ops g).
Proof. exact (add_dependence_is_linear_statement O Rth eqb_true). Qed.

(* tie G: the gradient-list bookkeeping of adept::Stack TRANSLATED on every run from Stack.cpp / Stack.h (initialize_gradients,
   extend_gradients, set_gradients, get_gradients, compute_adjoint / compute_tangent_linear, clear_gradients, new_recording).
   In every state the model can reach, executing the translated code on the model's counters gives the model's next
   counters and the model's exception kind, and never touches the gradient buffer beyond its TRUE length (b_oob), for
   set_gradient / get_gradient of any object index, both sweeps, clear_gradients and new_recording *)
Theorem C10_generated_stack_bookkeeping : forall ops ig i x,
  let st := prun O ops (pinit O) in
  (let r := do_set (Z.of_nat i) (Z.of_nat i + 1) (proj ig st) in
   same_counters (pstep O st (OSeed i x)) r /\ b_oob r = false /\
   match b_err r with None => errs (pstep O st (OSeed i x)) = errs st | Some e => errs (pstep O st (OSeed i x)) = kind_of e :: errs st end) /\
  (let r := do_get (Z.of_nat i) (Z.of_nat i + 1) (proj ig st) in b_oob r = false /\ option_map kind_of (b_err r) = obs_gradient_error st i) /\
  (let r := do_adjoint (proj ig st) in
   b_oob r = false /\ b_oob (do_tangent (proj ig st)) = false /\
   match b_err r with
   | None => init st = true /\ same_counters (pstep O st OReverse) r /\ same_counters (pstep O st OForward) r /\
             errs (pstep O st OReverse) = errs st /\ errs (pstep O st OForward) = errs st
   | Some e => init st = false /\ errs (pstep O st OReverse) = kind_of e :: errs st /\ errs (pstep O st OForward) = kind_of e :: errs st
   end) /\
  same_counters (pstep O st OClearGradients) (do_clear_gradients (proj ig st)).
Proof.
  intros ops ig i x st. pose proof (reachable_cap O ops) as Hc. fold st in Hc.
  split; [exact (seed_matches O ig st i x Hc)|]. split; [exact (read_matches ig st i Hc)|].
  split; [exact (sweeps_match O ig st Hc)|exact (clear_gradients_matches O ig st Hc)].
Qed.
End AnyRing.
Print Assumptions C10_generated_stack_bookkeeping.
Print Assumptions C10_indices_below_max_gradient.
Print Assumptions C10_replay.
Print Assumptions C10_jacobian_private.
Print Assumptions C10_new_recording_state.
Print Assumptions C10_new_recording_forgets.
Print Assumptions C10_paused_records_nothing.
Print Assumptions C10_dependence_is_linear_statement.

(* non-vacuity: record d2 = 3 d0 + 5 d1, run a tangent pass, then a second pass with another seed after clear_gradients *)
Example C10_example :
  let rec_ : list (pop (T:=Z)) := [ORegister 3; ONewRecording 3; OAddDep 2%nat [(3%Z, 0%nat); (0%Z, 1%nat)]; OAppendDep 2%nat [(5%Z, 1%nat)]] in
  let st := prun ZOps (rec_ ++ [OSeed 0%nat 1%Z; OForward]) (pinit ZOps) in
  let st2 := prun ZOps (pass_ops [(1%nat, 1%Z)] OForward) st in
  obs_gradient st 2 = Some 3%Z /\ obs_gradient st2 2 = Some 5%Z /\ obs_counts st2 = (1, 2) /\
  obs_gradient (prun ZOps [OClearGradients] st2) 2 = None.
Proof. vm_compute. repeat split. Qed.
