(* C06 — views address exactly the elements their index expressions denote.
   Model View.v (Array.h section 4, RangeIndex.h): a view is (base, extents, strides); each
   view-forming member function is the function on triples the C++ computes.  The theorems relate
   it to the *denotation* den_ops: the map from an index of the derived view to the parent index. *)
From Coq Require Import ZArith List Lia.
From Adept Require Import View ViewProofs ViewGen.
From AdeptGen Require Import Gen_Slice.
Import ListNotations.
Local Open Scope Z_scope.

(* slicing with any mix of scalar indices, ranges, strides (either sign) and `end` arithmetic:
   the element at index j of the slice is the parent element at the denoted index - no hypothesis
   on the values of the arguments (pure affine identity) *)
Theorem C06_slice_address : forall v l j, wfv v -> length l = length (dims v) ->
  addr (slice v l) j = addr v (den_slice l (dims v) j).
Proof. exact slice_addr. Qed.
Print Assumptions C06_slice_address.

(* rank = number of range arguments *)
Theorem C06_slice_rank : forall l ds, length l = length ds ->
  length (slice_dims l ds) = length (filter (fun x => match x with IR _ _ _ => true | _ => false end) l).
Proof. exact slice_rank. Qed.
Print Assumptions C06_slice_rank.

(* the extent (end - begin + stride)/stride, with C++ truncating division, is the number of terms of
   the arithmetic progression begin, begin+stride, ... that do not pass end - for both stride signs *)
Theorem C06_extent_is_count : forall b e s k, 0 <= k ->
  (0 < s -> b <= e -> (k < Z.quot (e + s - b) s <-> b + s * k <= e)) /\
  (s < 0 -> e <= b -> (k < Z.quot (e + s - b) s <-> e <= b + s * k)).
Proof. intros b e s k Hk. split; intros Hs Hbe; [apply ap_count_pos|apply ap_count_neg]; assumption. Qed.
Print Assumptions C06_extent_is_count.

(* every finite composition of slicing, operator[], T, permute, diag_vector, submatrix_on_diagonal,
   reshape and soft_link with admissible arguments: address identity, the denoted parent index is
   inside the parent's extents, the result is a well-formed view *)
Theorem C06_compose : forall os v j, wfv v -> adm_ops v os = true -> inb (dims (apply_ops v os)) j ->
  addr (apply_ops v os) j = addr v (den_ops v os j) /\ inb (dims v) (den_ops v os j) /\ wfv (apply_ops v os).
Proof. exact compose_facts. Qed.
Print Assumptions C06_compose.

(* distinct indices of the derived view denote distinct parent indices *)
Theorem C06_distinct : forall os v j j', wfv v -> adm_ops v os = true ->
  inb (dims (apply_ops v os)) j -> inb (dims (apply_ops v os)) j' -> den_ops v os j = den_ops v os j' -> j = j'.
Proof. exact compose_inj. Qed.
Print Assumptions C06_distinct.

(* for a packed parent of extents ds: every element of every admissible derived view is a cell of the
   parent (nothing outside its memory), namely the cell numbered by the denoted index, and two
   different elements of the view are two different cells: reads see, and writes reach, exactly those *)
Theorem C06_parent_cells : forall ds os j j', adm_ops (parent ds) os = true ->
  inb (dims (apply_ops (parent ds) os)) j -> inb (dims (apply_ops (parent ds) os)) j' ->
  let a := addr (apply_ops (parent ds) os) j in
  0 <= a < fold_right Z.mul 1 ds /\ a = lin_packed ds (den_ops (parent ds) os j) /\
  (addr (apply_ops (parent ds) os) j' = a -> j' = j).
Proof. exact view_of_parent_cells. Qed.
Print Assumptions C06_parent_cells.

(* ADEPT_BOUNDS_CHECKING: slicing raises index_out_of_bounds exactly when some scalar index or range
   end-point lies outside 0..n-1, and otherwise returns the unchecked result *)
Theorem C06_bounds_checked : forall v l, length l = length (dims v) ->
  (slice_checked v l = None <->
   exists k x d, nth_error l k = Some x /\ nth_error (dims v) k = Some d /\ bad_ix d x) /\
  (forall v', slice_checked v l = Some v' -> v' = slice v l).
Proof. exact slice_checked_spec. Qed.
Print Assumptions C06_bounds_checked.

(* non-vacuity: reshape 12 -> 3x4, transpose, take row end-1 and columns 2,1,0 (negative stride) *)
Example C06_example :
  let os := [OReshape [3;4]; OTranspose; OSlice [IS (IEnd (-1)); IR (IAbs 2) (IAbs 0) (-1)]] in
  adm_ops (parent [12]) os = true /\ dims (apply_ops (parent [12]) os) = [3] /\
  map (fun j => addr (apply_ops (parent [12]) os) [j]) [0;1;2] = [10; 6; 2].
Proof. vm_compute. repeat split. Qed.

(* Tie G.  Array::operator()(i0,...,ik) as read from Array.h on every run - the scalar and the range version of
   update_index (offset; new extent with truncating division; new stride), applied to the arguments in order from
   ibegin = 0 as each of the multi-argument overloads does, and the rank-1 ranged operator - is the model's [slice], for
   every view and every index list; hence the address identity holds for the view the code builds. *)
Theorem C06_generated_slice : forall v l,
  gen_slice v l = slice v l /\
  (forall j, wfv v -> length l = length (dims v) -> addr (gen_slice v l) j = addr v (den_slice l (dims v) j)) /\
  (forall b0 d s bb ee st, gen_slice1 b0 d s bb ee st = slice (mkView b0 [d] [s]) [IR bb ee st]).
Proof.
  intros v l. split; [exact (gen_slice_eq v l)|]. split; [|exact gen_slice1_eq].
  intros j Hw Hl. rewrite gen_slice_eq. exact (slice_addr v l j Hw Hl).
Qed.
Print Assumptions C06_generated_slice.

(* diag_vector(offdiag) (both signs of offdiag: offset, extent as a minimum, stride) and submatrix_on_diagonal(ibegin, iend)
   (offset, the two extents, strides kept) as read from Array.h are the model's, for every view *)
Theorem C06_generated_diag_and_submatrix : forall v k ib ie,
  gen_diag_vector v k = diag_vector v k /\ gen_submatrix_on_diagonal v ib ie = submatrix_on_diagonal v ib ie.
Proof. intros v k ib ie. exact (conj (gen_diag_vector_eq v k) (gen_submatrix_on_diagonal_eq v ib ie)). Qed.
Print Assumptions C06_generated_diag_and_submatrix.

(* T() of a matrix (link, then the straight-line swap of in_place_transpose run symbolically) and reshape(dims) of a
   vector (stride of the last new dimension, recurrence for the others) as read from Array.h are the model's *)
Theorem C06_generated_transpose_and_reshape : forall v nd,
  gen_transpose v = transpose v /\ gen_reshape v nd = reshape v nd.
Proof. intros v nd. exact (conj (gen_transpose_eq v) (gen_reshape_eq v nd)). Qed.
Print Assumptions C06_generated_transpose_and_reshape.

(* operator[](i) on rank > 1 (const and non-const agree): offset along dimension 0, the other dimensions moved down *)
Theorem C06_generated_leading_index : forall v i, gen_index0 v i = index0 v i.
Proof. exact gen_index0_eq. Qed.
Print Assumptions C06_generated_leading_index.

(* non-vacuity: A(end-1, stride(end,0,-2)) of a 3 x 5 row-major matrix at offset 100 *)
Example C06_example_generated_slice :
  gen_slice (mkView 100 [3;5] [5;1]) [IS (IEnd (-1)); IR (IEnd 0) (IAbs 0) (-2)] = mkView 109 [3] [-2] /\
  gen_diag_vector (mkView 7 [4;4] [4;1]) (-1) = mkView 11 [3] [5] /\
  gen_submatrix_on_diagonal (mkView 7 [4;4] [4;1]) 1 2 = mkView 12 [2;2] [4;1] /\
  gen_transpose (mkView 7 [2;3] [3;1]) = mkView 7 [3;2] [1;3] /\
  gen_reshape (mkView 5 [12] [-2]) [2;3;2] = mkView 5 [2;3;2] [-12;-4;-2] /\
  gen_index0 (mkView 7 [2;3] [3;1]) (IEnd 0) = mkView 10 [3] [1].
Proof. vm_compute. repeat split. Qed.
