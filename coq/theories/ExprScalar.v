(* The wrapper classes BinaryOpScalarLeft<Type,L,Op,R> (passive scalar op expression) and
   BinaryOpScalarRight<Type,L,Op,R> (expression op passive scalar) of BinaryOperation.h, executed on the tables
   that tools/gen_ops.py translates from them (scalar_left_node, scalar_right_node in Gen_Ops.v): where the one
   expression child is evaluated and stored, and with which MyArrayNum / MyScratchNum the policy class is entered
   with Scalar<..> standing in for the passive operand.  ExprScalarProofs.v shows that they are the binary node of
   Expr.v with a passive leaf, so that every theorem about expression trees covers them. *)
From Coq Require Import ZArith List Bool.
From Adept Require Import Scalar ExprDefs Expr.
From AdeptGen Require Import Gen_Ops.
Import ListNotations.
Local Open Scope Z_scope.

Section ExprScalar.
Context {T : Type} (F : FOps T).
Let O := fbase F.

(* store_result = is_active * Op::store_result *)
Definition sn_sr (k : bkind) (child : expr (T:=T)) : Z := if is_active child then p_store_result (policy_of k) else 0.

(* value and scratch: my_value_at_location_store_<store_result, ...>; [left] tells on which side the scalar is *)
Definition sn_value_store (nd : scalar_node) (left : bool) (arrs : list (T * Z)) (k : bkind) (c : T) (child : expr) (A S : Z) (scr : scratch)
  : T * scratch :=
  let sr := sn_sr k child in
  let nLa := if left then 0 else n_arrays child in
  let nLs := if left then 0 else n_scratch child in
  let '(vc, s1) := value_store F arrs child (a_of (fst (sn_store nd)) A nLa) (s_of (snd (sn_store nd)) S nLs sr) scr in
  let x := if left then c else vc in let y := if left then vc else c in
  if sr =? 0 then (bop F k x y, s1)
  else if (sr =? 2) && sn_store2 nd then let '(v, aux) := bop_store F k x y in (v, supd (supd s1 (S + 1) aux) S v)
  else let v := bop F k x y in (v, supd s1 S v).

Definition sn_value_stored (nd : scalar_node) (left : bool) (arrs : list (T * Z)) (k : bkind) (c : T) (child : expr) (A S : Z) (scr : scratch) : T :=
  let nLa := if left then 0 else n_arrays child in
  if sn_sr k child =? 0 then
    let vc := value_at F arrs child (a_of (sn_value nd) A nLa) in
    if left then bop F k c vc else bop F k vc c
  else scr S.

(* calc_gradient_ -> calc_right_/calc_left_<MyArrayNum,MyScratchNum> -> Op::calc_right/calc_left<..>(stack, Scalar(c), child, ...) *)
Definition sn_calc_gradient (nd : scalar_node) (left : bool) (arrs : list (T * Z)) (k : bkind) (c : T) (child : expr) (A S : Z) (scr : scratch)
    (w : option T) : list (T * Z) :=
  let p := policy_of k in
  let sr := p_store_result p in
  (* inside the policy, L is Scalar<..> (no arrays, no scratch) when the scalar is on the left *)
  let nLa := if left then 0 else n_arrays child in
  let nLs := if left then 0 else n_scratch child in
  let fw := match w with Some _ => sn_fwd_m nd | None => sn_fwd nd end in
  let A' := a_of (fst fw) A nLa in
  let S' := s_of (snd fw) S nLs sr in
  let vs := fun sd ai si =>
    match sd, left with
    | SL, true => c | SR, false => c
    | _, _ => value_stored F arrs child (a_of ai A' nLa) (s_of si S' nLs sr) scr
    end in
  let g := fun A'' S'' m => calc_gradient F arrs child A'' S'' scr m in
  let none := fun (_ _ : Z) (_ : option T) => @nil (T * Z) in
  let rl := if left then (match w with Some _ => p_right_m p | None => p_right p end)
            else (match w with Some _ => p_left_m p | None => p_left p end) in
  if is_active child then
    apply_rule F rl w A' S' nLa nLs sr (fun j => scr (S' + j)) vs (fun _ _ => o0 O)
      (if left then none else g) (if left then g else none)
  else [].
End ExprScalar.
