(* Data types of the active reductions (reduce.h): what tools/gen_reduce.py emits (Gen_Reduce.v) is one rpolicy per
   reduction class - the forms of first_value, accumulate_active and finish_active, active_finish_needed and
   extra_element_cost - recognised token by token in the source. *)
From Coq Require Import ZArith.
From Adept Require Import ExprDefs.
Inductive rkind := RSum | RMean | RProduct | RMaxVal | RMinVal | RNorm2.
Inductive rfirst := RZero | ROne | RMinInf | RMaxInf.
Inductive racc :=
| AccAdd                           (* total.lvalue() += rhs.next_value_and_gradient(stack, loc) *)
| AccMulSpecial                    (* x = rhs.next_value_and_gradient_special(stack, loc, total.value()); total *= x *)
| AccAssignIf (c : cmp)            (* if (rhs.value_at_location(loc) c total.value()) total = rhs.next_value_and_gradient(..) *)
| AccSqSpecial2 (num den : Z).     (* x = rhs.next_value_and_gradient_special2(stack, loc, num/den); total.lvalue() += x*x *)
Inductive rfin :=
| FinNone
| FinPushLhs                       (* push_lhs(total.gradient_index()) *)
| FinPushLhsDivN                   (* push_lhs(..); total /= n *)
| FinPushLhsSqrt.                  (* push_lhs(..); total = noalias(sqrt(total)) *)
Record rpolicy := mkRP { rp_first : rfirst; rp_acc : racc; rp_fin : rfin; rp_fin_needed : bool; rp_extra : Z }.
